// Package c01 ties the request pipeline model (Model/Req.lean) to the real proxy: generated
// keep-alive connections of raw requests go through forwarder (direct, upstream HTTP proxy, MITM)
// to scripted hops that record what they receive.
package c01

import (
	"bytes"
	"crypto/tls"
	"encoding/base64"
	"encoding/json"
	"fmt"
	"net/http"
	"strings"
	"sync"
	"time"

	"github.com/saucelabs/forwarder"
	"github.com/saucelabs/forwarder/header"
	"github.com/saucelabs/forwarder/verifharness/core"
	"github.com/saucelabs/forwarder/verifharness/srcgen"
	"github.com/saucelabs/forwarder/verifharness/reqmodel"
	"github.com/saucelabs/forwarder/verifharness/rig"
)

func init() { core.Register("C01", core.Scenario{Run: Run, Replay: Replay, Prepare: srcgen.PrepareC01}) }

// connCase is one client connection with 1-4 requests.
type connCase struct {
	Kind     string              `json:"kind"` // "conn"
	Mode     string              `json:"mode"` // "direct" | "direct-gate" | "upstream" | "upstream-auth" | "pac-upstream" | "mitm" | "mitm-pac" | "direct-slow" | "direct-deny" | "gate-deny" | "mitm-deny"
	Rules    []string            `json:"rules,omitempty"`
	Requests []*reqmodel.Request `json:"requests"`
	Pipeline bool                `json:"pipeline,omitempty"` // all requests in one write
	Segments []int               `json:"segments,omitempty"` // client write segmentation
	// PauseMs > 0: every request body is sent in two parts with this pause in between ("direct-slow"
	// mode runs with a 250 ms read-header timeout: the pause is longer than that limit)
	PauseMs int `json:"pause_ms,omitempty"`
	// Peer: the client address of the connection (nil: the main listener on 127.0.0.1); see peer.go
	Peer *peerSpec `json:"peer,omitempty"`
	// Creds: --credentials entries of the configuration (part of the environment)
	Creds []reqmodel.Cred `json:"creds,omitempty"`
}

// env is one running configuration.
type env struct {
	mode    string
	rules   []string
	proxy   *rig.Proxy
	origin  *rig.Peer // plain origin
	tlsOrig *rig.Peer // TLS origin (mitm)
	up      *rig.Peer // upstream proxy
	cfg     reqmodel.Cfg
	creds   []reqmodel.Cred // --credentials entries (the model resolves them per request: C06 request)
	ca      *rig.CA
	mu      sync.Mutex
}

func (e *env) close() {
	if e.proxy != nil {
		e.proxy.Stop()
	}
	for _, p := range []*rig.Peer{e.origin, e.tlsOrig, e.up} {
		if p != nil {
			p.Close()
		}
	}
}

const upUser, upPass = "upuser", "up:pa ss%"

// the proxy's own basic auth ("direct-gate" mode)
const gateUser, gatePass = "gate", "keeper-7:x"

func gateValue() string {
	return "Basic " + base64.StdEncoding.EncodeToString([]byte(gateUser+":"+gatePass))
}

// respExtra: field lines a scripted hop adds to its response to the request with a given Case-Id (history
// cases: an origin RESPONSE that nominates names in Connection)
var respExtra sync.Map

func okResponder(w *rig.PeerConn, ex *rig.Exchange) bool {
	body := "ok:" + ex.Req.Get("Case-Id")
	fields := []rig.Field{{Name: "Content-Length", Value: fmt.Sprint(len(body))}}
	if x, ok := respExtra.Load(ex.Req.Get("Case-Id")); ok {
		fields = append(fields, x.([]rig.Field)...)
	}
	b := rig.Head("HTTP/1.1 200 OK", fields)
	if ex.Req.Method != "HEAD" {
		b = append(b, body...)
	}
	w.Write(b)
	return !strings.EqualFold(ex.Req.Get("Connection"), "close")
}

func newEnv(ctx *core.Ctx, mode string, rules []string) (*env, error) {
	return newEnvCreds(ctx, mode, rules, nil)
}

// credSets are the credential tables of the C01 configurations (none of them has an entry for the upstream proxy):
// exact host:port entries, a port wildcard, a host wildcard, an entry for another site.
var credSets = [][]reqmodel.Cred{
	{{Host: "origin.test", Port: "80", User: "site", Pass: "s3:cret"}, {Host: "origin.test", Port: "443", User: "tls-site", Pass: "pw"}},
	{{Host: "*", Port: "8080", User: "wild", Pass: "w"}, {Host: "origin.test", Port: "0", User: "anyport", Pass: "p w%"}},
	{{Host: "origin.test", Port: "8080", User: "alt", Pass: ""}, {Host: "other.example", Port: "0", User: "never", Pass: "x"}},
}

// credsMode: configurations whose route the whole-configuration model renders (no PAC script of C01's own)
func credsMode(mode string) bool {
	switch mode {
	case "direct", "direct-gate", "upstream", "upstream-auth", "mitm":
		return true
	}
	return false
}

func newEnvCreds(ctx *core.Ctx, mode string, rules []string, creds []reqmodel.Cred) (*env, error) {
	if len(creds) > 0 && !credsMode(mode) {
		return nil, fmt.Errorf("mode %s takes no credentials table", mode)
	}
	e := &env{mode: mode, rules: rules, creds: creds}
	var err error
	if e.origin, err = rig.NewPeer("origin", okResponder); err != nil {
		return nil, err
	}
	if e.up, err = rig.NewPeer("upstream", okResponder); err != nil {
		return nil, err
	}
	if e.ca, err = rig.NewCA("verif origin CA"); err != nil {
		return nil, err
	}
	leaf, err := e.ca.ValidLeaf("origin.test")
	if err != nil {
		return nil, err
	}
	if e.tlsOrig, err = rig.NewTLSPeer("tls-origin", &tls.Config{Certificates: []tls.Certificate{leaf}}, okResponder); err != nil {
		return nil, err
	}
	if mode == "upstream-tunnel" {
		// the upstream proxy of the SCHEME cases (scheme.go): records every head, answers requests in clear itself
		// and tunnels CONNECT to the scripted origins, so that https requests routed through it are delivered
		e.up.Close()
		orig, tlsOrig := e.origin.Addr, e.tlsOrig.Addr
		if e.up, err = rig.NewForwardProxy("upstream", func(target string) string {
			switch target {
			case "origin.test:443":
				return tlsOrig
			case "origin.test:80", "origin.test:8080":
				return orig
			}
			return ""
		}); err != nil {
			return nil, err
		}
	}
	caFile, err := e.ca.WriteFile(ctx.Root+"/.work", fmt.Sprintf("c01-ca-%d.pem", time.Now().UnixNano()))
	if err != nil {
		return nil, err
	}
	var hdrs []header.Header
	for _, rs := range rules {
		h, err := header.ParseHeader(rs)
		if err != nil {
			return nil, fmt.Errorf("rule %q: %w", rs, err)
		}
		hdrs = append(hdrs, h)
	}
	// PAC configurations: the upstream is chosen per request by a PAC script (the transport's Proxy function
	// is then HTTPProxy.pacProxy, which is handed the very request the transport serialises afterwards)
	pacScript := ""
	switch mode {
	case "mitm-pac":
		pacScript = `function FindProxyForURL(url, host) { return "DIRECT"; }`
	case "pac-upstream":
		pacScript = `function FindProxyForURL(url, host) { if (url.substring(0, 5) == "http:") return "PROXY upstream.test:3128; DIRECT"; return "DIRECT"; }`
	}
	var hpus []*forwarder.HostPortUser
	for _, c := range creds {
		hpus = append(hpus, &forwarder.HostPortUser{HostPort: forwarder.HostPort{Host: c.Host, Port: c.Port}, Userinfo: urlUserPassword(c.User, c.Pass)})
	}
	opts := rig.ProxyOpts{
		PACScript:   pacScript,
		Credentials: hpus,
		ConnectTo: []forwarder.HostPortPair{
			rig.Route("origin.test", "80", e.origin.Addr),
			rig.Route("origin.test", "8080", e.origin.Addr),
			rig.Route("origin.test", "443", e.tlsOrig.Addr),
			rig.Route("upstream.test", "3128", e.up.Addr),
		},
		Transport: func(tc *forwarder.HTTPTransportConfig) { tc.CACertFiles = []string{caFile} },
		Configure: func(cfg *forwarder.HTTPProxyConfig) {
			cfg.Name = "fwdverif"
			// every instance can be reached over IPv4, IPv6 and through a PROXY protocol listener (peer.go)
			cfg.ExtraListeners = extraListeners()
			if len(hdrs) > 0 {
				hs := header.Headers(hdrs)
				// same dispatch as command/run configureHeadersModifiers
				cfg.RequestModifiers = append(cfg.RequestModifiers, forwarder.RequestModifierFunc(func(req *http.Request) error {
					if req.Method == http.MethodConnect {
						return nil
					}
					return hs.ModifyRequest(req)
				}))
			}
			switch mode {
			case "direct-slow":
				cfg.ReadHeaderTimeout = 250 * time.Millisecond
			case "direct-gate":
				cfg.BasicAuth = urlUserPassword(gateUser, gatePass)
			case "direct-deny", "gate-deny", "mitm-deny":
				// refusal configurations (refuse.go): deny-domains, localhost denial, with / without the proxy's own basic auth
				configureDeny(cfg, mode)
			case "upstream", "upstream-tunnel":
				cfg.UpstreamProxy = rig.MustURL("http://upstream.test:3128")
			case "upstream-auth":
				u := rig.MustURL("http://upstream.test:3128")
				u.User = urlUserPassword(upUser, upPass)
				cfg.UpstreamProxy = u
			case "mitm", "mitm-pac":
				cfg.MITM = forwarder.DefaultMITMConfig()
				cfg.PromRegistry = newRegistry()
			}
		},
	}
	if e.proxy, err = rig.StartProxy(opts); err != nil {
		return nil, err
	}
	e.cfg = reqmodel.Cfg{Name: "fwdverif", TimeAllowed: true, Rules: rules}
	switch mode {
	case "direct-gate":
		e.cfg.HasAuth, e.cfg.AuthUser, e.cfg.AuthPass = true, gateUser, gatePass
	case "direct-deny", "gate-deny", "mitm-deny":
		denyModel(&e.cfg, mode)
	case "upstream", "upstream-tunnel", "pac-upstream":
		e.cfg.Upstream = "upstream.test:3128"
	case "upstream-auth":
		e.cfg.Upstream = "upstream.test:3128"
		a := "Basic " + base64.StdEncoding.EncodeToString([]byte(upUser+":"+upPass))
		e.cfg.UpstreamAuth = &a
	}
	// learn this instance's Via tag with a probe request
	tag, err := e.learnTag()
	if err != nil {
		return nil, err
	}
	e.cfg.Tag = tag
	return e, nil
}

func (e *env) hopPeers() []*rig.Peer { return []*rig.Peer{e.origin, e.tlsOrig, e.up} }

func (e *env) findExchange(id string) (*rig.Peer, *rig.Exchange) {
	for _, p := range e.hopPeers() {
		for _, ex := range p.Log() {
			if ex.Req != nil && ex.Req.Get("Case-Id") == id {
				return p, ex
			}
		}
	}
	return nil, nil
}

// open returns a client connection ready for requests (for mitm: after CONNECT + TLS handshake).
func (e *env) open() (*rig.Client, error) {
	c, _, err := e.openPeer(nil)
	return c, err
}

// preamble: what a client does on a fresh connection before its requests (for mitm: CONNECT + TLS handshake).
func (e *env) preamble(c *rig.Client) error {
	if !isMITM(e.mode) {
		return nil
	}
	c.Send([]byte("CONNECT origin.test:443 HTTP/1.1\r\nHost: origin.test:443\r\n\r\n"), nil)
	res, err := c.ReadResponse("CONNECT", 5*time.Second)
	if err != nil || res.Status != 200 {
		return fmt.Errorf("mitm CONNECT failed: %v %+v", err, res)
	}
	pool := e.ca.Pool()
	pool.AddCert(e.proxy.CACert())
	if _, err := c.StartTLS("origin.test", pool, false); err != nil {
		return err
	}
	return nil
}

func (e *env) learnTag() (string, error) {
	c, err := e.open()
	if err != nil {
		return "", err
	}
	defer c.Close()
	auth := ""
	if hasGate(e.mode) {
		auth = "Proxy-Authorization: " + gateValue() + "\r\n"
	}
	c.Send([]byte("GET /probe HTTP/1.1\r\nHost: origin.test\r\nCase-Id: probe\r\n"+auth+"Connection: close\r\n\r\n"), nil)
	if _, err := c.ReadResponse("GET", 5*time.Second); err != nil {
		return "", fmt.Errorf("probe: %w", err)
	}
	_, ex := e.findExchange("probe")
	if ex == nil {
		return "", fmt.Errorf("probe did not reach any hop")
	}
	via := ex.Req.Get("Via")
	f := strings.Fields(via)
	if len(f) != 2 {
		return "", fmt.Errorf("unexpected Via on probe: %q", via)
	}
	return f[1], nil
}

func isMITM(mode string) bool { return mode == "mitm" || mode == "mitm-pac" || mode == "mitm-deny" }

// hasGate: the configuration asks for the proxy's own basic auth
func hasGate(mode string) bool { return mode == "direct-gate" || mode == "gate-deny" }

func schemeOf(mode string) string {
	if isMITM(mode) {
		return "https"
	}
	return "http"
}

// ---- evaluation of one connection case ----

func (e *env) runConn(ctx *core.Ctx, cc *connCase) {
	c, mctx, err := e.openPeer(cc.Peer)
	if err != nil {
		ctx.Crash("proxy accepts a client connection", "", cc, err.Error())
		return
	}
	defer c.Close()

	var wire [][]byte
	for _, r := range cc.Requests {
		wire = append(wire, r.Wire())
	}
	responses := make([]*rig.Msg, len(cc.Requests))
	respErr := make([]error, len(cc.Requests))
	if cc.Pipeline {
		go c.Send(bytes.Join(wire, nil), cc.Segments)
		for i, r := range cc.Requests {
			responses[i], respErr[i] = c.ReadResponse(r.Method, 10*time.Second)
			if respErr[i] != nil {
				break
			}
		}
	} else {
		for i, r := range cc.Requests {
			var err error
			if nb := len(r.Body()); cc.PauseMs > 0 && nb >= 2 {
				cut := len(wire[i]) - nb/2
				if err = c.Send(wire[i][:cut], cc.Segments); err == nil {
					time.Sleep(time.Duration(cc.PauseMs) * time.Millisecond)
					err = c.Send(wire[i][cut:], nil)
				}
			} else {
				err = c.Send(wire[i], cc.Segments)
			}
			if err != nil {
				respErr[i] = err
				break
			}
			responses[i], respErr[i] = c.ReadResponse(r.Method, 10*time.Second)
			if respErr[i] != nil {
				break
			}
		}
	}

	for i, r := range cc.Requests {
		id := idOf(r)
		out := e.ask(ctx.Model, &mctx, r)
		one := oneReq{Mode: cc.Mode, Rules: cc.Rules, Position: i, Of: len(cc.Requests), Pipeline: cc.Pipeline, Segments: cc.Segments, Request: r, Peer: cc.Peer, Creds: cc.Creds}
		peer, ex := e.findExchange(id)
		nontrivial := len(r.Body()) > 0 || hasInteresting(r)
		ctx.Case(fmt.Sprintf("%s|%s|%s", cc.Mode, strings.Join(cc.Rules, "\x00"), string(wire[i])), nontrivial)
		ctx.Count("mode/" + cc.Mode)
		ctx.Count("peer/" + cc.Peer.label())
		if len(e.creds) > 0 {
			ctx.Count("credentials/" + authShape(r))
		}
		ctx.Count("position/" + fmt.Sprint(i))
		ctx.Count("method/" + strings.ToUpper(r.Method))
		ctx.Count("model/" + out.Kind)
		if r.Chunked {
			ctx.Count("body/chunked")
		} else if len(r.Body()) > 0 {
			ctx.Count("body/cl")
		} else {
			ctx.Count("body/none")
		}
		// the Connection-field dimension: shape of the client's Connection field x fixed hop-by-hop field present
		for _, l := range reqmodel.ConnShapeLabels(r.Fields) {
			ctx.Count(l)
		}
		if out.Kind == "unreadable" {
			// outside the modelled domain: reported, not gating
			continue
		}
		// scheme and authority the request leaves the proxy with, and how the transport treats that scheme
		// (Model/C01Scheme.lean reach)
		rch, _ := askReach(ctx.Model, &e.cfg, &mctx, r)
		ctx.Count("scheme/" + formLabel(r, mctx.Secure) + "/xfp=" + xfpLabel(r) + "/" + rch.Contact)
		implSummary := summarise(peer, ex, responses[i], respErr[i])
		if out.Kind == "fwd" && rch.Contact == "unsupported" {
			// a scheme net/http's Transport does not speak (only an origin-form request whose X-Forwarded-Proto says
			// so gets one: c01_unsupported_only_origin_form): refused by the transport before anything is dialled
			// ("unsupported protocol scheme"); HTTPProxy.errorResponse has no handler for that error: 500 unexpected_error
			if ex != nil {
				ctx.Disagree("request of an unsupported scheme reached a hop", one, implSummary, "unsupported scheme "+rch.Scheme)
			}
			if responses[i] == nil || responses[i].Status != 500 {
				ctx.Disagree("request of an unsupported scheme is answered 500", one, implSummary, "500")
			}
			continue
		}
		switch out.Kind {
		case "refused", "badreq":
			if ex != nil {
				ctx.Disagree("request refused by the model reached a hop", one, implSummary, out.Kind)
			}
			if responses[i] != nil && out.Kind == "refused" && responses[i].Status != out.Status {
				ctx.Disagree("refusal status", one, implSummary, fmt.Sprint(out.Status))
			}
			continue
		}
		// forwarded
		if ex == nil {
			ctx.Disagree("forwarded request reaches its hop", one, implSummary, "fwd "+out.HopKind)
			// the property itself: a request in the domain with no refusal reason must be forwarded
			ctx.SpecFail("request is delivered to the next hop", "", one, implSummary, "no hop received the request")
			continue
		}
		wantPeer := e.origin
		if out.HopKind == "proxy" {
			wantPeer = e.up
		} else if rch.Contact == "tls" {
			// an https request (read inside an intercepted session, absolute-form https://, or origin-form with
			// X-Forwarded-Proto: https) goes to the TLS origin, directly or through a tunnel of the upstream proxy
			wantPeer = e.tlsOrig
		}
		obs := ex.Req
		var diffs []string
		if peer != wantPeer {
			diffs = append(diffs, fmt.Sprintf("hop: got %s want %s", peer.Name, wantPeer.Name))
		}
		if obs.Method != out.Method {
			diffs = append(diffs, fmt.Sprintf("method: got %q want %q", obs.Method, out.Method))
		}
		if obs.Target != out.Target {
			diffs = append(diffs, fmt.Sprintf("target: got %q want %q", obs.Target, out.Target))
		}
		of := reqmodel.ObservedFields(obs)
		for _, k := range reqmodel.DiffFields(of, out.Fields) {
			diffs = append(diffs, fmt.Sprintf("field %s: got %q want %q", k, of[k], out.Fields[k]))
		}
		if !bytes.Equal(obs.Body, r.Body()) {
			diffs = append(diffs, fmt.Sprintf("body: got %d bytes want %d (equal prefix %d)", len(obs.Body), len(r.Body()), commonPrefix(obs.Body, r.Body())))
		}
		if len(diffs) > 0 {
			ctx.Disagree("message received by the hop = Model.Req.processRequest", one, strings.Join(diffs, "; "), "see diffs")
		} else {
			ctx.TraceValidated()
		}
		// the property evaluated directly on what the hop received (independent of the model)
		for _, v := range specViolationsCreds(&e.cfg, e.creds, &mctx, r, obs) {
			ctx.SpecFail(v.clause, v.class, one, implSummary, v.detail)
		}
		for _, v := range e.schemeViolations(&mctx, r, peer, obs) {
			ctx.SpecFail(v.clause, v.class, one, implSummary, v.detail)
		}
		if responses[i] == nil || responses[i].Status != 200 {
			ctx.Disagree("forwarded request is answered with the origin's response", one, implSummary, "200")
		}
	}
}

func commonPrefix(a, b []byte) int {
	n := 0
	for n < len(a) && n < len(b) && a[n] == b[n] {
		n++
	}
	return n
}

func summarise(peer *rig.Peer, ex *rig.Exchange, res *rig.Msg, err error) string {
	var b strings.Builder
	if ex != nil {
		fmt.Fprintf(&b, "hop=%s head=%q body=%dB", peer.Name, ex.Req.HeadBytes, len(ex.Req.Body))
	} else {
		b.WriteString("hop=none")
	}
	if res != nil {
		fmt.Fprintf(&b, " client-status=%d", res.Status)
	}
	if err != nil {
		fmt.Fprintf(&b, " client-err=%v", err)
	}
	return b.String()
}

func hasInteresting(r *reqmodel.Request) bool {
	seen := map[string]int{}
	for _, f := range r.Fields {
		k := strings.ToLower(f.Name)
		seen[k]++
		switch k {
		case "connection", "keep-alive", "proxy-authenticate", "proxy-authorization", "proxy-connection", "te", "trailer", "upgrade",
			"via", "x-forwarded-for", "x-forwarded-proto", "x-forwarded-host", "x-forwarded-url", "accept-encoding", "user-agent", "authorization", "pragma":
			return true
		}
	}
	for _, n := range seen {
		if n > 1 {
			return true
		}
	}
	return false
}

// oneReq is the replayable unit recorded in findings (one request with its position info).
type oneReq struct {
	Kind     string            `json:"kind"`
	Mode     string            `json:"mode"`
	Rules    []string          `json:"rules,omitempty"`
	Position int               `json:"position"`
	Of       int               `json:"of"`
	Pipeline bool              `json:"pipeline,omitempty"`
	Segments []int             `json:"segments,omitempty"`
	Request  *reqmodel.Request `json:"request"`
	Peer     *peerSpec         `json:"peer,omitempty"`
	Creds    []reqmodel.Cred   `json:"creds,omitempty"`
}

func (o oneReq) MarshalJSON() ([]byte, error) {
	type alias oneReq
	a := alias(o)
	a.Kind = "one"
	return json.Marshal(a)
}

// ---- the property, evaluated directly ----

type violation struct{ clause, class, detail string }

var staticHop = map[string]bool{"connection": true, "keep-alive": true, "proxy-authenticate": true, "proxy-authorization": true,
	"proxy-connection": true, "te": true, "trailer": true, "transfer-encoding": true, "upgrade": true}

var managed = map[string]bool{"via": true, "x-forwarded-for": true, "x-forwarded-proto": true, "x-forwarded-host": true, "x-forwarded-url": true,
	"accept-encoding": true, "user-agent": true, "host": true, "content-length": true, "authorization": true}

func tokenList(vs []string) []string {
	var out []string
	for _, v := range vs {
		for _, t := range strings.Split(v, ",") {
			if t = strings.TrimSpace(t); t != "" {
				out = append(out, strings.ToLower(t))
			}
		}
	}
	return out
}

func ruleNames(rules []string) (names map[string]bool, prefixes []string) {
	names = map[string]bool{}
	for _, rs := range rules {
		h, err := header.ParseHeader(rs)
		if err != nil {
			continue
		}
		if h.Action == header.RemoveByPrefix {
			prefixes = append(prefixes, strings.ToLower(h.Name))
		} else {
			names[strings.ToLower(h.Name)] = true
		}
	}
	return
}

func specViolations(cfg *reqmodel.Cfg, x *reqmodel.Ctx, r *reqmodel.Request, obs *rig.Msg) []violation {
	return specViolationsCreds(cfg, nil, x, r, obs)
}

// specViolationsCreds: the clauses for a configuration with the --credentials entries creds. Authorization is an
// end-to-end field like every other: what the client sent arrives unchanged; only when the client sent none (no
// line, or an empty first value - what Header.Get sees) may the hop see a configured credential instead (which
// one: model comparison, C06).
func specViolationsCreds(cfg *reqmodel.Cfg, creds []reqmodel.Cred, x *reqmodel.Ctx, r *reqmodel.Request, obs *rig.Msg) []violation {
	credValue := map[string]bool{}
	for _, c := range creds {
		credValue[reqmodel.BasicValue(c.User, c.Pass)] = true
	}
	var vs []violation
	add := func(clause, class, detail string) { vs = append(vs, violation{clause, class, detail}) }
	in := (&rig.Msg{Fields: r.Fields}).FieldMap()
	out := obs.FieldMap()
	if obs.Method != r.Method {
		add("same method", "", fmt.Sprintf("%q vs %q", obs.Method, r.Method))
	}
	pq := r.Path
	if r.Query != nil {
		pq += "?" + *r.Query
	}
	if !strings.HasSuffix(obs.Target, pq) {
		add("same path and query byte for byte", "", fmt.Sprintf("%q vs %q", obs.Target, pq))
	}
	wantHost := ""
	if r.Absolute {
		wantHost = r.Authority
	} else if h := in["host"]; len(h) > 0 {
		wantHost = h[0]
	}
	if got := out["host"]; len(got) != 1 || got[0] != wantHost {
		add("same Host", "", fmt.Sprintf("%q vs %q", got, wantHost))
	}
	nominated := map[string]bool{}
	for _, t := range tokenList(in["connection"]) {
		nominated[t] = true
	}
	upgradeRequested := nominated["upgrade"] && len(in["upgrade"]) > 0
	rn, rp := ruleNames(cfg.Rules)
	ruleTouched := func(k string) bool {
		if rn[k] {
			return true
		}
		for _, p := range rp {
			if strings.HasPrefix(k, p) {
				return true
			}
		}
		return false
	}
	// fields named by a configured rule: the documented meaning of the rules, applied in order to what
	// the client sent (hop-by-hop stripping happens before the rules)
	for k := range rn {
		checkRuleTouched(cfg.Rules, k, in, out, staticHop[k] || nominated[k], add)
	}
	// end-to-end fields preserved
	for k, vin := range in {
		if staticHop[k] || nominated[k] || managed[k] || ruleTouched(k) {
			continue
		}
		if got := out[k]; strings.Join(got, "\x00") != strings.Join(vin, "\x00") || len(got) != len(vin) {
			add("every end-to-end field with the same values in the same per-name order", "", fmt.Sprintf("%s: %q vs %q", k, got, vin))
		}
	}
	// nothing invented
	for k, vout := range out {
		if _, ok := in[k]; ok || managed[k] || ruleTouched(k) {
			continue
		}
		switch k {
		case "connection":
			if !connectionOK(vout, upgradeRequested) {
				add("hop-by-hop fields are removed", "", fmt.Sprintf("connection: %q", vout))
			}
		case "transfer-encoding", "trailer":
			// framing of the forwarded message
		case "cache-control":
			class := ""
			if p := in["pragma"]; len(p) > 0 && p[0] == "no-cache" {
				class = "pragma-no-cache"
			}
			add("no field is invented", class, fmt.Sprintf("%s: %q", k, vout))
		case "proxy-authorization":
			if cfg.UpstreamAuth == nil || len(vout) != 1 || vout[0] != *cfg.UpstreamAuth {
				add("no field is invented", "", fmt.Sprintf("%s: %q", k, vout))
			}
		default:
			add("no field is invented", "", fmt.Sprintf("%s: %q", k, vout))
		}
	}
	// hop-by-hop removed
	for k := range in {
		if !(staticHop[k] || nominated[k]) || managed[k] && !nominated[k] {
			continue
		}
		got, present := out[k]
		if !present {
			continue
		}
		switch {
		case k == "connection" && connectionOK(got, upgradeRequested):
		case k == "upgrade" && upgradeRequested && len(got) == 1 && got[0] == in["upgrade"][0]:
		case k == "transfer-encoding" || k == "trailer":
		case k == "proxy-authorization" && cfg.UpstreamAuth != nil && len(got) == 1 && got[0] == *cfg.UpstreamAuth:
		case ruleTouched(k):
		case k == "authorization":
			// nominated by Connection: the client's value is for this hop only; the origin may see the site
			// credential the proxy attaches itself, nothing else
			if !(cfg.SiteCred != nil && len(got) == 1 && got[0] == *cfg.SiteCred) && !(len(got) == 1 && credValue[got[0]]) {
				add("hop-by-hop fields are removed", "", fmt.Sprintf("%s: %q", k, got))
			}
		case k == "x-forwarded-host":
			// nominated: removed, then filled in by the proxy with the request's host
			if len(got) != 1 || got[0] != wantHost {
				add("hop-by-hop fields are removed", "", fmt.Sprintf("%s: %q", k, got))
			}
		case managed[k]:
			// a nominated managed name (e.g. Connection: user-agent) that the proxy re-creates itself: Via,
			// X-Forwarded-For, Accept-Encoding, User-Agent have their own clauses below

		default:
			add("hop-by-hop fields are removed", "", fmt.Sprintf("%s: %q", k, got))
		}
	}
	// Via
	proto := "1.1"
	if r.Minor == 0 {
		proto = "1.0"
	}
	if !ruleTouched("via") {
		// the chain is ALL Via field lines combined with ", " (RFC 9110 5.3); several lines were the known
		// class F11a until the modifier learnt to read them all: a lost line is a plain violation again
		want := proto + " " + cfg.Tag
		if chain := strings.Join(in["via"], ", "); chain != "" && !nominated["via"] { // a nominated Via is hop-by-hop: dropped, then the own element is added
			want = chain + ", " + want
		}
		if got := strings.Join(out["via"], ", "); got != want {
			add("one Via element is appended after the existing ones", "", fmt.Sprintf("%q vs %q", got, want))
		}
	}
	if !ruleTouched("x-forwarded-for") {
		// all X-Forwarded-For lines count (formerly the known class F11b)
		want := x.ClientIP
		if chain := strings.Join(in["x-forwarded-for"], ", "); chain != "" && !nominated["x-forwarded-for"] {
			want = chain + ", " + want
		}
		if got := strings.Join(out["x-forwarded-for"], ", "); got != want {
			add("the client address is appended to X-Forwarded-For", "", fmt.Sprintf("%q vs %q", got, want))
		}
	}
	for _, k := range []string{"x-forwarded-proto", "x-forwarded-host", "x-forwarded-url"} {
		if nominated[k] || ruleTouched(k) {
			continue
		}
		if vin := in[k]; len(vin) > 0 && vin[0] != "" {
			if got := out[k]; strings.Join(got, "\x00") != strings.Join(vin, "\x00") {
				add("X-Forwarded-Proto/Host/Url are left alone when present", "", fmt.Sprintf("%s: %q vs %q", k, got, vin))
			}
		} else if len(out[k]) != 1 || out[k][0] == "" {
			add("X-Forwarded-Proto/Host/Url are filled in when absent", "", fmt.Sprintf("%s: %q", k, out[k]))
		}
	}
	if !ruleTouched("accept-encoding") {
		if vin, ok := in["accept-encoding"]; ok && !nominated["accept-encoding"] {
			if got := out["accept-encoding"]; strings.Join(got, "\x00") != strings.Join(vin, "\x00") || len(got) != len(vin) {
				class := ""
				if vin[0] == "" {
					class = "empty-accept-encoding"
				}
				add("Accept-Encoding is only added when the client sent none", class, fmt.Sprintf("%q vs %q", got, vin))
			}
		} else if got := out["accept-encoding"]; len(got) > 0 && !(len(got) == 1 && got[0] == "gzip") {
			add("Accept-Encoding is only added when the client sent none", "", fmt.Sprintf("%q", got))
		}
	}
	if !ruleTouched("user-agent") {
		vin := in["user-agent"]
		got := out["user-agent"]
		switch {
		case len(vin) == 0 || nominated["user-agent"]:
			if len(got) > 0 {
				add("no User-Agent is invented", "", fmt.Sprintf("%q", got))
			}
		case len(vin) == 1:
			if vin[0] == "" && len(got) == 0 {
				// an empty User-Agent is not re-sent: equivalent
			} else if len(got) != 1 || got[0] != vin[0] {
				add("every end-to-end field with the same values in the same per-name order", "", fmt.Sprintf("user-agent: %q vs %q", got, vin))
			}
		default:
			if strings.Join(got, "\x00") != strings.Join(vin, "\x00") {
				add("every end-to-end field with the same values in the same per-name order", "multi-line-user-agent", fmt.Sprintf("user-agent: %q vs %q", got, vin))
			}
		}
	}
	if !ruleTouched("authorization") && cfg.SiteCred == nil && !nominated["authorization"] {
		got, vin := out["authorization"], in["authorization"]
		same := strings.Join(got, "\x00") == strings.Join(vin, "\x00") && len(got) == len(vin)
		clientSent := len(vin) > 0 && vin[0] != ""
		switch {
		case same:
		case clientSent || len(creds) == 0:
			add("every end-to-end field with the same values in the same per-name order", "", fmt.Sprintf("authorization: %q vs %q", got, vin))
		case !(len(got) == 1 && credValue[got[0]]):
			add("configured site credentials are applied", "", fmt.Sprintf("authorization: %q is neither what the client sent (%q) nor a configured credential", got, vin))
		}
	}
	if !bytes.Equal(obs.Body, r.Body()) {
		add("a body of identical bytes and length", "", fmt.Sprintf("%d vs %d bytes", len(obs.Body), len(r.Body())))
	}
	if r.Chunked && len(r.Trailers) > 0 {
		gotT := (&rig.Msg{Fields: obs.Trailers}).FieldMap()
		wantT := (&rig.Msg{Fields: r.Trailers}).FieldMap()
		if reqmodel.FieldsJSON(gotT) != reqmodel.FieldsJSON(wantT) {
			add("a body of identical bytes and length", "", fmt.Sprintf("trailers %v vs %v", gotT, wantT))
		}
	}
	return vs
}

// connectionOK: the only Connection options the proxy may emit itself are its own "close" and, for a
// requested upgrade, "Upgrade".
func connectionOK(vs []string, upgradeRequested bool) bool {
	for _, v := range vs {
		if !(strings.EqualFold(v, "close") || (upgradeRequested && v == "Upgrade")) {
			return false
		}
	}
	return len(vs) > 0
}

// checkRuleTouched evaluates the documented meaning of the header rules for one field name that is
// not otherwise managed by the proxy ('name:value' appends, 'name;' sets the empty value, '-name' and
// '-prefix*' remove, '%name' keeps the values).
func checkRuleTouched(rules []string, k string, in, out map[string][]string, stripped bool, add func(clause, class, detail string)) {
	switch k {
	case "via", "x-forwarded-for", "x-forwarded-proto", "x-forwarded-host", "x-forwarded-url", "host", "content-length",
		"accept-encoding", "authorization", "connection", "transfer-encoding", "trailer", "upgrade":
		return // value also depends on the proxy's own additions: covered by the model comparison only
	}
	vals := append([]string(nil), in[k]...)
	if stripped {
		vals = nil
	}
	renamed := false
	for _, rs := range rules {
		h, err := header.ParseHeader(rs)
		if err != nil {
			continue
		}
		name := strings.ToLower(h.Name)
		switch h.Action {
		case header.Add:
			if name == k {
				vals = append(vals, *h.Value)
			}
		case header.Empty:
			if name == k {
				vals = []string{""}
			}
		case header.Remove:
			if name == k {
				vals = nil
			}
		case header.RemoveByPrefix:
			if strings.HasPrefix(k, name) {
				vals = nil
			}
		case header.RenameCase:
			if name == k {
				renamed = true
			}
		}
	}
	if renamed {
		return // rules after a re-spelling are the recorded class F9c (C16)
	}
	got := out[k]
	if k == "user-agent" {
		// net/http sends the first User-Agent value only and nothing for an empty one
		if len(vals) > 0 {
			vals = vals[:1]
		}
		if len(vals) == 1 && vals[0] == "" {
			vals = nil
		}
		if len(vals) == 0 && len(got) > 0 {
			add("no User-Agent is invented", "", fmt.Sprintf("user-agent: %q", got))
			return
		}
	}
	if strings.Join(got, "\x00") != strings.Join(vals, "\x00") || len(got) != len(vals) {
		add("configured header rules are applied", "", fmt.Sprintf("%s: got %q, rules give %q", k, got, vals))
	}
}

// ask: the model's outcome for one request of this environment (with a credentials table: the whole-configuration
// pipeline `C06 request`, which looks the target up in the table itself).
func (e *env) ask(m *core.Model, x *reqmodel.Ctx, r *reqmodel.Request) reqmodel.Outcome {
	if len(e.creds) == 0 {
		return reqmodel.Ask(m, &e.cfg, x, r)
	}
	fc := reqmodel.FullCfg{Base: e.cfg, Route: reqmodel.RouteCfg{Base: "none"}, Creds: e.creds}
	switch e.mode {
	case "upstream":
		fc.Route = reqmodel.RouteCfg{Base: "static", Static: &reqmodel.ProxyURL{Scheme: "http", Host: "upstream.test:3128"}}
	case "upstream-auth":
		u, p := upUser, upPass
		fc.Route = reqmodel.RouteCfg{Base: "static", Static: &reqmodel.ProxyURL{Scheme: "http", Host: "upstream.test:3128", User: &u, Pass: &p}}
	}
	return reqmodel.AskFullRequest(m, &fc, x, r)
}

// authShape: what the client sent under Authorization (histogram label)
func authShape(r *reqmodel.Request) string {
	n, first := 0, ""
	for _, f := range r.Fields {
		if strings.EqualFold(f.Name, "Authorization") {
			if n == 0 {
				first = f.Value
			}
			n++
		}
	}
	switch {
	case n == 0:
		return "client-none"
	case first == "":
		return "client-empty-first"
	}
	scheme, _, _ := strings.Cut(first, " ")
	lines := ""
	if n > 1 {
		lines = "+lines"
	}
	return "client-" + strings.ToLower(scheme) + lines
}

func (p *peerSpec) label() string {
	switch {
	case p == nil:
		return "v4"
	case p.Listener != "pp":
		return p.Listener
	}
	return fmt.Sprintf("pp-v%d-%s", p.Version, p.Family)
}
