package c01

import (
	"encoding/binary"
	"fmt"
	"net"
	"sync"

	"github.com/saucelabs/forwarder"
	"github.com/saucelabs/forwarder/verifharness/core"
	"github.com/saucelabs/forwarder/verifharness/reqmodel"
	"github.com/saucelabs/forwarder/verifharness/rig"
)

// The client address is a dimension of every C01 environment: each proxy instance listens on 127.0.0.1 (main
// listener), on [::1] (when the sandbox has an IPv6 loopback) and on a PROXY protocol listener whose clients
// announce the address they speak for (v1 / v2 headers, IPv4, IPv6, IPv4-mapped, LOCAL / UNKNOWN = the socket's own
// address). What X-Forwarded-For must record is the IP address of that peer; the model is told the connection's
// RemoteAddr as the Go runtime renders it (net.TCPAddr.String) and takes the host the way the code does
// (Model/Req.lean peerHost).

// peerSpec: how one client connection reaches the proxy and which address it has for the proxy.
type peerSpec struct {
	Listener string `json:"listener"` // "v4" | "v6" | "pp"
	// PROXY protocol header sent first on a "pp" connection
	Version int    `json:"version,omitempty"` // 1 | 2
	Family  string `json:"family,omitempty"`  // "tcp4" | "tcp6" | "udp4" | "udp6" (v2 only) | "local" (v1 UNKNOWN, v2 LOCAL)
	Src     string `json:"src,omitempty"`     // as written in a v1 header; parsed for v2
	Dst     string `json:"dst,omitempty"`
	SrcPort int    `json:"src_port,omitempty"`
	DstPort int    `json:"dst_port,omitempty"`
	TLV     bool   `json:"tlv,omitempty"` // v2: a TLV after the addresses
}

var (
	v6Once sync.Once
	v6OK   bool
)

// hasV6: the sandbox has an IPv6 loopback address to listen on.
func hasV6() bool {
	v6Once.Do(func() {
		l, err := net.Listen("tcp", "[::1]:0")
		if err == nil {
			l.Close()
			v6OK = true
		}
	})
	return v6OK
}

// extraListeners are added to every C01 proxy instance (Addrs[1] = [::1] when available, last = PROXY protocol).
func extraListeners() []forwarder.NamedListenerConfig {
	var out []forwarder.NamedListenerConfig
	if hasV6() {
		out = append(out, forwarder.NamedListenerConfig{Name: "v6", ListenerConfig: *forwarder.DefaultListenerConfig("[::1]:0")})
	}
	pp := forwarder.DefaultListenerConfig("127.0.0.1:0")
	pp.ProxyProtocolConfig = forwarder.DefaultProxyProtocolConfig()
	out = append(out, forwarder.NamedListenerConfig{Name: "pp", ListenerConfig: *pp})
	return out
}

func (e *env) listenerAddr(kind string) string {
	a := e.proxy.Addrs
	switch kind {
	case "v6":
		if hasV6() && len(a) >= 3 {
			return a[1]
		}
	case "pp":
		return a[len(a)-1]
	}
	return e.proxy.Addr
}

var (
	srcV4 = []string{"192.0.2.7", "10.1.2.3", "127.0.0.1", "255.255.255.255", "0.0.0.0", "198.51.100.250", "1.1.1.1"}
	// v1 headers carry text: also spellings that are not the canonical one
	srcV6     = []string{"::1", "2001:db8::1", "2001:db8::1:0:0:1", "fe80::1", "::", "2001:db8:85a3:8d3:1319:8a2e:370:7348", "64:ff9b::c000:201", "::ffff:192.0.2.9", "ff02::2"}
	srcV6Odd  = []string{"2001:DB8::1", "2001:db8:0:0:0:0:0:1", "0:0:0:0:0:0:0:1", "2001:0db8:0000:0000:0000:0000:0000:00ff", "::FFFF:C000:0209"}
	peerPorts = []int{0, 1, 80, 4711, 51000, 65535, 8080, 10000}
)

// genPeer draws the client address of one connection.
func genPeer(r *core.Rand) *peerSpec {
	switch k := r.Intn(100); {
	case k < 40:
		return nil // main listener, 127.0.0.1
	case k < 55:
		if hasV6() {
			return &peerSpec{Listener: "v6"}
		}
	}
	p := &peerSpec{Listener: "pp", Version: 1 + r.Intn(2), SrcPort: core.Pick(r, peerPorts), DstPort: core.Pick(r, peerPorts)}
	switch k := r.Intn(100); {
	case k < 8:
		p.Family = "local"
	case k < 40:
		p.Family = "tcp4"
		p.Src, p.Dst = core.Pick(r, srcV4), core.Pick(r, srcV4)
	default:
		p.Family = "tcp6"
		p.Src, p.Dst = core.Pick(r, srcV6), core.Pick(r, srcV6)
		if p.Version == 1 && r.Chance(25) {
			p.Src = core.Pick(r, srcV6Odd)
		}
	}
	if p.Version == 2 {
		p.TLV = r.Chance(20)
		if p.Family != "local" && r.Chance(10) {
			p.Family = "udp" + p.Family[3:]
		}
	}
	return p
}

// header renders the PROXY protocol header of a "pp" connection.
func (p *peerSpec) header() []byte {
	if p.Version == 1 {
		switch p.Family {
		case "local":
			return []byte("PROXY UNKNOWN\r\n")
		case "tcp4":
			return []byte(fmt.Sprintf("PROXY TCP4 %s %s %d %d\r\n", p.Src, p.Dst, p.SrcPort, p.DstPort))
		default:
			return []byte(fmt.Sprintf("PROXY TCP6 %s %s %d %d\r\n", p.Src, p.Dst, p.SrcPort, p.DstPort))
		}
	}
	b := []byte("\r\n\r\n\x00\r\nQUIT\n")
	var addr []byte
	cmd, fam := byte(0x21), byte(0)
	ports := func() []byte {
		var x [4]byte
		binary.BigEndian.PutUint16(x[0:], uint16(p.SrcPort))
		binary.BigEndian.PutUint16(x[2:], uint16(p.DstPort))
		return x[:]
	}
	switch p.Family {
	case "local":
		cmd = 0x20
	case "tcp4", "udp4":
		fam = 0x11
		addr = append(append(append(addr, net.ParseIP(p.Src).To4()...), net.ParseIP(p.Dst).To4()...), ports()...)
	default:
		fam = 0x21
		addr = append(append(append(addr, net.ParseIP(p.Src).To16()...), net.ParseIP(p.Dst).To16()...), ports()...)
	}
	if len(p.Family) > 3 && p.Family[:3] == "udp" {
		fam++
	}
	if p.TLV {
		addr = append(addr, 0x04, 0x00, 0x03, 0, 0, 0) // PP2_TYPE_NOOP with three bytes
	}
	b = append(b, cmd, fam, byte(len(addr)>>8), byte(len(addr)))
	return append(b, addr...)
}

// announced: the address the header gives the client (ok = false: none, the socket's own address counts).
func (p *peerSpec) announced() (ip net.IP, port int, ok bool) {
	if p == nil || p.Listener != "pp" || p.Family == "local" {
		return nil, 0, false
	}
	ip = net.ParseIP(p.Src)
	if p.Version == 2 {
		if p.Family == "tcp4" || p.Family == "udp4" {
			ip = ip.To4()
		} else {
			ip = ip.To16()
		}
	}
	return ip, p.SrcPort, true
}

// openPeer opens a client connection the way the peer specification says and returns the connection context of
// its requests: ClientIP = the client's IP address in its textual form (what X-Forwarded-For must record),
// RemoteAddr = the connection's peer address as net.TCPAddr.String renders it (what the model is given).
func (e *env) openPeer(p *peerSpec) (*rig.Client, reqmodel.Ctx, error) {
	x := reqmodel.Ctx{Secure: isMITM(e.mode)}
	kind := "v4"
	if p != nil {
		kind = p.Listener
	}
	c, err := rig.Dial(e.listenerAddr(kind))
	if err != nil {
		return nil, x, err
	}
	ta, _ := c.Conn.LocalAddr().(*net.TCPAddr)
	if ta == nil {
		c.Close()
		return nil, x, fmt.Errorf("client socket has no TCP address: %v", c.Conn.LocalAddr())
	}
	ip, port := ta.IP, ta.Port
	if kind == "pp" {
		if err := c.Send(p.header(), nil); err != nil {
			c.Close()
			return nil, x, err
		}
		if aip, aport, ok := p.announced(); ok {
			ip, port = aip, aport
		}
	}
	x.ClientIP = ip.String()
	x.RemoteAddr = (&net.TCPAddr{IP: ip, Port: port}).String()
	if err := e.preamble(c); err != nil {
		c.Close()
		return nil, x, err
	}
	return c, x, nil
}
