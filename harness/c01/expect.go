package c01

import (
	"bufio"
	"bytes"
	"encoding/json"
	"fmt"
	"io"
	"strconv"
	"strings"
	"sync"
	"time"

	"github.com/saucelabs/forwarder"
	"github.com/saucelabs/forwarder/verifharness/core"
	"github.com/saucelabs/forwarder/verifharness/rig"
)

// Expect: 100-continue. The request model declares a request with an Expect field out of its domain
// (the interim-response handshake is the transport's), so the generated connections never carry one.
// Expect is an END-TO-END field all the same: the next hop must receive it, with method, target, the
// other fields and the body, whether the client waits for the interim response (patient: head, pause,
// body) or not (eager: head and body in one write, RFC 9110 10.1.1 allows it) — the two differ in what
// sits in the proxy's read buffer when it decides what to forward. expectCase: a keep-alive connection
// of such requests through a direct proxy to an origin that answers `100 Continue` and records what it
// read; judged field by field at the origin (no model: the clause is the property's own).
type expectStep struct {
	Eager   bool `json:"eager"`
	Chunked bool `json:"chunked"`
	Size    int  `json:"size"`
	Expect  bool `json:"expect"` // false: the control request without the field
}

type expectCase struct {
	Kind  string       `json:"kind"` // "expect"
	Steps []expectStep `json:"steps"`
}

type expectSeen struct {
	method, target string
	fields         []rig.Field
	body           []byte
}

func genExpect(r *core.Rand) expectCase {
	ec := expectCase{Kind: "expect"}
	for i, n := 0, r.Range(2, 5); i < n; i++ {
		ec.Steps = append(ec.Steps, expectStep{Eager: r.Chance(60), Chunked: r.Chance(40), Size: core.Pick(r, []int{1, 12, 700, 4096, 40 << 10}), Expect: !r.Chance(15)})
	}
	return ec
}

func readHead(br *bufio.Reader) (first string, fields []rig.Field, err error) {
	line, err := br.ReadString('\n')
	if err != nil {
		return "", nil, err
	}
	first = strings.TrimRight(line, "\r\n")
	for {
		l, err := br.ReadString('\n')
		if err != nil {
			return first, fields, err
		}
		l = strings.TrimRight(l, "\r\n")
		if l == "" {
			return first, fields, nil
		}
		n, v, _ := strings.Cut(l, ":")
		fields = append(fields, rig.Field{Name: n, Value: strings.TrimSpace(v)})
	}
}

func fieldVals(fs []rig.Field, name string) []string {
	var out []string
	for _, f := range fs {
		if strings.EqualFold(f.Name, name) {
			out = append(out, f.Value)
		}
	}
	return out
}

func readBodyOf(br *bufio.Reader, fs []rig.Field) ([]byte, error) {
	if te := fieldVals(fs, "Transfer-Encoding"); len(te) > 0 && strings.Contains(strings.ToLower(te[0]), "chunked") {
		var body []byte
		for {
			l, err := br.ReadString('\n')
			if err != nil {
				return body, err
			}
			sz, perr := strconv.ParseInt(strings.TrimSpace(strings.SplitN(l, ";", 2)[0]), 16, 64)
			if perr != nil {
				return body, perr
			}
			if sz == 0 {
				for { // trailers
					t, err := br.ReadString('\n')
					if err != nil || strings.TrimRight(t, "\r\n") == "" {
						return body, err
					}
				}
			}
			buf := make([]byte, sz+2)
			if _, err := io.ReadFull(br, buf); err != nil {
				return body, err
			}
			body = append(body, buf[:sz]...)
		}
	}
	if cl := fieldVals(fs, "Content-Length"); len(cl) > 0 {
		n, _ := strconv.Atoi(cl[0])
		buf := make([]byte, n)
		_, err := io.ReadFull(br, buf)
		return buf, err
	}
	return nil, nil
}

func runExpect(ctx *core.Ctx, ec expectCase) {
	key, _ := json.Marshal(ec)
	ctx.Case("expect:"+string(key), true)
	var mu sync.Mutex
	seen := map[string]*expectSeen{}
	origin, err := rig.NewRawPeer("origin", func(pc *rig.PeerConn) {
		defer pc.Close()
		for {
			pc.SetDeadline(time.Now().Add(10 * time.Second))
			first, fs, err := readHead(pc.BR)
			if err != nil {
				return
			}
			if len(fieldVals(fs, "Expect")) > 0 {
				pc.Write([]byte("HTTP/1.1 100 Continue\r\n\r\n"))
			}
			body, err := readBodyOf(pc.BR, fs)
			if err != nil {
				return
			}
			parts := strings.SplitN(first, " ", 3)
			s := &expectSeen{fields: fs, body: body}
			if len(parts) >= 2 {
				s.method, s.target = parts[0], parts[1]
			}
			if id := fieldVals(fs, "Case-Id"); len(id) == 1 {
				mu.Lock()
				seen[id[0]] = s
				mu.Unlock()
			}
			pc.Write([]byte("HTTP/1.1 200 OK\r\nContent-Length: 2\r\n\r\nok"))
		}
	})
	if err != nil {
		core.Fatalf("c01 expect: origin: %v", err)
	}
	defer origin.Close()
	p, err := rig.StartProxy(rig.ProxyOpts{ConnectTo: []forwarder.HostPortPair{rig.Route("origin.test", "80", origin.Addr)}})
	if err != nil {
		ctx.Crash("proxy starts with a valid configuration", "", ec, err.Error())
		return
	}
	defer p.Stop()
	c, err := rig.Dial(p.Addr)
	if err != nil {
		ctx.Crash("proxy accepts a client connection", "", ec, err.Error())
		return
	}
	defer c.Close()
	for i, st := range ec.Steps {
		id := fmt.Sprintf("x%d", i)
		body := bytes.Repeat([]byte{byte('a' + i)}, st.Size)
		var head bytes.Buffer
		fmt.Fprintf(&head, "POST http://origin.test/up/%d?q=%%41 HTTP/1.1\r\nHost: origin.test\r\nCase-Id: %s\r\nX-Keep: one\r\n", i, id)
		if st.Expect {
			head.WriteString("Expect: 100-continue\r\n")
		}
		var wire []byte
		if st.Chunked {
			head.WriteString("Transfer-Encoding: chunked\r\nX-Keep: two\r\n\r\n")
			wire = []byte(fmt.Sprintf("%x\r\n%s\r\n0\r\n\r\n", len(body), body))
		} else {
			fmt.Fprintf(&head, "Content-Length: %d\r\nX-Keep: two\r\n\r\n", len(body))
			wire = body
		}
		ctx.Count(fmt.Sprintf("expect/eager=%v/chunked=%v/expect=%v", st.Eager, st.Chunked, st.Expect))
		if st.Eager {
			c.Conn.Write(append(head.Bytes(), wire...))
		} else {
			c.Conn.Write(head.Bytes())
			time.Sleep(150 * time.Millisecond)
			c.Conn.Write(wire)
		}
		// the final response (interim ones skipped)
		c.Conn.SetReadDeadline(time.Now().Add(8 * time.Second))
		status := ""
		for {
			first, fs, err := readHead(c.BR)
			if err != nil {
				ctx.SpecFail("a request with Expect: 100-continue is answered", "", ec, err.Error(), fmt.Sprintf("step %d: no final response", i))
				return
			}
			if strings.HasPrefix(first, "HTTP/1.1 100") {
				continue
			}
			status = first
			if _, err := readBodyOf(c.BR, fs); err != nil {
				ctx.SpecFail("a request with Expect: 100-continue is answered", "", ec, err.Error(), fmt.Sprintf("step %d: response body", i))
				return
			}
			break
		}
		if !strings.HasPrefix(status, "HTTP/1.1 200") {
			ctx.SpecFail("a request with Expect: 100-continue is forwarded and answered by the origin", "", ec, status, fmt.Sprintf("step %d", i))
			return
		}
		mu.Lock()
		s := seen[id]
		mu.Unlock()
		if s == nil {
			ctx.SpecFail("the next hop receives the request", "", ec, "origin saw nothing", fmt.Sprintf("step %d", i))
			return
		}
		var bad []string
		wantExpect := []string(nil)
		if st.Expect {
			wantExpect = []string{"100-continue"}
		}
		if got := fieldVals(s.fields, "Expect"); strings.Join(got, "\x00") != strings.Join(wantExpect, "\x00") {
			bad = append(bad, fmt.Sprintf("Expect: origin received %q, client sent %q", got, wantExpect))
		}
		if got := fieldVals(s.fields, "X-Keep"); strings.Join(got, ",") != "one,two" {
			bad = append(bad, fmt.Sprintf("X-Keep: origin received %q, client sent [one two]", got))
		}
		if s.method != "POST" || s.target != fmt.Sprintf("/up/%d?q=%%41", i) {
			bad = append(bad, fmt.Sprintf("request line: origin received %s %s", s.method, s.target))
		}
		if !bytes.Equal(s.body, body) {
			bad = append(bad, fmt.Sprintf("body: origin received %d bytes, client sent %d", len(s.body), len(body)))
		}
		if len(bad) > 0 {
			ctx.SpecFail("the next hop receives every end-to-end header field with the same values and a body of identical bytes, on every request of a keep-alive connection (Expect: 100-continue, eager and patient clients)", "", ec, strings.Join(bad, "; "), fmt.Sprintf("step %d of the connection (eager=%v chunked=%v size=%d)", i, st.Eager, st.Chunked, st.Size))
			return
		}
	}
	ctx.TraceValidated()
}
