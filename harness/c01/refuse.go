package c01

// REFUSAL cases: on ONE keep-alive client connection, requests the proxy answers itself — 407 (its own basic auth:
// no credentials / wrong credentials), 403 (deny-domains, localhost denial), 400 + close (Via loop) — that CARRY
// BODIES (Content-Length and chunked, with trailers, 1 byte to 70 KB, bodies made of token characters, bodies that
// read like one or two complete requests with valid credentials) precede ordinary requests. The property's first
// clause is about what the next hop receives: it must be exactly the requests the client sent for forwarding, each
// one as `processRequest` makes it, in the client's order; a request put together from the bytes of a refused
// request's body (`pingPOST /next`, or the request a body spells out) is a request the client never sent.
//
// The client's bytes are given to the model as they are (`C01 conn`, Model/C01.lean `serveConn` = the connection
// reader of Model/ReqConn.lean with the request pipeline as its decision function): it says which requests the
// connection loop acts on, what the pipeline makes of each and what body travels with it. Judged twice:
//   * the property's clauses on what the hops received, from the requests the generator framed (every hop entry is
//     one of them, forwarded ones only, in order, method/target/fields/body per clause);
//   * correspondence with the model's reading of the bytes (hop entries = C01.hopReceives, statuses).
// The cases run one after the other (the hops' logs between two marks belong to one case).

import (
	"bytes"
	"encoding/base64"
	"encoding/json"
	"fmt"
	"sort"
	"strings"
	"sync/atomic"
	"time"

	"github.com/saucelabs/forwarder"
	"github.com/saucelabs/forwarder/verifharness/core"
	"github.com/saucelabs/forwarder/verifharness/reqmodel"
	"github.com/saucelabs/forwarder/verifharness/rig"
)

const deniedHost = "denied.test"

var denyRules = []reqmodel.DomRule{{Kind: "e", Lit: deniedHost}}

func configureDeny(cfg *forwarder.HTTPProxyConfig, mode string) {
	m, err := reqmodel.Matcher(denyRules)
	if err != nil {
		core.Fatalf("deny-domains matcher: %v", err)
	}
	cfg.DenyDomains = m
	cfg.ProxyLocalhost = forwarder.DenyProxyLocalhost
	switch mode {
	case "gate-deny":
		cfg.BasicAuth = urlUserPassword(gateUser, gatePass)
	case "mitm-deny":
		cfg.MITM = forwarder.DefaultMITMConfig()
		cfg.PromRegistry = newRegistry()
	}
}

func denyModel(c *reqmodel.Cfg, mode string) {
	c.DenyRules = denyRules
	c.DenyLocal = true
	c.LocalNames = []string{"localhost", "0.0.0.0", "::"}
	if mode == "gate-deny" {
		c.HasAuth, c.AuthUser, c.AuthPass = true, gateUser, gatePass
	}
}

type refStep struct {
	Kind    string            `json:"kind"`            // "ok" | "auth" | "auth-wrong" | "deny" | "localhost" | "loop"
	Shape   string            `json:"shape,omitempty"` // refused requests: what the body bytes are
	Request *reqmodel.Request `json:"request"`
}

type refuseCase struct {
	Kind      string    `json:"kind"` // "refuse"
	Mode      string    `json:"mode"` // "direct-gate" | "direct-deny" | "gate-deny" | "mitm-deny"
	Pipelined bool      `json:"pipelined,omitempty"`
	Segments  []int     `json:"segments,omitempty"`
	Steps     []refStep `json:"steps"`
	At        int       `json:"failing_step,omitempty"`
}

const (
	clauseOnlySent  = "the next hop receives only requests the client sent: nothing is built from the bytes of a request body"
	clauseSentOrder = "the next hop receives the client's requests in the client's order"
	relConn         = "messages received by the hops for one client connection = C01.hopReceives (Model/C01.lean: the pipeline behind ReqConn.serve)"
)

var refuseSeq atomic.Int64

type refBody struct {
	framing string // "cl" | "chunked" | "chunked-tr"
	shape   string // "token" | "fill" | "request" | "request+fill" | "two-requests" | "crlf"
	size    int
	chunks  []int
}

var refBodies = []refBody{
	{"cl", "token", 4, nil},
	{"cl", "fill", 37, nil},
	{"cl", "fill", 5000, nil},
	{"cl", "fill", 70000, nil},
	{"chunked", "fill", 900, []int{1, 300}},
	{"chunked-tr", "fill", 6000, []int{4096, 1}},
	{"cl", "request", 0, nil},
	{"chunked", "request", 0, nil},
	{"cl", "request+fill", 4500, nil},
	{"cl", "two-requests", 0, nil},
}

func refusalKinds(mode string) []string {
	switch mode {
	case "direct-gate":
		return []string{"auth", "auth-wrong"}
	case "direct-deny":
		return []string{"deny", "localhost"}
	case "gate-deny":
		return []string{"auth", "auth-wrong", "deny", "localhost"}
	}
	return []string{"deny"} // mitm-deny: inside the intercepted tunnel
}

var refuseModes = []string{"direct-gate", "direct-gate", "direct-deny", "gate-deny", "gate-deny", "mitm-deny"}

// genRefused: a request of the given refusal kind with a body.
func genRefused(r *core.Rand, e *env, kind, id string, bf refBody) refStep {
	q := &reqmodel.Request{Method: core.Pick(r, []string{"POST", "POST", "PUT", "PATCH", "DELETE", "GET"}), Minor: 1, Path: "/r/" + id}
	if r.Chance(30) {
		s := "k=" + id
		q.Query = &s
	}
	host := "origin.test"
	switch kind {
	case "deny":
		host = deniedHost
	case "localhost":
		host = core.Pick(r, []string{"localhost:9", "localhost"})
	}
	if !isMITM(e.mode) && (kind == "deny" || kind == "localhost" || r.Chance(40)) {
		q.Absolute, q.Scheme, q.Authority = true, "http", host
	}
	fs := []rig.Field{{Name: "Host", Value: host}, {Name: "Case-Id", Value: id}}
	if hasGate(e.mode) {
		switch kind {
		case "auth":
		case "auth-wrong":
			fs = append(fs, rig.Field{Name: "Proxy-Authorization", Value: "Basic " + base64.StdEncoding.EncodeToString([]byte(gateUser+":wrong"))})
		default:
			fs = append(fs, rig.Field{Name: "Proxy-Authorization", Value: gateValue()})
		}
	}
	if kind == "loop" {
		fs = append(fs, rig.Field{Name: "Via", Value: "1.1 upstream-hop, 1.1 " + e.cfg.Tag})
	}
	if r.Chance(50) {
		fs = append(fs, rig.Field{Name: "X-Custom", Value: "refused-" + id})
	}
	if r.Chance(30) {
		fs = append(fs, rig.Field{Name: "Content-Type", Value: "application/octet-stream"})
	}
	smuggled := func(tag string) []byte {
		sid := id + "-smug" + tag
		t := "/from-the-body/" + sid
		if !isMITM(e.mode) {
			t = "http://origin.test" + t
		}
		auth := ""
		if hasGate(e.mode) {
			auth = "Proxy-Authorization: " + gateValue() + "\r\n"
		}
		return []byte("GET " + t + " HTTP/1.1\r\nHost: origin.test\r\nCase-Id: " + sid + "\r\n" + auth + "\r\n")
	}
	fill := func(n int) []byte {
		unit := []byte("<body of " + id + ">")
		return bytes.Repeat(unit, n/len(unit)+1)[:n]
	}
	var body []byte
	switch bf.shape {
	case "token":
		body = bytes.Repeat([]byte("ping"), bf.size/4+1)[:bf.size]
	case "request":
		body = smuggled("")
	case "two-requests":
		body = append(smuggled("x"), smuggled("y")...)
	case "request+fill":
		body = append(smuggled(""), fill(bf.size)...)
	case "crlf":
		body = bytes.Repeat([]byte("\r\n"), bf.size/2+1)
	default:
		body = fill(bf.size)
	}
	q.BodyHex = core.Hex(body)
	switch bf.framing {
	case "chunked", "chunked-tr":
		q.Chunked, q.ChunkSzs = true, bf.chunks
		fs = append(fs, rig.Field{Name: "Transfer-Encoding", Value: "chunked"})
		if bf.framing == "chunked-tr" {
			fs = append(fs, rig.Field{Name: "Trailer", Value: "X-Req-Trailer"})
			q.Trailers = []rig.Field{{Name: "X-Req-Trailer", Value: "t-" + id}}
		}
	default:
		fs = append(fs, rig.Field{Name: "Content-Length", Value: fmt.Sprint(len(body))})
	}
	q.Fields = fs
	return refStep{Kind: kind, Shape: bf.shape, Request: q}
}

// genOK: an ordinary request (the shared generator), inside the modelled domain.
func genOK(ctx *core.Ctx, r *core.Rand, e *env, id string, last bool) refStep {
	mctx := reqmodel.Ctx{ClientIP: "127.0.0.1", Secure: isMITM(e.mode)}
	var q *reqmodel.Request
	for try := 0; try < 8; try++ {
		o := reqmodel.GenOpts{Host: "origin.test", Scheme: schemeOf(e.mode), Last: last, AllowBody: true, ID: id,
			ExtraName: []string{"X-Custom", "X-Trace-Id", "Cookie"}}
		if hasGate(e.mode) {
			o.ProxyAuth = gateValue()
		}
		if isMITM(e.mode) {
			o.HostAlts = []string{"origin.test:443"}
		} else {
			o.HostAlts = []string{"origin.test:80", "origin.test:8080"}
		}
		q = reqmodel.GenRequest(r, o)
		if out := reqmodel.Ask(ctx.Model, &e.cfg, &mctx, q); out.Kind == "fwd" || out.Kind == "refused" {
			break
		}
	}
	return refStep{Kind: "ok", Request: q}
}

func randRefBody(r *core.Rand) refBody {
	if r.Chance(55) {
		return core.Pick(r, refBodies)
	}
	bf := refBody{framing: core.Pick(r, []string{"cl", "cl", "chunked", "chunked-tr"}),
		shape: core.Pick(r, []string{"token", "fill", "fill", "request", "request+fill", "two-requests", "crlf"}),
		size:  core.Pick(r, []int{1, 2, 4, 100, 4095, 4096, 4097, 8192, 32768, 66000})}
	if r.Chance(30) {
		bf.size = r.Range(1, 9000)
	}
	if bf.framing != "cl" {
		for j, m := 0, r.Range(0, 3); j < m; j++ {
			bf.chunks = append(bf.chunks, core.Pick(r, []int{1, 2, 100, 4095, 4096, 4097, 40000}))
		}
	}
	return bf
}

func (rc *refuseCase) timing(r *core.Rand) {
	if r.Chance(40) {
		rc.Pipelined = true
		if r.Chance(60) {
			for i, n := 0, r.Range(1, 3); i < n; i++ {
				rc.Segments = append(rc.Segments, core.Pick(r, []int{1, 2, 30, 200, 4096, 5000, 40000}))
			}
		}
	}
}

func genRefuse(ctx *core.Ctx, r *core.Rand, e *env) *refuseCase {
	rc := &refuseCase{Kind: "refuse", Mode: e.mode}
	rc.timing(r)
	prefix := fmt.Sprintf("R%d", refuseSeq.Add(1))
	n := r.Range(2, 5)
	kinds := refusalKinds(e.mode)
	refused := 0
	for k := 0; k < n; k++ {
		id := fmt.Sprintf("%s-%d", prefix, k)
		last := k == n-1
		switch {
		case last && !isMITM(e.mode) && r.Chance(12):
			rc.Steps = append(rc.Steps, genRefused(r, e, "loop", id, randRefBody(r)))
		case !last && (r.Chance(55) || (k == n-2 && refused == 0)):
			rc.Steps = append(rc.Steps, genRefused(r, e, core.Pick(r, kinds), id, randRefBody(r)))
			refused++
		default:
			rc.Steps = append(rc.Steps, genOK(ctx, r, e, id, last))
		}
	}
	return rc
}

// refuseMatrix: every refusal kind of the configuration x every body form x both timings, then 1-2 ordinary requests.
func refuseMatrix(ctx *core.Ctx, r *core.Rand, e *env) []*refuseCase {
	var out []*refuseCase
	for _, kind := range refusalKinds(e.mode) {
		for _, bf := range refBodies {
			for _, pipelined := range []bool{false, true} {
				cr := r.Sub()
				rc := &refuseCase{Kind: "refuse", Mode: e.mode, Pipelined: pipelined}
				if pipelined && cr.Chance(50) {
					rc.Segments = []int{core.Pick(cr, []int{1, 20, 100, 4096}), core.Pick(cr, []int{1, 50, 4096, 30000})}
				}
				prefix := fmt.Sprintf("R%d", refuseSeq.Add(1))
				rc.Steps = append(rc.Steps, genRefused(cr, e, kind, prefix+"-0", bf))
				for k, m := 1, cr.Range(1, 2); k <= m; k++ {
					rc.Steps = append(rc.Steps, genOK(ctx, cr, e, fmt.Sprintf("%s-%d", prefix, k), false))
				}
				out = append(out, rc)
			}
		}
	}
	return out
}

type hopEntry struct {
	peer *rig.Peer
	ex   *rig.Exchange
}

func runRefuse(ctx *core.Ctx, pool *envPool, rc *refuseCase) {
	e, err := pool.get(rc.Mode, nil)
	if err != nil {
		ctx.Crash("proxy starts with a valid configuration", "", rc, err.Error())
		return
	}
	mctx := reqmodel.Ctx{ClientIP: "127.0.0.1", Secure: isMITM(e.mode)}
	var wires [][]byte
	idToStep := map[string]int{}
	for k, st := range rc.Steps {
		wires = append(wires, st.Request.Wire())
		idToStep[idOf(st.Request)] = k
	}
	all := bytes.Join(wires, nil)
	at := func(k int) *refuseCase { c := *rc; c.At = k; return &c }

	// the model's reading of the client's bytes, and the generator's intent request by request
	end, acts := reqmodel.AskConn(ctx.Model, &e.cfg, &mctx, "always", nil, all)
	intent := make([]reqmodel.Outcome, len(rc.Steps))
	same := len(acts) <= len(rc.Steps) && (end == "idle" || end == "closed")
	for k, st := range rc.Steps {
		var raw string
		intent[k], raw = reqmodel.AskRaw(ctx.Model, &e.cfg, &mctx, st.Request)
		if k < len(acts) && (acts[k].Raw != raw || acts[k].BodyLen != len(st.Request.Body()) || acts[k].BodySum != reqmodel.BodySum(st.Request.Body())) {
			same = false
		}
	}
	for k, st := range rc.Steps {
		ctx.Case(fmt.Sprintf("refuse|%s|%d/%d|%s", rc.Mode, k, len(rc.Steps), string(wires[k])), true)
		timing := "step"
		if rc.Pipelined {
			timing = "pipelined"
		}
		ctx.Count(fmt.Sprintf("refuse/%s/%s/%s", rc.Mode, st.Kind, timing))
		if st.Kind != "ok" {
			fr := "cl"
			if st.Request.Chunked {
				fr = "chunked"
			}
			sz := "≤4K"
			if n := len(st.Request.Body()); n > 65536 {
				sz = ">64K"
			} else if n > 4096 {
				sz = "≤64K"
			}
			ctx.Count(fmt.Sprintf("refuse-body/%s/%s/%s/%s", st.Kind, fr, st.Shape, sz))
		}
	}
	if !same {
		// the model reads the bytes differently from what the generator meant to frame (or leaves the domain):
		// nothing to judge the implementation by
		ctx.Count("refuse/model-reading-differs-from-intent")
		return
	}
	n := len(acts)

	marks := map[*rig.Peer]int{}
	for _, p := range e.hopPeers() {
		marks[p] = len(p.Log())
	}
	c, err := e.open()
	if err != nil {
		ctx.Crash("proxy accepts a client connection", "", rc, err.Error())
		return
	}
	defer c.Close()
	resps := make([]*rig.Msg, n)
	var readErr error
	readAt := -1
	if rc.Pipelined {
		go c.Send(all, rc.Segments)
		for k := 0; k < n; k++ {
			if resps[k], readErr = c.ReadResponse(rc.Steps[k].Request.Method, 6*time.Second); readErr != nil {
				readAt = k
				break
			}
		}
	} else {
		for k := 0; k < n; k++ {
			if readErr = c.Send(wires[k], nil); readErr == nil {
				resps[k], readErr = c.ReadResponse(rc.Steps[k].Request.Method, 6*time.Second)
			}
			if readErr != nil {
				readAt = k
				break
			}
		}
	}
	odd := readErr != nil
	for k := 0; k < n && !odd; k++ {
		want := 200
		if acts[k].Outcome.Kind == "refused" {
			want = acts[k].Outcome.Status
		}
		odd = resps[k] == nil || resps[k].Status != want
	}
	if odd {
		time.Sleep(80 * time.Millisecond) // let a straggler reach the hop before its log is read
	}
	var got []hopEntry
	for _, p := range e.hopPeers() {
		for _, ex := range p.Log()[marks[p]:] {
			if ex.Req != nil {
				got = append(got, hopEntry{p, ex})
			}
		}
	}
	sort.SliceStable(got, func(i, j int) bool { return got[i].ex.At.Before(got[j].ex.At) })

	var sum strings.Builder
	for k := 0; k < n; k++ {
		if resps[k] != nil {
			fmt.Fprintf(&sum, "[%d] %d; ", k, resps[k].Status)
		}
	}
	if readErr != nil {
		fmt.Fprintf(&sum, "then response %d: %v; ", readAt, readErr)
	}
	sum.WriteString("hops received:")
	for _, g := range got {
		fmt.Fprintf(&sum, " %s %s (Case-Id %s, %dB)", g.ex.Req.Method, g.ex.Req.Target, g.ex.Req.Get("Case-Id"), len(g.ex.Req.Body))
	}
	if len(got) == 0 {
		sum.WriteString(" nothing")
	}
	impl := sum.String()
	ok := true
	fail := func(clause, class string, k int, detail string) {
		ok = false
		ctx.SpecFail(clause, class, at(k), impl, detail)
	}

	// ---- the property's clauses, from the requests the generator framed ----
	lastStep := -1
	delivered := map[int]bool{}
	for _, g := range got {
		obs := g.ex.Req
		id := obs.Get("Case-Id")
		k, known := idToStep[id]
		if !known {
			where := ""
			line := []byte(obs.Method + " " + obs.Target + " ")
			for j, st := range rc.Steps {
				if st.Kind != "ok" && bytes.Contains(st.Request.Body(), line) {
					where = fmt.Sprintf(": its request line is in the BODY of request %d, which the proxy answered itself", j)
					k = j
				}
			}
			fail(clauseOnlySent, "", k, fmt.Sprintf("a hop received %s %s (Case-Id %q, %d body bytes), which the client never sent as a request%s", obs.Method, obs.Target, id, len(obs.Body), where))
			continue
		}
		if delivered[k] {
			fail(clauseOnlySent, "", k, fmt.Sprintf("request %d was delivered twice", k))
			continue
		}
		delivered[k] = true
		if k >= n || intent[k].Kind != "fwd" {
			fail(clauseOnlySent, "", k, fmt.Sprintf("request %d (%s) is answered by the proxy itself (or follows a response that closes the connection) and reached a hop", k, rc.Steps[k].Kind))
			continue
		}
		if k < lastStep {
			fail(clauseSentOrder, "", k, fmt.Sprintf("request %d reached its hop after request %d", k, lastStep))
		}
		lastStep = k
		for _, v := range specViolations(&e.cfg, &mctx, rc.Steps[k].Request, obs) {
			fail(v.clause+" (on a connection with requests the proxy answered itself)", v.class, k, v.detail)
		}
	}
	for k := 0; k < n; k++ {
		if intent[k].Kind == "fwd" && !delivered[k] {
			fail("request is delivered to the next hop", "", k, fmt.Sprintf("no hop received request %d", k))
		}
	}

	// ---- correspondence with the model's reading of the bytes ----
	var diffs []string
	var want []int
	for k := 0; k < n; k++ {
		if acts[k].Outcome.Kind == "fwd" {
			want = append(want, k)
		}
	}
	if len(got) != len(want) {
		diffs = append(diffs, fmt.Sprintf("the hops received %d requests, the model sends %d", len(got), len(want)))
	}
	for i := 0; i < len(got) && i < len(want); i++ {
		obs, out, k := got[i].ex.Req, acts[want[i]].Outcome, want[i]
		wantPeer := e.origin
		if out.HopKind == "proxy" {
			wantPeer = e.up
		} else if isMITM(e.mode) {
			wantPeer = e.tlsOrig
		}
		if got[i].peer != wantPeer {
			diffs = append(diffs, fmt.Sprintf("request %d: hop %s, model %s", k, got[i].peer.Name, wantPeer.Name))
		}
		if obs.Method != out.Method {
			diffs = append(diffs, fmt.Sprintf("request %d: method %q, model %q", k, obs.Method, out.Method))
		}
		if obs.Target != out.Target {
			diffs = append(diffs, fmt.Sprintf("request %d: target %q, model %q", k, obs.Target, out.Target))
		}
		of := reqmodel.ObservedFields(obs)
		for _, name := range reqmodel.DiffFields(of, out.Fields) {
			diffs = append(diffs, fmt.Sprintf("request %d: field %s: %q, model %q", k, name, of[name], out.Fields[name]))
		}
		if len(obs.Body) != acts[k].BodyLen || reqmodel.BodySum(obs.Body) != acts[k].BodySum {
			diffs = append(diffs, fmt.Sprintf("request %d: body of %d bytes (sum %d), model %d bytes (sum %d)", k, len(obs.Body), reqmodel.BodySum(obs.Body), acts[k].BodyLen, acts[k].BodySum))
		}
	}
	for k := 0; k < n; k++ {
		m := resps[k]
		switch {
		case m == nil:
			diffs = append(diffs, fmt.Sprintf("response %d never arrived (%v), the model answers %d requests", k, readErr, n))
		case acts[k].Outcome.Kind == "refused" && m.Status != acts[k].Outcome.Status:
			diffs = append(diffs, fmt.Sprintf("response %d: status %d, the model refuses with %d", k, m.Status, acts[k].Outcome.Status))
		case acts[k].Outcome.Kind == "fwd" && (m.Status != 200 || (rc.Steps[k].Request.Method != "HEAD" && string(m.Body) != "ok:"+idOf(rc.Steps[k].Request))):
			diffs = append(diffs, fmt.Sprintf("response %d: status %d body %q, the model forwards the request (the origin answers 200 ok:%s)", k, m.Status, clipBytes(m.Body, 60), idOf(rc.Steps[k].Request)))
		}
		if m == nil {
			break
		}
	}
	if len(diffs) > 0 {
		detail := fmt.Sprintf("%s, %d requests acted on", end, n)
		// diagnosis only: is this the loop that leaves the body of a locally answered request on the connection?
		if lEnd, lActs := reqmodel.AskConn(ctx.Model, &e.cfg, &mctx, "forwardedonly", nil, all); lEnd != end || len(lActs) != n {
			var ms []string
			for _, a := range lActs {
				if a.Outcome.Kind == "fwd" {
					ms = append(ms, a.Outcome.Method+" "+a.Outcome.Target)
				}
			}
			detail += fmt.Sprintf(" | the loop WITHOUT the body drain of locally answered requests would act on %d requests, end %q and send the hops: %s", len(lActs), lEnd, strings.Join(ms, ", "))
		}
		ctx.Disagree(relConn, at(0), strings.Join(diffs, "; ")+" | "+impl, detail)
	} else if ok {
		ctx.TraceValidated()
	}
}

func clipBytes(b []byte, n int) string {
	if len(b) > n {
		return string(b[:n]) + "…"
	}
	return string(b)
}

func runRefusals(ctx *core.Ctx, pool *envPool) {
	// the matrix once per configuration, then random sequences
	for _, mode := range []string{"direct-gate", "direct-deny", "gate-deny", "mitm-deny"} {
		e, err := pool.get(mode, nil)
		if err != nil {
			ctx.Crash("proxy starts with a valid configuration", "", map[string]string{"kind": "refuse", "mode": mode}, err.Error())
			return
		}
		for i, rc := range refuseMatrix(ctx, ctx.Rng.Sub(), e) {
			if i == 0 && mode == "direct-gate" {
				ctx.Sample(rc)
			}
			runRefuse(ctx, pool, rc)
		}
	}
	nSeq := ctx.N(120, 2500)
	for i := 0; i < nSeq; i++ {
		r := ctx.Rng.Sub()
		e, err := pool.get(core.Pick(r, refuseModes), nil)
		if err != nil {
			ctx.Crash("proxy starts with a valid configuration", "", map[string]string{"kind": "refuse"}, err.Error())
			return
		}
		runRefuse(ctx, pool, genRefuse(ctx, r, e))
	}
}

func replayRefuse(ctx *core.Ctx, pool *envPool, raw json.RawMessage) {
	var rc refuseCase
	if err := json.Unmarshal(raw, &rc); err != nil || len(rc.Steps) == 0 {
		core.Fatalf("bad C01 refuse case: %v", err)
	}
	rc.At = 0
	runRefuse(ctx, pool, &rc)
}
