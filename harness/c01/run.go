package c01

import (
	"encoding/json"
	"fmt"
	"net/url"
	"sync"
	"sync/atomic"

	"github.com/prometheus/client_golang/prometheus"
	"github.com/saucelabs/forwarder/verifharness/core"
	"github.com/saucelabs/forwarder/verifharness/reqmodel"
)

func newRegistry() *prometheus.Registry { return prometheus.NewRegistry() }

func urlUserPassword(u, p string) *url.Userinfo { return url.UserPassword(u, p) }

func idOf(r *reqmodel.Request) string {
	for _, f := range r.Fields {
		if f.Name == "Case-Id" {
			return f.Value
		}
	}
	return ""
}

var ruleSets = [][]string{
	nil,
	nil,
	{"X-Added: by-rule", "-X-Custom", "X-Empty;"},
	{"-x-*", "Accept: text/plain"},
	{"%x-trace-id", "X-A: appended"},
	{"-Cookie", "-Referer", "User-Agent: rule-agent/1"},
	{"-User-Agent", "X-Custom;"},
}

var idSeq atomic.Int64

func genConn(r *core.Rand, mode string, rules []string) *connCase {
	cc := &connCase{Kind: "conn", Mode: mode, Rules: rules}
	n := r.Range(1, 4)
	for i := 0; i < n; i++ {
		o := reqmodel.GenOpts{
			Host: "origin.test", Scheme: schemeOf(mode), Last: i == n-1, AllowBody: true,
			ID:        fmt.Sprintf("c%d-%x", idSeq.Add(1), r.U64()&0xffffff),
			ExtraName: []string{"X-Custom", "X-Trace-Id", "Cookie", "X-Empty", "X-Added"},
			// protocol upgrades whose Connection field nominates further names (credential fields, the standard
			// hop-by-hop set, managed and custom names) with the nominated fields present
			UpgradeNominate: 12,
			// a client Authorization of every scheme (the configurations with a credentials table must leave it alone)
			AuthVariety: 30,
			// the Connection-field dimension (reqmodel.GenConnShape): absent / a lone keep-alive or close as most
			// clients send it / other lone options / several options / several lines / empty, crossed with the presence
			// of each field of the fixed hop-by-hop list
			ConnShapes: 15,
		}
		if mode == "direct-gate" {
			o.ProxyAuth = gateValue()
		}
		if isMITM(mode) {
			o.HostAlts = []string{"origin.test:443"}
		} else {
			o.HostAlts = []string{"origin.test:80", "origin.test:8080"}
		}
		cc.Requests = append(cc.Requests, reqmodel.GenRequest(r, o))
	}
	cc.Pipeline = n > 1 && r.Chance(30)
	// the client address: IPv4 / IPv6 socket, PROXY protocol header announcing IPv4 / IPv6 sources
	cc.Peer = genPeer(r)
	// a credentials table (35%): which of the tables is decided by the configuration, so that the number of
	// proxy instances stays small (every table is met under some mode x rule set)
	if credsMode(mode) && r.Chance(35) {
		cc.Creds = credSets[(len(mode)+len(rules)+len(fmt.Sprint(rules)))%len(credSets)]
	}
	if r.Chance(50) {
		k := r.Range(1, 5)
		for i := 0; i < k; i++ {
			cc.Segments = append(cc.Segments, core.Pick(r, []int{1, 2, 3, 5, 17, 100, 1000, 4096, 5000, 33000}))
		}
	}
	return cc
}

type envKey struct {
	mode  string
	rules string
	creds string
}

type envPool struct {
	mu   sync.Mutex
	envs map[envKey]*env
	ctx  *core.Ctx
}

func (p *envPool) get(mode string, rules []string) (*env, error) {
	return p.getCreds(mode, rules, nil)
}

func (p *envPool) getCreds(mode string, rules []string, creds []reqmodel.Cred) (*env, error) {
	k := envKey{mode, fmt.Sprint(rules), fmt.Sprint(creds)}
	p.mu.Lock()
	defer p.mu.Unlock()
	if e, ok := p.envs[k]; ok {
		return e, nil
	}
	e, err := newEnvCreds(p.ctx, mode, rules, creds)
	if err != nil {
		return nil, err
	}
	p.envs[k] = e
	return e, nil
}

func (p *envPool) closeAll() {
	for _, e := range p.envs {
		e.close()
	}
}

func Run(ctx *core.Ctx) {
	ctx.SetRule("keep-alive client connections of 1-4 generated requests (method, origin/absolute form, query escapes, repeated fields, " +
		"Connection-nominated names, pre-existing Via/X-Forwarded-*, body none/Content-Length/chunked with random chunking and sizes around 4 KiB/32 KiB, " +
		"arbitrary client write segmentation, 30% pipelined; 30% with a client Authorization of every scheme: Basic well-formed / undecodable / without colon, " +
		"Bearer, Digest, Negotiate, NTLM, bare token, empty, 1-3 lines) from clients of every address family (IPv4 socket, IPv6 socket [::1], PROXY protocol v1/v2 headers " +
		"announcing IPv4 / IPv6 / IPv4-mapped / odd-spelt sources and ports, LOCAL/UNKNOWN; X-Forwarded-For must record that IP address, model given RemoteAddr) " +
		"through the real proxy in direct / upstream-proxy / upstream-proxy-with-credentials / MITM " +
		"/ proxy-basic-auth / PAC (DIRECT for intercepted https, PROXY for http) configuration with and without header rules, 35% of the direct / upstream / MITM / basic-auth instances with a --credentials table matching the origin " +
		"(exact, port wildcard, host wildcard; Authorization judged as an end-to-end field, model = whole-configuration pipeline C06 request); 12% of the requests are protocol upgrades whose Connection field nominates " +
		"further names (Proxy-Authorization, Authorization, the standard hop-by-hop set, managed and custom names; token lists in every spelling, " +
		"nominated fields present with several values); 15% draw the Connection-field dimension (reqmodel.GenConnShape: Connection absent / a lone " +
		"keep-alive or close as most clients send it / other lone options / empty list elements / several options / several lines / empty value, " +
		"crossed with the presence of each field of the fixed hop-by-hop list; distribution: connx/ counts); before that, sequentially, HISTORY cases: a request or an origin response nominates names " +
		"in Connection and later requests on the same connection / other connections / inside intercepted tunnels / through the other listeners of " +
		"the process carry those names end-to-end (whole history compared with Model.ReqSeq.runProcess); then REFUSAL cases: on one keep-alive connection " +
		"requests the proxy answers itself (407 no/wrong credentials, 403 deny-domains / localhost, 400 Via loop; direct and inside intercepted tunnels) " +
		"that carry bodies (Content-Length / chunked / trailers, 1 B-70 KB, token bytes, bodies spelling out complete requests; every kind x body form x " +
		"step-by-step / pipelined, then random sequences) precede ordinary requests: the hops must receive exactly the client's forwarded requests, in order " +
		"(bytes also read by Model.C01.serveConn = ReqConn.serve with the pipeline as decision function); then CROSS-TALK cases: 16 keep-alive clients at the " +
		"same time against one instance per configuration (direct, upstream, MITM), bursts of 1-8 pipelined requests, every client with its own Via chain " +
		"(1-6 elements, comments, 1-3 lines), X-Forwarded-For/-Host/-Url, custom and nominated fields, path, query and body built around a marker of its own: " +
		"each request judged against the model alone and scanned for any other client's marker; then, at the head of the connection cases, SCHEME cases (scheme.go): " +
		"the client's forwarding fields as a dimension of every request form - X-Forwarded-Proto absent / http / https / HTTPS / ws / garbage / empty / two lines with different " +
		"values / one list value, crossed with absolute-form http://, absolute-form https:// and origin-form targets, on the plain listeners and inside intercepted tunnels, routed " +
		"direct / through an upstream HTTP proxy that tunnels CONNECT / by PAC / MITM, half of them with X-Forwarded-Host / -Url / -For / Forwarded naming another host, port, path " +
		"and scheme: the next hop must be contacted with the scheme of the request target (TLS origin vs. plain origin vs. absolute-form at the upstream proxy; model: C01 scheme = " +
		"Model/C01Scheme.lean reach; requests whose scheme the transport does not speak are compared only: no hop, 500; distribution: scheme/ counts); " +
		"a request is non-trivial when it has a body, a repeated field, or a hop-by-hop/managed field; " +
		"distinct = distinct (configuration, request bytes)")
	pool := &envPool{envs: map[envKey]*env{}, ctx: ctx}
	defer pool.closeAll()
	for _, c := range core.LoadCorpus(ctx.Root, "C01") {
		replayWith(ctx, pool, c)
	}
	// HISTORY cases, one after the other: a message nominates names in Connection, later requests (same connection,
	// other connections, intercepted tunnels, other listeners of this process) carry those names end-to-end
	nHist := ctx.N(160, 2500)
	for i := 0; i < nHist; i++ {
		r := ctx.Rng.Sub()
		hc := genHistory(r)
		if i < 2 {
			ctx.Sample(hc)
		}
		runHistory(ctx, pool, hc)
	}
	if ctx.NumFindings() > 0 {
		// the recorded cases or the histories already failed: what this process forwards depends on what it handled
		// before (or the pipeline is broken outright). The verdict is decided, and the concurrent part below would run
		// against a process whose state is already known to be corrupted (it may not even survive it)
		return
	}
	// REFUSAL cases, one after the other: requests the proxy answers itself (407 / 403 / 400) that carry bodies precede
	// ordinary requests on one connection; the hops must receive exactly the requests the client sent (refuse.go)
	runRefusals(ctx, pool)
	if ctx.NumFindings() > 0 {
		return
	}
	// CROSS-TALK cases: many keep-alive clients with material of their own hammer one instance per configuration at
	// the same time (cross.go)
	for _, mode := range []string{"direct", "upstream", "mitm"} {
		cc := &crossCase{Kind: "cross", Mode: mode, Clients: 16, PerClient: ctx.N(150, 600), GenSeed: ctx.Rng.Sub().U64()}
		if mode == "direct" {
			ctx.Sample(cc)
		}
		runCross(ctx, cc)
	}
	if ctx.NumFindings() > 0 {
		return
	}
	nConn := ctx.N(2500, 40000)
	modes := []string{"direct", "direct", "upstream", "upstream-auth", "mitm", "direct-gate", "mitm-pac", "pac-upstream"}
	// slow uploads (a pause inside the body that is longer than the read-header timeout)
	nSlow := ctx.N(40, 600)
	type job struct {
		cc *connCase
	}
	jobs := make(chan job, 64)
	var wg sync.WaitGroup
	for w := 0; w < 12; w++ {
		wg.Add(1)
		go func() {
			defer wg.Done()
			for j := range jobs {
				e, err := pool.getCreds(j.cc.Mode, j.cc.Rules, j.cc.Creds)
				if err != nil {
					ctx.Crash("proxy starts with a valid configuration", "", j.cc, err.Error())
					continue
				}
				e.runConn(ctx, j.cc)
			}
		}()
	}
	// SCHEME cases (scheme.go): the forwarding fields of the client crossed with the request form and the route
	for i, cc := range genSchemeConns(ctx.Rng.Sub(), ctx.N(2, 12)) {
		if i < 2 {
			ctx.Sample(cc)
		}
		jobs <- job{cc}
	}
	for i := 0; i < nConn; i++ {
		r := ctx.Rng.Sub()
		cc := genConn(r, core.Pick(r, modes), core.Pick(r, ruleSets))
		if i < 3 {
			ctx.Sample(cc)
		}
		jobs <- job{cc}
	}
	for i := 0; i < nSlow; i++ {
		r := ctx.Rng.Sub()
		cc := genConn(r, "direct-slow", nil)
		cc.Pipeline = false
		cc.PauseMs = 450
		if len(cc.Requests) > 2 {
			cc.Requests = cc.Requests[:2]
		}
		jobs <- job{cc}
	}
	close(jobs)
	wg.Wait()
	// Expect: 100-continue from eager and patient clients (outside the request model's domain; judged at the origin)
	for i, n := 0, ctx.N(24, 240); i < n; i++ {
		ec := genExpect(ctx.Rng.Sub())
		runExpect(ctx, ec)
		if i == 0 {
			ctx.Sample(ec)
		}
	}
}

func replayWith(ctx *core.Ctx, pool *envPool, raw json.RawMessage) {
	var k struct {
		Kind string `json:"kind"`
	}
	json.Unmarshal(raw, &k)
	var cc connCase
	switch k.Kind {
	case "history":
		replayHistory(ctx, pool, raw)
		return
	case "refuse":
		replayRefuse(ctx, pool, raw)
		return
	case "cross":
		replayCross(ctx, raw)
		return
	case "expect":
		var ec expectCase
		json.Unmarshal(raw, &ec)
		runExpect(ctx, ec)
		return
	case "one":
		var o oneReq
		json.Unmarshal(raw, &o)
		cc = connCase{Kind: "conn", Mode: o.Mode, Rules: o.Rules, Requests: []*reqmodel.Request{o.Request}, Segments: o.Segments, Peer: o.Peer, Creds: o.Creds}
	default:
		json.Unmarshal(raw, &cc)
	}
	e, err := pool.getCreds(cc.Mode, cc.Rules, cc.Creds)
	if err != nil {
		ctx.Crash("proxy starts with a valid configuration", "", cc, err.Error())
		return
	}
	e.runConn(ctx, &cc)
}

func Replay(ctx *core.Ctx, raw json.RawMessage) {
	pool := &envPool{envs: map[envKey]*env{}, ctx: ctx}
	defer pool.closeAll()
	replayWith(ctx, pool, raw)
}
