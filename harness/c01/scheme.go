package c01

import (
	"fmt"
	"strings"

	"github.com/saucelabs/forwarder/verifharness/core"
	"github.com/saucelabs/forwarder/verifharness/reqmodel"
	"github.com/saucelabs/forwarder/verifharness/rig"
)

// SCHEME cases: the forwarding fields a client (or a front end before the proxy) supplies, as a dimension of every
// request form. Each request is an ordinary generated request (reqmodel.GenRequest: method, path, query, fields,
// body) whose request-target form and forwarding fields are then set from the crossing
//
//	X-Forwarded-Proto  absent | http | https | HTTPS | ws | garbage | empty | two lines with different values
//	                   (either order, empty first) | one list value ("https, http" / "http, https")
//	request form       absolute-form http:// | absolute-form https:// | origin-form   (on the plain listeners and
//	                   inside an intercepted CONNECT tunnel)
//	route              direct | upstream HTTP proxy (a scripted forward proxy that tunnels CONNECT, so that https
//	                   requests through it are delivered too) | PAC-selected upstream | MITM
//
// plus, independently, X-Forwarded-Host / X-Forwarded-Url / X-Forwarded-For / Forwarded values that name another
// host, port, path and scheme than the request-target. None of these may move the request: judged by the ordinary
// clauses (method, path and query, Host, end-to-end fields, body: runConn) and by schemeViolations below.

// xfpShapes: the X-Forwarded-Proto lines of a request (nil = none).
var xfpShapes = []struct {
	label string
	lines []string
}{
	{"absent", nil},
	{"http", []string{"http"}},
	{"https", []string{"https"}},
	{"HTTPS", []string{"HTTPS"}},
	{"ws", []string{"ws"}},
	{"garbage", []string{"gopher+x"}},
	{"empty", []string{""}},
	{"lines-https-http", []string{"https", "http"}},
	{"lines-http-https", []string{"http", "https"}},
	{"lines-empty-https", []string{"", "https"}},
	{"list-https-http", []string{"https, http"}},
	{"list-http-https", []string{"http, https"}},
}

var schemeForms = []string{"abs-http", "abs-https", "origin"}

// schemeModes: the configurations the crossing runs under ("upstream-tunnel" = "upstream" whose scripted proxy
// tunnels CONNECT to the origins).
var schemeModes = []string{"direct", "upstream-tunnel", "pac-upstream", "mitm"}

// firstXFP is what Header.Get("X-Forwarded-Proto") returns for the request.
func firstXFP(r *reqmodel.Request) string {
	for _, f := range r.Fields {
		if strings.EqualFold(f.Name, "X-Forwarded-Proto") {
			return f.Value
		}
	}
	return ""
}

// specScheme: the scheme the request is to be forwarded with, from the input alone: the scheme of an absolute-form
// request-target whatever the fields say; an origin-form target has none, there the first X-Forwarded-Proto value
// stands in when it is not empty (a TLS terminating front end relays that way; inside an intercepted session this
// is the recorded finding F17 of C07), else the session the request was read from decides.
func specScheme(r *reqmodel.Request, secure bool) string {
	if r.Absolute {
		return r.Scheme
	}
	if p := firstXFP(r); p != "" {
		return p
	}
	if secure {
		return "https"
	}
	return "http"
}

func dropFields(fs []rig.Field, names ...string) []rig.Field {
	out := fs[:0:0]
	for _, f := range fs {
		drop := false
		for _, n := range names {
			if strings.EqualFold(f.Name, n) {
				drop = true
			}
		}
		if !drop {
			out = append(out, f)
		}
	}
	return out
}

// insertAt puts the lines into fs at random places, keeping their own order.
func insertAt(r *core.Rand, fs []rig.Field, lines []rig.Field) []rig.Field {
	pos := 0
	for _, l := range lines {
		pos = r.Range(pos, len(fs))
		fs = append(fs[:pos:pos], append([]rig.Field{l}, fs[pos:]...)...)
		pos++
	}
	return fs
}

// genSchemeReq draws one request of the crossing.
func genSchemeReq(r *core.Rand, mode, form string, xfp []string, last bool) *reqmodel.Request {
	secure := isMITM(mode)
	o := reqmodel.GenOpts{
		Host: "origin.test", Scheme: schemeOf(mode), Last: last, AllowBody: true,
		ID:        fmt.Sprintf("s%d-%x", idSeq.Add(1), r.U64()&0xffffff),
		ExtraName: []string{"X-Custom", "X-Trace-Id", "Cookie"},
	}
	q := reqmodel.GenRequest(r, o)
	fs := dropFields(q.Fields, "Host", "X-Forwarded-Proto", "X-Forwarded-Host", "X-Forwarded-Url", "Forwarded")
	var add []rig.Field
	for _, v := range xfp {
		add = append(add, rig.Field{Name: caseSpelling(r, "X-Forwarded-Proto"), Value: v})
	}
	// the other forwarding fields, naming another host / port / path / scheme than the request-target
	if r.Chance(50) {
		add = append(add, rig.Field{Name: caseSpelling(r, "X-Forwarded-Host"), Value: core.Pick(r, []string{"evil.test", "evil.test:8443", "origin.test:443", "origin.test:80", "upstream.test:3128", "127.0.0.1:1"})})
	}
	if r.Chance(40) {
		add = append(add, rig.Field{Name: caseSpelling(r, "X-Forwarded-Url"), Value: core.Pick(r, []string{"https://evil.test/other?x=1", "http://origin.test:8080/zzz", "https://origin.test/elsewhere", "ws://origin.test/", "/relative"})})
	}
	if r.Chance(40) {
		add = append(add, rig.Field{Name: caseSpelling(r, "Forwarded"), Value: core.Pick(r, []string{"for=192.0.2.60;proto=https;by=203.0.113.43;host=evil.test", "proto=http;host=\"origin.test:443\"", "for=\"[2001:db8::1]:4711\", for=unknown"})})
	}
	if r.Chance(30) && !hasField(fs, "X-Forwarded-For") {
		add = append(add, rig.Field{Name: caseSpelling(r, "X-Forwarded-For"), Value: core.Pick(r, []string{"evil.test", "127.0.0.1", "origin.test:443, 10.0.0.1"})})
	}
	q.Fields = insertAt(r, fs, add)
	q.Absolute, q.Scheme, q.Authority = false, "", ""
	if form != "origin" {
		q.Absolute, q.Scheme = true, strings.TrimPrefix(form, "abs-")
	}
	// the authority: with or without a port; a port is that of the scripted origin speaking the scheme the
	// request is to be forwarded with (for every other scheme nothing is contacted at all)
	hosts := []string{"origin.test"}
	switch specScheme(q, secure) {
	case "http":
		hosts = []string{"origin.test", "origin.test", "origin.test:80", "origin.test:8080"}
	case "https":
		hosts = []string{"origin.test", "origin.test", "origin.test:443"}
	}
	host := core.Pick(r, hosts)
	var hostLine []rig.Field
	if q.Absolute {
		q.Authority = host
		switch r.Intn(3) {
		case 0:
			hostLine = []rig.Field{{Name: caseSpelling(r, "Host"), Value: "other.example"}}
		case 1:
			hostLine = []rig.Field{{Name: caseSpelling(r, "Host"), Value: host}}
		}
	} else {
		hostLine = []rig.Field{{Name: caseSpelling(r, "Host"), Value: host}}
	}
	q.Fields = insertAt(r, q.Fields, hostLine)
	return q
}

func hasField(fs []rig.Field, name string) bool {
	for _, f := range fs {
		if strings.EqualFold(f.Name, name) {
			return true
		}
	}
	return false
}

func caseSpelling(r *core.Rand, n string) string {
	switch r.Intn(4) {
	case 0:
		return strings.ToLower(n)
	case 1:
		return strings.ToUpper(n)
	}
	return n
}

// genSchemeConns: the whole crossing `rounds` times, as connection cases of 1-3 requests of one configuration.
func genSchemeConns(rng *core.Rand, rounds int) []*connCase {
	var out []*connCase
	for k := 0; k < rounds; k++ {
		for _, mode := range schemeModes {
			type cell struct {
				form string
				xfp  int
			}
			var cells []cell
			for _, f := range schemeForms {
				for i := range xfpShapes {
					cells = append(cells, cell{f, i})
				}
			}
			r := rng.Sub()
			idx := make([]int, len(cells))
			for i := range idx {
				idx[i] = i
			}
			core.Shuffle(r, idx)
			for i := 0; i < len(idx); {
				n := r.Range(1, 3)
				if i+n > len(idx) {
					n = len(idx) - i
				}
				cc := &connCase{Kind: "conn", Mode: mode, Peer: genPeer(r)}
				for j := 0; j < n; j++ {
					c := cells[idx[i+j]]
					cc.Requests = append(cc.Requests, genSchemeReq(r, mode, c.form, xfpShapes[c.xfp].lines, j == n-1))
				}
				cc.Pipeline = n > 1 && r.Chance(30)
				out = append(out, cc)
				i += n
			}
		}
	}
	return out
}

// reach is the model's answer to `C01 scheme` (Model/C01Scheme.lean reach).
type reach struct {
	Scheme, Authority, Contact, Addr string
}

func askReach(m *core.Model, c *reqmodel.Cfg, x *reqmodel.Ctx, r *reqmodel.Request) (reach, bool) {
	ans := m.MustAsk(append([]string{"C01", "scheme"}, reqmodel.Tokens(c, x, r)...)...)
	f := strings.Fields(ans)
	if len(f) != 4 {
		if ans != "unreadable" {
			core.Fatalf("C01 scheme: unparsable answer %q", ans)
		}
		return reach{}, false
	}
	return reach{Scheme: string(core.MustUnHex(f[0])), Authority: string(core.MustUnHex(f[1])), Contact: f[2], Addr: string(core.MustUnHex(f[3]))}, true
}

// xfpLabel names the X-Forwarded-Proto shape of a request (histogram).
func xfpLabel(r *reqmodel.Request) string {
	var vs []string
	for _, f := range r.Fields {
		if strings.EqualFold(f.Name, "X-Forwarded-Proto") {
			vs = append(vs, f.Value)
		}
	}
	if len(vs) == 0 {
		return "absent"
	}
	for i, v := range vs {
		if v == "" {
			vs[i] = "<empty>"
		}
	}
	return strings.Join(vs, "|")
}

func formLabel(r *reqmodel.Request, secure bool) string {
	l := "origin-form"
	if r.Absolute {
		l = "absolute-" + r.Scheme
	}
	if secure {
		l += "-intercepted"
	}
	return l
}

// schemeViolations: the next hop is contacted with the scheme of the request-target, whatever the forwarding
// fields say. Evaluated on where the request was received: the TLS origin (the transport spoke TLS, directly or
// through a CONNECT tunnel of the upstream proxy), the plain origin, or the upstream proxy itself (a request in
// clear whose absolute-form target spells the scheme out).
func (e *env) schemeViolations(x *reqmodel.Ctx, r *reqmodel.Request, peer *rig.Peer, obs *rig.Msg) []violation {
	want := specScheme(r, x.Secure)
	if want != "http" && want != "https" {
		return nil // nothing is contacted for such a request (compared with the model in runConn)
	}
	got := "http"
	switch {
	case peer == e.tlsOrig:
		got = "https"
	case peer == e.up:
		if i := strings.Index(obs.Target, "://"); i > 0 {
			got = obs.Target[:i]
		}
	}
	if got == want {
		return nil
	}
	return []violation{{"the next hop is contacted with the scheme of the request target", "",
		fmt.Sprintf("request target %q (X-Forwarded-Proto %q) is to be forwarded as %s; it arrived at %s as %s", r.TargetString(), xfpLabel(r), want, peer.Name, got)}}
}
