package c11

import (
	"bufio"
	"bytes"
	"encoding/json"
	"fmt"
	"io"
	"os"
	"os/exec"
	"sync"
	"time"
)

// The code under test runs in child processes (this binary re-executed with childEnv set): a change
// that makes the proxy crash the process (e.g. unsynchronised map writes) or deadlock is then observed
// by the parent as a finding instead of taking the check down.
const childEnv = "VERIF_C11_CHILD"

type childReply struct {
	Outcome *outcome      `json:"outcome,omitempty"`
	Micro   *microOutcome `json:"micro,omitempty"`
	Server  *srvOutcome   `json:"server,omitempty"`
	Err     string        `json:"err,omitempty"`
}

// childMain serves cases from stdin: one JSON case per line in, one JSON reply per line out.
func childMain() {
	// the family "runend" sends this process the proxy's shutdown signal (SIGUSR1): never let the default action run
	holdSignals()
	in := bufio.NewReaderSize(os.Stdin, 1<<20)
	out := bufio.NewWriter(os.Stdout)
	for {
		line, err := in.ReadBytes('\n')
		if len(bytes.TrimSpace(line)) > 0 {
			var c Case
			var rep childReply
			if e := json.Unmarshal(line, &c); e != nil {
				rep.Err = "bad case: " + e.Error()
			} else if c.Kind == "c" {
				rep.Micro = runMicro(&c)
			} else if c.Kind == "s" {
				if o, e := runServerCase(&c); e != nil {
					rep.Err = e.Error()
				} else {
					rep.Server = o
				}
			} else if o, e := runCase(&c); e != nil {
				rep.Err = e.Error()
			} else {
				rep.Outcome = o
			}
			b, _ := json.Marshal(rep)
			out.Write(b)
			out.WriteByte('\n')
			out.Flush()
		}
		if err != nil {
			return
		}
	}
}

type tailBuf struct {
	mu sync.Mutex
	b  []byte
}

func (t *tailBuf) Write(p []byte) (int, error) {
	t.mu.Lock()
	t.b = append(t.b, p...)
	if len(t.b) > 16<<10 {
		t.b = t.b[len(t.b)-(16<<10):]
	}
	t.mu.Unlock()
	return len(p), nil
}

func (t *tailBuf) String() string { t.mu.Lock(); defer t.mu.Unlock(); return string(t.b) }

type child struct {
	cmd    *exec.Cmd
	in     io.WriteCloser
	out    *bufio.Reader
	stderr *tailBuf
}

func startChild() (*child, error) {
	exe, err := os.Executable()
	if err != nil {
		return nil, err
	}
	cmd := exec.Command(exe, "C11")
	cmd.Env = append(os.Environ(), childEnv+"=1")
	in, err := cmd.StdinPipe()
	if err != nil {
		return nil, err
	}
	outp, err := cmd.StdoutPipe()
	if err != nil {
		return nil, err
	}
	tb := &tailBuf{}
	cmd.Stderr = tb
	if err := cmd.Start(); err != nil {
		return nil, err
	}
	return &child{cmd: cmd, in: in, out: bufio.NewReaderSize(outp, 4<<20), stderr: tb}, nil
}

func (ch *child) stop() {
	ch.in.Close()
	done := make(chan struct{})
	go func() { ch.cmd.Wait(); close(done) }()
	select {
	case <-done:
	case <-time.After(3 * time.Second):
		ch.cmd.Process.Kill()
		<-done
	}
}

// run executes one case in the child. died reports that the process crashed or hung (detail says how).
func (ch *child) run(c *Case) (out *outcome, err error, died bool, detail string) {
	rep, err, died, detail := ch.ask(c)
	if rep != nil {
		out = rep.Outcome
	}
	return out, err, died, detail
}

func (ch *child) ask(c *Case) (out *childReply, err error, died bool, detail string) {
	b, _ := json.Marshal(c)
	if _, werr := ch.in.Write(append(b, '\n')); werr != nil {
		ch.cmd.Process.Kill()
		ch.cmd.Wait()
		return nil, nil, true, "child process gone before the case: " + tailOf(ch.stderr.String())
	}
	type res struct {
		line []byte
		err  error
	}
	rc := make(chan res, 1)
	go func() {
		line, err := ch.out.ReadBytes('\n')
		rc <- res{line, err}
	}()
	limit := time.Duration(c.TimeoutMs)*time.Millisecond + 75*time.Second
	select {
	case r := <-rc:
		if r.err != nil {
			ch.cmd.Wait()
			return nil, nil, true, "the process running the proxy died: " + tailOf(ch.stderr.String())
		}
		var rep childReply
		if e := json.Unmarshal(r.line, &rep); e != nil {
			return nil, fmt.Errorf("unreadable reply from child: %v", e), false, ""
		}
		if rep.Err != "" {
			return nil, fmt.Errorf("%s", rep.Err), false, ""
		}
		return &rep, nil, false, ""
	case <-time.After(limit):
		ch.cmd.Process.Kill()
		ch.cmd.Wait()
		return nil, nil, true, fmt.Sprintf("the case did not finish within %v (deadlock?): %s", limit, tailOf(ch.stderr.String()))
	}
}

func tailOf(s string) string {
	if len(s) > 3000 {
		// keep the head of a Go fatal error (it names the cause) and the tail
		return s[:1500] + " … " + s[len(s)-1200:]
	}
	return s
}
