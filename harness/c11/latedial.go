package c11

import (
	"fmt"

	"github.com/saucelabs/forwarder/verifharness/core"
)

// The late-dial family: a CONNECT whose request was read before the shutdown began and whose upstream dial
// completes only after it began (finding F41, repaired: writeResponse keeps the connection of a successful
// CONNECT also while closing). The exchange was at its origin when the shutdown began, so it completes: the
// client gets its 200 AND the tunnel the 200 announces, which from then on is in-flight work like a tunnel
// established before the shutdown. Every run crosses
//
//	rig    a (forwarder.HTTPProxy, Run cancelled) | b (martian.Proxy Serve/Shutdown(ctx)/Close)
//	route  direct (a: the dial is held back in the dial redirect, b: in the dial wrapper)
//	       | through a scripted upstream HTTP proxy that holds back its 200 (rigs.go startUpstream)
//	end    the client leaves | the target ends its side | nobody does: the shutdown deadline (forced close)
//
// with 1-3 such connections (held back until closing is known, or for 80-300 ms), echo traffic through the
// tunnel for 80-350 ms after closing is known, and company: a tunnel established before the shutdown, a
// request at a slow origin, a request / a CONNECT / a connection first made after closing is known.
// Judged by the acceptor (Model/C11.lean: the 200 of a CONNECT is followed by the tunnel state; `t` events
// need a relay step of that state), by the clauses of Driver/C11.lean (a 200 to CONNECT is followed by at
// least one completed round trip unless the client left or the shutdown was forced; the tunnel is closed
// only after its client or target ended it or after the deadline; Shutdown does not return nil while it is
// open) and by the socket observations of the scripts (closed after the end; everything closed after Close).
var lateDialEnds = []string{"close", "oend", "wait"}

// genLateDial: the i-th case of the family.
func genLateDial(r *core.Rand, i int) *Case {
	kind := []string{"a", "b"}[i%2]
	end := lateDialEnds[(i/4)%len(lateDialEnds)]
	c := &Case{Kind: kind, Op: "shutdown", ListenerFirst: true, Trigger: "ready", Family: "latedial",
		Upstream: (i/2)%2 == 1, TLS: r.Chance(15), DelayUs: core.Pick(r, []int{0, 0, 1000, 20000})}
	if kind == "b" {
		c.ListenerFirst = r.Chance(60)
	}
	// two sentinels (they probe 1 and 26 ms after the shutdown was initiated): how closing becomes known
	for k := 0; k < 2; k++ {
		c.Conns = append(c.Conns, ConnScript{Phase: "idle", Sentinel: true, PreExchange: true})
	}
	wait := false
	for j, n := 0, r.Range(1, 3); j < n; j++ {
		s := ConnScript{Phase: "dial", Gate: r.Chance(65), DelayMs: r.Range(80, 300), HoldMs: r.Range(80, 350), After: end}
		if j > 0 && r.Chance(35) {
			s.After = core.Pick(r, lateDialEnds)
		}
		wait = wait || s.After == "wait"
		c.Conns = append(c.Conns, s)
	}
	if r.Chance(50) {
		c.Conns = append(c.Conns, ConnScript{Phase: "tunnel", HoldMs: r.Range(80, 300), After: core.Pick(r, []string{"close", "oend"})})
	}
	if r.Chance(50) {
		c.Conns = append(c.Conns, ConnScript{Phase: "origin", DelayMs: r.Range(50, 250), Gate: r.Chance(40), After: core.Pick(r, []string{"send", "close"})})
	}
	c.Conns = append(c.Conns, ConnScript{Phase: "idle", After: "send", PreExchange: r.Chance(50)})
	if r.Chance(50) {
		c.Conns = append(c.Conns, ConnScript{Phase: "idle", After: "connect", PreExchange: r.Chance(50)})
	}
	c.Conns = append(c.Conns, ConnScript{Phase: "late"})
	switch {
	case wait:
		c.TimeoutMs = r.Range(700, 1300) // only the forced close after the deadline ends the tunnel
	case r.Chance(25):
		c.TimeoutMs = 0 // no limit: Shutdown / Run return once the last tunnel was ended by an endpoint
	default:
		c.TimeoutMs = 4000
	}
	return c
}

// route names the way a case's proxy reaches its targets.
func (c *Case) route() string {
	if c.Upstream {
		return "upstream"
	}
	return "direct"
}

// countLateDials records, for every "dial" connection, when its dial completed relative to the initiation
// of the shutdown and what became of the tunnel, as far as the history tells.
func countLateDials(ctx *core.Ctx, c *Case, evs []*Event) {
	pos := map[*Event]int{}
	begin := -1
	for i, e := range evs {
		pos[e] = i
		if begin < 0 && (e.Op == "SC" || e.Op == "X" || e.Op == "CC") {
			begin = i
		}
	}
	forced := -1
	for i, e := range evs {
		if e.Op == "D" || e.Op == "CC" {
			forced = i
			break
		}
	}
	for k, s := range c.Conns {
		if s.Phase != "dial" {
			continue
		}
		when := "dial-never-returned"
		if a := findK(evs, "a", k); a != nil {
			when = "dial-returned-before-begin"
			if begin >= 0 && pos[a] > begin {
				when = "dial-returned-during-shutdown"
			}
		}
		what := "no-200"
		if findK(evs, "R", k) != nil {
			n := countK(evs, "t", k)
			x, g, e := findK(evs, "x", k), findK(evs, "g", k), findK(evs, "e", k)
			switch {
			case n == 0:
				what = "200-no-round-trip"
			case g != nil:
				what = "tunnel-used+ended-by-client"
			case e != nil && x != nil && pos[e] < pos[x]:
				what = "tunnel-used+ended-by-target"
			case x != nil && forced >= 0 && forced < pos[x]:
				what = "tunnel-used+ended-by-forced-close"
			case x != nil:
				what = "tunnel-used+cut"
			default:
				what = "tunnel-used+end-not-seen"
			}
			ctx.CountN("latedial/round-trips-recorded", n)
		}
		ctx.Count(fmt.Sprintf("latedial/%s/%s/%s/%s", c.Kind, c.route(), when, what))
	}
}
