// Package c11 checks property C11 (graceful shutdown finishes in-flight work, admits nothing new,
// leaks nothing) against the real code: the full forwarder.HTTPProxy (rig "a": Run with a cancellable
// context) and martian.Proxy driven directly (rig "b": Serve / Shutdown(ctx) / Close). A driver places
// the shutdown at a random point relative to accept, TLS handshake, idle wait, partial request head,
// slow origin, response write to a slow reader, CONNECT dial and tunnel copy, with 1-32 connections in
// different phases and clients that vanish. A CONNECT whose dial completes only after the shutdown began
// (latedial.go: rigs a and b, direct and through a scripted upstream proxy) must get the tunnel its 200
// announces: echo traffic through it during the shutdown, ended by the client, by the target or by the
// shutdown deadline. The observed history is fed to the Lean acceptor
// (lean/FwdVerif/Driver/C11.lean: is it a behaviour of Model/C11.lean?) and the property's clauses are
// evaluated on it. A second family of cases (matrix.go) crosses the shutdown-timeout configuration
// {0 = no limit, shorter than the in-flight work, long} with in-flight work that outlasts a short
// timeout (slow origin, large body to a slow reader, open tunnel) on rigs a and b, and drives the API
// server (forwarder.HTTPServer, rig "s": same shutdownContext) the same way (server.go). A third family
// (ctl.go) issues HISTORIES of control calls instead of one: on rig b sequences of 1-4 calls over
// {Shutdown(short context), Shutdown(long), Shutdown(no deadline), Shutdown(cancelled by its caller), Close},
// one after the other and overlapping, against connections that do not drain by themselves (idle keep-alive,
// request parked at the origin, open tunnel, request head half sent), every call's result judged on its own;
// on rig a the drain of HTTPProxy.Run ended early by a second shutdown signal (ShutdownSignals = SIGUSR1,
// delivered to the child process that hosts the proxy), by the shutdown timeout, or not at all. A fourth
// family (ctl.go genRunSig, server.go genServerSig) crosses the CONFIGURED SET of shutdown signals
// {none, {SIGUSR1}, {SIGUSR1, SIGUSR2}} with the signals actually DELIVERED to the hosting process during the
// drain {none, one of the set, harmless ones outside it (SIGWINCH, SIGURG, SIGCHLD, SIGUSR2 / SIGUSR1 when not
// configured), several} on rigs a and s, with work that outlasts the deliveries and a long shutdown timeout: a
// signal outside the set ends nothing (the exchange at the origin completes in full, the tunnel lives on), one of
// the set ends the drain (Close: everything closed). A fifth dimension (ctl.go trackConn, scriptCloses, genCtlClose): the
// listener of the ctl cases (rig b) and of the drains of rig a that end by themselves wraps every accepted connection and
// scripts how long the proxy's Close of it TAKES {returns at once, 50-400 ms, 650-900 ms} and, below crypto/tls on TLS
// listeners, a peer that does not take its close_notify (the record waits like a write into a full send buffer); a
// Shutdown that returns nil is judged at that instant: the Close of every served socket has completed, not merely begun.
// Every Close is judged at the instant of its return as well (every accepted socket closed), also when it is called
// while handlers tear their connections down (ctl.go genCtlCloseDuring); on TLS listeners that is the known finding F53
// (crypto/tls answers a second Close at once: the socket of a handler inside tls.Conn.Close outlives Proxy.Close).
// A sixth dimension (held.go): WHICH sockets a return speaks about. One connection of the ctl / runend cases is "accept
// held" — the listener returns it from Accept only once closing is known, so that its handler comes to connsMu after
// Shutdown / Close took it —: a nil of Shutdown, a return of Close or of Run is judged on the sockets the proxy had used
// (hence registered) when the call was issued, the others ("accepted in the meantime") must be closed without service.
// A seventh (group.go): the layer above Run. The proxy is hosted as command/run hosts it — runctx.NewGroup(proxy.Run,
// a companion that returns at once, one that drains slowly).RunContext, NotifySignals = ShutdownSignals —, the shutdown
// requested by ONE real signal to the hosting process or by cancellation with exchanges in flight, the drain ended by
// itself / a second signal / the timeout; the returns of Run, of the companions and of RunContext are events of the
// history (Model/C11Group.lean). And the rig tells its own traffic from a stranger's (stray.go): the origin accepts a
// request only under the case's own host name and request index, a connection on the proxy's listener that nobody of
// the case made makes the case inconclusive, and every sixth general case has a stranger at its origin.
package c11

import (
	"encoding/json"
	"os"

	"github.com/saucelabs/forwarder/verifharness/core"
)

func init() {
	core.Register("C11", core.Scenario{Run: Run, Replay: Replay})
	if os.Getenv(childEnv) == "1" {
		// re-executed by the parent check: serve cases and leave before main starts
		childMain()
		os.Exit(0)
	}
}

// Case is one shutdown of one proxy instance.
type Case struct {
	Kind          string       `json:"kind"`               // "a" = forwarder.HTTPProxy.Run, "b" = martian.Proxy Serve/Shutdown/Close, "c" = accept/registration race sampler, "s" = forwarder.HTTPServer.Run (API server)
	TLS           bool         `json:"tls"`                // TLS listener
	PP            bool         `json:"pp,omitempty"`       // a: PROXY-protocol listener (every client sends a v1 header first)
	TimeoutMs     int          `json:"timeout_ms"`         // shutdown timeout (a, s: config, 0 = no limit as --shutdown-timeout documents; b: context deadline, 0 = a context that is never done)
	Upstream      bool         `json:"upstream,omitempty"` // everything the proxy sends goes through a scripted upstream HTTP proxy (CONNECT: its 200 is what a "dial" connection waits for)
	Family        string       `json:"family,omitempty"`   // "latedial" (latedial.go) | "ctl", "runend" (ctl.go); "" = general generator / matrix
	Matrix        string       `json:"matrix,omitempty"`   // shutdown-timeout matrix (matrix.go): "none" (timeout 0) | "short" (shorter than the in-flight work) | "long"; "" = general generator
	Op            string       `json:"op"`                 // b: "shutdown" | "close" | "shutdown+close" (Close called while Shutdown waits)
	ListenerFirst bool         `json:"listener_first"`     // b: close the listener before Shutdown (as HTTPProxy.run does) or after it returned
	Trigger       string       `json:"trigger"`            // "ready": once every script reached its phase; "race": DelayUs after launching them
	DelayUs       int          `json:"delay_us"`
	Conns         []ConnScript `json:"conns"`
	// control-call histories (ctl.go)
	Calls    []Call `json:"calls,omitempty"`     // rig b: the calls made instead of Op (Family "ctl")
	End      string `json:"end,omitempty"`       // rig a, Family "runend": what ends the drain: "signal" (a second shutdown signal SignalMs after the cancellation) | "timeout" | "drain"
	SignalMs int    `json:"signal_ms,omitempty"` // rig a, End "signal"
	// the signal matrix (ctl.go genRunSig, server.go genServerSig; rigs a and s)
	SigCase bool      `json:"sig_case,omitempty"` // ShutdownSignals of the proxy / API server = Signals (possibly EMPTY); false: rig a family runend {SIGUSR1}, everything else the defaults
	Signals []int     `json:"signals,omitempty"`  // the configured set, as signal numbers
	Deliver []SigStep `json:"deliver,omitempty"`  // signals sent to the hosting process once the run context is cancelled
	// Stray (stray.go): while the case runs, a client that is NOT part of it — the late dial of somebody else's case that
	// finds this case's origin (or upstream proxy) on a re-used port — sends requests "for connections 0..n-1" to the case's
	// origin: the rig must not attribute them to the case's connections
	Stray bool `json:"stray,omitempty"`
	// Host (group.go; rig a): "" = HTTPProxy.Run is called directly with a cancellable context; "group" = the proxy is hosted
	// the way command/run hosts it: runctx.NewGroup(proxy.Run, companions…).RunContext with NotifySignals = the proxy's
	// ShutdownSignals. Begin: "" = the shutdown is requested by cancelling the context; "signal" = by ONE operating-system
	// signal of that set delivered to the hosting process (then End "signal" means a SECOND one)
	Host  string `json:"host,omitempty"`
	Begin string `json:"begin,omitempty"`
	// Members (Host "group"): the companions of the proxy in the group: each returns MemberMs[i] after the group's
	// context is done (0: at once, like the API server with nothing to drain)
	MemberMs []int `json:"member_ms,omitempty"`
	// rig "c" (micro.go): Trials tiny shutdowns over an in-memory listener, parameters drawn from MicroSeed
	Trials    int    `json:"trials,omitempty"`
	MicroSeed uint64 `json:"micro_seed,omitempty"`
}

// ConnScript is what one client connection (and the origin on its behalf) does.
type ConnScript struct {
	// Phase the connection is in when the shutdown is aimed:
	//  accept   dials around the trigger and sends a request at once
	//  tlshello TCP connected on a TLS listener, ClientHello withheld
	//  pphello  dials around the trigger on a PROXY-protocol listener and withholds the PROXY header
	//  idle     connected (after a complete exchange when PreExchange), nothing outstanding
	//  partial  first half of a request head sent
	//  origin   request at the origin, which answers after DelayMs (or once closing is known: Gate)
	//  slowread origin answered BodyKB at once, the client reads slowly: the proxy is writing
	//  tunnel   CONNECT tunnel established, echo traffic flowing
	//  dial     CONNECT whose upstream dial (direct: the dial itself; Upstream: the upstream proxy's 200) returns
	//           after DelayMs / once closing is known; then echo traffic for HoldMs, then After
	//  late     dials only after the listener is known to be closed
	Phase       string `json:"phase"`
	DelayMs     int    `json:"delay_ms,omitempty"`
	Gate        bool   `json:"gate,omitempty"`
	After       string `json:"after,omitempty"` // once closing is known: "send" a request | "connect" (send a CONNECT) | "close" | "wait" | "oend" (origin ends the tunnel)
	Vanish      bool   `json:"vanish,omitempty"`
	BodyKB      int    `json:"body_kb,omitempty"`
	ReqClose    bool   `json:"req_close,omitempty"`
	PreExchange bool   `json:"pre_exchange,omitempty"`
	StartUs     int    `json:"start_us,omitempty"`
	Sentinel    bool   `json:"sentinel,omitempty"` // idle connection the driver uses to learn that closing is set
	Silent      bool   `json:"silent,omitempty"`   // accept: connects and sends nothing
	NoBody      bool   `json:"no_body,omitempty"`  // origin: the in-flight request is answered 204 (martian's header-only writer)
	PauseMs     int    `json:"pause_ms,omitempty"` // slowread: pause of the reader before each 64 KiB (0 = 2 ms)
	HoldMs      int    `json:"hold_ms,omitempty"`  // tunnel, dial: echo traffic goes on for this long after closing is known, before After
	Park        bool   `json:"park,omitempty"`     // origin: the origin keeps the request until the case is over (the exchange never drains)
	// the proxy's side of this connection's socket (families ctl, runend: the listener wraps what it accepts, ctl.go trackConn)
	CloseMs int `json:"close_ms,omitempty"` // Close takes this long to return; the socket stays open meanwhile
	StallMs int `json:"stall_ms,omitempty"` // TLS listener: the peer is not reading when the close_notify is due; the record waits this long (or until crypto/tls's write deadline)
	// AcceptHeld (phase idle, families ctl / runend; held.go): the connection is made once every other script has reached its
	// phase, and the tracking listener HOLDS the return of the Accept that delivers it until the shutdown has begun and
	// closing is known (Shutdown / Close has taken connsMu): its handleLoop goroutine comes to the registration only then
	AcceptHeld bool `json:"accept_held,omitempty"`
}

func (c *Case) key() string { b, _ := json.Marshal(c); return string(b) }

var sizes = []int{1, 1, 2, 2, 3, 3, 4, 4, 5, 6, 8, 8, 12, 16, 24, 32}

func gen(r *core.Rand) *Case {
	c := &Case{Kind: core.Pick(r, []string{"a", "b"}), TLS: r.Chance(25), Op: "shutdown", ListenerFirst: true}
	if c.Kind == "b" {
		c.Op = core.Pick(r, []string{"shutdown", "shutdown", "shutdown", "shutdown", "close", "shutdown+close"})
		c.ListenerFirst = r.Chance(60)
	}
	c.Trigger = core.Pick(r, []string{"ready", "ready", "ready", "race", "race"})
	switch c.Trigger {
	case "ready":
		c.DelayUs = core.Pick(r, []int{0, 0, 200, 1000, 5000, 20000, 60000})
	default:
		c.DelayUs = core.Pick(r, []int{0, 50, 200, 500, 1000, 2000, 5000, 10000})
	}
	n := core.Pick(r, sizes)
	phases := []string{"accept", "accept", "idle", "idle", "partial", "origin", "origin", "origin", "slowread", "tunnel", "late"}
	if c.TLS {
		phases = append(phases, "tlshello", "tlshello")
	}
	if c.Kind == "b" {
		phases = append(phases, "dial")
	}
	if c.Kind == "a" && !c.TLS && r.Chance(25) {
		c.PP = true
		phases = append(phases, "pphello", "pphello")
	}
	blocker := false
	nSent := 0
	if n >= 2 {
		nSent = 1
		if n >= 6 {
			nSent = 2
		}
	}
	heavy := 0
	for i := 0; i < n; i++ {
		if i < nSent {
			// a sentinel has completed an exchange: it is certainly registered and idle, so its being closed
			// without an answer later proves that closing is set (a connection still in the backlog is
			// reset by the listener close, which proves nothing)
			c.Conns = append(c.Conns, ConnScript{Phase: "idle", Sentinel: true, PreExchange: true})
			continue
		}
		s := ConnScript{Phase: core.Pick(r, phases)}
		if s.Phase == "slowread" && heavy >= 2 {
			s.Phase = "origin"
		}
		s.After = core.Pick(r, []string{"send", "send", "close", "close", "wait"})
		if s.After == "send" && i%3 == 2 {
			s.After = "connect" // the late request is a CONNECT (no extra draw: the cases of a seed stay what they were)
		}
		switch s.Phase {
		case "accept":
			s.StartUs = core.Pick(r, []int{0, 0, 50, 200, 1000, 3000})
			s.ReqClose = r.Chance(20)
			s.Silent = r.Chance(35)
		case "pphello":
			s.Gate = r.Chance(50)
			s.DelayMs = r.Range(0, 30)
			s.StartUs = core.Pick(r, []int{0, 50, 500})
			if r.Chance(25) {
				s.After = "wait" // never sends the header
			}
		case "tlshello":
			s.Gate = r.Chance(50)
			s.DelayMs = r.Range(0, 40)
			if r.Chance(30) {
				s.After = "wait" // never sends its ClientHello
			}
		case "idle":
			s.PreExchange = r.Chance(60)
		case "partial":
			s.Gate = r.Chance(50)
			s.DelayMs = r.Range(0, 30)
			s.Vanish = r.Chance(15)
			if r.Chance(15) {
				s.After = "wait" // never completes the head
			}
		case "origin":
			s.DelayMs = r.Range(50, 400)
			s.Gate = r.Chance(35)
			s.Vanish = r.Chance(15)
			s.ReqClose = r.Chance(15)
			s.PreExchange = r.Chance(30)
			s.NoBody = r.Chance(30)
		case "slowread":
			heavy++
			s.BodyKB = core.Pick(r, []int{3072, 6144})
			s.Vanish = r.Chance(10)
		case "tunnel":
			s.After = core.Pick(r, []string{"close", "close", "oend", "wait"})
			s.Vanish = r.Chance(15)
		case "dial":
			s.DelayMs = r.Range(30, 200)
			s.Gate = r.Chance(60)
		}
		if s.After == "wait" && s.Phase != "late" && (s.Phase != "accept" || s.Silent) && s.Phase != "pphello" {
			// (a "dial" connection that waits holds its tunnel until the forced close)
			blocker = true
		}
		c.Conns = append(c.Conns, s)
	}
	if blocker {
		c.TimeoutMs = r.Range(500, 1000)
	} else {
		c.TimeoutMs = 4000
	}
	return c
}
