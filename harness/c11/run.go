package c11

import (
	"context"
	"os"
	"encoding/json"
	"errors"
	"fmt"
	"strings"
	"sync"
	"time"

	"github.com/saucelabs/forwarder/verifharness/core"
)

func (cr *caseRun) begunNow() bool {
	cr.dialMu.RLock()
	defer cr.dialMu.RUnlock()
	return cr.begun
}

// outcome of one case
type outcome struct {
	History  []*Event `json:"history"`
	Result   string   `json:"result"` // a: "run:<err>" ; b: "nil" | "deadline" | "close-only"
	Notes    []string `json:"notes,omitempty"`
	Accept   string   `json:"acceptor"`
	Holds    string   `json:"clauses"`
	CallAt   time.Duration `json:"call_at"`
	RetAt    time.Duration `json:"ret_at"`
	IsNil    bool          `json:"is_nil"`
	HaveRet  bool          `json:"have_ret"`
	Unclosed []int         `json:"unclosed,omitempty"` // connections not seen closed 2 s after Shutdown returned nil (before Close)
	Foreign  int           `json:"foreign,omitempty"`  // late dials that reached a listener that is not this case's proxy (port re-use)
	Final    string        `json:"final,omitempty"`    // b: what a second Shutdown returned after everything was closed ("nil" expected: the counter is back to zero)
	Calls    []*callObs    `json:"calls,omitempty"`    // family ctl: what was observed of every call
	Gauge    float64       `json:"gauge,omitempty"`    // family runend: the listener's gauge of active connections after Run returned (polled for 3 s)
	HaveGauge bool         `json:"have_gauge,omitempty"`
	SignalAt time.Duration `json:"signal_at,omitempty"` // family runend: when a signal of the configured set was first sent
	// family runend with scripted Close latencies (rig a): the proxy's side of the sockets at the instant Run returned
	HaveTrack bool  `json:"have_track,omitempty"`
	OpenAt    []int `json:"open_at_ret,omitempty"`    // accepted sockets on which the proxy had not called Close (order of acceptance)
	BusyAt    []int `json:"closing_at_ret,omitempty"` // … on which its Close had begun and not returned
	// OpenAt / BusyAt are the sockets Run's success speaks about (the proxy had used them — hence registered them — when the
	// run context was cancelled); the others that were not closed at the return ("accepted in the meantime", held.go)
	LateIDs []int     `json:"late_ids,omitempty"`
	Late    []lateObs `json:"late,omitempty"`
	// the harness could not carry out the case's script (its own placement failed, a connection that is not the case's
	// reached the proxy's listener): nothing of the case is judged
	Inconclusive string `json:"inconclusive,omitempty"`
	StrayOrigin  int    `json:"stray_origin,omitempty"` // requests that are not this case's and reached its origin (refused, not entered into the history)
	StrayConns   int    `json:"stray_conns,omitempty"`  // connections the proxy's listener accepted that none of the case's clients made
	Held         *heldObs `json:"held,omitempty"`       // the "accept held" placement: what was observed of it
	// Host "group" (group.go)
	GroupRetAt time.Duration `json:"group_ret_at,omitempty"`
	shutCalls int
	retWall   time.Time
}

// heldObs: the connection whose Accept the listener held.
type heldObs struct {
	Script  int           `json:"script"`
	ID      int           `json:"id"`       // order of acceptance
	HeldFor time.Duration `json:"held_for"` // how long Accept kept it
	Read    bool          `json:"read,omitempty"` // the proxy called Read on it (it must not: the connection reached its handler after closing was known)
}

// runCase executes one case against the real code and returns what was observed.
func runCase(c *Case) (*outcome, error) {
	cr := &caseRun{c: c, log: newLog(), nonce: fmt.Sprintf("%x", time.Now().UnixNano()&0xffffffffff^int64(os.Getpid())<<20), trigger: make(chan struct{}), known: make(chan struct{}),
		listenerClosed: make(chan struct{}), finished: make(chan struct{}), holdGo: make(chan struct{})}
	for k := range c.Conns {
		cr.conns = append(cr.conns, newConnRun(cr, k))
	}
	if err := cr.startOrigins(); err != nil {
		return nil, err
	}
	defer cr.closeOrigins()
	if c.Upstream {
		if err := cr.startUpstream(); err != nil {
			return nil, err
		}
	}
	var err error
	if c.Kind == "a" {
		err = cr.startA()
	} else {
		err = cr.startB()
	}
	if err != nil {
		return nil, fmt.Errorf("proxy start: %w", err)
	}
	out := &outcome{}
	for _, cn := range cr.conns {
		go cn.run()
	}
	if c.Trigger == "ready" {
		deadline := time.After(10 * time.Second)
		for _, cn := range cr.conns {
			select {
			case <-cn.ready:
			case <-deadline:
				cr.note("conn %d did not reach its phase (%s) within 10s", cn.k, cn.sc.Phase)
			}
		}
	}
	if hk := c.heldIndex(); hk >= 0 && cr.tracker != nil && cr.tracker.hold != nil {
		// the "accept held" placement (held.go): every other script is where it should be; now the held connection is
		// made, and the shutdown is initiated once the listener's Accept has it in hand
		cr.tracker.hold.arm()
		close(cr.holdGo)
		if !waitOr(cr.tracker.hold.holding, 6*time.Second) {
			out.Inconclusive = "accept-held-placement-not-made"
		}
	} else {
		close(cr.holdGo)
	}
	var strayDone chan struct{}
	if c.Stray {
		strayDone = make(chan struct{})
		go func() { defer close(strayDone); cr.strayClient() }()
	}
	close(cr.trigger)
	time.Sleep(time.Duration(c.DelayUs) * time.Microsecond)

	timeout := time.Duration(c.TimeoutMs) * time.Millisecond
	// how long the driver waits for Run / Shutdown to return before it calls it a hang; without a deadline
	// they return once the last script has left (scripts give up after patience())
	retLimit := timeout + 8*time.Second
	if c.TimeoutMs == 0 {
		retLimit = cr.patience() + 24*time.Second
	}
	shutRet := make(chan error, 1)
	closeB := func() {
		cr.log.Add("CC", 0)
		cr.mp.Close()
		cr.log.Add("CR", 0)
	}
	closeListenerB := func() {
		cr.dialMu.Lock()
		cr.begun = true
		cr.log.Add("L", 0)
		cr.ln.Close()
		cr.dialMu.Unlock()
		cr.setListenerClosed()
	}
	var closeOnce sync.Once

	// --- initiate ---
	runDone := make(chan struct{})
	var sigDone chan struct{}
	switch {
	case len(c.Calls) > 0:
		// a history of control calls (ctl.go): the listener is closed, then the calls are made
		closeListenerB()
		cr.runCalls(out)
	case c.Kind == "a":
		if cr.groupUp != nil {
			// hosted in a runctx.Group: its members run, so RunContext has registered for its signals
			if !waitOr(cr.groupUp, 5*time.Second) {
				out.Inconclusive = "group-not-started"
			}
		}
		cr.dialMu.Lock()
		cr.begun = true
		cr.beginA()
		cr.dialMu.Unlock()
		if steps := c.deliveries(); len(steps) > 0 {
			// signals to this process while the proxy drains (G:<number> is logged before the first delivery of each)
			sigDone = make(chan struct{})
			go func() {
				defer close(sigDone)
				deliverSignals(steps, cr.sigSet, runDone, func(sig int) { cr.log.Add("G", sig) })
			}()
		}
	case c.Op == "close":
		if c.ListenerFirst {
			closeListenerB()
		} else {
			cr.dialMu.Lock()
			cr.begun = true
			cr.dialMu.Unlock()
		}
		closeOnce.Do(closeB)
		cr.setKnown()
	default:
		if c.ListenerFirst {
			closeListenerB()
		}
		cr.dialMu.Lock()
		cr.begun = true
		cr.log.Add("SC", 0, c.TimeoutMs == 0, false)
		cr.dialMu.Unlock()
		ctx, cancel := context.WithCancel(context.Background()) // timeout 0: a context that is never done
		if c.TimeoutMs > 0 {
			ctx, cancel = context.WithTimeout(context.Background(), timeout)
		}
		defer cancel()
		go func() { shutRet <- cr.mp.Shutdown(ctx) }()
		if c.Op == "shutdown+close" {
			go func() {
				if waitOr(cr.known, timeout+5*time.Second) {
					time.Sleep(time.Duration(c.DelayUs%7000) * time.Microsecond)
					closeOnce.Do(closeB)
				}
			}()
		}
	}

	// --- wait for the return ---
	switch {
	case len(c.Calls) > 0:
		out.Result = "calls"
	case c.Kind == "a":
		select {
		case e := <-cr.runRet():
			if cr.tracker != nil {
				out.OpenAt, out.BusyAt, _ = cr.tracker.state()
				out.HaveTrack = true
			}
			xr := cr.logRunRet()
			if cr.tracker != nil {
				// the sockets the success speaks about: used by the proxy (hence registered) when the run context was cancelled
				var l1, l2 []int
				out.OpenAt, l1 = cr.tracker.servedBefore(out.OpenAt, cr.begunAt)
				out.BusyAt, l2 = cr.tracker.servedBefore(out.BusyAt, cr.begunAt)
				out.LateIDs = append(l1, l2...)
				out.retWall = cr.log.t0.Add(xr.T)
			}
			close(runDone)
			out.Result = fmt.Sprintf("run:%v", e)
			if !errors.Is(e, context.Canceled) {
				cr.note("Run returned %v, want context.Canceled", e)
			}
			out.HaveRet = true
		case <-time.After(retLimit):
			cr.note("Run did not return within %v of the cancellation (shutdown timeout %v)", retLimit, timeout)
			out.Result = "run:hang"
			close(runDone)
		}
		if sigDone != nil {
			<-sigDone // no signal of this case may reach the next one
		}
		cr.setKnown()
		cr.setListenerClosed()
		cr.awaitGroup(out)
	case c.Op == "close":
		out.Result = "close-only"
	default:
		select {
		case e := <-shutRet:
			out.HaveRet = true
			out.IsNil = e == nil
			cr.log.AddRet(0, strings.SplitN(resOf(e), ":", 2)[0])
			switch {
			case e == nil:
				out.Result = "nil"
			case errors.Is(e, context.DeadlineExceeded):
				out.Result = "deadline"
			default:
				out.Result = "err:" + e.Error()
				cr.note("Shutdown returned %v: neither nil nor the context's error", e)
			}
		case <-time.After(retLimit):
			cr.note("Shutdown did not return within %v of the call (context deadline %v)", retLimit, timeout)
			out.Result = "hang"
		}
		cr.setKnown()
	}
	if c.Kind == "b" && !isClosed(cr.listenerClosed) {
		closeListenerB()
	}
	if c.Family == "runend" && out.HaveRet {
		// Run has returned: whatever ended the drain, nothing the listener accepted may be open
		for end := time.Now().Add(3 * time.Second); ; {
			out.Gauge = activeGauge(cr.reg)
			out.HaveGauge = out.Gauge >= 0
			if out.Gauge <= 0 || time.Now().After(end) {
				break
			}
			time.Sleep(20 * time.Millisecond)
		}
	}

	// --- Shutdown said nil: every connection that was being served must be closed already ---
	if c.Kind == "b" && out.IsNil {
		end := time.Now().Add(2 * time.Second)
		for _, cn := range cr.conns {
			if cn.sc.Phase == "late" {
				continue
			}
			// a client that is still reading (a large response to a slow reader: the proxy has written and
			// closed long ago, the bytes are in the kernel) is given the time to get to the end of it
			hard := time.Now().Add(20 * time.Second)
			for !cn.finishedOrClosed() && (time.Now().Before(end) || (cn.receiving() && time.Now().Before(hard))) {
				time.Sleep(2 * time.Millisecond)
			}
			if !cn.finishedOrClosed() {
				out.Unclosed = append(out.Unclosed, cn.k)
			}
		}
	}
	if c.Kind == "b" {
		if len(c.Calls) == 0 {
			closeOnce.Do(closeB)
		}
		select {
		case <-cr.serveRet:
		case <-time.After(3 * time.Second):
			cr.note("Serve did not return within 3s of the listener close")
		}
	}
	close(cr.finished)
	for _, cn := range cr.conns {
		select {
		case <-cn.done:
		case <-time.After(25 * time.Second):
			cr.note("script of conn %d did not finish", cn.k)
		}
	}
	if c.Kind == "a" && out.Result == "run:hang" {
		cr.hp.Stop()
	}
	if c.Kind == "b" {
		// every connection is gone now: the count of open connections must be back to zero, i.e. a
		// further Shutdown finds nothing to wait for
		// (a connection that Accept returned and whose handler has not had connsMu yet — the calls above may have followed each
		// other within microseconds — closes its socket as soon as it gets there: the clients' being gone does not mean that the
		// proxy's side is; what stays open beyond that is the last Shutdown's to report)
		cr.tracker.waitClosed(lateSlack + c.maxCloseLatency())
		var sc *Event
		if len(c.Calls) > 0 {
			// … entered into the history like every other call
			sc = cr.log.Add("SC", out.shutCalls, false, false)
		}
		ctx2, cancel2 := context.WithTimeout(context.Background(), 2500*time.Millisecond)
		e := cr.mp.Shutdown(ctx2)
		if e == nil {
			out.Final = "nil"
		} else {
			out.Final = e.Error()
		}
		if sc != nil {
			// every connection is gone and the counter is back to zero: what became of the sockets that were not closed
			// when a call of Close returned
			for _, o := range out.Calls {
				if o.Op == "close" && o.Ret && (o.OpenAt > 0 || o.BusyAt > 0) {
					o.Linger = cr.lingerOf(o)
				}
			}
			open := cr.tracker.snapshot()
			r := cr.log.AddRet(out.shutCalls, strings.SplitN(resOf(e), ":", 2)[0])
			out.Calls = append(out.Calls, &callObs{Op: "shutdown", N: out.shutCalls, CallAt: sc.T, RetAt: r.T, Ret: true, Result: resOf(e),
				OwnErr: e == ctx2.Err(), DoneAt: sc.T + 2500*time.Millisecond, OpenAt: len(open), OpenIDs: open})
		}
		cancel2()
	}
	if strayDone != nil {
		waitOr(strayDone, 5*time.Second)
	}
	if cr.tracker != nil {
		// what became of the sockets that were open at a return and that the call did not speak about (held.go)
		if len(out.LateIDs) > 0 {
			for end := time.Now().Add(lateSlack + 2*time.Second); time.Now().Before(end); {
				if open, busy, _ := cr.tracker.state(); !anyOf(out.LateIDs, open) && !anyOf(out.LateIDs, busy) {
					break
				}
				time.Sleep(10 * time.Millisecond)
			}
			out.Late = cr.lateOf(out.LateIDs, out.retWall, nil)
		}
		for _, o := range out.Calls {
			if len(o.LateIDs) > 0 {
				o.Late = cr.lateOf(o.LateIDs, cr.log.t0.Add(o.RetAt), out.Calls)
			}
		}
		if h := cr.tracker.hold; h != nil {
			if id, timedOut := h.heldID(); id >= 0 {
				h.mu.Lock()
				out.Held = &heldObs{Script: c.heldIndex(), ID: id, HeldFor: h.heldFor}
				h.mu.Unlock()
				cr.tracker.mu.Lock()
				_, out.Held.Read = cr.tracker.readAt[id]
				cr.tracker.mu.Unlock()
				if timedOut && out.Inconclusive == "" {
					out.Inconclusive = "accept-held-closing-not-known-in-time"
				}
			}
		}
	}
	out.StrayOrigin = int(cr.strayOrigin.Load())
	if n := cr.strayConns(); n > 0 {
		out.StrayConns = n
		if out.Inconclusive == "" {
			out.Inconclusive = "foreign-connection-on-the-proxy-listener"
		}
	}
	evs := cr.log.Snapshot()
	callOp := "SC"
	if c.Kind == "a" {
		callOp = c.beginOp()
	}
	switch {
	case len(c.Calls) > 0:
		n := 0
		for _, call := range c.Calls {
			if call.Op == "shutdown" {
				evs = withDeadline(evs, "SC", n, time.Duration(call.CtxMs)*time.Millisecond)
				n++
			}
		}
		evs = withDeadline(evs, "SC", n, 2500*time.Millisecond)
	case c.Op != "close":
		evs = withDeadline(evs, callOp, 0, timeout)
		if c.TimeoutMs == 0 && c.Kind == "a" {
			// configuration marker: shutdown timeout 0, the context run hands to Shutdown has no deadline
			evs = append([]*Event{{Op: "NL"}}, evs...)
		}
	}
	if c.Kind == "a" {
		// configuration marker: the SET ShutdownSignals (the defaults, SIGUSR1 in the family runend, the case's own —
		// possibly empty — set in the signal matrix)
		evs = append([]*Event{{Op: "SG", R: joinInts(cr.sigSet)}}, evs...)
		if c.Host == "group" {
			// … and how the proxy is hosted: a runctx.Group with that many companions, NotifySignals = that set
			evs = append([]*Event{{Op: "GC", K: len(c.MemberMs), R: joinInts(cr.sigSet)}}, evs...)
		}
	}
	out.History = evs
	if e := find(evs, callOp); e != nil {
		out.CallAt = e.T
	}
	if e := find(evs, "SR"); e != nil {
		out.RetAt = e.T
	} else if e := find(evs, "XR"); e != nil {
		out.RetAt = e.T
	}
	if e := firstConfigured(evs, cr.sigSet, c.beginOp() == "G"); e != nil && c.Kind == "a" {
		out.SignalAt = e.T
	}
	out.Foreign = int(cr.foreign.Load())
	cr.notesMu.Lock()
	out.Notes = append(out.Notes, cr.notes...)
	cr.notesMu.Unlock()
	return out, nil
}

func anyOf(ids, in []int) bool {
	for _, a := range ids {
		for _, b := range in {
			if a == b {
				return true
			}
		}
	}
	return false
}

// receiving: bytes arrived on the connection during the last 700 ms.
func (c *connRun) receiving() bool {
	return time.Since(time.Unix(0, c.lastRecv.Load())) < 700*time.Millisecond
}

func (c *connRun) finishedOrClosed() bool {
	c.mu.Lock()
	defer c.mu.Unlock()
	if c.closed || c.gone || c.refused {
		return true
	}
	select {
	case <-c.done:
		return true
	default:
		return false
	}
}

// ---- evaluation ----

// knownClass maps a failed clause to a recorded finding class, decided from the case and history. No class
// of C11 is open: F41 (connect-established-while-closing) is repaired, so a CONNECT that is answered 200
// and then closed without a usable tunnel is a violation like any other failed clause.
func knownClass(clause string) string {
	return ""
}

type caseDoc struct {
	Case    *Case    `json:"case"`
	Outcome *outcome `json:"observed,omitempty"`
}

func evaluate(ctx *core.Ctx, c *Case, out *outcome) {
	doc := caseDoc{Case: c, Outcome: out}
	h := wire(out.History)
	// 1. is the history a behaviour of the model?
	ans := ctx.Model.MustAsk("C11", "accept", h)
	out.Accept = ans
	switch {
	case strings.HasPrefix(ans, "accept"):
		ctx.TraceValidated()
	case strings.HasPrefix(ans, "inconclusive"):
		ctx.Count("acceptor/inconclusive")
	default:
		ctx.Disagree("observed history is a behaviour of Model/C11.lean (history acceptor)", doc, h, ans)
	}
	// 2. the property's clauses on the history
	hv := ctx.Model.MustAsk("C11", "holds", h)
	out.Holds = hv
	if hv != "true" {
		for _, f := range strings.Split(strings.TrimPrefix(hv, "false "), ",") {
			clause := f
			if i := strings.LastIndexByte(f, ':'); i >= 0 {
				clause = f[:i]
			}
			ctx.SpecFail(clause, knownClass(clause), doc, h, f)
		}
	}
	// 3. clauses that need the clock (generous one-sided bounds) or the socket state
	timeout := time.Duration(c.TimeoutMs) * time.Millisecond
	if c.TimeoutMs == 0 {
		timeout = 24 * time.Hour // no limit
	}
	for _, n := range out.Notes {
		ctx.SpecFail("harness observation: "+noteClause(n), "", doc, h, n)
	}
	if c.Kind == "b" && out.Final != "nil" && len(out.Notes) == 0 {
		ctx.SpecFail("the proxy's count of open connections returns to zero", "", doc, h,
			"after Close and after every client socket was closed, a further Shutdown(2.5s) returned: "+out.Final)
	}
	if out.Held != nil {
		ctx.Count("accept-held/" + c.Kind + "/" + c.Family)
		if out.Held.Read {
			ctx.SpecFail("connections accepted in the meantime are closed without service", "", doc, h,
				fmt.Sprintf("the proxy READ from socket %d (script %d), which the listener's Accept returned only once closing was known (held for %v)", out.Held.ID, out.Held.Script, out.Held.HeldFor))
		}
	}
	if len(out.Unclosed) > 0 {
		ctx.SpecFail("Shutdown reports success only once every connection that was being served has been closed", "", doc, h,
			fmt.Sprintf("Shutdown returned nil; connections %v were not closed 2s later (before Close)", out.Unclosed))
	}
	if len(c.Calls) > 0 {
		evaluateCalls(ctx, c, out, doc, h)
		return
	}
	if c.Family == "runend" && out.HaveRet {
		ctx.Count("runend/" + c.End + "/" + strings.SplitN(out.Result, ":", 2)[0])
		ctx.Count("runend/signals/a/" + c.sigLabel() + "/ended-by-" + c.End)
		if c.Host == "group" {
			begin := "cancellation"
			if c.Begin == "signal" {
				begin = "one-signal"
			}
			ctx.Count(fmt.Sprintf("group/requested-by-%s/ended-by-%s/companions=%d", begin, c.End, len(c.MemberMs)))
			if out.GroupRetAt > 0 {
				ctx.Count("group/run-context-returned")
			}
		}
		if out.HaveGauge && out.Gauge != 0 {
			ctx.SpecFail("the proxy's count of open connections always returns to zero", "", doc, h,
				fmt.Sprintf("Run returned (drain ended by %s); 3s later the listener's gauge of active connections is still %v", c.End, out.Gauge))
		}
		if !out.HaveGauge {
			ctx.Disagree("the listener's gauge of active connections can be read from the proxy's registry", doc, "not found", "listener_cx_active")
		}
		if out.HaveTrack {
			ctx.Count("runend/" + c.End + "/" + c.closeLabel())
			if len(out.LateIDs) > 0 {
				// accepted, not seen registered when the run context was cancelled: not what Run's success speaks about, but
				// closed without service as soon as their handlers can (held.go)
				ctx.Count("runend/late-sockets-at-return")
				if why := lateVerdict(out.Late); why != "" || len(out.Late) < len(out.LateIDs) {
					ctx.SpecFail("connections accepted in the meantime are closed without service", "", doc, h,
						fmt.Sprintf("Run returned %v after the cancellation with socket(s) %v open that the proxy had not used when the shutdown was requested; afterwards: %s",
							out.RetAt-out.CallAt, out.LateIDs, why))
				}
			}
			if out.Held != nil {
				held := false
				for _, l := range out.Late {
					held = held || l.Held
				}
				ctx.Count(fmt.Sprintf("runend/accept-held/open-at-the-return-of-run=%v/ended-by-%s", held, c.End))
			}
			if c.End == "drain" && find(out.History, "D") == nil && (len(out.OpenAt) > 0 || len(out.BusyAt) > 0) {
				// the drain ended by itself: Run returned because its Shutdown reported success
				ctx.SpecFail("Shutdown reports success only once every connection that was being served has been closed", "", doc, h,
					fmt.Sprintf("Run returned %v after the cancellation, the drain having ended by itself (shutdown timeout %v); at that moment the proxy had not called Close on accepted sockets %v (order of acceptance; sockets it had used — hence registered — when the shutdown was requested) and its Close of %v had begun and not returned",
						out.RetAt-out.CallAt, timeout, out.OpenAt, out.BusyAt))
			}
		}
		if c.End == "signal" && out.SignalAt > 0 && out.RetAt > out.SignalAt+8*time.Second {
			ctx.SpecFail("Shutdown otherwise returns the context's error", "", doc, h,
				fmt.Sprintf("the second shutdown signal was sent %v after the cancellation (and every 25 ms from then on); Run returned only %v after it", out.SignalAt-out.CallAt, out.RetAt-out.SignalAt))
		}
	}
	if c.Kind == "b" && out.HaveRet && !out.IsNil && out.RetAt < out.CallAt+timeout {
		ctx.SpecFail("Shutdown returns the context's error only when the context is done", "", doc, h,
			fmt.Sprintf("returned an error %v after the call, deadline %v", out.RetAt-out.CallAt, timeout))
	}
	if c.Op != "close" && out.HaveRet {
		// liveness: everything had finished well before the deadline => success
		finishedAt, all := allFinishedAt(c, out.History)
		forced := find(out.History, "CC")
		forcedEarly := forced != nil && forced.T < out.RetAt
		if c.Family == "runend" && c.End != "drain" {
			all = false // the drain of these cases is meant to be ended from outside
		}
		if all && !forcedEarly && finishedAt+1500*time.Millisecond < out.CallAt+timeout {
			if c.Kind == "b" && !out.IsNil {
				ctx.SpecFail("Shutdown reports success once every connection has finished (the counter returns to zero)", "", doc, h,
					fmt.Sprintf("all connections had finished %v after the call, Shutdown still returned the context's error at %v", finishedAt-out.CallAt, out.RetAt-out.CallAt))
			}
			if c.Kind == "a" && out.RetAt > out.CallAt+timeout-100*time.Millisecond {
				ctx.SpecFail("Shutdown reports success once every connection has finished (the counter returns to zero)", "", doc, h,
					fmt.Sprintf("all connections had finished %v after the cancel, Run returned only at %v (shutdown timeout %v)", finishedAt-out.CallAt, out.RetAt-out.CallAt, timeout))
			}
			if c.Kind == "a" && timeout >= 15*time.Second && out.RetAt > finishedAt+5*time.Second && out.RetAt > out.CallAt+5*time.Second {
				// no deadline, or a distant one: Shutdown polls the counter at least every 500 ms
				ctx.SpecFail("Shutdown reports success once every connection has finished (the counter returns to zero)", "", doc, h,
					fmt.Sprintf("all connections had finished %v after the cancel, Run returned only at %v (shutdown timeout %v)", finishedAt-out.CallAt, out.RetAt-out.CallAt, timeout))
			}
		}
	}
}

func noteClause(n string) string {
	switch {
	case strings.Contains(n, "still open 3s after a response with Connection: close"):
		return "the connection is closed after a response with Connection: close"
	case strings.Contains(n, "still open 3s after Close/Run returned"):
		return "after Close every accepted socket is closed"
	case strings.Contains(n, "did not return"):
		return "Shutdown / Run return"
	default:
		return "exchange anomaly"
	}
}

// allFinishedAt: the instant by which every connection had finished as far as the proxy can tell
// (socket seen closed, refused, or the client vanished and nothing was pending at the origin).
func allFinishedAt(c *Case, evs []*Event) (time.Duration, bool) {
	var max time.Duration
	for k := range c.Conns {
		if findK(evs, "c", k) == nil {
			continue // never connected
		}
		var at time.Duration
		if x := findK(evs, "x", k); x != nil {
			at = x.T
		} else if g := findK(evs, "g", k); g != nil {
			at = g.T
			if a := lastK(evs, "a", k); a != nil && a.T > at {
				at = a.T
			}
			if countK(evs, "o", k) > countK(evs, "a", k) && c.Conns[k].Phase != "tunnel" {
				return 0, false // the origin still holds a request of this connection: the proxy is waiting for it
			}
		} else {
			return 0, false
		}
		if at > max {
			max = at
		}
	}
	return max, true
}

func countK(evs []*Event, op string, k int) int {
	n := 0
	for _, e := range evs {
		if e.Op == op && e.K == k {
			n++
		}
	}
	return n
}

// ---- scenario entry points ----

func Run(ctx *core.Ctx) {
	ctx.SetRule("one case = one shutdown of one proxy instance (rig a: forwarder.HTTPProxy.Run cancelled; rig b: martian.Proxy Serve/Shutdown(ctx)/Close, " +
		"also Close alone and Close during Shutdown's wait) with 1-32 scripted connections in the phases accept / TLS hello withheld / idle / partial head / " +
		"request at a slow origin / response being written to a slow reader / CONNECT dial (completing before or during the shutdown) / tunnel, clients that vanish, requests and connections made after " +
		"closing is known; plain and TLS listeners; the shutdown placed when all scripts reached their phase (+0-60 ms) or racing their start (+0-10 ms); " +
		"plus the shutdown-timeout matrix {0 = no limit, shorter than the in-flight work, long} x {slow origin, large body to a slow reader, open tunnel} on rigs a, b " +
		"and on forwarder.HTTPServer (rig s); plus the late-dial family: CONNECT whose dial completes during the shutdown x rigs a, b x {direct, through an upstream proxy} x " +
		"tunnel ended by {client, target, shutdown deadline} with echo traffic through the tunnel during the shutdown; " +
		"plus control-call HISTORIES: on rig b 1-4 calls over {Shutdown(short ctx), Shutdown(long), Shutdown(no deadline), Shutdown(cancelled by its caller), Close}, one after " +
		"the other or overlapping, against connections in flight at the origin / idle keep-alive / in a tunnel / with a half-sent head that drain late or never, every call judged " +
		"(nil => every accepted socket already closed by the proxy; error => the call's own ctx.Err(), not before that context was done), a last Close and a last Shutdown appended; " +
		"the listener of these cases wraps every accepted connection and scripts how long the proxy's Close of it takes {returns at once, 50-400 ms, 650-900 ms (longer than Shutdown's longest polling interval)} and, " +
		"on TLS listeners, peers that do not take their close_notify (the record waits 650-1200 ms below crypto/tls): a nil is judged at the instant of the return — the Close of every served socket has COMPLETED, not merely begun " +
		"(crossed with plain / TLS / stalled TLS under histories that end in a success for certain; on rig a in the drains of Run that end by themselves, plain listeners); " +
		"every Close is judged at the instant of ITS return as the clause reads — every accepted socket closed, nothing open, nothing closing — with Close called while handlers tear their connections down " +
		"({plain, TLS} x {the socket's Close returns at once, takes 650-900 ms, TLS close_notify not taken}; on TLS listeners the known finding F53: crypto/tls answers Proxy.Close's second Close at once, so a socket whose " +
		"handler is inside tls.Conn.Close outlives Close — excused only when that handler closes it within what the connection's script explains, a VIOLATION in every other configuration); " +
		"on rig a the drain of Run ended by a second shutdown signal (SIGUSR1 to the child process), by the shutdown timeout, or by itself, with connections that do not drain: " +
		"after Run returned every accepted socket closed, the listener's active-connections gauge 0, nothing served any more; " +
		"plus the signal matrix on rigs a and s: configured ShutdownSignals {none, {SIGUSR1}, {SIGUSR1, SIGUSR2}} x signals delivered to the hosting process during the drain " +
		"{none, one of the set, SIGWINCH / SIGURG / SIGCHLD / an unconfigured SIGUSR, several, unconfigured then configured} with a 20 s shutdown timeout and work that outlasts the deliveries " +
		"(a signal outside the set ends nothing, one of the set ends the drain); " +
		"non-trivial = at least one connection is in a phase other than idle when the shutdown is placed; distinct = distinct case scripts")
	for _, raw := range core.LoadCorpus(ctx.Root, "C11") {
		Replay(ctx, raw)
	}
	n := ctx.N(84, 3000)
	workers := 10
	if !ctx.Quick() {
		workers = 12
	}
	jobs := make(chan *Case, workers)
	var wg sync.WaitGroup
	for w := 0; w < workers; w++ {
		wg.Add(1)
		go func() {
			defer wg.Done()
			var ch *child
			defer func() {
				if ch != nil {
					ch.stop()
				}
			}()
			for c := range jobs {
				ch = runAndEvaluate(ctx, c, ch)
			}
		}()
	}
	// development aid: VERIF_C11_ONLY=general,matrix,latedial,ctl,runend,micro restricts the run to some families
	// (the random stream of the others is still drawn, so the cases of a family are what they are in a full run)
	only := os.Getenv("VERIF_C11_ONLY")
	want := func(f string) bool { return only == "" || strings.Contains(","+only+",", ","+f+",") }
	send := func(f string, c *Case) {
		if want(f) {
			jobs <- c
		}
	}
	for i := 0; i < n; i++ {
		r := ctx.Rng.Sub()
		c := gen(r)
		// every sixth case also has a client that is not the case's at its origin (stray.go)
		c.Stray = i%6 == 5
		send("general", c)
	}
	// the shutdown-timeout matrix (matrix.go): {no limit, short, long} x {slow origin, slow reader, tunnel, mixes}
	// on rig a, a slice of it on rig b, and the API server (rig s); queued before the cheap race batches so
	// that its second-long cases overlap with them
	for i := 0; i < ctx.N(15, 150); i++ {
		send("matrix", genMatrix(ctx.Rng.Sub(), "a", i))
	}
	for i := 0; i < ctx.N(3, 45); i++ {
		send("matrix", genMatrix(ctx.Rng.Sub(), "b", i*4)) // i*4: class i%3, work set varies
	}
	for i := 0; i < ctx.N(6, 45); i++ {
		send("matrix", genServer(ctx.Rng.Sub(), i))
	}
	// the late-dial family (latedial.go): CONNECT whose dial completes during the shutdown, {a, b} x {direct,
	// upstream proxy} x {ended by client, target, deadline}
	for i := 0; i < ctx.N(24, 360); i++ {
		send("latedial", genLateDial(ctx.Rng.Sub(), i))
	}
	// control-call histories (ctl.go): sequences of Shutdown(short | long | no deadline | cancelled) / Close, sequential
	// and overlapping, on rig b; the drain of Run ended by a second signal / the timeout / by itself on rig a
	for i := 0; i < ctx.N(24, 400); i++ {
		send("ctl", genCtl(ctx.Rng.Sub(), i))
	}
	for i := 0; i < ctx.N(12, 144); i++ {
		send("runend", genRunEnd(ctx.Rng.Sub(), i))
	}
	// (the race batches are drawn here and queued last: the cases of a seed stay what they were)
	var micro []*Case
	for i := 0; i < ctx.N(32, 400); i++ {
		micro = append(micro, &Case{Kind: "c", Trials: 250, MicroSeed: ctx.Rng.U64()})
	}
	// the signal matrix (ctl.go): configured ShutdownSignals {none, {USR1}, {USR1, USR2}} x signals delivered to the
	// hosting process during the drain {none, configured, unconfigured, several} on rig a and on the API server (rig s)
	for i := 0; i < ctx.N(14, 168); i++ {
		send("runend", genRunSig(ctx.Rng.Sub(), i))
	}
	for i := 0; i < ctx.N(6, 48); i++ {
		send("runend", genServerSig(ctx.Rng.Sub(), i))
	}
	// the Close-latency cross (ctl.go genCtlClose; drawn after everything else): {Close returns at once, 50-400 ms,
	// 650-900 ms} x {plain, TLS, TLS with peers that do not take their close_notify} under histories that end in a success
	for j := 0; j < ctx.N(9, 162); j++ {
		send("ctl", genCtlClose(ctx.Rng.Sub(), j))
	}
	// Close called while handlers tear their connections down (ctl.go genCtlCloseDuring; drawn after everything else):
	// {plain, TLS} x {the teardown returns at once, takes 650-900 ms, TLS close_notify not taken}; F53 on the TLS listeners
	for j := 0; j < ctx.N(6, 108); j++ {
		send("ctl", genCtlCloseDuring(ctx.Rng.Sub(), j))
	}
	// the proxy hosted as command/run hosts it (group.go; drawn after everything that was there before): a runctx.Group
	// with companions, the shutdown requested by ONE real signal or by cancellation, the drain ended by itself / a second
	// signal / the timeout
	for i := 0; i < ctx.N(12, 144); i++ {
		send("runend", genGroup(ctx.Rng.Sub(), i))
	}
	for _, c := range micro {
		send("micro", c)
	}
	close(jobs)
	wg.Wait()
}

// runAndEvaluate runs the case in the given child process (started when nil) and returns the child
// to use next (nil when it died).
func runAndEvaluate(ctx *core.Ctx, c *Case, ch *child) *child {
	if c.Kind == "c" {
		return runMicroCase(ctx, c, ch)
	}
	if c.Kind == "s" {
		return runServerAndEvaluate(ctx, c, ch)
	}
	if c.Matrix != "" {
		ctx.Count("matrix/" + c.Kind + "/" + c.Matrix + "/" + c.workLabel())
	}
	if c.Family != "" {
		ctx.Count("family/" + c.Family + "/" + c.Kind + "/" + c.route())
	}
	if c.Family == "ctl" {
		var ls []string
		for _, call := range c.Calls {
			l := call.label()
			if call.Start == "par" {
				l = "||" + l
			}
			ls = append(ls, l)
		}
		ctx.Count("ctl/history/" + strings.Join(ls, ","))
		ctx.Count("ctl/" + c.closeLabel())
	}
	nontrivial := false
	for _, s := range c.Conns {
		if s.Phase != "idle" {
			nontrivial = true
		}
		ctx.Count("phase/" + s.Phase)
	}
	ctx.Case(c.key(), nontrivial)
	ctx.Count("rig/" + c.Kind + "/" + c.Op)
	ctx.Count("trigger/" + c.Trigger)
	ctx.Count(fmt.Sprintf("conns/%s", bucket(len(c.Conns))))
	if c.TLS {
		ctx.Count("listener/tls")
	} else {
		ctx.Count("listener/plain")
	}
	if ch == nil {
		var err error
		if ch, err = startChild(); err != nil {
			core.Fatalf("C11: cannot start the child process: %v", err)
		}
	}
	out, err, died, detail := ch.run(c)
	if !died && err == nil && out.Inconclusive != "" {
		// the harness could not carry out its own script (not the proxy's doing): once more, then give the case up
		ctx.Count("retried/inconclusive")
		out, err, died, detail = ch.run(c)
	}
	if died {
		ctx.Crash("the process survives a shutdown (no crash, no deadlock)", "", caseDoc{Case: c}, detail)
		return nil
	}
	if err != nil {
		ctx.Crash("proxy starts with a valid configuration", "", caseDoc{Case: c}, err.Error())
		return ch
	}
	if out.StrayOrigin > 0 {
		ctx.CountN("stray/requests-of-somebody-else-refused-by-the-origin", out.StrayOrigin)
	}
	if c.Stray {
		ctx.Count("stray/cases-with-a-foreign-client-at-the-origin")
	}
	if out.Inconclusive != "" {
		ctx.Count("inconclusive/" + out.Inconclusive)
		return ch
	}
	ctx.Count("result/" + c.Kind + "/" + strings.SplitN(out.Result, ":", 2)[0])
	if out.Foreign > 0 {
		ctx.CountN("late-dial/foreign-listener-on-reused-port", out.Foreign)
	}
	countPlacements(ctx, c, out)
	countLateDials(ctx, c, out.History)
	evaluate(ctx, c, out)
	ctx.Sample(caseDoc{Case: c, Outcome: out})
	return ch
}

// runServerAndEvaluate runs one API-server case (rig s) in the child and evaluates it.
func runServerAndEvaluate(ctx *core.Ctx, c *Case, ch *child) *child {
	if ch == nil {
		var err error
		if ch, err = startChild(); err != nil {
			core.Fatalf("C11: cannot start the child process: %v", err)
		}
	}
	ctx.Case(c.key(), true)
	ctx.Count("rig/s/cases")
	ctx.Count("matrix/s/" + c.Matrix + "/" + c.workLabel())
	rep, err, died, detail := ch.ask(c)
	if died {
		ctx.Crash("the process survives a shutdown (no crash, no deadlock)", "", caseDoc{Case: c}, detail)
		return nil
	}
	if err != nil || rep.Server == nil {
		ctx.Crash("API server starts with a valid configuration", "", caseDoc{Case: c}, fmt.Sprint(err))
		return ch
	}
	evaluateServer(ctx, c, rep.Server)
	ctx.Sample(map[string]any{"case": c, "observed": rep.Server})
	return ch
}

// runMicroCase runs a batch of accept/registration race trials and evaluates every distinct history.
func runMicroCase(ctx *core.Ctx, c *Case, ch *child) *child {
	if ch == nil {
		var err error
		if ch, err = startChild(); err != nil {
			core.Fatalf("C11: cannot start the child process: %v", err)
		}
	}
	ctx.Case(c.key(), true)
	ctx.Count("rig/c/batches")
	rep, err, died, detail := ch.ask(c)
	if died {
		ctx.Crash("the process survives a shutdown (no crash, no deadlock)", "", caseDoc{Case: c}, detail)
		return nil
	}
	if err != nil || rep.Micro == nil {
		ctx.Crash("race sampler runs", "", caseDoc{Case: c}, fmt.Sprint(err))
		return ch
	}
	mo := rep.Micro
	ctx.CountN("rig/c/trials", mo.Trials)
	doc := map[string]any{"case": c}
	for h, n := range mo.Histories {
		ctx.CountN("rig/c/history/"+shape(h), n)
		ans := ctx.Model.MustAsk("C11", "accept", h)
		if strings.HasPrefix(ans, "accept") {
			ctx.TraceValidated()
		} else if !strings.HasPrefix(ans, "inconclusive") {
			ctx.Disagree("observed history is a behaviour of Model/C11.lean (history acceptor)", doc, h, ans)
		}
		if hv := ctx.Model.MustAsk("C11", "holds", h); hv != "true" {
			for _, f := range strings.Split(strings.TrimPrefix(hv, "false "), ",") {
				clause := f
				if i := strings.LastIndexByte(f, ':'); i >= 0 {
					clause = f[:i]
				}
				ctx.SpecFail(clause, knownClass(clause), doc, h, f)
			}
		}
	}
	for note, h := range mo.Notes {
		clause := "after Close every accepted socket is closed"
		switch {
		case strings.Contains(note, "returned nil"):
			clause = "Shutdown reports success only once every connection that was being served has been closed"
		case strings.Contains(note, "further Shutdown"):
			clause = "the proxy's count of open connections returns to zero"
		}
		ctx.SpecFail(clause, "", doc, h, note)
	}
	return ch
}

// shape abbreviates a micro history for the histogram: which of request / response / close were seen
// and what Shutdown returned.
func shape(h string) string {
	s := ""
	if strings.Contains(h, "s:0") {
		s += "req,"
	} else {
		s += "silent,"
	}
	switch {
	case strings.Contains(h, "SR:0:n"):
		s += "nil"
	default:
		s += "deadline"
	}
	if strings.Contains(h, "R:0:1") {
		s += ",resp+close"
	} else if strings.Contains(h, "R:0:0") {
		s += ",resp"
	} else {
		s += ",no-resp"
	}
	return s
}

func bucket(n int) string {
	switch {
	case n == 1:
		return "1"
	case n <= 4:
		return "2-4"
	case n <= 8:
		return "5-8"
	case n <= 16:
		return "9-16"
	default:
		return "17-32"
	}
}

// countPlacements records, per connection, in which state the shutdown found it as far as the
// history tells (phase x what happened).
func countPlacements(ctx *core.Ctx, c *Case, out *outcome) {
	evs := out.History
	pos := func(e *Event) int {
		for i, x := range evs {
			if x == e {
				return i
			}
		}
		return -1
	}
	begin := -1
	for i, e := range evs {
		if e.Op == "SC" || e.Op == "X" || e.Op == "CC" || (e.Op == "G" && c.beginOp() == "G") {
			begin = i
			break
		}
	}
	for k, s := range c.Conns {
		what := "untouched"
		switch {
		case findK(evs, "r", k) != nil:
			what = "refused"
		case findK(evs, "c", k) == nil:
			what = "not-dialed"
		default:
			var lastR, lastO, lastS *Event
			lastR, lastO, lastS = lastK(evs, "R", k), lastK(evs, "o", k), lastK(evs, "s", k)
			switch {
			case lastO != nil && pos(lastO) < begin && (lastR == nil || pos(lastR) > begin) && lastK(evs, "R", k) != nil:
				what = "in-flight-completed"
				if lastR.A {
					what += "+close"
				}
			case lastO != nil && pos(lastO) < begin && lastR == nil:
				what = "in-flight-cut-or-vanished"
			case lastS != nil && pos(lastS) > begin && lastO != nil && pos(lastO) > pos(lastS):
				what = "sent-after-begin-served"
			case lastS != nil && pos(lastS) > begin:
				what = "sent-after-begin-dropped"
			case lastS != nil && lastO == nil:
				what = "sent-before-begin-dropped"
			case findK(evs, "g", k) != nil:
				what = "client-closed"
			case findK(evs, "x", k) != nil:
				what = "closed-idle"
			}
		}
		ctx.Count("placement/" + s.Phase + "/" + what)
	}
}

func Replay(ctx *core.Ctx, raw json.RawMessage) {
	var doc caseDoc
	if err := json.Unmarshal(raw, &doc); err != nil || doc.Case == nil {
		var c Case
		if err := json.Unmarshal(raw, &c); err != nil || c.Kind == "" {
			core.Fatalf("C11: unreadable case: %s", string(raw))
		}
		doc.Case = &c
	}
	reps := 1
	if doc.Case.Trigger == "race" {
		reps = 3 // schedule-dependent: sample the schedule a few times
	}
	var ch *child
	for i := 0; i < reps; i++ {
		ch = runAndEvaluate(ctx, doc.Case, ch)
	}
	if ch != nil {
		ch.stop()
	}
}
