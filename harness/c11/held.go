package c11

import (
	"fmt"
	"sort"
	"strings"
	"sync"
	"time"
)

// WHICH sockets a success of Shutdown (and a return of Close) speaks about, and the "accept held" placement.
//
// martian's Proxy.Shutdown takes connsMu at its start and HOLDS it until it returns; handleLoop registers a connection
// (conns map, connsWg.Add(1)) under connsMu as its first step. A connection that Accept returned just before the
// shutdown began, whose `go p.handleLoop(conn)` goroutine comes to connsMu.Lock() only after Shutdown took it, is not
// counted by the drain: Shutdown returns nil with that socket open; then the handler gets the mutex, registers, sees
// closing() and closes the socket without having read anything. The property's text has a place for it — "Shutdown reports
// success only once every connection that WAS BEING SERVED has finished and been closed (connections accepted in the
// meantime are closed without service)" — and so has the model (Theorems/C11.lean, section K:
// c11_shutdown_nil_open_socket_not_registered, c11_registered_before_drain_closed_at_nil,
// c11_registered_after_drain_began_never_served, c11_accept_held_witness). Under load the window between Accept's return
// and the handler's Lock is wide (correction 21: two alarms of the thorough tier on the unchanged tree).
//
// The judgement at the instant a call returns therefore speaks about the sockets that were REGISTERED WITH THE DRAIN
// when the call was issued. Registration itself cannot be seen from outside, but its consequence can, on the proxy's
// side of the socket: the handler USES a connection (Read, Write, a deadline) only after it has registered it. So
//
//	judged at the return   the sockets the proxy had used before the call was issued (connTracker.touched): every
//	                       one of them closed — its Close RETURNED — when Shutdown says nil / when Close returns;
//	the others             ("accepted in the meantime": accepted, not seen registered when the call was issued) must be
//	                       closed WITHOUT SERVICE soon after: their Close has returned within lateSlack (+ the scripted
//	                       latency of their Close) of the first instant after the return at which no control call is under
//	                       way (a later call holds the mutex the handler needs), nothing of them reaches an origin and
//	                       nothing is answered (clauses of the history), and — for the connection whose Accept the
//	                       listener HELD — the proxy never calls Read on it.
//
// The placement is made deterministically instead of being left to the load: ConnScript.AcceptHeld. The connection is
// dialled once every other script has reached its phase; the tracking listener keeps the Accept that delivers it from
// returning (Serve is inside Accept, the connection in hand) until the shutdown has begun and closing is KNOWN (a sentinel
// was closed without an answer: Shutdown / Close has taken connsMu and closed closeCh), then returns it: Serve starts the
// handler, which finds the mutex taken (or closing set). On the unchanged tree Shutdown / Run then returns its success
// while that socket is open, and it is closed right after, never served.
const lateSlack = 2 * time.Second

type acceptHold struct {
	mu       sync.Mutex
	armed    bool
	used     bool
	id       int           // the socket held (order of acceptance; -1: none so far)
	holding  chan struct{} // closed when an Accept is being held
	release  chan struct{} // closed by the driver's side: closing is known (caseRun.known)
	heldFor  time.Duration
	timedOut bool // closing did not become known within holdLimit: the connection was released all the same
}

const holdLimit = 12 * time.Second

func newAcceptHold(release chan struct{}) *acceptHold {
	return &acceptHold{id: -1, holding: make(chan struct{}), release: release}
}

func (h *acceptHold) arm() {
	h.mu.Lock()
	h.armed = true
	h.mu.Unlock()
}

// maybeHold is called by the listener's Accept with the connection in hand.
func (h *acceptHold) maybeHold(id int) {
	h.mu.Lock()
	if !h.armed || h.used {
		h.mu.Unlock()
		return
	}
	h.used, h.id = true, id
	h.mu.Unlock()
	close(h.holding)
	t0 := time.Now()
	if !waitOr(h.release, holdLimit) {
		h.mu.Lock()
		h.timedOut = true
		h.mu.Unlock()
	}
	h.mu.Lock()
	h.heldFor = time.Since(t0)
	h.mu.Unlock()
}

func (h *acceptHold) heldID() (id int, timedOut bool) {
	h.mu.Lock()
	defer h.mu.Unlock()
	return h.id, h.timedOut
}

// heldIndex: the script whose Accept is held (-1: none).
func (c *Case) heldIndex() int {
	for k, s := range c.Conns {
		if s.AcceptHeld {
			return k
		}
	}
	return -1
}

// addHeld adds the "accept held" connection to a case of the families ctl / runend (before the trailing late dial).
func addHeld(c *Case, after string, closeMs int) {
	s := ConnScript{Phase: "idle", After: after, AcceptHeld: true, CloseMs: closeMs}
	n := len(c.Conns)
	if n > 0 && c.Conns[n-1].Phase == "late" {
		c.Conns = append(c.Conns[:n-1], s, c.Conns[n-1])
		return
	}
	c.Conns = append(c.Conns, s)
}

// waitClosed waits until the proxy has closed every socket the listener handed out (its Close returned), at most d.
func (t *connTracker) waitClosed(d time.Duration) {
	for end := time.Now().Add(d); time.Now().Before(end); {
		t.mu.Lock()
		n := len(t.open) + len(t.busy)
		t.mu.Unlock()
		if n == 0 {
			return
		}
		time.Sleep(2 * time.Millisecond)
	}
}

// maxCloseLatency: the longest scripted teardown of a connection of the case.
func (c *Case) maxCloseLatency() time.Duration {
	m := 0
	for _, s := range c.Conns {
		if s.CloseMs+s.StallMs > m {
			m = s.CloseMs + s.StallMs
		}
	}
	return time.Duration(m) * time.Millisecond
}

// servedBefore splits ids into the sockets the proxy had used before t (registered with a drain that began at t)
// and the others.
func (t *connTracker) servedBefore(ids []int, at time.Time) (served, late []int) {
	t.mu.Lock()
	defer t.mu.Unlock()
	for _, id := range ids {
		if u, ok := t.touched[id]; ok && u.Before(at) {
			served = append(served, id)
		} else {
			late = append(late, id)
		}
	}
	return served, late
}

// lateObs is one accepted socket that was open (or closing) when a call returned and that the proxy had not used
// when the call was issued: a connection "accepted in the meantime".
type lateObs struct {
	ID          int           `json:"id"`                   // order of acceptance
	Script      int           `json:"script"`               // index of the connection's script (-1: not one of the case's)
	Held        bool          `json:"held,omitempty"`       // the connection whose Accept the listener held
	ClosedAfter time.Duration `json:"closed_after"`         // the proxy's Close of it returned this long after the return, not counting the time during which a later control call was under way (-1: never)
	Allowed     time.Duration `json:"allowed"`              // lateSlack + the scripted latency of its Close
	By          string        `json:"closed_by,omitempty"`  // "handler" | "close" | "other"
	ReadAfter   time.Duration `json:"read_after,omitempty"` // the proxy called Read on it (this long after the return; 0: never)
}

// lateOf: what became of the late sockets of a call that returned at ret. A handler that wants to register needs
// connsMu, which a control call holds for most of its duration: the time during which some call of the history was under
// way between the return and the close does not count.
func (cr *caseRun) lateOf(ids []int, ret time.Time, calls []*callObs) []lateObs {
	var out []lateObs
	hid := -1
	if cr.tracker.hold != nil {
		hid, _ = cr.tracker.hold.heldID()
	}
	for _, id := range ids {
		_, closed, _, by := cr.tracker.times(id)
		l := lateObs{ID: id, Script: cr.tracker.scriptOf(id), ClosedAfter: -1, By: by, Held: id == hid, Allowed: lateSlack}
		if l.Script >= 0 {
			sc := cr.c.Conns[l.Script]
			l.Allowed += time.Duration(sc.CloseMs+sc.StallMs) * time.Millisecond
		}
		if !closed.IsZero() {
			l.ClosedAfter = closed.Sub(ret) - cr.underCall(ret, closed, calls)
			if l.ClosedAfter < 0 {
				l.ClosedAfter = 0
			}
		}
		cr.tracker.mu.Lock()
		if r, ok := cr.tracker.readAt[id]; ok {
			if l.ReadAfter = r.Sub(ret); l.ReadAfter <= 0 {
				l.ReadAfter = 1
			}
		}
		cr.tracker.mu.Unlock()
		out = append(out, l)
	}
	sort.Slice(out, func(i, j int) bool { return out[i].ID < out[j].ID })
	return out
}

// underCall: for how long, between from and to, some control call of the history was under way.
func (cr *caseRun) underCall(from, to time.Time, calls []*callObs) time.Duration {
	type iv struct{ a, b time.Time }
	var ivs []iv
	for _, o := range calls {
		if o == nil {
			continue
		}
		a, b := cr.log.t0.Add(o.CallAt), to
		if o.Ret {
			b = cr.log.t0.Add(o.RetAt)
		}
		if a.Before(from) {
			a = from
		}
		if b.After(to) {
			b = to
		}
		if a.Before(b) {
			ivs = append(ivs, iv{a, b})
		}
	}
	sort.Slice(ivs, func(i, j int) bool { return ivs[i].a.Before(ivs[j].a) })
	var total time.Duration
	var end time.Time
	for _, v := range ivs {
		if v.a.After(end) {
			end = v.a
		}
		if v.b.After(end) {
			total += v.b.Sub(end)
			end = v.b
		}
	}
	return total
}

// lateVerdict: "" when every late socket was closed without service in time; else what is wrong.
func lateVerdict(ls []lateObs) string {
	var bad []string
	for _, l := range ls {
		switch {
		case l.ClosedAfter < 0:
			bad = append(bad, fmt.Sprintf("socket %d (script %d) was never closed by the proxy", l.ID, l.Script))
		case l.ClosedAfter > l.Allowed:
			bad = append(bad, fmt.Sprintf("socket %d (script %d) was closed only %v after the proxy could (allowed %v)", l.ID, l.Script, l.ClosedAfter, l.Allowed))
		}
		if l.Held && l.ReadAfter != 0 {
			bad = append(bad, fmt.Sprintf("socket %d (script %d): the proxy READ from the connection whose Accept returned only after closing was known", l.ID, l.Script))
		}
	}
	return strings.Join(bad, "; ")
}
