package c11

import (
	"context"
	"errors"
	"fmt"
	"io"
	"net"
	"sync"
	"time"

	"github.com/saucelabs/forwarder/internal/martian"
	"github.com/saucelabs/forwarder/verifharness/core"
)

// Rig "c": many tiny shutdowns of martian.Proxy over an in-memory listener, to sample the window
// between Accept, the registration of the connection (connsMu, conns, connsWg) and Shutdown taking the
// mutex: one connection is handed to Serve and Shutdown is called a few hundred nanoseconds to a few
// microseconds around that instant. Each trial yields a (short) history.

type memListener struct {
	ch     chan net.Conn
	closed chan struct{}
	once   sync.Once
}

func newMemListener() *memListener {
	return &memListener{ch: make(chan net.Conn), closed: make(chan struct{})}
}

func (l *memListener) Accept() (net.Conn, error) {
	select {
	case c := <-l.ch:
		return c, nil
	case <-l.closed:
		return nil, net.ErrClosed
	}
}

// offer hands a connection to Accept; when the listener is closed first the connection is reset, as
// the kernel does with a backlog.
func (l *memListener) offer(c net.Conn) {
	select {
	case l.ch <- c:
	case <-l.closed:
		c.Close()
	}
}

func (l *memListener) Close() error   { l.once.Do(func() { close(l.closed) }); return nil }
func (l *memListener) Addr() net.Addr { return &net.TCPAddr{IP: net.IPv4(127, 0, 0, 1), Port: 1} }

// microTrial is one shutdown. mode: 0 = hand over the connection, spin, call Shutdown;
// 1 = call Shutdown from another goroutine while handing over; withReq: a request is waiting.
func microTrial(mode int, spin int, withReq bool, timeout time.Duration) (evs []*Event, note string) {
	lg := newLog()
	p := &martian.Proxy{TestingSkipRoundTrip: true, IdleTimeout: time.Hour, ReadHeaderTimeout: time.Minute}
	l := newMemListener()
	serveRet := make(chan error, 1)
	go func() { serveRet <- p.Serve(l) }()
	cli, srv := net.Pipe()
	defer cli.Close()

	// the client: optionally writes a request, then reads until the proxy closes
	type obs struct {
		gotResp bool
		closeFl bool
		closed  bool
	}
	res := make(chan obs, 1)
	go func() {
		var o obs
		if withReq {
			cli.SetWriteDeadline(time.Now().Add(2 * time.Second))
			cli.Write([]byte("GET http://origin.test/0/0 HTTP/1.1\r\nHost: origin.test\r\n\r\n"))
		}
		cli.SetReadDeadline(time.Now().Add(timeout + 2*time.Second))
		buf := make([]byte, 4096)
		var all []byte
		for {
			n, err := cli.Read(buf)
			all = append(all, buf[:n]...)
			if err != nil {
				o.closed = errors.Is(err, io.EOF) || errors.Is(err, io.ErrClosedPipe)
				break
			}
		}
		if len(all) > 0 {
			o.gotResp = true
			o.closeFl = containsFold(all, "connection: close")
		}
		res <- o
	}()

	var serr error
	lg.Add("c", 0, false)
	if withReq {
		lg.Add("s", 0, false, false, true)
	}
	switch mode {
	case 0:
		l.offer(srv)
		for i := 0; i < spin; i++ {
			spinSink++
		}
		lg.Add("SC", 0)
		ctx, cancel := context.WithTimeout(context.Background(), timeout) // after SC: the deadline is not before SC+timeout
		serr = p.Shutdown(ctx)
		cancel()
	default:
		done := make(chan struct{})
		lg.Add("SC", 0)
		ctx, cancel := context.WithTimeout(context.Background(), timeout)
		defer cancel()
		go func() {
			for i := 0; i < spin; i++ {
				spinSink2++
			}
			serr = p.Shutdown(ctx)
			close(done)
		}()
		l.offer(srv)
		<-done
	}
	lg.AddRet(0, resOf(serr)[:1])
	if serr != nil && !errors.Is(serr, context.DeadlineExceeded) {
		note = fmt.Sprintf("Shutdown returned %v", serr)
	}
	if serr == nil {
		// success: the connection must be closed already (or never have been served)
		select {
		case o := <-res:
			if o.gotResp {
				lg.Add("R", 0, o.closeFl)
			}
			if o.closed {
				lg.Add("x", 0)
			}
			res <- o
		case <-time.After(1500 * time.Millisecond):
			note = "Shutdown returned nil; the connection was still open 1.5s later (before Close)"
		}
	}
	l.Close()
	lg.Add("L", 0)
	lg.Add("CC", 0)
	p.Close()
	lg.Add("CR", 0)
	select {
	case o := <-res:
		if serr != nil {
			if o.gotResp {
				lg.Add("R", 0, o.closeFl)
			}
			if o.closed {
				lg.Add("x", 0)
			}
		}
		if !o.closed && note == "" {
			note = "socket not closed after Close"
		}
	case <-time.After(3 * time.Second):
		if note == "" {
			note = "socket still open 3s after Close returned"
		}
	}
	select {
	case <-serveRet:
	case <-time.After(2 * time.Second):
		if note == "" {
			note = "Serve did not return"
		}
	}
	// the count of open connections is back to zero
	ctx2, cancel2 := context.WithTimeout(context.Background(), 1500*time.Millisecond)
	if e := p.Shutdown(ctx2); e != nil && note == "" {
		note = "a further Shutdown after everything was closed returned: " + e.Error()
	}
	cancel2()
	evs = lg.Snapshot()
	evs = withDeadline(evs, "SC", 0, timeout)
	return evs, note
}

var spinSink, spinSink2 int

func containsFold(b []byte, s string) bool {
	n := len(s)
	for i := 0; i+n <= len(b); i++ {
		ok := true
		for j := 0; j < n; j++ {
			c := b[i+j]
			if c >= 'A' && c <= 'Z' {
				c += 32
			}
			if c != s[j] {
				ok = false
				break
			}
		}
		if ok {
			return true
		}
	}
	return false
}

// microOutcome aggregates the trials of one batch by history.
type microOutcome struct {
	Histories map[string]int    `json:"histories"`       // wire history -> number of trials
	Notes     map[string]string `json:"notes,omitempty"` // note -> one history on which it was made
	Trials    int               `json:"trials"`
}

func runMicro(c *Case) *microOutcome {
	r := core.NewRand(c.MicroSeed)
	mo := &microOutcome{Histories: map[string]int{}, Notes: map[string]string{}}
	for i := 0; i < c.Trials; i++ {
		// mode 1 (Shutdown from a second goroutine, delayed by a short spin) is the one that lands
		// between Accept, the start of handleLoop and its registration
		mode := 1
		if r.Chance(20) {
			mode = 0
		}
		spin := core.Pick(r, []int{0, 30, 100, 300, 600, 1000, 1500, 2000, 3000, 4000, 6000, 8000, 12000, 16000})
		withReq := r.Chance(35)
		evs, note := microTrial(mode, spin, withReq, 15*time.Millisecond)
		w := wire(evs)
		mo.Histories[w]++
		if note != "" {
			if _, ok := mo.Notes[note]; !ok {
				mo.Notes[note] = w
			}
		}
		mo.Trials++
	}
	return mo
}
