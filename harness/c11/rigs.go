package c11

import (
	"bytes"
	"context"
	"crypto/tls"
	"fmt"
	"io"
	"net"
	"net/http"
	"net/url"
	"strconv"
	"strings"
	"sync"
	"sync/atomic"
	"time"

	"github.com/prometheus/client_golang/prometheus"
	"github.com/saucelabs/forwarder"
	"github.com/saucelabs/forwarder/internal/martian"
	"github.com/saucelabs/forwarder/verifharness/rig"
)

// caseRun is the running state of one case.
type caseRun struct {
	c   *Case
	log *Log
	// nonce makes the routed host names unique to this case: a late dial that reaches somebody else's
	// listener on a re-used port (another case, another process) cannot be routed to anybody's origin
	nonce   string
	foreign atomic.Int64 // late dials that connected to a listener that is not this case's proxy

	origin   *rig.Peer
	tunPeers map[int]*rig.Peer
	upstream *rig.Peer // scripted upstream HTTP proxy (Case.Upstream)
	conns    []*connRun

	// proxy under test
	addr     string
	hp       *rig.Proxy     // rig a
	mp       *martian.Proxy // rig b
	ln       net.Listener   // rig b (outer listener given to Serve)
	serveRet chan error     // rig b

	tracker *connTracker         // rig b, family ctl (and rig a, family runend, when Close latencies are scripted): the proxy's side of every accepted socket
	reg     *prometheus.Registry // rig a, family runend: the proxy's metrics
	sigSet  []int                // rig a: the ShutdownSignals the proxy runs with (numbers)

	dialMu         sync.RWMutex  // serialises client dials with the listener close / cancel
	begun          bool          // under dialMu: shutdown has been initiated
	trigger        chan struct{} // closed when the shutdown is about to be placed
	known          chan struct{} // closed when closing is certainly set
	knownOnce      sync.Once
	listenerClosed chan struct{} // closed when the listener is certainly closed
	lcOnce         sync.Once
	finished       chan struct{} // closed when Close / Run returned: scripts wind down

	notes   []string // anomalies seen by scripts (evaluated as spec failures)
	notesMu sync.Mutex

	begunAt time.Time     // rig a: when the shutdown was requested (just before the cancellation / the first signal)
	holdGo  chan struct{} // closed when the connection whose Accept is held (held.go) may be made

	// what is not the case's own (stray.go)
	strayOrigin atomic.Int64 // requests that reached the origin and do not carry this case's host name
	addrMu      sync.Mutex
	dialed      map[string]bool // local addresses of the case's own client sockets
	accepted    []string        // remote addresses of the sockets the proxy's listener accepted

	// Host "group" (group.go)
	runRetCh chan error    // what HTTPProxy.Run returned (the group's return is hp.Done())
	groupUp  chan struct{} // closed when the group's members have been started (its NotifyContext is registered)
	xrEvent  *Event
	xrMu     sync.Mutex
}

func (cr *caseRun) originHost() string   { return "origin-" + cr.nonce + ".test" }
func (cr *caseRun) tunHost(k int) string { return fmt.Sprintf("tun-%d-%s.test", k, cr.nonce) }
func (cr *caseRun) upHost() string       { return "up-" + cr.nonce + ".test" }

// tunIndex: the connection a tunnel host name of this case belongs to.
func (cr *caseRun) tunIndex(host string) (int, bool) {
	if !strings.HasPrefix(host, "tun-") || !strings.HasSuffix(host, "-"+cr.nonce+".test") {
		return 0, false
	}
	k, err := strconv.Atoi(strings.TrimSuffix(strings.TrimPrefix(host, "tun-"), "-"+cr.nonce+".test"))
	if err != nil || k < 0 || k >= len(cr.conns) || cr.tunPeers[k] == nil {
		return 0, false
	}
	return k, true
}

// dialArrived: the CONNECT of connection k has reached the place that completes its dial (the dial wrapper
// of rig b, the dial redirect of rig a, the scripted upstream proxy). Logs "the origin has it" (o), holds a
// "dial" connection back for DelayMs or until closing is known, logs "the origin answers" (a).
func (cr *caseRun) dialArrived(k int) {
	c := cr.conns[k]
	cr.log.Add("o", k)
	c.originGot(0)
	if c.sc.Phase == "dial" {
		if c.sc.Gate {
			waitOr(cr.known, 8*time.Second)
		} else {
			waitOr(cr.finished, time.Duration(c.sc.DelayMs)*time.Millisecond)
		}
	}
	cr.log.Add("a", k)
}

func (cr *caseRun) note(format string, a ...any) {
	cr.notesMu.Lock()
	cr.notes = append(cr.notes, fmt.Sprintf(format, a...))
	cr.notesMu.Unlock()
}

func (cr *caseRun) setKnown() {
	cr.knownOnce.Do(func() {
		cr.log.Add("K", 0)
		close(cr.known)
	})
}

func (cr *caseRun) setListenerClosed() { cr.lcOnce.Do(func() { close(cr.listenerClosed) }) }

// patience: how long a script waits to learn that closing is set before it gives up and leaves. With
// a shutdown that has no deadline (timeout matrix) Run returns only once every script has left.
func (cr *caseRun) patience() time.Duration {
	if cr.c.Matrix != "" || cr.c.Family != "" {
		return 6 * time.Second
	}
	return 20 * time.Second
}

func isClosed(ch chan struct{}) bool {
	select {
	case <-ch:
		return true
	default:
		return false
	}
}

// waitOr waits for ch, at most d; reports whether ch was closed.
func waitOr(ch chan struct{}, d time.Duration) bool {
	select {
	case <-ch:
		return true
	case <-time.After(d):
		return false
	}
}

var (
	caOnce sync.Once
	caLeaf tls.Certificate
	caErr  error
)

func serverCert() (tls.Certificate, error) {
	caOnce.Do(func() {
		ca, err := rig.NewCA("c11 test CA")
		if err != nil {
			caErr = err
			return
		}
		caLeaf, caErr = ca.ValidLeaf("127.0.0.1", "proxy.test")
	})
	return caLeaf, caErr
}

func bodyOf(k, n int) []byte {
	b := make([]byte, n)
	for i := range b {
		b[i] = byte('a' + (i*7+k)%26)
	}
	return b
}

// connOfTarget parses "/k/j" (origin-form or absolute-form).
func connOfTarget(t string) (k, j int, ok bool) {
	if i := strings.Index(t, "://"); i >= 0 {
		t = t[i+3:]
		if s := strings.IndexByte(t, '/'); s >= 0 {
			t = t[s:]
		}
	}
	parts := strings.Split(strings.Trim(t, "/"), "/")
	if len(parts) != 2 {
		return 0, 0, false
	}
	k, e1 := strconv.Atoi(parts[0])
	j, e2 := strconv.Atoi(parts[1])
	return k, j, e1 == nil && e2 == nil
}

// startOrigins starts the scripted HTTP origin and one raw echo peer per tunnel connection.
func (cr *caseRun) startOrigins() error {
	var err error
	cr.origin, err = rig.NewPeer("origin", func(w *rig.PeerConn, ex *rig.Exchange) bool {
		// a request is this case's only if it names this case's origin (the host name carries the case's nonce): the
		// port may have been somebody else's a moment ago, and that somebody's late dial — "GET http://origin-<their
		// nonce>.test/k/0" — must not be taken for a request of connection k of THIS case (stray.go)
		if !cr.ownRequest(ex.Req) {
			cr.strayOrigin.Add(1)
			w.Write([]byte("HTTP/1.1 421 Misdirected Request\r\nContent-Length: 0\r\nConnection: close\r\n\r\n"))
			return false
		}
		k, j, ok := connOfTarget(ex.Req.Target)
		if !ok || k >= len(cr.conns) {
			w.Write([]byte("HTTP/1.1 400 Bad Request\r\nContent-Length: 0\r\n\r\n"))
			return true
		}
		c := cr.conns[k]
		// … and it is request j of connection k only if that connection has sent a request j, once
		switch c.originSaw(j) {
		case sawUnsent:
			cr.note("conn %d: the origin received request %d of this connection (under this case's host name), which its client has not sent", k, j)
		case sawTwice:
			cr.note("conn %d: the origin received request %d of this connection a second time", k, j)
		}
		cr.log.Add("o", k)
		c.originGot(j)
		size := 64
		if c.sc.Phase == "origin" && j == c.flightIdx() {
			if c.sc.Park {
				waitOr(cr.finished, 60*time.Second) // never answered while the case runs
			} else if c.sc.Gate {
				waitOr(cr.known, 8*time.Second)
			} else {
				waitOr(cr.finished, time.Duration(c.sc.DelayMs)*time.Millisecond)
			}
		}
		if c.sc.Phase == "slowread" && j == c.flightIdx() {
			size = c.sc.BodyKB << 10
		}
		cr.log.Add("a", k)
		if c.sc.Phase == "origin" && c.sc.NoBody && j == c.flightIdx() {
			w.SetWriteDeadline(time.Now().Add(10 * time.Second))
			_, err := w.Write([]byte("HTTP/1.1 204 No Content\r\nX-Origin: c11\r\n\r\n"))
			return err == nil
		}
		head := rig.Head("HTTP/1.1 200 OK", []rig.Field{{Name: "Content-Length", Value: strconv.Itoa(size)}, {Name: "Content-Type", Value: "text/plain"}})
		w.SetWriteDeadline(time.Now().Add(10 * time.Second))
		if _, err := w.Write(append(head, bodyOf(k, size)...)); err != nil {
			return false
		}
		return true
	})
	if err != nil {
		return err
	}
	cr.tunPeers = map[int]*rig.Peer{}
	for k, sc := range cr.c.Conns {
		if sc.Phase != "tunnel" && sc.Phase != "dial" && sc.After != "connect" {
			continue
		}
		k := k
		p, err := rig.NewRawPeer(fmt.Sprintf("tun-%d", k), func(pc *rig.PeerConn) {
			c := cr.conns[k]
			// rig a: the client notes "the origin has it" when it reads the 200 (this goroutine may run
			// later than that); rig b: the dial wrapper logs o / a (it knows when the dial returns)
			go func() {
				<-c.originEnd
				pc.Close()
			}()
			buf := make([]byte, 4096)
			for {
				n, err := pc.Read(buf)
				if n > 0 {
					if _, werr := pc.Write(buf[:n]); werr != nil {
						return
					}
				}
				if err != nil {
					return
				}
			}
		})
		if err != nil {
			return err
		}
		cr.tunPeers[k] = p
	}
	return nil
}

// startUpstream starts the scripted upstream HTTP proxy: a CONNECT is dialled to its tunnel target, held
// back as dialArrived says, answered 200 and piped; a connection that starts with any other request is
// relayed to the origin byte for byte (the origin understands absolute-form targets).
func (cr *caseRun) startUpstream() error {
	p, err := rig.NewRawPeer("upstream", func(pc *rig.PeerConn) {
		b, err := pc.BR.Peek(8)
		if err != nil {
			return
		}
		if !bytes.HasPrefix(b, []byte("CONNECT ")) {
			up, err := net.DialTimeout("tcp", cr.origin.Addr, 5*time.Second)
			if err != nil {
				return
			}
			defer up.Close()
			relayBoth(pc, up)
			return
		}
		req, err := rig.ReadRequest(pc.BR)
		if err != nil || req == nil {
			return
		}
		host, _, _ := net.SplitHostPort(req.Target)
		k, ok := cr.tunIndex(host)
		if !ok {
			pc.Write(rig.Head("HTTP/1.1 502 Bad Gateway", []rig.Field{{Name: "Content-Length", Value: "0"}}))
			return
		}
		up, err := net.DialTimeout("tcp", cr.tunPeers[k].Addr, 5*time.Second)
		if err != nil {
			pc.Write(rig.Head("HTTP/1.1 502 Bad Gateway", []rig.Field{{Name: "Content-Length", Value: "0"}}))
			return
		}
		defer up.Close()
		cr.dialArrived(k)
		if _, err := pc.Write([]byte("HTTP/1.1 200 Connection established\r\n\r\n")); err != nil {
			return
		}
		relayBoth(pc, up)
	})
	if err != nil {
		return err
	}
	cr.upstream = p
	return nil
}

// relayBoth copies both ways between a scripted peer's connection (bytes already buffered included) and up
// until either direction ends, then closes both.
func relayBoth(pc *rig.PeerConn, up net.Conn) {
	done := make(chan struct{}, 2)
	go func() { io.Copy(up, pc.BR); done <- struct{}{} }()
	go func() { io.Copy(pc.Conn, up); done <- struct{}{} }()
	<-done
	up.Close()
	pc.Conn.Close()
	<-done
}

func (cr *caseRun) closeOrigins() {
	if cr.origin != nil {
		cr.origin.Close()
	}
	if cr.upstream != nil {
		cr.upstream.Close()
	}
	for _, p := range cr.tunPeers {
		p.Close()
	}
}

// startA starts the full forwarder proxy.
func (cr *caseRun) startA() error {
	routes := []forwarder.HostPortPair{rig.Route(cr.originHost(), "80", cr.origin.Addr)}
	for k, p := range cr.tunPeers {
		routes = append(routes, rig.Route(cr.tunHost(k), "443", p.Addr))
	}
	if cr.upstream != nil {
		routes = append(routes, rig.Route(cr.upHost(), "3128", cr.upstream.Addr))
	}
	redirect := forwarder.DialRedirectFromHostPortPairs(routes)
	var wrap func(net.Listener) net.Listener
	if cr.c.Family == "runend" && !cr.c.TLS && !cr.c.PP && (cr.c.closeScripted() || cr.c.heldIndex() >= 0) {
		// on top of the proxy's own listener: what martian serves (and closes) is the tracked connection
		cr.tracker = newConnTracker(cr.c.Conns)
		if cr.c.heldIndex() >= 0 {
			cr.tracker.hold = newAcceptHold(cr.known)
		}
		wrap = func(l net.Listener) net.Listener { return &trackListener{Listener: l, t: cr.tracker} }
	}
	var onAccept func(net.Conn)
	if !cr.c.PP {
		// whose connections the listener hands out (on a PROXY-protocol listener RemoteAddr waits for the header: not asked)
		onAccept = func(c net.Conn) { cr.noteAccepted(c.RemoteAddr().String()) }
	}
	p, err := rig.StartProxy(rig.ProxyOpts{
		ConnectTo:    routes,
		WrapListener: wrap,
		OnAccept:     onAccept,
		Host:         cr.groupHost(),
		Transport: func(tc *forwarder.HTTPTransportConfig) {
			// the dial of a "dial" connection's CONNECT is held back here (the redirect runs before the dialer
			// connects); with an upstream proxy the upstream proxy holds back its 200 instead
			tc.RedirectFunc = func(network, address string) (string, string) {
				if host, _, err := net.SplitHostPort(address); err == nil && cr.upstream == nil {
					if k, ok := cr.tunIndex(host); ok && cr.conns[k].sc.Phase == "dial" {
						cr.dialArrived(k)
					}
				}
				return redirect(network, address)
			}
		},
		Configure: func(cfg *forwarder.HTTPProxyConfig) {
			cfg.ShutdownTimeout = time.Duration(cr.c.TimeoutMs) * time.Millisecond
			if cr.upstream != nil {
				cfg.UpstreamProxy = rig.MustURL("http://" + cr.upHost() + ":3128")
			}
			if cr.c.PP {
				cfg.ProxyProtocolConfig = &forwarder.ProxyProtocolConfig{ReadHeaderTimeout: 1500 * time.Millisecond}
			}
			if cr.c.TLS {
				cfg.Protocol = forwarder.HTTPSScheme
				cfg.PromRegistry = prometheus.NewRegistry() // the certificate-expiry metric needs one
			}
			if cr.c.Family == "runend" {
				// the registry is read after Run returned
				cr.reg = prometheus.NewRegistry()
				cfg.PromRegistry = cr.reg
			}
			if set, ok := cr.c.sigCfg(); ok {
				// family runend: a second SIGUSR1 during the drain ends it; the signal matrix: the case's set, possibly empty
				cfg.ShutdownSignals = osSignals(set)
			}
			cr.sigSet = signalNumbers(cfg.ShutdownSignals)
		},
	})
	if err != nil {
		return err
	}
	cr.hp = p
	cr.addr = p.Addr
	return nil
}

// startB starts martian.Proxy on its own listener.
func (cr *caseRun) startB() error {
	base := &net.Dialer{Timeout: 5 * time.Second}
	dial := func(ctx context.Context, network, addr string) (net.Conn, error) {
		host, _, _ := net.SplitHostPort(addr)
		if host == cr.originHost() {
			return base.DialContext(ctx, "tcp", cr.origin.Addr)
		}
		if cr.upstream != nil && host == cr.upHost() {
			return base.DialContext(ctx, "tcp", cr.upstream.Addr)
		}
		if strings.HasPrefix(host, "tun-") && strings.HasSuffix(host, "-"+cr.nonce+".test") {
			k, ok := cr.tunIndex(host)
			if !ok {
				return nil, fmt.Errorf("no such tunnel target %q", addr)
			}
			conn, err := base.DialContext(ctx, "tcp", cr.tunPeers[k].Addr)
			if err != nil {
				return nil, err
			}
			cr.dialArrived(k)
			return conn, nil
		}
		return nil, fmt.Errorf("unroutable %q", addr)
	}
	tr := &http.Transport{DialContext: dial, MaxIdleConnsPerHost: 64, IdleConnTimeout: time.Minute}
	var proxyURL func(*http.Request) (*url.URL, error)
	if cr.upstream != nil {
		// martian.Proxy hands ProxyURL to its transport as well: plain requests and CONNECTs go the same way
		proxyURL = http.ProxyURL(rig.MustURL("http://" + cr.upHost() + ":3128"))
	}
	cr.mp = &martian.Proxy{
		ProxyURL:            proxyURL,
		RoundTripper:        tr,
		DialContext:         dial,
		IdleTimeout:         time.Hour,
		ReadHeaderTimeout:   time.Minute,
		TLSHandshakeTimeout: 10 * time.Second,
		AllowHTTP:           true,
	}
	l, err := net.Listen("tcp", "127.0.0.1:0")
	if err != nil {
		return err
	}
	cr.addr = l.Addr().String()
	cr.tracker = newConnTracker(cr.c.Conns)
	cr.tracker.tls = cr.c.TLS
	l = &addrListener{Listener: l, cr: cr}
	if cr.c.Family == "ctl" {
		// below TLS: martian looks for *tls.Conn at the top
		if cr.c.heldIndex() >= 0 {
			cr.tracker.hold = newAcceptHold(cr.known)
		}
		l = &trackListener{Listener: l, t: cr.tracker}
	}
	cr.ln = l
	if cr.c.TLS {
		cert, err := serverCert()
		if err != nil {
			l.Close()
			return err
		}
		cr.ln = tls.NewListener(l, &tls.Config{Certificates: []tls.Certificate{cert}})
	}
	cr.serveRet = make(chan error, 1)
	go func() { cr.serveRet <- cr.mp.Serve(cr.ln) }()
	return nil
}
