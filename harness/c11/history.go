package c11

import (
	"fmt"
	"strings"
	"sync"
	"time"
)

// Event is one entry of an observed history. Harness actions are logged BEFORE they are performed,
// observations AFTER they were made (see lean/FwdVerif/Driver/C11.lean).
type Event struct {
	Op   string        `json:"op"`          // c r h p s g a e o R t x L SC SR CC CR D Z G X XR K NL SG GC MR GR
	K    int           `json:"k,omitempty"` // connection; SC SR D Z: number of the Shutdown call; CC CR: number of the Close call; G: the signal's number
	A    bool          `json:"a,omitempty"` // c: tls   s: CONNECT   R: Connection: close   SC: the context has no deadline
	B    bool          `json:"b,omitempty"` // s: request carries Connection: close   SC: the context is cancelled by somebody
	C    bool          `json:"c,omitempty"` // s: the origin answers by itself (rig a CONNECT target)
	R    string        `json:"r,omitempty"` // SR: "n" nil | "d" context.DeadlineExceeded | "c" context.Canceled; SG: the configured signal numbers "10:12" ("" = none)
	T    time.Duration `json:"t_us"`        // since the start of the case (diagnostic; only the order is compared)
	skip bool
}

func (e *Event) wire() string {
	b := func(x bool) string {
		if x {
			return "1"
		}
		return "0"
	}
	switch e.Op {
	case "c":
		return fmt.Sprintf("c:%d:%s", e.K, b(e.A))
	case "s":
		return fmt.Sprintf("s:%d:%s:%s:%s", e.K, b(e.A), b(e.B), b(e.C))
	case "R":
		return fmt.Sprintf("R:%d:%s", e.K, b(e.A))
	case "SC":
		return fmt.Sprintf("SC:%d:%s:%s", e.K, b(e.A), b(e.B))
	case "SR":
		return fmt.Sprintf("SR:%d:%s", e.K, e.R)
	case "r", "h", "p", "g", "a", "e", "o", "x", "t", "CC", "CR", "D", "Z", "G", "MR":
		return fmt.Sprintf("%s:%d", e.Op, e.K)
	case "GC":
		if e.R == "" {
			return fmt.Sprintf("GC:%d", e.K)
		}
		return fmt.Sprintf("GC:%d:%s", e.K, e.R)
	case "SG":
		if e.R == "" {
			return "SG"
		}
		return "SG:" + e.R
	default:
		return e.Op
	}
}

// Log is the history of one case. The order of entries is the order of Add calls (one mutex), which
// is consistent with real time.
type Log struct {
	mu  sync.Mutex
	evs []*Event
	t0  time.Time
}

func newLog() *Log { return &Log{t0: time.Now()} }

func (l *Log) Add(op string, k int, flags ...bool) *Event {
	e := &Event{Op: op, K: k}
	if len(flags) > 0 {
		e.A = flags[0]
	}
	if len(flags) > 1 {
		e.B = flags[1]
	}
	if len(flags) > 2 {
		e.C = flags[2]
	}
	l.mu.Lock()
	e.T = time.Since(l.t0)
	l.evs = append(l.evs, e)
	l.mu.Unlock()
	return e
}

// Reserve takes a position now for an event whose kind is known later (a dial: connected / refused).
func (l *Log) Reserve() *Event {
	e := &Event{skip: true}
	l.mu.Lock()
	e.T = time.Since(l.t0)
	l.evs = append(l.evs, e)
	l.mu.Unlock()
	return e
}

func (l *Log) Fill(e *Event, op string, k int, a bool) {
	l.mu.Lock()
	e.Op, e.K, e.A, e.skip = op, k, a, false
	l.mu.Unlock()
}

// Snapshot returns the events recorded so far (placeholders left unfilled are dropped).
func (l *Log) Snapshot() []*Event {
	l.mu.Lock()
	defer l.mu.Unlock()
	out := make([]*Event, 0, len(l.evs))
	for _, e := range l.evs {
		if !e.skip {
			c := *e
			out = append(out, &c)
		}
	}
	return out
}

// AddRet records the return of call k of Shutdown: res is "n" (nil), "d" (DeadlineExceeded) or "c" (Canceled).
func (l *Log) AddRet(k int, res string) *Event {
	e := &Event{Op: "SR", K: k, R: res}
	l.mu.Lock()
	e.T = time.Since(l.t0)
	l.evs = append(l.evs, e)
	l.mu.Unlock()
	return e
}

// withDeadline inserts the D event of call k (its context may expire from here on) before the first
// event recorded at or after call+timeout, call being the first callOp event with that number. A Go timer
// never fires early, so everything recorded before that instant happened before the context expired.
func withDeadline(evs []*Event, callOp string, k int, timeout time.Duration) []*Event {
	var call *Event
	for _, e := range evs {
		if e.Op == callOp && (e.K == k || callOp == "X" || callOp == "G") {
			call = e
			break
		}
	}
	if call == nil || timeout <= 0 {
		return evs
	}
	at := call.T + timeout
	out := make([]*Event, 0, len(evs)+1)
	done := false
	for _, e := range evs {
		if !done && e.T >= at {
			out = append(out, &Event{Op: "D", K: k, T: at})
			done = true
		}
		out = append(out, e)
	}
	return out
}

func wire(evs []*Event) string {
	if len(evs) == 0 {
		return "~"
	}
	parts := make([]string, len(evs))
	for i, e := range evs {
		parts[i] = e.wire()
	}
	return strings.Join(parts, ",")
}

func find(evs []*Event, op string) *Event {
	for _, e := range evs {
		if e.Op == op {
			return e
		}
	}
	return nil
}

func findK(evs []*Event, op string, k int) *Event {
	for _, e := range evs {
		if e.Op == op && e.K == k {
			return e
		}
	}
	return nil
}

func lastK(evs []*Event, op string, k int) *Event {
	var r *Event
	for _, e := range evs {
		if e.Op == op && e.K == k {
			r = e
		}
	}
	return r
}
