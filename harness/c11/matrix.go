package c11

import (
	"strings"

	"github.com/saucelabs/forwarder/verifharness/core"
)

// The shutdown-timeout matrix: the configured shutdown timeout decides which context Run hands to
// Shutdown (shutdown.go shutdownContext: 0 = no deadline at all), and that context decides whether
// in-flight work is finished or cut. Every run crosses
//
//	class  none  = timeout 0 ("no limit": the context never expires; Model/C11.lean initNoLimit)
//	       short = 150-400 ms, shorter than every piece of in-flight work below
//	       long  = 20-40 s, longer than all of it
//	work   slow origin (answers 0.7-1.3 s after the request reached it), a large body to a slow reader
//	       (8 MiB at ~6 MiB/s), an open tunnel with echo traffic that goes on for 0.6-1 s
//
// on rig a (forwarder.HTTPProxy via Run's context), a few on rig b (martian.Proxy.Shutdown(ctx) with a
// context that is never done / short / long) and on rig s (forwarder.HTTPServer). Expected, and checked
// by the acceptor (Run returns without a deadline only after Shutdown found the counter at 0), the
// clauses of Driver/C11.lean on the history and the socket observations of the scripts:
//
//	none, long: every exchange whose request reached the origin completes in full, a tunnel lives until its
//	            client or origin ends it, and Run returns only after that;
//	short:      Run returns after the deadline having closed everything; nothing is cut before the deadline;
//	all:        a request first sent / a connection first made after closing is known is not served.
var matrixClasses = []string{"none", "short", "long"}

var matrixWork = [][]string{
	{"origin"},
	{"slowread"},
	{"tunnel"},
	{"origin", "slowread", "tunnel"},
	{"origin", "tunnel", "origin"},
}

func matrixTimeout(r *core.Rand, class string) int {
	switch class {
	case "none":
		return 0
	case "short":
		return r.Range(150, 400)
	default:
		return r.Range(20000, 40000)
	}
}

// genMatrix: the i-th case of the matrix for rig kind ("a" | "b").
func genMatrix(r *core.Rand, kind string, i int) *Case {
	class := matrixClasses[i%len(matrixClasses)]
	work := matrixWork[(i/len(matrixClasses))%len(matrixWork)]
	c := &Case{Kind: kind, Op: "shutdown", ListenerFirst: true, Trigger: "ready", Matrix: class,
		TimeoutMs: matrixTimeout(r, class), TLS: r.Chance(15), DelayUs: core.Pick(r, []int{0, 0, 1000, 20000})}
	// three sentinels (they probe 1, 26 and 51 ms after the shutdown was initiated): with no deadline the case
	// ends only once every script has learnt that closing is set
	for k := 0; k < 3; k++ {
		c.Conns = append(c.Conns, ConnScript{Phase: "idle", Sentinel: true, PreExchange: true})
	}
	for _, w := range work {
		s := ConnScript{Phase: w, After: core.Pick(r, []string{"send", "close"})}
		switch w {
		case "origin":
			s.DelayMs = r.Range(700, 1300)
			s.NoBody = r.Chance(25)
			s.ReqClose = r.Chance(15)
			s.PreExchange = r.Chance(30)
		case "slowread":
			s.BodyKB = 8192
			s.PauseMs = r.Range(8, 12)
		case "tunnel":
			s.HoldMs = r.Range(600, 1000)
			s.After = core.Pick(r, []string{"close", "oend"})
			if class == "short" && r.Chance(40) {
				s.After = "wait" // only the forced close ends it
			}
		}
		c.Conns = append(c.Conns, s)
	}
	if class == "short" {
		// a kept-alive connection that just stays: Shutdown does not close idle connections, so only the forced
		// close after the deadline ends it (Run returning at all shows that the deadline is honoured)
		c.Conns = append(c.Conns, ConnScript{Phase: "idle", After: "wait", PreExchange: r.Chance(50)})
	}
	// what must not be served: a request on a kept-alive connection and a connection, both made after closing is known
	c.Conns = append(c.Conns, ConnScript{Phase: "idle", After: "send", PreExchange: r.Chance(50)})
	c.Conns = append(c.Conns, ConnScript{Phase: "idle", After: "connect", PreExchange: r.Chance(50)})
	c.Conns = append(c.Conns, ConnScript{Phase: "late"})
	return c
}

// genServer: the i-th case of the matrix for the API server (rig s).
func genServer(r *core.Rand, i int) *Case {
	class := matrixClasses[i%len(matrixClasses)]
	c := &Case{Kind: "s", Op: "shutdown", Trigger: "ready", Matrix: class, TimeoutMs: matrixTimeout(r, class)}
	works := [][]string{{"origin", "slowread"}, {"origin"}, {"slowread", "origin"}}
	for _, w := range works[(i/len(matrixClasses))%len(works)] {
		s := ConnScript{Phase: w}
		if w == "origin" {
			s.DelayMs = r.Range(700, 1300)
		} else {
			s.BodyKB = 8192
			s.PauseMs = r.Range(8, 12)
		}
		c.Conns = append(c.Conns, s)
	}
	c.Conns = append(c.Conns, ConnScript{Phase: "idle", After: "send"}, ConnScript{Phase: "late"})
	return c
}

func (c *Case) workLabel() string {
	var w []string
	for _, s := range c.Conns {
		if (s.Phase == "origin" || s.Phase == "slowread" || s.Phase == "tunnel") && !s.Sentinel {
			w = append(w, s.Phase)
		}
	}
	return strings.Join(w, "+")
}
