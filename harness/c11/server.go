package c11

import (
	"bufio"
	"context"
	"fmt"
	"io"
	"net"
	"net/http"
	"strconv"
	"strings"
	"sync"
	"sync/atomic"
	"time"

	"github.com/saucelabs/forwarder"
	"github.com/saucelabs/forwarder/log"
	"github.com/saucelabs/forwarder/verifharness/core"
)

// Rig "s": forwarder.HTTPServer (the API server). Its Run builds the context of http.Server.Shutdown
// with the same shutdownContext as HTTPProxy.run, so the shutdown-timeout matrix applies to it
// unchanged: the handler plays the origin ("the request has reached its origin" = the handler was
// entered). net/http's server is not the transition system of Model/C11.lean, so the clauses are
// evaluated directly on what the clients saw (no history acceptor).

type srvConn struct {
	Phase       string        `json:"phase"`
	Entered     bool          `json:"entered,omitempty"`      // the handler was entered before Run's context was cancelled
	Status      int           `json:"status,omitempty"`       // of the in-flight exchange
	Got         int           `json:"got,omitempty"`          // body bytes received
	Want        int           `json:"want,omitempty"`         // body bytes the handler sends
	Complete    bool          `json:"complete,omitempty"`     // whole response received, byte for byte
	EndAt       time.Duration `json:"end_at_us,omitempty"`    // when the client saw the end of the exchange (complete or cut), since the cancel
	ClosedAfter bool          `json:"closed_after,omitempty"` // the server closed the socket after the exchange (within 3 s)
	Refused     bool          `json:"refused,omitempty"`      // late: the dial was refused
	Answered    bool          `json:"answered,omitempty"`     // idle / late: a request first sent after shutdown began was answered
	IdleClosed  bool          `json:"idle_closed,omitempty"`  // idle: the server closed the kept-alive connection
	Err         string        `json:"err,omitempty"`
}

type srvOutcome struct {
	Conns    []srvConn     `json:"conns"`
	Returned bool          `json:"run_returned"`
	RunErr   string        `json:"run_err,omitempty"`
	RunRetAt time.Duration `json:"run_ret_at_us"`       // since the cancel
	SigSet   []int         `json:"sig_set,omitempty"`   // the ShutdownSignals the server ran with (numbers)
	Sent     []int         `json:"sent,omitempty"`      // signals delivered to this process during the drain, in the order of their first delivery
	SigAt    time.Duration `json:"sig_at_us,omitempty"` // since the cancel: just before a signal of the configured set was first sent (0: none was)
	Notes    []string      `json:"notes,omitempty"`
}

const srvSmallBody = 4096

func srvBody(k, n int) []byte { return bodyOf(k, n) }

func runServerCase(c *Case) (*srvOutcome, error) {
	n := len(c.Conns)
	out := &srvOutcome{Conns: make([]srvConn, n)}
	entered := make([]chan struct{}, n)
	for k := range entered {
		entered[k] = make(chan struct{})
	}
	var enterOnce = make([]sync.Once, n)
	finished := make(chan struct{})

	h := http.HandlerFunc(func(w http.ResponseWriter, r *http.Request) {
		parts := strings.Split(strings.Trim(r.URL.Path, "/"), "/")
		if len(parts) != 2 {
			http.Error(w, "bad path", http.StatusBadRequest)
			return
		}
		k, err := strconv.Atoi(parts[1])
		if err != nil || k < 0 || k >= n {
			http.Error(w, "bad conn", http.StatusBadRequest)
			return
		}
		sc := &c.Conns[k]
		switch parts[0] {
		case "fast":
			w.Header().Set("Content-Length", "64")
			w.Write(srvBody(k, 64))
		case "work":
			enterOnce[k].Do(func() { close(entered[k]) })
			if sc.Phase == "slowread" {
				size := sc.BodyKB << 10
				w.Header().Set("Content-Length", strconv.Itoa(size))
				w.Write(srvBody(k, size)) // blocks while the client reads slowly
				return
			}
			// slow origin: half of the latency before the head, half between the two halves of the body
			b := srvBody(k, srvSmallBody)
			waitOr(finished, time.Duration(sc.DelayMs/2)*time.Millisecond)
			w.Header().Set("Content-Length", strconv.Itoa(len(b)))
			w.Write(b[:len(b)/2])
			if f, ok := w.(http.Flusher); ok {
				f.Flush()
			}
			waitOr(finished, time.Duration(sc.DelayMs-sc.DelayMs/2)*time.Millisecond)
			w.Write(b[len(b)/2:])
		default:
			http.Error(w, "bad verb", http.StatusBadRequest)
		}
	})

	cfg := forwarder.DefaultHTTPServerConfig()
	cfg.Address = "127.0.0.1:0"
	cfg.ShutdownTimeout = time.Duration(c.TimeoutMs) * time.Millisecond
	if set, ok := c.sigCfg(); ok {
		cfg.ShutdownSignals = osSignals(set) // the signal matrix: the case's set, possibly empty
	}
	out.SigSet = signalNumbers(cfg.ShutdownSignals)
	hs, err := forwarder.NewHTTPServer(cfg, h, log.NopLogger)
	if err != nil {
		return nil, fmt.Errorf("api server start: %w", err)
	}
	defer hs.Close()
	addr := hs.Addr()
	runCtx, cancel := context.WithCancel(context.Background())
	defer cancel()
	runRet := make(chan error, 1)
	go func() { runRet <- hs.Run(runCtx) }()

	var t0 time.Time // just before the cancel
	cancelled := make(chan struct{})
	runReturned := make(chan struct{})
	var wg sync.WaitGroup
	ready := make([]chan struct{}, n)
	for k := 0; k < n; k++ {
		ready[k] = make(chan struct{})
		wg.Add(1)
		go func(k int) {
			defer wg.Done()
			var once sync.Once
			markReady := func() { once.Do(func() { close(ready[k]) }) }
			defer markReady()
			o := &out.Conns[k]
			sc := &c.Conns[k]
			o.Phase = sc.Phase
			req := func(verb string) []byte {
				return []byte(fmt.Sprintf("GET /%s/%d HTTP/1.1\r\nHost: api.test\r\n\r\n", verb, k))
			}
			// probe: a request first sent after shutdown began on conn must not be answered
			probe := func(conn net.Conn, br *bufio.Reader) {
				conn.SetDeadline(time.Now().Add(3 * time.Second))
				conn.Write(req("fast"))
				if res, err := http.ReadResponse(br, nil); err == nil {
					io.Copy(io.Discard, res.Body)
					res.Body.Close()
					o.Answered = true
				}
			}
			if sc.Phase == "late" {
				markReady()
				<-runReturned // Serve has returned: the listener is certainly closed
				conn, err := net.DialTimeout("tcp", addr, 3*time.Second)
				if err != nil {
					o.Refused = true
					return
				}
				defer conn.Close()
				// (the port may have been taken by somebody else's listener: only an answer from this case's
				// handler counts, and it would carry this case's body)
				conn.SetDeadline(time.Now().Add(1500 * time.Millisecond))
				conn.Write(req("fast"))
				if res, err := http.ReadResponse(bufio.NewReader(conn), nil); err == nil {
					b, _ := io.ReadAll(res.Body)
					res.Body.Close()
					o.Answered = res.StatusCode == 200 && string(b) == string(srvBody(k, 64))
				}
				return
			}
			conn, err := net.DialTimeout("tcp", addr, 5*time.Second)
			if err != nil {
				o.Err = "dial: " + err.Error()
				return
			}
			defer conn.Close()
			if tc, ok := conn.(*net.TCPConn); ok && sc.Phase == "slowread" {
				tc.SetReadBuffer(32 << 10)
			}
			br := bufio.NewReaderSize(conn, 64<<10)
			switch sc.Phase {
			case "idle":
				conn.SetDeadline(time.Now().Add(5 * time.Second))
				conn.Write(req("fast"))
				res, err := http.ReadResponse(br, nil)
				if err != nil {
					o.Err = "pre-exchange: " + err.Error()
					return
				}
				io.Copy(io.Discard, res.Body)
				res.Body.Close()
				markReady()
				<-runReturned
				// Shutdown closes idle connections
				conn.SetReadDeadline(time.Now().Add(3 * time.Second))
				if _, err := br.Peek(1); err != nil {
					if ne, ok := err.(net.Error); !ok || !ne.Timeout() {
						o.IdleClosed = true
						return
					}
				}
				probe(conn, br)
			default: // origin, slowread
				o.Want = srvSmallBody
				if sc.Phase == "slowread" {
					o.Want = sc.BodyKB << 10
				}
				conn.SetWriteDeadline(time.Now().Add(5 * time.Second))
				conn.Write(req("work"))
				if !waitOr(entered[k], 8*time.Second) {
					o.Err = "the handler was not entered within 8s"
					return
				}
				o.Entered = true
				markReady()
				<-cancelled
				var rd io.Reader = br
				if sc.Phase == "slowread" {
					var mark atomic.Int64
					rd = &slowReader{r: br, chunk: 64 << 10, pause: time.Duration(max(sc.PauseMs, 2)) * time.Millisecond, mark: &mark, perChunk: true}
				}
				conn.SetReadDeadline(time.Now().Add(time.Duration(c.TimeoutMs)*time.Millisecond + 30*time.Second))
				res, err := http.ReadResponse(bufio.NewReaderSize(rd, 64<<10), nil)
				if err != nil {
					o.EndAt = time.Since(t0)
					o.Err = "head: " + err.Error()
					return
				}
				o.Status = res.StatusCode
				b, err := io.ReadAll(res.Body)
				res.Body.Close()
				o.EndAt = time.Since(t0)
				o.Got = len(b)
				if err != nil {
					o.Err = "body: " + err.Error()
					return
				}
				o.Complete = res.StatusCode == 200 && string(b) == string(srvBody(k, o.Want))
				// the exchange is over: the server closes the connection (it is shutting down)
				conn.SetReadDeadline(time.Now().Add(3 * time.Second))
				if _, err := br.Peek(1); err != nil {
					if ne, ok := err.(net.Error); !ok || !ne.Timeout() {
						o.ClosedAfter = true
					}
				}
			}
		}(k)
	}
	dl := time.After(12 * time.Second)
	for k := 0; k < n; k++ {
		select {
		case <-ready[k]:
		case <-dl:
			out.Notes = append(out.Notes, fmt.Sprintf("conn %d did not reach its phase (%s) within 12s", k, c.Conns[k].Phase))
		}
	}
	time.Sleep(time.Duration(c.DelayUs) * time.Microsecond)
	t0 = time.Now()
	close(cancelled)
	cancel()
	clientsDone := make(chan struct{})
	go func() { wg.Wait(); close(clientsDone) }()
	var sigDone chan struct{}
	if steps := c.deliveries(); len(steps) > 0 {
		// signals to this process while the server drains; they stop once every client has seen the end of its exchange
		sigDone = make(chan struct{})
		var mu sync.Mutex
		go func() {
			defer close(sigDone)
			deliverSignals(steps, out.SigSet, clientsDone, func(sig int) {
				mu.Lock()
				defer mu.Unlock()
				out.Sent = append(out.Sent, sig)
				if hasInt(out.SigSet, sig) && out.SigAt == 0 {
					out.SigAt = time.Since(t0) + 1
				}
			})
		}()
	}
	limit := time.Duration(c.TimeoutMs)*time.Millisecond + 8*time.Second
	if c.TimeoutMs == 0 {
		limit = 30 * time.Second
	}
	select {
	case e := <-runRet:
		out.Returned = true
		out.RunRetAt = time.Since(t0)
		if e != nil {
			out.RunErr = e.Error()
		}
	case <-time.After(limit):
		out.Notes = append(out.Notes, fmt.Sprintf("Run did not return within %v of the cancellation", limit))
	}
	close(runReturned)
	select {
	case <-clientsDone:
	case <-time.After(limit + 30*time.Second):
		out.Notes = append(out.Notes, "client scripts did not finish")
	}
	if sigDone != nil {
		select {
		case <-sigDone: // no signal of this case may reach the next one
		case <-time.After(25 * time.Second):
		}
	}
	close(finished)
	return out, nil
}

// evaluateServer: the clauses of the property on what the clients of the API server saw.
func evaluateServer(ctx *core.Ctx, c *Case, out *srvOutcome) {
	doc := map[string]any{"case": c, "observed": out}
	timeout := time.Duration(c.TimeoutMs) * time.Millisecond
	impl := fmt.Sprintf("forwarder.HTTPServer, shutdown timeout %v (%s)", timeout, c.Matrix)
	for _, n := range out.Notes {
		ctx.SpecFail("harness observation: "+noteClause(n), "", doc, impl, n)
	}
	if c.SigCase {
		ctx.Count("runend/signals/s/" + c.sigLabel() + "/ended-by-" + c.End)
	}
	for k, o := range out.Conns {
		switch o.Phase {
		case "origin", "slowread":
			if !o.Entered {
				ctx.Count("rig/s/in-flight/not-entered")
				continue
			}
			switch {
			case o.Complete:
				ctx.Count("rig/s/in-flight/" + c.Matrix + "/completed")
				if !o.ClosedAfter {
					ctx.SpecFail("the connection is closed after the in-flight exchange completed", "", doc, impl,
						fmt.Sprintf("API server conn %d (%s): response complete, socket still open 3s later", k, o.Phase))
				}
			case c.TimeoutMs > 0 && o.EndAt >= timeout:
				ctx.Count("rig/s/in-flight/" + c.Matrix + "/cut-after-deadline") // the excused path
			case out.SigAt > 0 && o.EndAt >= out.SigAt:
				ctx.Count("rig/s/in-flight/" + c.Matrix + "/cut-after-configured-signal") // the other excused path: a second shutdown signal
				if o.EndAt > out.SigAt+8*time.Second {
					ctx.SpecFail("Shutdown otherwise returns the context's error", "", doc, impl,
						fmt.Sprintf("API server conn %d (%s): a signal of the configured set %v was sent %v after the cancel (and every 25 ms from then on); the exchange was cut only %v after that",
							k, o.Phase, out.SigSet, out.SigAt, o.EndAt-out.SigAt))
				}
			default:
				ctx.SpecFail("exchange-at-origin-before-shutdown-did-not-complete", "", doc, impl,
					fmt.Sprintf("API server conn %d (%s): handler entered before the cancel; the response was cut %v after the cancel (status %d, %d of %d body bytes, %s) although the shutdown timeout is %s%s",
						k, o.Phase, o.EndAt, o.Status, o.Got, o.Want, o.Err, timeoutText(c), sigText(out)))
			}
			if out.Returned && o.EndAt > out.RunRetAt {
				// HTTPServer.Run returns as soon as Serve does (http.ErrServerClosed), not waiting for its own
				// Shutdown goroutine: recorded, not judged (C11 is stated for the proxy)
				ctx.Count("rig/s/run-returned-before-in-flight-exchange-ended")
			}
		case "idle":
			if o.Answered {
				ctx.SpecFail("request-first-sent-after-shutdown-began-was-forwarded", "", doc, impl,
					fmt.Sprintf("API server conn %d: a request sent on a kept-alive connection after Run returned was answered", k))
			}
			if o.IdleClosed {
				ctx.Count("rig/s/idle/closed")
			}
		case "late":
			if o.Answered {
				ctx.SpecFail("connection-made-after-shutdown-began-was-served", "", doc, impl,
					fmt.Sprintf("API server conn %d: a connection made after Run returned was served", k))
			}
			if o.Refused {
				ctx.Count("rig/s/late/refused")
			}
		}
	}
}

// sigText: what the case did with signals, for the detail of a finding.
func sigText(out *srvOutcome) string {
	if len(out.Sent) == 0 {
		return ""
	}
	if out.SigAt > 0 {
		return fmt.Sprintf(" and no signal of the configured set %v had been sent before (delivered: %v, the first configured one %v after the cancel)", out.SigSet, out.Sent, out.SigAt)
	}
	return fmt.Sprintf(" and none of the signals delivered to the process during the drain (%v) is in the configured set ShutdownSignals = %v", out.Sent, out.SigSet)
}

// genServerSig: the i-th case of the signal matrix for the API server (rig s): same shutdownContext, same sets.
func genServerSig(r *core.Rand, i int) *Case {
	cells := []int{0, 1, 2, 3, 4, 5, 7, 8, 12, 13}
	m := sigMatrix[cells[i%len(cells)]]
	c := &Case{Kind: "s", Op: "shutdown", Trigger: "ready", Matrix: "long", Family: "runend", SigCase: true, Signals: m.cfg,
		TimeoutMs: r.Range(20000, 30000), DelayUs: core.Pick(r, []int{0, 0, 1000, 20000})}
	at := r.Range(60, 200)
	for _, s := range m.unconf {
		c.Deliver = append(c.Deliver, SigStep{Sig: s, AtMs: at})
		at += r.Range(0, 60)
	}
	delay := r.Range(700, 1300) // outlasts the first deliveries by far; completes
	if len(m.conf) > 0 {
		c.End = "signal"
		c.SignalMs = r.Range(80, 400)
		if len(m.unconf) > 0 {
			c.SignalMs = at + r.Range(300, 500)
		}
		for j, s := range m.conf {
			c.Deliver = append(c.Deliver, SigStep{Sig: s, AtMs: c.SignalMs + 30*j})
		}
		delay = 2*c.SignalMs + 6000 // still in flight when the configured signal comes: cut then, not before
	} else {
		c.End = "drain"
	}
	works := [][]string{{"origin"}, {"origin", "origin"}, {"origin", "slowread"}}
	for _, w := range works[(i/2)%len(works)] {
		s := ConnScript{Phase: w}
		if w == "origin" {
			s.DelayMs = delay
		} else {
			s.BodyKB = 8192
			s.PauseMs = r.Range(8, 12)
		}
		c.Conns = append(c.Conns, s)
	}
	c.Conns = append(c.Conns, ConnScript{Phase: "idle", After: "send"}, ConnScript{Phase: "late"})
	return c
}

func timeoutText(c *Case) string {
	if c.TimeoutMs == 0 {
		return "0 = no limit"
	}
	return (time.Duration(c.TimeoutMs) * time.Millisecond).String()
}
