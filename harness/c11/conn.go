package c11

import (
	"bufio"
	"bytes"
	"crypto/tls"
	"errors"
	"fmt"
	"io"
	"net"
	"strings"
	"sync"
	"sync/atomic"
	"time"

	"github.com/saucelabs/forwarder/verifharness/rig"
)

// connRun runs one ConnScript.
type connRun struct {
	cr *caseRun
	k  int
	sc *ConnScript

	cl        *rig.Client
	ready     chan struct{}
	readyOnce sync.Once
	done      chan struct{}
	originEnd chan struct{}
	oeOnce    sync.Once
	originCh  chan int

	lastRecv atomic.Int64 // unix nanos of the last bytes read by a slow reader

	sent     atomic.Int32 // requests whose send has been logged (incremented before the first byte is written)
	atOrigin map[int]bool // under mu: the request indices the origin has seen (stray.go)

	mu      sync.Mutex
	reqs    int  // requests sent
	closed  bool // proxy-side closure observed (x logged)
	gone    bool // client closed (g logged)
	refused bool
}

func newConnRun(cr *caseRun, k int) *connRun {
	return &connRun{cr: cr, k: k, sc: &cr.c.Conns[k], ready: make(chan struct{}), done: make(chan struct{}),
		originEnd: make(chan struct{}), originCh: make(chan int, 16)}
}

func (c *connRun) markReady() { c.readyOnce.Do(func() { close(c.ready) }) }

func (c *connRun) endOrigin() { c.oeOnce.Do(func() { close(c.originEnd) }) }

// flightIdx is the index of the request that is in flight when the shutdown is aimed.
func (c *connRun) flightIdx() int {
	if c.sc.PreExchange {
		return 1
	}
	return 0
}

func (c *connRun) originGot(j int) {
	select {
	case c.originCh <- j:
	default:
	}
}

const (
	stData = iota
	stClosed
	stTimeout
	stStopped
)

// awaitByte waits until the proxy sent something (stData), closed the connection (stClosed), total
// elapsed (stTimeout) or stop was closed (stStopped).
func (c *connRun) awaitByte(total time.Duration, stop chan struct{}) int {
	end := time.Now().Add(total)
	for {
		c.cl.Conn.SetReadDeadline(time.Now().Add(25 * time.Millisecond))
		_, err := c.cl.BR.Peek(1)
		c.cl.Conn.SetReadDeadline(time.Time{})
		if err == nil {
			return stData
		}
		var ne net.Error
		if errors.As(err, &ne) && ne.Timeout() {
			if stop != nil && isClosed(stop) {
				return stStopped
			}
			if time.Now().After(end) {
				return stTimeout
			}
			continue
		}
		return stClosed
	}
}

func (c *connRun) sawClosed() {
	c.mu.Lock()
	defer c.mu.Unlock()
	if !c.closed && !c.gone {
		c.closed = true
		c.cr.log.Add("x", c.k)
	}
}

func (c *connRun) vanish() {
	c.mu.Lock()
	defer c.mu.Unlock()
	if c.cl != nil && !c.gone && !c.closed {
		c.gone = true
		c.cr.log.Add("g", c.k)
		c.cl.Conn.Close()
	}
}

func (c *connRun) isGone() bool {
	c.mu.Lock()
	defer c.mu.Unlock()
	return c.gone
}

// dial connects to the proxy. Early dials are serialised with the initiation of the shutdown (they
// happen entirely before it); a dial that comes too late for that waits until the listener is known
// to be closed.
func (c *connRun) dial(late bool) bool {
	cr := c.cr
	var ph *Event
	var conn net.Conn
	var err error
	if !late {
		cr.dialMu.RLock()
		if cr.begun {
			cr.dialMu.RUnlock()
			late = true
		} else {
			ph = cr.log.Reserve()
			conn, err = net.DialTimeout("tcp", cr.addr, 5*time.Second)
			cr.dialMu.RUnlock()
		}
	}
	if late && ph == nil {
		if !waitOr(cr.listenerClosed, 12*time.Second) {
			return false
		}
		return c.lateDial()
	}
	if err != nil {
		c.refused = true
		cr.log.Add("r", c.k)
		return false
	}
	if tc, ok := conn.(*net.TCPConn); ok && c.sc.Phase == "slowread" {
		tc.SetReadBuffer(32 << 10)
	}
	cr.log.Fill(ph, "c", c.k, cr.c.TLS)
	cr.noteDial(conn.LocalAddr().String())
	if cr.tracker != nil {
		cr.tracker.bind(conn.LocalAddr().String(), c.k) // what is scripted for the proxy's end of this socket
	}
	c.cl = &rig.Client{Conn: conn, BR: bufio.NewReaderSize(conn, 64<<10)}
	if cr.c.PP && c.sc.Phase != "pphello" {
		c.proxyHeader()
	}
	return true
}

// lateDial dials after the listener is known to be closed. The expected outcome is a refusal. The port
// may have been taken by somebody else's listener in the meantime (ephemeral ports are re-used across
// processes), so a dial that connects is entered into the history only once this case's own origin has
// seen a request through it (only this case's proxy routes the case's host names); otherwise the
// connection is dropped at once and counted as foreign.
func (c *connRun) lateDial() bool {
	cr := c.cr
	phC := cr.log.Reserve()
	conn, err := net.DialTimeout("tcp", cr.addr, 5*time.Second)
	if err != nil {
		c.refused = true
		cr.log.Add("r", c.k)
		return false
	}
	cr.noteDial(conn.LocalAddr().String())
	defer func() {
		if c.cl == nil {
			conn.Close()
		}
	}()
	conn.SetDeadline(time.Now().Add(4 * time.Second))
	var phH *Event
	rw := conn
	if cr.c.PP {
		fmt.Fprintf(conn, "PROXY TCP4 127.0.0.1 127.0.0.1 40000 3128\r\n")
	}
	if cr.c.TLS {
		phH = cr.log.Reserve()
		tc := tls.Client(conn, &tls.Config{InsecureSkipVerify: true, ServerName: "proxy.test"})
		if err := tc.Handshake(); err != nil {
			cr.foreign.Add(1)
			return false
		}
		rw = tc
	}
	phS := cr.log.Reserve()
	c.sent.Add(1)
	rw.Write(c.requestBytes(false, false))
	select {
	case <-c.originCh:
		// this case's proxy served a connection made after its listener was closed: keep everything
		cr.log.Fill(phC, "c", c.k, cr.c.TLS)
		if phH != nil {
			cr.log.Fill(phH, "h", c.k, false)
		}
		cr.log.Fill(phS, "s", c.k, false)
		c.reqs++
		rw.SetDeadline(time.Time{})
		c.cl = &rig.Client{Conn: rw, BR: bufio.NewReaderSize(rw, 64<<10)}
		if got, cl := c.expectResponse("GET", false, 64); got == "resp" {
			c.afterResponseNoLoop(cl)
		}
		return false
	case <-time.After(1500 * time.Millisecond):
		cr.foreign.Add(1)
		return false
	}
}

// proxyHeader sends a PROXY protocol v1 header (the listener reads it before anything else).
func (c *connRun) proxyHeader() {
	la, _ := c.cl.Conn.LocalAddr().(*net.TCPAddr)
	ra, _ := c.cl.Conn.RemoteAddr().(*net.TCPAddr)
	lp, rp := 40000, 3128
	if la != nil {
		lp = la.Port
	}
	if ra != nil {
		rp = ra.Port
	}
	c.cl.Conn.SetWriteDeadline(time.Now().Add(3 * time.Second))
	fmt.Fprintf(c.cl.Conn, "PROXY TCP4 127.0.0.1 127.0.0.1 %d %d\r\n", lp, rp)
	c.cl.Conn.SetWriteDeadline(time.Time{})
}

func (c *connRun) handshake() bool {
	if !c.cr.c.TLS {
		return true
	}
	c.cr.log.Add("h", c.k)
	tc := tls.Client(c.cl.Conn, &tls.Config{InsecureSkipVerify: true, ServerName: "proxy.test"})
	tc.SetDeadline(time.Now().Add(9 * time.Second))
	if err := tc.Handshake(); err != nil {
		var ne net.Error
		if errors.As(err, &ne) && ne.Timeout() {
			c.cr.note("conn %d: TLS handshake neither completed nor failed within 9s", c.k)
			return false
		}
		c.sawClosed()
		return false
	}
	tc.SetDeadline(time.Time{})
	c.cl.Conn = tc
	c.cl.BR = bufio.NewReaderSize(tc, 64<<10)
	return true
}

func (c *connRun) requestBytes(connect, reqClose bool) []byte {
	if connect {
		h := c.cr.tunHost(c.k)
		return []byte(fmt.Sprintf("CONNECT %s:443 HTTP/1.1\r\nHost: %s:443\r\n\r\n", h, h))
	}
	cl := ""
	if reqClose {
		cl = "Connection: close\r\n"
	}
	h := c.cr.originHost()
	return []byte(fmt.Sprintf("GET http://%s/%d/%d HTTP/1.1\r\nHost: %s\r\nAccept: */*\r\n%s\r\n", h, c.k, c.reqs, h, cl))
}

// autoConnect: nobody of the harness stands between the proxy and the target of this connection's CONNECT
// (rig a dialling directly): "the target has it" is learnt from the 200 and the target answers by itself.
// Everywhere else (rig b's dial wrapper, the upstream proxy, rig a's dial redirect for a "dial" connection)
// dialArrived logs o and a.
func (c *connRun) autoConnect() bool {
	return c.cr.c.Kind == "a" && !c.cr.c.Upstream && c.sc.Phase != "dial"
}

// send writes a whole request (part 0), its first half (1, logged p) or the rest (2, logged s).
func (c *connRun) send(connect, reqClose bool, part int, b []byte) {
	half := len(b) / 2
	switch part {
	case 0:
		c.cr.log.Add("s", c.k, connect, reqClose, connect && c.autoConnect())
		c.reqs++
		c.sent.Add(1)
	case 1:
		c.cr.log.Add("p", c.k)
		b = b[:half]
	case 2:
		c.cr.log.Add("s", c.k, connect, reqClose)
		c.reqs++
		c.sent.Add(1)
		b = b[half:]
	}
	c.cl.Conn.SetWriteDeadline(time.Now().Add(5 * time.Second))
	c.cl.Conn.Write(b)
	c.cl.Conn.SetWriteDeadline(time.Time{})
}

func hasClose(m *rig.Msg) bool {
	for _, v := range m.Values("Connection") {
		for _, t := range strings.Split(v, ",") {
			if strings.EqualFold(strings.TrimSpace(t), "close") {
				return true
			}
		}
	}
	return false
}

type slowReader struct {
	r     io.Reader
	chunk int
	pause time.Duration
	mark  *atomic.Int64
	// perChunk: pause once per chunk bytes delivered instead of once per Read (a TLS connection hands out one
	// 16 KiB record per Read: the rate would depend on the listener)
	perChunk bool
	credit   int
}

func (s *slowReader) Read(b []byte) (int, error) {
	if !s.perChunk || s.credit <= 0 {
		time.Sleep(s.pause)
		s.credit += s.chunk
	}
	if len(b) > s.chunk {
		b = b[:s.chunk]
	}
	n, err := s.r.Read(b)
	s.credit -= n
	if n > 0 {
		s.mark.Store(time.Now().UnixNano())
	}
	return n, err
}

// expectResponse waits for the response to the last request: "resp" (complete; Connection: close
// flag), "closed" (connection closed instead), "cut" (closed mid-response) or "timeout".
func (c *connRun) expectResponse(method string, slow bool, wantBody int) (string, bool) {
	switch c.awaitByte(14*time.Second, nil) {
	case stClosed:
		c.sawClosed()
		return "closed", false
	case stTimeout:
		c.cr.note("conn %d: neither a response nor a close within 14s of request %d", c.k, c.reqs-1)
		return "timeout", false
	}
	br := c.cl.BR
	if slow {
		c.markReady()
		pause := 2 * time.Millisecond
		if c.sc.PauseMs > 0 {
			pause = time.Duration(c.sc.PauseMs) * time.Millisecond
		}
		br = bufio.NewReaderSize(&slowReader{r: c.cl.BR, chunk: 64 << 10, pause: pause, mark: &c.lastRecv, perChunk: c.sc.PauseMs > 0}, 64<<10)
	}
	c.cl.Conn.SetReadDeadline(time.Now().Add(20*time.Second + time.Duration(c.sc.PauseMs)*time.Second))
	m, err := rig.ReadResponse(br, method)
	c.cl.Conn.SetReadDeadline(time.Time{})
	if err != nil || m == nil || !m.Complete {
		c.sawClosed()
		return "cut", false
	}
	cl := hasClose(m)
	if method == "CONNECT" && c.autoConnect() && m.Status == 200 {
		c.cr.log.Add("o", c.k) // a 200 to CONNECT: the target accepted the connection some time ago
	}
	c.cr.log.Add("R", c.k, cl)
	if method != "CONNECT" {
		if wantBody < 0 {
			if m.Status != 204 || len(m.Body) != 0 {
				c.cr.note("conn %d: status %d with %d body bytes for request %d, want 204", c.k, m.Status, len(m.Body), c.reqs-1)
			}
		} else if m.Status != 200 {
			c.cr.note("conn %d: status %d for request %d", c.k, m.Status, c.reqs-1)
		} else if wantBody > 0 && !bytes.Equal(m.Body, bodyOf(c.k, wantBody)) {
			c.cr.note("conn %d: response body of request %d differs from what the origin sent (%d bytes, want %d)", c.k, c.reqs-1, len(m.Body), wantBody)
		}
	} else if m.Status != 200 {
		c.cr.note("conn %d: CONNECT answered %d", c.k, m.Status)
	}
	return "resp", cl
}

// expectClosed: after a response with Connection: close the proxy must close the connection.
func (c *connRun) expectClosed(what string) {
	switch c.awaitByte(3*time.Second, nil) {
	case stClosed:
		c.sawClosed()
	case stData:
		c.cr.note("conn %d: unsolicited bytes %s", c.k, what)
	default:
		c.cr.note("conn %d: connection still open 3s %s", c.k, what)
	}
}

// waitClosed waits for the proxy to close the connection: until Close / Run returned, plus 3 s.
func (c *connRun) waitClosed() {
	for {
		st := c.awaitByte(20*time.Second, c.cr.finished)
		switch st {
		case stClosed:
			c.sawClosed()
			return
		case stData:
			c.cr.note("conn %d: unsolicited bytes while waiting for the close", c.k)
			return
		case stStopped:
			switch c.awaitByte(3*time.Second, nil) {
			case stClosed:
				c.sawClosed()
			default:
				c.cr.note("conn %d: socket still open 3s after Close/Run returned", c.k)
			}
			return
		default:
			c.cr.note("conn %d: case did not finish within 20s", c.k)
			return
		}
	}
}

// afterResponse continues after a complete response.
func (c *connRun) afterResponse(cl bool) {
	if cl {
		c.expectClosed("after a response with Connection: close")
		return
	}
	c.idle()
}

// idle: the connection is open with nothing outstanding; once closing is known do what After says.
func (c *connRun) idle() {
	switch c.awaitByte(c.cr.patience(), c.cr.known) {
	case stClosed:
		c.sawClosed()
		return
	case stData:
		c.cr.note("conn %d: unsolicited bytes on an idle connection", c.k)
		return
	case stTimeout:
		// nobody learnt that closing is set (every sentinel lost its race): leave, as a client may at any time
		c.vanish()
		return
	}
	switch c.sc.After {
	case "send":
		c.send(false, false, 0, c.requestBytes(false, false))
		got, cl := c.expectResponse("GET", false, 64)
		if got == "resp" {
			c.afterResponseNoLoop(cl)
		}
	case "connect":
		// a CONNECT first sent after closing is known: like any other request it must be dropped, not dialled
		c.send(true, false, 0, c.requestBytes(true, false))
		if got, _ := c.expectResponse("CONNECT", false, 0); got == "resp" {
			c.waitClosed()
		}
	case "close":
		c.vanish()
	default:
		c.waitClosed()
	}
}

func (c *connRun) afterResponseNoLoop(cl bool) {
	if cl {
		c.expectClosed("after a response with Connection: close")
	} else {
		c.waitClosed()
	}
}

func (c *connRun) sleepOrFinished(d time.Duration) { waitOr(c.cr.finished, d) }

func (c *connRun) run() {
	defer close(c.done)
	defer c.markReady()
	defer func() {
		if c.cl != nil {
			c.cl.Close()
		}
	}()
	cr := c.cr
	sc := c.sc
	switch sc.Phase {
	case "late":
		c.markReady()
		c.dial(true) // refused, or handled entirely by lateDial
		return
	case "pphello":
		c.markReady()
		<-cr.trigger
		time.Sleep(time.Duration(sc.StartUs) * time.Microsecond)
		if !c.dial(false) {
			return
		}
		if sc.After == "wait" {
			c.waitClosed()
			return
		}
		if sc.Gate {
			waitOr(cr.known, 10*time.Second)
		} else {
			c.sleepOrFinished(time.Duration(sc.DelayMs) * time.Millisecond)
		}
		c.proxyHeader()
		c.send(false, false, 0, c.requestBytes(false, false))
		if got, cl := c.expectResponse("GET", false, 64); got == "resp" {
			c.afterResponse(cl)
		}
		return
	case "accept":
		c.markReady()
		<-cr.trigger
		time.Sleep(time.Duration(sc.StartUs) * time.Microsecond)
		if !c.dial(false) || !c.handshake() {
			return
		}
		if sc.Silent {
			c.idle()
			return
		}
		c.send(false, sc.ReqClose, 0, c.requestBytes(false, sc.ReqClose))
		if got, cl := c.expectResponse("GET", false, 64); got == "resp" {
			c.afterResponse(cl)
		}
		return
	}
	if sc.AcceptHeld {
		// made once every other script is where it should be; the listener keeps the Accept that delivers it from
		// returning until closing is known (held.go)
		c.markReady()
		select {
		case <-cr.holdGo:
		case <-cr.finished:
			return
		}
	}
	if !c.dial(false) {
		return
	}
	if sc.Phase == "tlshello" {
		c.markReady()
		<-cr.trigger
		if sc.After == "wait" {
			c.waitClosed()
			return
		}
		if sc.Gate {
			waitOr(cr.known, 10*time.Second)
		} else {
			c.sleepOrFinished(time.Duration(sc.DelayMs) * time.Millisecond)
		}
		if !c.handshake() {
			return
		}
		c.send(false, false, 0, c.requestBytes(false, false))
		if got, cl := c.expectResponse("GET", false, 64); got == "resp" {
			c.afterResponse(cl)
		}
		return
	}
	if !c.handshake() {
		return
	}
	if sc.PreExchange {
		c.send(false, false, 0, c.requestBytes(false, false))
		got, cl := c.expectResponse("GET", false, 64)
		if got != "resp" || cl {
			if got == "resp" {
				c.expectClosed("after a response with Connection: close")
			}
			return
		}
	}
	switch sc.Phase {
	case "idle":
		c.markReady()
		if sc.Sentinel && sc.PreExchange {
			c.sentinel()
			return
		}
		c.idle()
	case "partial":
		b := c.requestBytes(false, false)
		c.send(false, false, 1, b)
		c.markReady()
		<-cr.trigger
		if sc.Vanish {
			c.sleepOrFinished(time.Duration(sc.DelayMs) * time.Millisecond)
			c.vanish()
			return
		}
		if sc.After == "wait" {
			c.waitClosed()
			return
		}
		if sc.Gate {
			waitOr(cr.known, 10*time.Second)
		} else {
			c.sleepOrFinished(time.Duration(sc.DelayMs) * time.Millisecond)
		}
		c.send(false, false, 2, b)
		if got, cl := c.expectResponse("GET", false, 64); got == "resp" {
			c.afterResponse(cl)
		}
	case "origin", "slowread":
		slow := sc.Phase == "slowread"
		c.send(false, sc.ReqClose, 0, c.requestBytes(false, sc.ReqClose))
		// wait until the origin has it, watching the connection (in a race case the proxy may close it instead)
		for end := time.Now().Add(6 * time.Second); time.Now().Before(end); {
			select {
			case <-c.originCh:
				end = time.Now()
				continue
			default:
			}
			if st := c.awaitByte(10*time.Millisecond, nil); st == stClosed {
				c.sawClosed()
				return
			} else if st == stData {
				break
			}
		}
		if !slow {
			c.markReady()
		}
		if sc.Vanish {
			go func() {
				<-cr.trigger
				c.sleepOrFinished(time.Duration(sc.DelayMs/2+5) * time.Millisecond)
				c.vanish()
			}()
		}
		size := 64
		if slow {
			size = sc.BodyKB << 10
		}
		if sc.NoBody && !slow {
			size = -1
		}
		got, cl := c.expectResponse("GET", slow, size)
		if c.isGone() {
			return
		}
		if got == "resp" {
			c.afterResponse(cl)
		}
	case "tunnel", "dial":
		c.send(true, false, 0, c.requestBytes(true, false))
		if sc.Phase == "dial" {
			for end := time.Now().Add(6 * time.Second); time.Now().Before(end); {
				select {
				case <-c.originCh:
					end = time.Now()
					continue
				default:
				}
				if st := c.awaitByte(10*time.Millisecond, nil); st == stClosed {
					c.sawClosed()
					return
				} else if st == stData {
					break
				}
			}
			c.markReady()
		}
		got, _ := c.expectResponse("CONNECT", false, 0)
		if got != "resp" {
			return
		}
		// a 200 announces a tunnel: what goes into it must come back, whenever the dial completed
		if !c.ping(true) {
			return
		}
		c.markReady()
		if sc.Phase == "tunnel" {
			<-cr.trigger
		}
		if sc.Vanish {
			c.sleepOrFinished(10 * time.Millisecond)
			c.vanish()
			return
		}
		// the tunnel keeps working while the proxy drains
		for end := time.Now().Add(cr.patience()); !isClosed(cr.known) && !isClosed(cr.finished) && time.Now().Before(end); {
			if !c.ping(false) {
				return
			}
			waitOr(cr.known, 15*time.Millisecond)
		}
		// ... and for HoldMs more (in-flight work that outlasts a short shutdown timeout); the first round trip
		// made after closing is known and the last one are entered into the history
		first := true
		for end := time.Now().Add(time.Duration(sc.HoldMs) * time.Millisecond); time.Now().Before(end) && !isClosed(cr.finished); {
			if !c.ping(first) {
				return
			}
			first = false
			waitOr(cr.finished, 15*time.Millisecond)
		}
		if !c.ping(true) {
			return
		}
		switch sc.After {
		case "oend":
			cr.log.Add("e", c.k)
			c.endOrigin()
			c.expectClosed("after the origin closed the tunnel")
		case "wait":
			c.waitClosed()
		default:
			c.vanish()
		}
	}
}

// ping sends a line through the tunnel and expects it back (client -> proxy -> target -> proxy -> client). A
// failure means the tunnel is closed. With record the completed round trip is entered into the history (t).
func (c *connRun) ping(record bool) bool {
	msg := []byte(fmt.Sprintf("ping-%d\n", c.k))
	c.cl.Conn.SetWriteDeadline(time.Now().Add(3 * time.Second))
	_, werr := c.cl.Conn.Write(msg)
	c.cl.Conn.SetWriteDeadline(time.Time{})
	if werr != nil {
		c.sawClosed()
		return false
	}
	buf := make([]byte, len(msg))
	c.cl.Conn.SetReadDeadline(time.Now().Add(5 * time.Second))
	_, err := io.ReadFull(c.cl.BR, buf)
	c.cl.Conn.SetReadDeadline(time.Time{})
	if err != nil {
		var ne net.Error
		if errors.As(err, &ne) && ne.Timeout() {
			c.cr.note("conn %d: tunnel echo not returned within 5s", c.k)
			return false
		}
		c.sawClosed()
		return false
	}
	if !bytes.Equal(buf, msg) {
		c.cr.note("conn %d: tunnel echo differs", c.k)
		return false
	}
	if record {
		c.cr.log.Add("t", c.k)
	}
	return true
}

// sentinel: an idle connection that, once the shutdown was initiated, sends a request to find out
// whether closing is set: a connection closed without an answer proves it.
func (c *connRun) sentinel() {
	cr := c.cr
	st := c.awaitByte(20*time.Second, cr.trigger)
	if st == stClosed {
		c.sawClosed()
		return
	}
	if st != stStopped {
		return
	}
	// wait until the call was made
	for !cr.begunNow() {
		if isClosed(cr.finished) {
			return
		}
		time.Sleep(200 * time.Microsecond)
	}
	time.Sleep(time.Duration(1+c.k*25) * time.Millisecond)
	if isClosed(cr.known) {
		c.vanish()
		return
	}
	c.send(false, false, 0, c.requestBytes(false, false))
	got, cl := c.expectResponse("GET", false, 64)
	switch got {
	case "closed":
		cr.setKnown()
	case "resp":
		if cl {
			c.expectClosed("after a response with Connection: close")
			return
		}
		// served: closing was not yet set when the request was checked
		switch c.awaitByte(cr.patience(), cr.known) {
		case stClosed:
			c.sawClosed()
		case stStopped, stTimeout:
			c.vanish()
		}
	}
}
