package c11

import (
	"context"
	"os"
	"sync"
	"syscall"
	"time"

	"github.com/saucelabs/forwarder/runctx"
	"github.com/saucelabs/forwarder/verifharness/core"
)

// Host "group": the layer ABOVE HTTPProxy.Run. `forwarder run` does not call Run with a context of its own: command/run
// composes
//
//	g := runctx.NewGroup(); g.Add(proxy.Run); g.Add(apiServer.Run) …; return g.Run()
//
// and runctx.Group.RunContext (a) turns the FIRST signal of NotifySignals (the same SIGINT / SIGTERM / SIGQUIT that are
// the proxy's ShutdownSignals) into the cancellation of the context every member runs with — that is how graceful
// shutdown is requested in production — and stops listening; the proxy subscribes its grace-period context to
// ShutdownSignals only THEN (shutdownContext is built after Run's context is done), so that only a SECOND signal ends
// the drain; and (b) returns — and with it the process exits — only once EVERY member has returned. The property's
// clauses ("every exchange whose request has already reached its origin completes normally", "Shutdown reports success
// only once every connection that was being served has finished and been closed") are decided at this layer as much as
// inside Run: a grace context that the first signal cancels as well cuts every exchange in flight; a group that returns
// with its first member ends the process while the proxy still drains.
//
// The rig hosts the proxy exactly like that (rig.ProxyOpts.Host): a runctx.Group with the proxy's Run and companions —
// member 0 returns at once when the context is done (the API server with nothing to drain), the others take MemberMs[i]
// (a member that drains slowly) —, NotifySignals = the proxy's ShutdownSignals, RunContext called with a cancellable
// context. The shutdown is requested by cancelling that context (Begin "": an embedder) or by ONE real signal of the set
// delivered to the hosting process (Begin "signal": the child process that hosts the proxy; holdSignals keeps the default
// action off for good), with work in flight; the drain then ends by itself, by a SECOND signal (End "signal", delivered
// as in the family runend), or by the shutdown timeout. Observed and entered into the history: the return of Run
// (XR: the member function wraps it), of every companion (MR:i) and of RunContext (GR). Judged by the same clauses as
// every other history (Driver/C11.lean: the first signal of the group's set is the cancellation) plus
// "the group returns only after every member has returned" and "nothing is served once the group has returned";
// Model/C11Group.lean is the layer, Theorems/C11.lean section L what is proved about it.

// groupHost: how rig.StartProxy hosts the proxy's Run (nil: it calls Run directly).
func (cr *caseRun) groupHost() func(run func(context.Context) error) func(context.Context) error {
	if cr.c.Host != "group" {
		return nil
	}
	cr.runRetCh = make(chan error, 1)
	cr.groupUp = make(chan struct{})
	return func(run func(context.Context) error) func(context.Context) error {
		return func(ctx context.Context) error {
			g := runctx.NewGroup()
			g.NotifySignals = osSignals(cr.sigSet)
			g.Add(func(ctx context.Context) error {
				err := run(ctx)
				cr.xrMu.Lock()
				cr.xrEvent = cr.log.Add("XR", 0)
				cr.xrMu.Unlock()
				cr.runRetCh <- err
				return err
			})
			var up sync.Once
			for i, ms := range cr.c.MemberMs {
				i, ms := i, ms
				g.Add(func(ctx context.Context) error {
					// the members are started after RunContext has registered for its signals
					up.Do(func() { close(cr.groupUp) })
					<-ctx.Done()
					if ms > 0 {
						time.Sleep(time.Duration(ms) * time.Millisecond) // a member that takes its time to drain
					}
					cr.log.Add("MR", i)
					return ctx.Err()
				})
			}
			err := g.RunContext(ctx)
			cr.log.Add("GR", 0)
			return err
		}
	}
}

// beginA requests the shutdown of rig a: the context is cancelled, or — Begin "signal" — ONE signal of the group's
// NotifySignals is delivered to this process.
func (cr *caseRun) beginA() {
	cr.begunAt = time.Now()
	if cr.c.Host == "group" && cr.c.Begin == "signal" && len(cr.sigSet) > 0 {
		n := cr.sigSet[0]
		cr.log.Add("G", n)
		syscall.Kill(os.Getpid(), syscall.Signal(n))
		return
	}
	cr.log.Add("X", 0)
	cr.hp.Cancel()
}

// runRet: where HTTPProxy.Run's result arrives.
func (cr *caseRun) runRet() <-chan error {
	if cr.runRetCh != nil {
		return cr.runRetCh
	}
	return cr.hp.Done()
}

// logRunRet: the XR event (hosted in a group, the member function has logged it at the instant Run returned).
func (cr *caseRun) logRunRet() *Event {
	cr.xrMu.Lock()
	defer cr.xrMu.Unlock()
	if cr.xrEvent != nil {
		return cr.xrEvent
	}
	return cr.log.Add("XR", 0)
}

// awaitGroup waits for RunContext to return (it has logged GR by then).
func (cr *caseRun) awaitGroup(out *outcome) {
	if cr.runRetCh == nil {
		return
	}
	limit := 8 * time.Second
	for _, ms := range cr.c.MemberMs {
		limit += time.Duration(ms) * time.Millisecond
	}
	select {
	case <-cr.hp.Done():
		if e := find(cr.log.Snapshot(), "GR"); e != nil {
			out.GroupRetAt = e.T
		}
	case <-time.After(limit):
		cr.note("RunContext did not return within %v of Run's return", limit)
	}
}

// beginOp: the event that requests the shutdown of a rig-a case.
func (c *Case) beginOp() string {
	if c.Host == "group" && c.Begin == "signal" {
		return "G"
	}
	return "X"
}

// genGroup: the i-th case of "the proxy hosted as command/run hosts it".
func genGroup(r *core.Rand, i int) *Case {
	c := &Case{Kind: "a", Family: "runend", Op: "shutdown", ListenerFirst: true, Trigger: "ready", Host: "group",
		SigCase: true, Signals: [][]int{{10}, {10, 12}}[i%2], TLS: i%5 == 4, DelayUs: core.Pick(r, []int{0, 0, 1000, 20000}), TimeoutMs: 20000}
	// how the shutdown is requested: by ONE signal (production) twice as often as by cancellation (an embedder)
	if i%3 != 2 {
		c.Begin = "signal"
	}
	// the companions: one that returns at once, and (most of the time) one that drains slowly
	c.MemberMs = []int{0}
	if i%4 != 3 {
		c.MemberMs = append(c.MemberMs, r.Range(300, 900))
	}
	c.End = []string{"drain", "drain", "signal", "drain", "timeout", "signal"}[i%6]
	switch c.End {
	case "signal":
		c.SignalMs = r.Range(150, 400)
		c.Deliver = []SigStep{{Sig: c.Signals[len(c.Signals)-1], AtMs: c.SignalMs}}
	case "timeout":
		c.TimeoutMs = r.Range(400, 700)
	}
	for k := 0; k < 2; k++ {
		c.Conns = append(c.Conns, ConnScript{Phase: "idle", Sentinel: true, PreExchange: true})
	}
	work := [][]string{{"origin"}, {"origin", "tunnel"}, {"origin", "idle"}, {"origin", "origin"}}[(i/2)%4]
	for _, w := range work {
		s := ConnScript{Phase: w}
		if c.End == "drain" {
			switch w {
			case "origin":
				s.DelayMs = r.Range(400, 900)
				s.PreExchange = r.Chance(30)
				s.NoBody = r.Chance(20)
				s.After = core.Pick(r, []string{"close", "send"})
			case "tunnel":
				s.HoldMs = r.Range(300, 700)
				s.After = core.Pick(r, []string{"close", "oend"})
			case "idle":
				s.PreExchange = r.Chance(60)
				s.After = "close"
			}
		} else {
			switch w {
			case "origin":
				s.Park = true
				s.DelayMs = 8000
				s.PreExchange = r.Chance(30)
			case "tunnel":
				s.After = "wait"
				s.HoldMs = 100
			case "idle":
				s.PreExchange = r.Chance(60)
				s.After = "wait"
			}
		}
		c.Conns = append(c.Conns, s)
	}
	c.Conns = append(c.Conns, ConnScript{Phase: "idle", After: "send", PreExchange: r.Chance(50)})
	c.Conns = append(c.Conns, ConnScript{Phase: "late"})
	return c
}
