package c11

import (
	"context"
	"errors"
	"fmt"
	"net"
	"os"
	"os/signal"
	"runtime"
	"sort"
	"strings"
	"sync"
	"sync/atomic"
	"syscall"
	"time"

	"github.com/prometheus/client_golang/prometheus"
	"github.com/saucelabs/forwarder/verifharness/core"
)

// Control-call HISTORIES. The property speaks of `Shutdown` and `Close` as they are called, not of one call:
// "Shutdown reports success only once every served connection has finished and been closed and otherwise
// returns the context's error; after a subsequent Close every accepted socket is closed" must hold of the
// second Shutdown after a first one that gave up, of a Shutdown issued after Close while the handlers are still
// unwinding, of two Shutdowns racing each other or racing Close — and at the level of HTTPProxy.Run of every way
// the drain can end (the shutdown timeout, a second shutdown signal, or by itself).
//
// Family "ctl" (rig b, martian.Proxy driven directly): 1-4 calls over
//
//	Shutdown(ctx short: 60-150 ms) | Shutdown(ctx long: 1.5-3 s) | Shutdown(ctx without deadline)
//	| Shutdown(ctx cancelled by its caller after 80-300 ms) | Close
//
// issued one after the other ("ret": 0-40 ms after the previous call returned) or overlapping ("par": 0-30 ms
// after the previous call was ISSUED), against 2-5 connections in the phases in flight at the origin / idle
// keep-alive / open tunnel / request head half sent, which either drain by themselves some time after closing
// is known (so that a later call finds them in a later phase) or never (only Close ends them). A last Close and a
// last Shutdown are always appended (the counter must return to zero). EVERY call is judged:
//
//	nil    => at the moment of the return every socket the proxy has accepted has been closed by the proxy:
//	          its Close of the socket has RETURNED, not merely begun (observed on the proxy's side of the socket:
//	          the listener handed to Serve wraps every connection, scripts how long its Close takes — at once,
//	          50-400 ms, 650-900 ms; on a TLS listener a close_notify nobody reads — and records when the call
//	          begins and when it returns; the handler's conn.Close() returns BEFORE it decrements the counter, so
//	          this is exact) and the clients see the closure within 5 s;
//	error  => it is the error of that call's own context (== ctx.Err(): DeadlineExceeded for a deadline, Canceled
//	          for a cancellation) and the call returned no earlier than that context was done;
//
//	Close  => at the moment of ITS return every socket the proxy has accepted is closed: nothing OPEN (Close not
//	          called on it), nothing BUSY (called, not returned). On a plain listener that holds (a second Close of a
//	          socket waits for the first); on a TLS listener it does NOT when a handler is inside tls.Conn.Close at that
//	          moment — crypto/tls answers the second Close at once — : known finding F53, decided from the input by
//	          closeLingerClass (TLS listener, the socket is a scripted connection's, its own handler closes it within
//	          what its script explains: StallMs / CloseMs + 1 s, else 250 ms); genCtlCloseDuring aims Close at the teardown;
//
// and the whole history goes to the acceptor and the clause oracle of Driver/C11.lean (calls numbered; a call's
// context events D:k / Z:k).
//
// Family "runend" (rig a, forwarder.HTTPProxy.Run in a child process): ShutdownSignals = {SIGUSR1}; connections
// that do not drain (idle keep-alive, open tunnel, request parked at the origin until the case is over); Run's
// context is cancelled; then the drain is ended by a second signal (SIGUSR1 to the child's own pid, repeated
// until Run returns; shutdown timeout 20 s), by the shutdown timeout (300-600 ms), or the connections are
// released and it ends by itself. After Run returned — however the drain ended — every accepted socket must be
// closed (clients see EOF/RST within 3 s), the listener's gauge of active connections must be 0, and no exchange
// may still be served (an origin answer released after the return must not reach the client).
//
// Family "runend", the SIGNAL MATRIX (genRunSig; rig a, and genServerSig on rig s): shutdownContext subscribes the
// context of the drain to ShutdownSignals — to exactly that set, and to nothing when it is empty. The configured
// set {none, {SIGUSR1}, {SIGUSR1, SIGUSR2}} is crossed with what is delivered to the hosting process once the run
// context is cancelled: nothing, a signal of the set, harmless signals outside it (SIGWINCH, SIGURG, SIGCHLD,
// SIGUSR2 when only SIGUSR1 is configured, SIGUSR1 itself when nothing is), several of them, unconfigured ones
// followed by a configured one — each repeated every 25 ms. The shutdown timeout is long (20 s) and the work
// outlasts the deliveries (request at the origin for 0.6-1.2 s, tunnel with echo traffic for 0.5-0.9 s): a signal
// outside the set must end nothing (every exchange completes in full, Run returns only after the drain), one
// of the set ends the drain (Close, every accepted socket closed). The history carries the configured set (SG:…)
// and every delivery (G:<number>); Model/C11.lean `sig n k` cancels a context only if it is subscribed to n.
type Call struct {
	Op       string `json:"op"`                  // "shutdown" | "close"
	CtxMs    int    `json:"ctx_ms,omitempty"`    // shutdown: deadline of its context (0 = none)
	CancelMs int    `json:"cancel_ms,omitempty"` // shutdown: its caller cancels the context this long after the call (0 = never)
	Start    string `json:"start"`               // "ret": GapMs after the previous call returned | "par": GapMs after the previous call was issued
	GapMs    int    `json:"gap_ms,omitempty"`
}

func (c Call) label() string {
	if c.Op == "close" {
		return "close"
	}
	switch {
	case c.CancelMs > 0:
		return "shutdown-cancelled"
	case c.CtxMs == 0:
		return "shutdown-nodeadline"
	case c.CtxMs <= 200:
		return "shutdown-short"
	default:
		return "shutdown-long"
	}
}

// callObs is what was observed of one call.
type callObs struct {
	Op      string        `json:"op"`
	N       int           `json:"n"` // number among the calls of its kind (as in the history: SC:n / CC:n)
	CallAt  time.Duration `json:"call_at"`
	RetAt   time.Duration `json:"ret_at"`
	Ret     bool          `json:"returned"`
	Result  string        `json:"result"`             // shutdown: "n" | "d" | "c" | "?:<error>"
	OwnErr  bool          `json:"own_err,omitempty"`  // shutdown, error: the error is ctx.Err() of the call's own context
	DoneAt  time.Duration `json:"done_at,omitempty"`  // shutdown, error: the earliest instant at which its context can have been done
	OpenAt  int           `json:"open_at_ret"`        // sockets accepted by the proxy and not closed by it at the return
	OpenIDs []int         `json:"open_ids,omitempty"` // … which (order of acceptance)
	// the sockets on which the proxy's Close had BEGUN and not RETURNED at the return (a Close that takes time)
	BusyAt   int   `json:"closing_at_ret,omitempty"`
	BusyIDs  []int `json:"closing_ids,omitempty"`
	AlertIDs []int `json:"alert_ids,omitempty"` // among the open ones: crypto/tls has handed their close_notify to the socket and waits for it
	// Close: every socket that was not closed at the return (open or closing) and what became of it (filled in at the end of the case)
	Linger []lingerObs `json:"linger,omitempty"`
	// OpenIDs / BusyIDs are the sockets the call SPEAKS ABOUT: those the proxy had used (hence registered) when the call was
	// issued. The others that were not closed at the return — accepted, not seen registered when the call was issued:
	// "accepted in the meantime" (held.go) — and what became of them (filled in at the end of the case)
	LateIDs []int     `json:"late_ids,omitempty"`
	Late    []lateObs `json:"late,omitempty"`
}

// lingerObs is one accepted socket that the proxy had not closed when a call of Close returned.
type lingerObs struct {
	ID          int           `json:"id"`                  // order of acceptance
	Script      int           `json:"script"`              // index of the connection's script (-1: not one of the case's connections)
	Busy        bool          `json:"closing"`             // the proxy's Close of the socket itself had begun by then (or began within lingerGrace) and had not returned
	Alert       bool          `json:"alert"`               // crypto/tls had handed the socket its close_notify by then (or did within lingerGrace): it is inside tls.Conn.Close
	ClosedAfter time.Duration `json:"closed_after"`        // the proxy's Close of the socket returned this long after the return of Close (-1: not by the end of the case)
	By          string        `json:"closed_by,omitempty"` // whose call closed the socket: "handler" (handleLoop's deferred conn.Close()) | "close" (a later Proxy.Close) | "other"
	Allowed     time.Duration `json:"allowed,omitempty"`   // F53: how long the scripted teardown of this connection explains (0: nothing explains it)
}

// connTracker records, on the proxy's side, which accepted sockets the proxy has closed — and how far that close
// has got: a connection handed out by trackListener is OPEN until the proxy calls Close on it, BUSY while that call
// is under way (the scripted latency ConnScript.CloseMs: a wrapped connection whose Close takes time) and gone once
// the call has RETURNED. On a TLS listener the tracked connection sits below crypto/tls: tls.Conn.Close first hands
// it the close_notify record with a 5 s write deadline and closes it afterwards; ConnScript.StallMs holds that record
// back the way a send buffer does whose peer does not read (until the deadline or the scripted time, whichever comes
// first), and the connection is marked ALERT from then on (it stays open until tls.Conn gets to the Close).
type connTracker struct {
	mu      sync.Mutex
	open    map[int]struct{}
	busy    map[int]struct{}
	alert   map[int]struct{}
	remote  map[int]string    // order of acceptance -> address of the client's end
	began   map[int]time.Time // when the proxy's Close of the socket began
	by      map[int]string    // … and on whose behalf (closerOf)
	closed  map[int]time.Time // … and when it returned
	alertAt map[int]time.Time // when crypto/tls handed the socket a close_notify (the first one)
	touched map[int]time.Time // when the proxy first USED the socket (Read, Write or a deadline): its handler has registered it by then
	readAt  map[int]time.Time // when the proxy first called Read on the socket
	hold    *acceptHold       // the "accept held" placement (held.go), nil when the case has none
	n       int
	tls     bool           // the tracked connections sit below crypto/tls
	byAddr  map[string]int // address of the client's end -> index of its script
	scripts []ConnScript
}

func newConnTracker(scripts []ConnScript) *connTracker {
	return &connTracker{open: map[int]struct{}{}, busy: map[int]struct{}{}, alert: map[int]struct{}{},
		remote: map[int]string{}, began: map[int]time.Time{}, by: map[int]string{}, closed: map[int]time.Time{}, alertAt: map[int]time.Time{},
		touched: map[int]time.Time{}, readAt: map[int]time.Time{}, byAddr: map[string]int{}, scripts: scripts}
}

// bind: the client of script k has dialled from addr.
func (t *connTracker) bind(addr string, k int) {
	t.mu.Lock()
	t.byAddr[addr] = k
	t.mu.Unlock()
}

// script: what is scripted for the proxy's side of the connection whose client end is remote.
func (t *connTracker) script(remote string) (closeLat, stall time.Duration) {
	t.mu.Lock()
	defer t.mu.Unlock()
	k, ok := t.byAddr[remote]
	if !ok || k >= len(t.scripts) {
		return 0, 0
	}
	return time.Duration(t.scripts[k].CloseMs) * time.Millisecond, time.Duration(t.scripts[k].StallMs) * time.Millisecond
}

// scriptOf: the index of the script whose client dialled the socket accepted as number id (-1: none of them).
func (t *connTracker) scriptOf(id int) int {
	t.mu.Lock()
	defer t.mu.Unlock()
	if k, ok := t.byAddr[t.remote[id]]; ok && k < len(t.scripts) {
		return k
	}
	return -1
}

// times: when the proxy's Close of socket id began and returned, and when crypto/tls handed the socket a close_notify
// (zero: not so far).
func (t *connTracker) times(id int) (began, closed, alert time.Time, by string) {
	t.mu.Lock()
	defer t.mu.Unlock()
	return t.began[id], t.closed[id], t.alertAt[id], t.by[id]
}

// closerOf: on whose behalf the running goroutine closes a socket, read off its stack: "handler" = the connection's own
// handleLoop (its deferred conn.Close(), through crypto/tls on a TLS listener), "close" = Proxy.Close walking its map,
// "other" = anything else.
func closerOf() string {
	pcs := make([]uintptr, 48)
	frames := runtime.CallersFrames(pcs[:runtime.Callers(2, pcs)])
	for {
		f, more := frames.Next()
		switch {
		case strings.Contains(f.Function, "martian.(*Proxy).handleLoop"):
			return "handler"
		case strings.HasSuffix(f.Function, "martian.(*Proxy).Close"):
			return "close"
		}
		if !more {
			return "other"
		}
	}
}

func keysOf(m map[int]struct{}) []int {
	ids := make([]int, 0, len(m))
	for id := range m {
		ids = append(ids, id)
	}
	sort.Ints(ids)
	return ids
}

// snapshot: the sockets on which the proxy has not called Close (order of acceptance).
func (t *connTracker) snapshot() []int {
	t.mu.Lock()
	defer t.mu.Unlock()
	return keysOf(t.open)
}

// state: open = Close not called; busy = Close called and not returned; alert = among the open ones, those whose
// close_notify has been handed to the socket (crypto/tls is inside its Close, or has half-closed a tunnel).
func (t *connTracker) state() (open, busy, alert []int) {
	t.mu.Lock()
	defer t.mu.Unlock()
	for _, id := range keysOf(t.open) {
		if _, ok := t.alert[id]; ok {
			alert = append(alert, id)
		}
	}
	return keysOf(t.open), keysOf(t.busy), alert
}

type trackListener struct {
	net.Listener
	t *connTracker
}

func (l *trackListener) Accept() (net.Conn, error) {
	c, err := l.Listener.Accept()
	if err != nil {
		return nil, err
	}
	l.t.mu.Lock()
	id := l.t.n
	l.t.n++
	l.t.open[id] = struct{}{}
	l.t.remote[id] = c.RemoteAddr().String()
	l.t.mu.Unlock()
	if h := l.t.hold; h != nil {
		// the "accept held" placement: Accept has the connection and returns it only once closing is known
		h.maybeHold(id)
	}
	return &trackConn{Conn: c, t: l.t, id: id, remote: c.RemoteAddr().String(), closing: make(chan struct{})}, nil
}

type trackConn struct {
	net.Conn
	t       *connTracker
	id      int
	remote  string
	once    sync.Once
	err     error
	closing chan struct{} // closed when Close begins
	wdl     atomic.Int64  // the write deadline in force (UnixNano; 0 = none)
	used    atomic.Bool   // touch has been recorded
	wasRead atomic.Bool   // … a Read as well
}

// Close: the first call does the work — after the scripted latency, during which the socket is still open; every
// other call waits for it (when a Close has returned, the socket is closed) and returns what the closed socket
// answers to another Close.
func (c *trackConn) Close() error {
	first := false
	c.once.Do(func() {
		first = true
		by := closerOf()
		lat, _ := c.t.script(c.remote)
		c.t.mu.Lock()
		delete(c.t.open, c.id)
		c.t.busy[c.id] = struct{}{}
		c.t.began[c.id] = time.Now()
		c.t.by[c.id] = by
		c.t.mu.Unlock()
		close(c.closing)
		if lat > 0 {
			time.Sleep(lat)
		}
		c.err = c.Conn.Close()
		c.t.mu.Lock()
		delete(c.t.busy, c.id)
		c.t.closed[c.id] = time.Now()
		c.t.mu.Unlock()
	})
	if first {
		return c.err
	}
	return c.Conn.Close()
}

// touch: the proxy uses the socket. handleLoop registers a connection (map entry, counter) before it does anything
// with it, so a socket the proxy has used is a registered one.
func (c *trackConn) touch(read bool) {
	if c.used.Load() && (!read || c.wasRead.Load()) {
		return
	}
	now := time.Now()
	c.t.mu.Lock()
	if _, ok := c.t.touched[c.id]; !ok {
		c.t.touched[c.id] = now
	}
	if _, ok := c.t.readAt[c.id]; read && !ok {
		c.t.readAt[c.id] = now
	}
	c.t.mu.Unlock()
	c.used.Store(true)
	if read {
		c.wasRead.Store(true)
	}
}

func (c *trackConn) Read(b []byte) (int, error) {
	c.touch(true)
	return c.Conn.Read(b)
}

func (c *trackConn) SetDeadline(t time.Time) error {
	c.touch(false)
	c.noteWriteDeadline(t)
	return c.Conn.SetDeadline(t)
}

func (c *trackConn) SetReadDeadline(t time.Time) error {
	c.touch(false)
	return c.Conn.SetReadDeadline(t)
}

func (c *trackConn) SetWriteDeadline(t time.Time) error {
	c.touch(false)
	c.noteWriteDeadline(t)
	return c.Conn.SetWriteDeadline(t)
}

func (c *trackConn) noteWriteDeadline(t time.Time) {
	if t.IsZero() {
		c.wdl.Store(0)
	} else {
		c.wdl.Store(t.UnixNano())
	}
}

// isAlertRecord: b is one TLS record that carries an alert — content type 21 up to TLS 1.2; in TLS 1.3 the alert
// travels as application data (type 23) of 2 + 1 bytes under a 16-byte tag: 24 bytes in all, less than any record
// the cases' traffic produces (the shortest is a tunnel probe of 7 bytes). crypto/tls hands each record of an
// established connection to the socket in a Write of its own.
func isAlertRecord(b []byte) bool {
	if len(b) < 5 {
		return false
	}
	return b[0] == 21 || (b[0] == 23 && len(b) == 24)
}

// Write: a close_notify for a peer that has stopped reading (StallMs) waits like a write into a full send buffer:
// until the peer reads again (the scripted time has passed: the record goes out), until the write deadline (a
// timeout error, nothing written) or until the socket is closed under it.
func (c *trackConn) Write(b []byte) (int, error) {
	c.touch(false)
	if c.t.tls && isAlertRecord(b) {
		c.t.mu.Lock()
		c.t.alert[c.id] = struct{}{}
		if _, ok := c.t.alertAt[c.id]; !ok {
			c.t.alertAt[c.id] = time.Now()
		}
		c.t.mu.Unlock()
		if _, stall := c.t.script(c.remote); stall > 0 {
			wait, timedOut := stall, false
			if dl := c.wdl.Load(); dl != 0 {
				if left := time.Until(time.Unix(0, dl)); left < wait {
					wait, timedOut = left, true
				}
			}
			if wait > 0 {
				tm := time.NewTimer(wait)
				select {
				case <-tm.C:
				case <-c.closing:
					tm.Stop()
					timedOut = false
				}
			}
			if timedOut {
				return 0, os.ErrDeadlineExceeded
			}
		}
	}
	return c.Conn.Write(b)
}

// CloseWrite: the tunnel copier half-closes through this interface.
func (c *trackConn) CloseWrite() error {
	if cw, ok := c.Conn.(interface{ CloseWrite() error }); ok {
		return cw.CloseWrite()
	}
	return errors.New("CloseWrite not supported")
}

func resOf(err error) string {
	switch {
	case err == nil:
		return "n"
	case errors.Is(err, context.DeadlineExceeded):
		return "d"
	case errors.Is(err, context.Canceled):
		return "c"
	default:
		return "?:" + err.Error()
	}
}

var ctlCallKinds = []Call{
	{Op: "shutdown", CtxMs: 100},              // short
	{Op: "shutdown", CtxMs: 100},              // short
	{Op: "shutdown", CtxMs: 2000},             // long
	{Op: "shutdown", CtxMs: 0},                // no deadline
	{Op: "shutdown", CtxMs: 0, CancelMs: 150}, // cancelled by its caller
	{Op: "close"},
	{Op: "close"},
}

// genCtl: the i-th control-call history for rig b.
func genCtl(r *core.Rand, i int) *Case {
	c := &Case{Kind: "b", Family: "ctl", Op: "shutdown", ListenerFirst: true, Trigger: "ready", TLS: r.Chance(15),
		DelayUs: core.Pick(r, []int{0, 0, 1000, 20000}), TimeoutMs: 4000}
	// how closing becomes known when the first call does not return by itself
	for k := 0; k < 2; k++ {
		c.Conns = append(c.Conns, ConnScript{Phase: "idle", Sentinel: true, PreExchange: true})
	}
	// the calls: the first families are fixed (every run has them), the rest drawn
	n := 1 + i%4
	fixed := [][]int{
		{0, 2},    // Shutdown(short) gives up, Shutdown(long) at once: must wait for the exchanges
		{0, 3},    // … Shutdown(no deadline)
		{5, 2},    // Close, then Shutdown while the handlers unwind
		{0, 0, 2}, // two that give up, then one that waits
		{2, 2},    // two at the same time (made "par" below)
		{2, 5},    // Shutdown racing Close
		{4, 2},    // cancelled by its caller, then one that waits
		{0, 5, 3}, // give up, Close, Shutdown
	}
	var kinds []int
	if i < len(fixed) {
		kinds = fixed[i]
	} else {
		for j := 0; j < n; j++ {
			kinds = append(kinds, r.Intn(len(ctlCallKinds)))
		}
	}
	par := i == 4 || i == 5
	for j, k := range kinds {
		call := ctlCallKinds[k]
		switch {
		case call.Op == "shutdown" && call.CancelMs > 0:
			call.CancelMs = r.Range(80, 300)
		case call.Op == "shutdown" && call.CtxMs > 0 && call.CtxMs <= 200:
			call.CtxMs = r.Range(60, 150)
		case call.Op == "shutdown" && call.CtxMs > 200:
			call.CtxMs = r.Range(1500, 3000)
		}
		call.Start = "ret"
		call.GapMs = core.Pick(r, []int{0, 0, 5, 40})
		if j > 0 && (par || (i >= len(fixed) && r.Chance(35))) {
			call.Start = "par"
			call.GapMs = core.Pick(r, []int{0, 0, 1, 5, 30})
		}
		c.Calls = append(c.Calls, call)
	}
	// does some Shutdown wait without bound (no deadline, never cancelled)? then every connection must end by itself
	unbounded := false
	for _, call := range c.Calls {
		if call.Op == "shutdown" && call.CtxMs == 0 && call.CancelMs == 0 {
			unbounded = true
		}
	}
	phases := []string{"origin", "idle", "tunnel", "partial"}
	nc := r.Range(2, 5)
	for j := 0; j < nc; j++ {
		ph := phases[(i+j)%len(phases)]
		if j >= len(phases) {
			ph = core.Pick(r, phases)
		}
		s := ConnScript{Phase: ph}
		stay := !unbounded && r.Chance(40) // never drains: only Close ends it
		switch ph {
		case "origin":
			// answered some time after closing is known: a later call finds it still in flight, or written, or closed
			s.Gate = false
			s.DelayMs = r.Range(250, 900)
			s.PreExchange = r.Chance(30)
			s.NoBody = r.Chance(20)
			s.After = core.Pick(r, []string{"send", "close"})
			if stay {
				s.Park = true
			}
		case "idle":
			s.PreExchange = r.Chance(60)
			s.After = core.Pick(r, []string{"close", "send", "connect"})
			if stay {
				s.After = "wait"
			}
		case "tunnel":
			s.HoldMs = r.Range(150, 700)
			s.After = core.Pick(r, []string{"close", "oend"})
			if stay {
				s.After = "wait"
			}
		case "partial":
			// the handler is reading the request: completed once closing is known (read, then dropped), or never
			s.Gate = true
			s.After = core.Pick(r, []string{"close", "send"})
			if stay {
				s.After = "wait"
			}
		}
		c.Conns = append(c.Conns, s)
	}
	c.Conns = append(c.Conns, ConnScript{Phase: "late"})
	// how long the proxy's Close of each socket takes (drawn last: everything above is what it was)
	scriptCloses(r, c, []string{"none", "long", "short", "mixed"}[i%4], i%8 == 5)
	if i%3 == 1 && !c.TLS {
		// the "accept held" placement (held.go): one more connection, returned by Accept only once closing is known
		addHeld(c, []string{"send", "wait", "close"}[(i/3)%3], []int{0, 150, 700}[(i/9)%3])
	}
	return c
}

// scriptCloses scripts the proxy's end of the sockets of a case whose listener wraps what it accepts: CloseMs by mode
// ("none": every Close returns at once; "short": 50-400 ms on some; "long": 650-900 ms on every connection that is
// not a sentinel — longer than the 500 ms (+10 %) to which Shutdown's polling interval grows, so that a poll falls into
// every such Close; "mixed"), and — stall, TLS listeners only — a peer that is not reading when its close_notify is
// due on some connections (never both on one connection: a client waits 3 s for the close that follows a response with
// Connection: close).
func scriptCloses(r *core.Rand, c *Case, mode string, stall bool) {
	some := false
	for k := range c.Conns {
		s := &c.Conns[k]
		if s.Sentinel || s.Phase == "late" {
			continue
		}
		if stall && c.TLS && (r.Chance(60) || !some) {
			s.StallMs = r.Range(650, 1200)
			some = true
			continue
		}
		switch mode {
		case "short":
			if r.Chance(60) {
				s.CloseMs = r.Range(50, 400)
			}
		case "long":
			s.CloseMs = r.Range(650, 900)
		case "mixed":
			switch r.Intn(3) {
			case 1:
				s.CloseMs = r.Range(50, 400)
			case 2:
				s.CloseMs = r.Range(650, 900)
			}
		}
	}
}

// KNOWN FINDING F53 (class close-returns-during-tls-close-notify): Proxy.Close can return while an accepted socket is
// still open. On a TLS listener the handler that tears its connection down calls tls.Conn.Close, which first writes the
// close_notify under a write deadline of 5 s of its own and closes the socket afterwards; crypto/tls serialises Close
// per connection — a second caller (Proxy.Close walking its map) gets net.ErrClosed AT ONCE while the first is still at
// work — so Proxy.Close returns with that socket open, for as long as the peer does not take the alert (at most 5 s).
//
// The class is decided from the INPUT. A socket that is not closed when a call of Close returns is explained by F53 iff
//
//	(1) the case's listener is a TLS listener (Case.TLS; rig b, family ctl: a Close is part of every history), and
//	(2) the socket is that of one of the case's scripted connections k (ConnScript), it is the connection's own handler
//	    that closes it in the end (the Close of the socket was begun by handleLoop's deferred conn.Close(), read off the
//	    stack: closerOf — not by a later call of Proxy.Close, not by anything else), and what is scripted for the proxy's
//	    end of THAT connection explains for how long it stays open after the return:
//	      Conns[k].StallMs > 0  the peer is not reading when its close_notify is due: StallMs + lingerSlack — the alert
//	                            was with the socket when Close returned (the handler was inside tls.Conn.Close);
//	      Conns[k].CloseMs > 0  the Close of the connection below crypto/tls takes CloseMs: CloseMs + lingerSlack — that
//	                            Close was under way when Close returned (the handler was inside tls.Conn.Close);
//	      neither               lingerGrace: the few instructions between a handler's entry into tls.Conn.Close (from which
//	                            moment on Proxy.Close's call returns at once) and its close of the socket.
//
// Everything else is a VIOLATION: a socket open or closing after a Close on a plain listener (there a second Close
// waits for the first: trackConn), a socket that is not one of the scripted connections, a socket its handler was not
// closing — one that a later Close closes, or nobody (a Close that skips connections, or gives up on the first error) —,
// a socket that stays open longer than its script explains, or for good.
const (
	classCloseDuringTLSClose = "close-returns-during-tls-close-notify"
	lingerGrace              = 250 * time.Millisecond
	lingerSlack              = time.Second
)

// lingerAllowed: for how long F53 explains that the socket l outlives the return of a Close (0: not at all).
func (c *Case) lingerAllowed(l lingerObs) time.Duration {
	if !c.TLS || c.Family != "ctl" || l.Script < 0 || l.Script >= len(c.Conns) || l.By != "handler" {
		return 0
	}
	s := c.Conns[l.Script]
	switch {
	case s.StallMs > 0 && l.Alert:
		return time.Duration(s.StallMs)*time.Millisecond + lingerSlack
	case s.CloseMs > 0 && l.Busy:
		return time.Duration(s.CloseMs)*time.Millisecond + lingerSlack
	}
	return lingerGrace
}

// closeLingerClass: the known-finding class of "sockets were not closed when this Close returned" — F53 when every one
// of them is explained (see above), none otherwise (why says which socket is not).
func (c *Case) closeLingerClass(o *callObs) (class, why string) {
	if len(o.Linger) == 0 || len(o.Linger) < o.OpenAt+o.BusyAt {
		return "", "; the sockets were not followed up"
	}
	for _, l := range o.Linger {
		a := c.lingerAllowed(l)
		switch {
		case a == 0 && !c.TLS:
			return "", fmt.Sprintf("; plain listener: nothing explains socket %d", l.ID)
		case a == 0 && l.Script >= 0 && l.ClosedAfter >= 0:
			return "", fmt.Sprintf("; socket %d was not being closed by its handler: it was closed later by %q", l.ID, l.By)
		case a == 0 && l.Script >= 0:
			return "", fmt.Sprintf("; socket %d was not being closed by anybody, and never was", l.ID)
		case a == 0:
			return "", fmt.Sprintf("; socket %d is not one of the case's scripted connections", l.ID)
		case l.ClosedAfter < 0:
			return "", fmt.Sprintf("; socket %d was not closed by the proxy by the end of the case", l.ID)
		case l.ClosedAfter > a:
			return "", fmt.Sprintf("; socket %d (script %d) stayed open for %v, its scripted teardown explains %v", l.ID, l.Script, l.ClosedAfter, a)
		}
	}
	return classCloseDuringTLSClose, ""
}

func lingerText(ls []lingerObs) string {
	var parts []string
	for _, l := range ls {
		st := "nobody was closing it"
		switch {
		case l.Busy:
			st = "its Close had begun (or began within " + lingerGrace.String() + ")"
		case l.Alert:
			st = "crypto/tls was holding its close_notify (or was within " + lingerGrace.String() + ")"
		}
		end := "never closed"
		if l.ClosedAfter >= 0 {
			end = fmt.Sprintf("closed %v later by %q", l.ClosedAfter, l.By)
		}
		parts = append(parts, fmt.Sprintf("socket %d (script %d): %s, %s", l.ID, l.Script, st, end))
	}
	return strings.Join(parts, "; ")
}

// lingerOf: what became of the sockets that were not closed when call o of Close returned (t0: start of the case).
func (cr *caseRun) lingerOf(o *callObs) []lingerObs {
	ret := cr.log.t0.Add(o.RetAt)
	var out []lingerObs
	for _, id := range append(append([]int(nil), o.OpenIDs...), o.BusyIDs...) {
		began, closed, alert, by := cr.tracker.times(id)
		l := lingerObs{ID: id, Script: cr.tracker.scriptOf(id), ClosedAfter: -1, By: by}
		l.Busy = !began.IsZero() && began.Before(ret.Add(lingerGrace))
		l.Alert = !alert.IsZero() && alert.Before(ret.Add(lingerGrace))
		if !closed.IsZero() {
			if l.ClosedAfter = closed.Sub(ret); l.ClosedAfter < 0 {
				l.ClosedAfter = 0
			}
		}
		l.Allowed = cr.c.lingerAllowed(l)
		out = append(out, l)
	}
	return out
}

// closeScripted: some connection's proxy-side Close is scripted to take time.
func (c *Case) closeScripted() bool {
	for _, s := range c.Conns {
		if s.CloseMs > 0 || s.StallMs > 0 {
			return true
		}
	}
	return false
}

// closeLabel: the cell of the close-latency dimension a case is in.
func (c *Case) closeLabel() string {
	short, long, stall := 0, 0, 0
	for _, s := range c.Conns {
		switch {
		case s.StallMs > 0:
			stall++
		case s.CloseMs >= 500:
			long++
		case s.CloseMs > 0:
			short++
		}
	}
	l := "close-latency="
	switch {
	case short == 0 && long == 0:
		l += "none"
	case long == 0:
		l += "short"
	case short == 0:
		l += "long"
	default:
		l += "mixed"
	}
	if stall > 0 {
		l += "/close-notify-stalled"
	}
	if c.TLS {
		return l + "/tls"
	}
	return l + "/plain"
}

// genCtlClose: the j-th case of the cross {Close returns at once, 50-400 ms, 650-900 ms} x {plain, TLS, TLS with
// peers that do not take their close_notify} under histories that END IN A SUCCESS for certain: every connection
// drains by itself once closing is known, and a Shutdown without deadline (alone, after one that gave up, or
// overlapping one with a long deadline) waits for them. Its nil is judged at the instant of the return: the proxy's
// Close of every socket it served has completed.
func genCtlClose(r *core.Rand, j int) *Case {
	c := &Case{Kind: "b", Family: "ctl", Op: "shutdown", ListenerFirst: true, Trigger: "ready", TimeoutMs: 4000,
		DelayUs: core.Pick(r, []int{0, 1000, 20000}), TLS: j%3 != 0}
	for k := 0; k < 2; k++ {
		c.Conns = append(c.Conns, ConnScript{Phase: "idle", Sentinel: true, PreExchange: true})
	}
	switch (j / 9) % 3 {
	case 0:
		c.Calls = []Call{{Op: "shutdown", Start: "ret"}}
	case 1:
		c.Calls = []Call{{Op: "shutdown", CtxMs: r.Range(60, 150), Start: "ret"}, {Op: "shutdown", Start: "ret", GapMs: core.Pick(r, []int{0, 5, 40})}}
	default:
		c.Calls = []Call{{Op: "shutdown", CtxMs: r.Range(2500, 3500), Start: "ret"}, {Op: "shutdown", Start: "par", GapMs: core.Pick(r, []int{0, 1, 30})}}
	}
	phases := []string{"origin", "idle", "tunnel", "partial"}
	nc := r.Range(2, 4)
	for k := 0; k < nc; k++ {
		s := ConnScript{Phase: phases[(j+k)%len(phases)]}
		switch s.Phase {
		case "origin":
			s.DelayMs = r.Range(150, 500)
			s.PreExchange = r.Chance(30)
			s.NoBody = r.Chance(20)
			s.After = core.Pick(r, []string{"send", "close"})
		case "idle":
			s.PreExchange = r.Chance(60)
			s.After = core.Pick(r, []string{"close", "send", "connect"})
		case "tunnel":
			s.HoldMs = r.Range(100, 400)
			s.After = core.Pick(r, []string{"close", "oend"})
		case "partial":
			s.Gate = true
			s.After = core.Pick(r, []string{"close", "send"})
		}
		c.Conns = append(c.Conns, s)
	}
	c.Conns = append(c.Conns, ConnScript{Phase: "late"})
	scriptCloses(r, c, []string{"long", "short", "none"}[(j/3)%3], j%3 == 2)
	if j%6 == 0 {
		// (plain listener) a success for certain, with a connection whose Accept returns only once closing is known (held.go)
		addHeld(c, []string{"send", "wait"}[(j/6)%2], []int{700, 0, 150}[(j/6)%3])
	}
	return c
}

// genCtlCloseDuring: the j-th case of "Close is called WHILE handlers tear their connections down": requests at the origin
// are answered D = 300-500 ms after they arrived (closing is set by then: the response carries Connection: close and the
// handler goes on to conn.Close()), a Shutdown with a short context has given up long before, and Close is called about
// D + 150 ms after the first call — inside the teardown whenever the teardown takes time (650 ms and more). Crossed with
// what the teardown is: {plain, TLS} x {Close of the socket returns at once, takes 650-900 ms} and TLS with a peer that
// does not take its close_notify (650-1200 ms), the last also followed by a Shutdown without deadline (which must wait
// for the socket that outlived Close). The clause "after Close every accepted socket is closed" is judged at the return
// of every Close: on a plain listener the proxy's second Close of a socket waits for the first (nothing may be open or
// closing), on a TLS listener crypto/tls answers the second Close at once — known finding F53, see closeLingerClass.
func genCtlCloseDuring(r *core.Rand, j int) *Case {
	v := j % 6
	c := &Case{Kind: "b", Family: "ctl", Op: "shutdown", ListenerFirst: true, Trigger: "ready", TimeoutMs: 4000,
		DelayUs: core.Pick(r, []int{0, 1000}), TLS: v == 1 || v == 2 || v == 4 || v == 5}
	for k := 0; k < 2; k++ {
		c.Conns = append(c.Conns, ConnScript{Phase: "idle", Sentinel: true, PreExchange: true})
	}
	d := r.Range(300, 500)
	ctxMs := r.Range(60, 150)
	c.Calls = []Call{{Op: "shutdown", CtxMs: ctxMs, Start: "ret"}, {Op: "close", Start: "ret", GapMs: d + 150 - ctxMs}}
	if v == 5 {
		c.Calls = append(c.Calls, Call{Op: "shutdown", Start: "ret", GapMs: core.Pick(r, []int{0, 5, 40})})
	}
	nc := r.Range(1, 3)
	for k := 0; k < nc; k++ {
		s := ConnScript{Phase: "origin", DelayMs: d + r.Range(-40, 40), After: "close", PreExchange: r.Chance(30), NoBody: r.Chance(20)}
		switch v {
		case 0, 2:
			s.CloseMs = r.Range(650, 900)
		case 1, 5:
			s.StallMs = r.Range(650, 1200)
		}
		c.Conns = append(c.Conns, s)
	}
	if r.Chance(50) {
		// … next to a connection that is closed by Close itself (it never drains)
		c.Conns = append(c.Conns, ConnScript{Phase: "idle", PreExchange: r.Chance(60), After: "wait"})
	}
	c.Conns = append(c.Conns, ConnScript{Phase: "late"})
	return c
}

// genRunEnd: the i-th case of the family "the drain of Run is ended by …" for rig a.
func genRunEnd(r *core.Rand, i int) *Case {
	end := []string{"signal", "timeout", "signal", "drain"}[i%4]
	c := &Case{Kind: "a", Family: "runend", Op: "shutdown", ListenerFirst: true, Trigger: "ready", End: end,
		TLS: r.Chance(15), DelayUs: core.Pick(r, []int{0, 0, 1000, 20000})}
	switch end {
	case "signal":
		c.TimeoutMs = 20000
		c.SignalMs = r.Range(80, 400)
	case "timeout":
		c.TimeoutMs = r.Range(300, 600)
	default:
		c.TimeoutMs = 20000
	}
	for k := 0; k < 2; k++ {
		c.Conns = append(c.Conns, ConnScript{Phase: "idle", Sentinel: true, PreExchange: true})
	}
	work := [][]string{{"idle"}, {"tunnel"}, {"origin"}, {"origin", "idle", "tunnel"}, {"idle", "origin"}, {"tunnel", "partial"}}[(i/4)%6]
	for _, w := range work {
		s := ConnScript{Phase: w}
		switch w {
		case "idle":
			s.PreExchange = r.Chance(60)
			s.After = "wait"
		case "tunnel":
			s.After = "wait"
			s.HoldMs = 100
		case "origin":
			s.Park = true
			s.DelayMs = 8000
			s.PreExchange = r.Chance(30)
		case "partial":
			s.After = "wait"
		}
		if end == "drain" {
			// the same work, released once closing is known
			switch w {
			case "idle":
				s.After = "close"
			case "tunnel":
				s.After = core.Pick(r, []string{"close", "oend"})
				s.HoldMs = r.Range(100, 400)
			case "origin":
				s.Park = false
				s.DelayMs = r.Range(200, 600)
				s.After = "close"
			case "partial":
				s.Gate = true
				s.After = "close"
			}
		}
		c.Conns = append(c.Conns, s)
	}
	c.Conns = append(c.Conns, ConnScript{Phase: "idle", After: "send", PreExchange: r.Chance(50)})
	c.Conns = append(c.Conns, ConnScript{Phase: "late"})
	if end == "drain" && !c.TLS {
		// Run returns because its Shutdown reported success: the proxy's Close of the sockets takes time (the wrapper
		// sits on top of the proxy's own listener, which a TLS listener does not allow: martian looks for *tls.Conn)
		scriptCloses(r, c, []string{"long", "short", "mixed"}[(i/4)%3], false)
	}
	if !c.TLS && (end == "drain" || i%3 == 0) {
		// the "accept held" placement (held.go): in every drain that ends by itself, and in a third of the forced ones
		addHeld(c, []string{"send", "wait", "close"}[(i/4)%3], []int{700, 0, 150}[(i/4)%3])
	}
	return c
}

// sigMatrix: configured set x what is delivered (u: signals outside the set, c: one of the set) -> what ends the drain.
var sigMatrix = []struct {
	cfg     []int
	unconf  []int // delivered from 60-200 ms after the cancellation on
	conf    []int // delivered later (after the unconfigured ones, if any)
	timeout bool  // the drain is ended by a shutdown timeout shorter than the work instead
}{
	{cfg: nil, unconf: []int{28}},
	{cfg: []int{10}, unconf: []int{12}},
	{cfg: []int{10, 12}, conf: []int{12}},
	{cfg: nil, unconf: []int{23, 17, 10}},
	{cfg: []int{10}, unconf: []int{28, 23}, conf: []int{10}},
	{cfg: []int{10, 12}, unconf: []int{28, 17}},
	{cfg: nil},
	{cfg: []int{10}, conf: []int{10}},
	{cfg: []int{10, 12}, unconf: []int{23}, conf: []int{10}},
	{cfg: nil, unconf: []int{12, 10}, timeout: true},
	{cfg: []int{10}},
	{cfg: []int{10, 12}, conf: []int{10, 12}},
	{cfg: []int{10}, unconf: []int{17, 12, 28}},
	{cfg: nil, unconf: []int{10, 28}},
}

// genRunSig: the i-th case of the signal matrix for rig a.
func genRunSig(r *core.Rand, i int) *Case {
	m := sigMatrix[i%len(sigMatrix)]
	c := &Case{Kind: "a", Family: "runend", Op: "shutdown", ListenerFirst: true, Trigger: "ready", SigCase: true,
		Signals: m.cfg, TLS: r.Chance(15), DelayUs: core.Pick(r, []int{0, 0, 1000, 20000}), TimeoutMs: 20000}
	at := r.Range(60, 200)
	for _, s := range m.unconf {
		c.Deliver = append(c.Deliver, SigStep{Sig: s, AtMs: at})
		at += r.Range(0, 60)
	}
	switch {
	case len(m.conf) > 0:
		c.End = "signal"
		c.SignalMs = r.Range(80, 400)
		if len(m.unconf) > 0 {
			c.SignalMs = at + r.Range(300, 500) // the unconfigured ones have been delivered a dozen times by then
		}
		for j, s := range m.conf {
			c.Deliver = append(c.Deliver, SigStep{Sig: s, AtMs: c.SignalMs + 30*j})
		}
	case m.timeout:
		c.End = "timeout"
		c.TimeoutMs = r.Range(700, 1000)
	default:
		c.End = "drain"
	}
	for k := 0; k < 2; k++ {
		c.Conns = append(c.Conns, ConnScript{Phase: "idle", Sentinel: true, PreExchange: true})
	}
	work := [][]string{{"origin"}, {"origin", "tunnel"}, {"tunnel", "origin", "idle"}, {"origin", "origin"}}[(i+i/len(sigMatrix))%4]
	for _, w := range work {
		s := ConnScript{Phase: w}
		if c.End == "drain" {
			// the work ends by itself, well after the deliveries began
			switch w {
			case "origin":
				s.DelayMs = r.Range(600, 1200)
				s.PreExchange = r.Chance(30)
				s.NoBody = r.Chance(20)
				s.After = core.Pick(r, []string{"close", "send"})
			case "tunnel":
				s.HoldMs = r.Range(500, 900)
				s.After = core.Pick(r, []string{"close", "oend"})
			case "idle":
				s.PreExchange = r.Chance(60)
				s.After = "close"
			}
		} else {
			// the work never ends by itself: only the forced close does it
			switch w {
			case "origin":
				s.Park = true
				s.DelayMs = 8000
				s.PreExchange = r.Chance(30)
			case "tunnel":
				s.After = "wait"
				s.HoldMs = 100
			case "idle":
				s.PreExchange = r.Chance(60)
				s.After = "wait"
			}
		}
		c.Conns = append(c.Conns, s)
	}
	c.Conns = append(c.Conns, ConnScript{Phase: "idle", After: "send", PreExchange: r.Chance(50)})
	c.Conns = append(c.Conns, ConnScript{Phase: "late"})
	if c.End == "drain" && !c.TLS {
		// the drain ends by itself whatever is delivered: Run returns on its Shutdown's success (see genRunEnd)
		scriptCloses(r, c, []string{"long", "mixed", "long", "short"}[i%4], false)
	}
	if c.End == "drain" && !c.TLS && i%2 == 0 {
		addHeld(c, []string{"send", "wait"}[(i/2)%2], []int{0, 700}[(i/2)%2])
	}
	return c
}

// sigLabel: the cell of the signal matrix a case is in.
func (c *Case) sigLabel() string {
	set, _ := c.sigCfg()
	nu, nc := 0, 0
	for _, st := range c.deliveries() {
		if hasInt(set, st.Sig) {
			nc++
		} else {
			nu++
		}
	}
	return fmt.Sprintf("configured=%d/delivered-unconfigured=%d,configured=%d", len(set), nu, nc)
}

// runCalls issues the calls of a control-call history against martian.Proxy (rig b) and records what every one
// of them returned and what the proxy's side of the sockets looked like at that moment.
func (cr *caseRun) runCalls(out *outcome) {
	c := cr.c
	calls := append([]Call(nil), c.Calls...)
	// the end of every history: a Close, then (once every script has left) a Shutdown that must find nothing
	calls = append(calls, Call{Op: "close", Start: "ret"})
	obs := make([]*callObs, len(calls))
	issued := make([]chan struct{}, len(calls))
	returned := make([]chan struct{}, len(calls))
	nShut, nClose := 0, 0
	for i, call := range calls {
		issued[i], returned[i] = make(chan struct{}), make(chan struct{})
		o := &callObs{Op: call.Op}
		if call.Op == "shutdown" {
			o.N = nShut
			nShut++
		} else {
			o.N = nClose
			nClose++
		}
		obs[i] = o
	}
	out.shutCalls = nShut
	limit := func(call Call) time.Duration {
		if call.Op == "shutdown" && call.CtxMs > 0 {
			return time.Duration(call.CtxMs)*time.Millisecond + 10*time.Second
		}
		return cr.patience() + 24*time.Second
	}
	var wg sync.WaitGroup
	for i, call := range calls {
		i, call := i, call
		wg.Add(1)
		go func() {
			defer wg.Done()
			if i > 0 {
				if call.Start == "par" {
					<-issued[i-1]
				} else if !waitOr(returned[i-1], limit(calls[i-1])) {
					// the previous call hangs (reported below): go on, so that the case ends
				}
				time.Sleep(time.Duration(call.GapMs) * time.Millisecond)
			}
			o := obs[i]
			if call.Op == "close" {
				e := cr.log.Add("CC", o.N)
				o.CallAt = e.T
				close(issued[i])
				cr.mp.Close()
				o.OpenIDs, o.BusyIDs, o.AlertIDs = cr.tracker.state()
				r := cr.log.Add("CR", o.N)
				o.splitLate(cr)
				o.RetAt, o.Ret, o.OpenAt, o.BusyAt = r.T, true, len(o.OpenIDs), len(o.BusyIDs)
				// (what becomes of the sockets that are not closed at this instant is entered at the end of the case: lingerOf)
				close(returned[i])
				cr.setKnown()
				return
			}
			ctx, cancel := context.WithCancel(context.Background())
			defer cancel()
			e := cr.log.Add("SC", o.N, call.CtxMs == 0, call.CancelMs > 0)
			o.CallAt = e.T
			if call.CtxMs > 0 {
				// created after SC was logged: the deadline is not before SC + CtxMs
				var c2 context.CancelFunc
				ctx, c2 = context.WithTimeout(ctx, time.Duration(call.CtxMs)*time.Millisecond)
				defer c2()
			}
			var zAt atomic.Int64
			if call.CancelMs > 0 {
				go func() {
					if waitOr(returned[i], time.Duration(call.CancelMs)*time.Millisecond) {
						return
					}
					z := cr.log.Add("Z", o.N)
					zAt.Store(int64(z.T))
					cancel()
				}()
			}
			close(issued[i])
			err := cr.mp.Shutdown(ctx)
			// the instant of the return: which sockets has the proxy not closed, on which is its Close still under way
			open, busy, alert := cr.tracker.state()
			r := cr.log.AddRet(o.N, strings.SplitN(resOf(err), ":", 2)[0])
			o.OpenIDs, o.BusyIDs, o.AlertIDs = open, busy, alert
			o.splitLate(cr)
			o.RetAt, o.Ret, o.Result, o.OpenAt, o.BusyAt = r.T, true, resOf(err), len(o.OpenIDs), len(o.BusyIDs)
			if err != nil {
				o.OwnErr = err == ctx.Err() //nolint:errorlint // identity: the very error of this call's context
				switch {
				case errors.Is(err, context.DeadlineExceeded) && call.CtxMs > 0:
					o.DoneAt = o.CallAt + time.Duration(call.CtxMs)*time.Millisecond
				case errors.Is(err, context.Canceled) && zAt.Load() > 0:
					o.DoneAt = time.Duration(zAt.Load())
				default:
					o.DoneAt = -1 // no reason for this error exists
				}
			}
			close(returned[i])
			cr.setKnown()
		}()
	}
	done := make(chan struct{})
	go func() { wg.Wait(); close(done) }()
	total := 20 * time.Second
	for _, call := range calls {
		total += limit(call) / 4
	}
	if !waitOr(done, total) {
		for i, o := range obs {
			if !isClosed(returned[i]) {
				cr.note("call %d (%s) did not return", i, calls[i].label())
				_ = o
			}
		}
	}
	out.Calls = obs
	out.HaveRet = true
}

// splitLate keeps in OpenIDs / BusyIDs the sockets the call speaks about (used by the proxy, hence registered, when the
// call was issued) and moves the others to LateIDs (held.go).
func (o *callObs) splitLate(cr *caseRun) {
	issued := cr.log.t0.Add(o.CallAt)
	var l1, l2 []int
	o.OpenIDs, l1 = cr.tracker.servedBefore(o.OpenIDs, issued)
	o.BusyIDs, l2 = cr.tracker.servedBefore(o.BusyIDs, issued)
	o.LateIDs = append(l1, l2...)
	sort.Ints(o.LateIDs)
}

// evaluateCalls: the verdict on every call of a control-call history (rig b).
func evaluateCalls(ctx *core.Ctx, c *Case, out *outcome, doc caseDoc, h string) {
	// the calls of the case, the Close and the Shutdown that end every history
	calls := append(append([]Call(nil), c.Calls...), Call{Op: "close", Start: "ret"}, Call{Op: "shutdown", CtxMs: 2500, Start: "ret"})
	for i, o := range out.Calls {
		if i >= len(calls) {
			break
		}
		ctx.Count("ctl/call/" + calls[i].label() + "/" + calls[i].Start + "/" + strings.SplitN(o.Result, ":", 2)[0])
		if !o.Ret {
			continue // reported as a note
		}
		if len(o.LateIDs) > 0 {
			// sockets accepted and not seen registered when the call was issued: not the call's business at its return, but
			// they must be closed without service as soon as their handlers can
			ctx.Count("ctl/late-sockets-at-return/" + o.Op)
			if o.heldAmong(out) {
				ctx.Count("ctl/accept-held/open-at-the-return-of/" + o.Op + "/" + strings.SplitN(o.Result, ":", 2)[0])
			}
			if why := lateVerdict(o.Late); why != "" || len(o.Late) < len(o.LateIDs) {
				ctx.SpecFail("connections accepted in the meantime are closed without service", "", doc, h,
					fmt.Sprintf("call %d (%s %d) returned %v after it was called with socket(s) %v open that the proxy had not used when the call was issued; afterwards: %s",
						i, o.Op, o.N, o.RetAt-o.CallAt, o.LateIDs, why))
			}
		}
		if o.Op == "close" {
			// the clause as it reads, judged at the instant of the return: every socket the proxy has accepted is closed —
			// its Close of the socket has RETURNED (tracker: neither OPEN nor BUSY)
			if o.OpenAt > 0 || o.BusyAt > 0 {
				class, why := c.closeLingerClass(o)
				if class != "" {
					ctx.Count("ctl/close-returned-while-a-handler-waits-in-tls-close-notify")
				}
				ctx.SpecFail("after Close every accepted socket is closed", class, doc, h,
					fmt.Sprintf("call %d (Close %d) returned %v after it was called; at that moment the proxy had not called Close on %d socket(s) it had accepted (order of acceptance: %v; crypto/tls holding their close_notify: %v) and its Close of %d more had begun and not returned (%v); what became of them: %s%s",
						i, o.N, o.RetAt-o.CallAt, o.OpenAt, o.OpenIDs, o.AlertIDs, o.BusyAt, o.BusyIDs, lingerText(o.Linger), why))
			}
			continue
		}
		if i == len(calls)-1 && o.Result != "n" {
			ctx.SpecFail("the proxy's count of open connections returns to zero", "", doc, h,
				"after the last Close and after every client socket was closed, a further Shutdown(2.5s) returned: "+o.Result)
			continue
		}
		switch {
		case o.Result == "n":
			// judged at the instant of the return: the proxy's Close of every accepted socket has COMPLETED — not
			// merely begun (a Close that takes time: scripted latency, a close_notify nobody reads)
			if o.OpenAt > 0 || o.BusyAt > 0 {
				ctx.SpecFail("Shutdown reports success only once every connection that was being served has been closed", "", doc, h,
					fmt.Sprintf("call %d (%s, Shutdown %d) returned nil %v after it was called; at that moment the proxy had not called Close on %d accepted socket(s) (order of acceptance: %v; waiting in a TLS close_notify: %v) and its Close of %d more had begun and not returned (%v)",
						i, calls[i].label(), o.N, o.RetAt-o.CallAt, o.OpenAt, o.OpenIDs, o.AlertIDs, o.BusyAt, o.BusyIDs))
			}
			ctx.Count("ctl/nil/" + c.closeLabel())
			// the clients' view, with a generous bound
			var late []int
			for k := range c.Conns {
				if c.Conns[k].Phase == "late" || findK(out.History, "c", k) == nil {
					continue
				}
				var at time.Duration = -1
				if x := findK(out.History, "x", k); x != nil {
					at = x.T
				}
				if g := findK(out.History, "g", k); g != nil && (at < 0 || g.T < at) {
					at = g.T
				}
				if at < 0 || at > o.RetAt+5*time.Second {
					late = append(late, k)
				}
			}
			if len(late) > 0 {
				ctx.SpecFail("Shutdown reports success only once every connection that was being served has been closed", "", doc, h,
					fmt.Sprintf("call %d (%s, Shutdown %d) returned nil; connections %v were not seen closed by their clients within 5s of that", i, calls[i].label(), o.N, late))
			}
		default:
			if !o.OwnErr || o.DoneAt < 0 {
				ctx.SpecFail("Shutdown otherwise returns the context's error", "", doc, h,
					fmt.Sprintf("call %d (%s, Shutdown %d) returned %q: not the error of its own context", i, calls[i].label(), o.N, o.Result))
			} else if o.RetAt < o.DoneAt {
				ctx.SpecFail("Shutdown returns the context's error only when the context is done", "", doc, h,
					fmt.Sprintf("call %d (%s, Shutdown %d) returned %q %v after the call; its context was not done before %v", i, calls[i].label(), o.N, o.Result, o.RetAt-o.CallAt, o.DoneAt-o.CallAt))
			}
		}
	}
}

// heldAmong: the connection whose Accept was held is among the late sockets of the call.
func (o *callObs) heldAmong(out *outcome) bool {
	for _, l := range o.Late {
		if l.Held {
			return true
		}
	}
	return false
}

// ---- rig a: the end of the drain ----

var sigOnce sync.Once

// deliverable: the signals a case may send to the process that hosts the proxy. SIGUSR1 / SIGUSR2 are caught for
// good by holdSignals; the default action of the others is to be ignored.
var deliverable = map[int]string{
	int(syscall.SIGUSR1): "SIGUSR1", int(syscall.SIGUSR2): "SIGUSR2", int(syscall.SIGCHLD): "SIGCHLD",
	int(syscall.SIGURG): "SIGURG", int(syscall.SIGWINCH): "SIGWINCH",
}

// holdSignals makes every deliverable signal harmless for this process for good (the default action of SIGUSR1 /
// SIGUSR2 terminates it): the proxy registers for its ShutdownSignals only while it drains.
func holdSignals() {
	sigOnce.Do(func() {
		ch := make(chan os.Signal, 256)
		signal.Notify(ch, syscall.SIGUSR1, syscall.SIGUSR2, syscall.SIGCHLD, syscall.SIGURG, syscall.SIGWINCH)
		go func() {
			for range ch {
			}
		}()
	})
}

// SigStep is one signal delivered to the process that hosts the proxy while it drains.
type SigStep struct {
	Sig  int `json:"sig"`   // signal number (10 SIGUSR1, 12 SIGUSR2, 17 SIGCHLD, 23 SIGURG, 28 SIGWINCH)
	AtMs int `json:"at_ms"` // first sent this long after the cancellation of the run context, then every 25 ms (a signal that arrives before the proxy has registered for it is lost): one of the configured set until Run has returned, any other for 1 s
}

// sigCfg: the ShutdownSignals a case configures (numbers); ok = false: the defaults of the configuration stay.
func (c *Case) sigCfg() (set []int, ok bool) {
	switch {
	case c.SigCase:
		return c.Signals, true
	case c.Kind == "a" && c.Family == "runend":
		return []int{int(syscall.SIGUSR1)}, true
	}
	return nil, false
}

// deliveries: the signals a case sends during the drain.
func (c *Case) deliveries() []SigStep {
	if len(c.Deliver) > 0 {
		return c.Deliver
	}
	if c.End == "signal" && !c.SigCase {
		return []SigStep{{Sig: int(syscall.SIGUSR1), AtMs: c.SignalMs}}
	}
	return nil
}

func osSignals(set []int) []os.Signal {
	out := []os.Signal{}
	for _, n := range set {
		out = append(out, syscall.Signal(n))
	}
	return out
}

func signalNumbers(set []os.Signal) []int {
	var out []int
	for _, s := range set {
		if n, ok := s.(syscall.Signal); ok {
			out = append(out, int(n))
		}
	}
	return out
}

func hasInt(set []int, n int) bool {
	for _, x := range set {
		if x == n {
			return true
		}
	}
	return false
}

// deliverSignals sends the steps to this process, counted from now: first(sig) is called just BEFORE a signal is
// sent for the first time. It returns when stop is closed or nothing is left to send.
func deliverSignals(steps []SigStep, cfg []int, stop chan struct{}, first func(sig int)) {
	start := time.Now()
	sent := make([]bool, len(steps))
	for {
		el := time.Since(start)
		active := false
		next := 25 * time.Millisecond
		for i, st := range steps {
			if _, ok := deliverable[st.Sig]; !ok {
				continue // never send anything whose default action could end the process
			}
			at := time.Duration(st.AtMs) * time.Millisecond
			if el < at {
				active = true
				if at-el < next {
					next = at - el
				}
				continue
			}
			limit := time.Second
			if hasInt(cfg, st.Sig) {
				limit = 20 * time.Second
			}
			if el > at+limit {
				continue
			}
			active = true
			if !sent[i] {
				sent[i] = true
				first(st.Sig)
			}
			syscall.Kill(os.Getpid(), syscall.Signal(st.Sig))
		}
		if !active || waitOr(stop, next) {
			return
		}
	}
}

// firstConfigured: the first delivery (G event) of a signal of the configured set.
func firstConfigured(evs []*Event, cfg []int, skipFirst bool) *Event {
	for _, e := range evs {
		if e.Op == "G" && hasInt(cfg, e.K) {
			if skipFirst {
				// (the first one requested the shutdown: hosted in a group, Begin "signal")
				skipFirst = false
				continue
			}
			return e
		}
	}
	return nil
}

func joinInts(set []int) string {
	parts := make([]string, len(set))
	for i, n := range set {
		parts[i] = fmt.Sprint(n)
	}
	return strings.Join(parts, ":")
}

// activeGauge reads the listener's gauge of active connections from the proxy's registry (-1: not found).
func activeGauge(reg *prometheus.Registry) float64 {
	if reg == nil {
		return -1
	}
	mfs, err := reg.Gather()
	if err != nil {
		return -1
	}
	v, found := 0.0, false
	for _, mf := range mfs {
		if strings.HasSuffix(mf.GetName(), "listener_cx_active") {
			for _, m := range mf.GetMetric() {
				if m.GetGauge() != nil {
					v += m.GetGauge().GetValue()
					found = true
				}
			}
		}
	}
	if !found {
		return -1
	}
	return v
}
