package c11

import (
	"context"
	"errors"
	"fmt"
	"net"
	"os"
	"os/signal"
	"strings"
	"sync"
	"sync/atomic"
	"syscall"
	"time"

	"github.com/prometheus/client_golang/prometheus"
	"github.com/saucelabs/forwarder/verifharness/core"
)

// Control-call HISTORIES. The property speaks of `Shutdown` and `Close` as they are called, not of one call:
// "Shutdown reports success only once every served connection has finished and been closed and otherwise
// returns the context's error; after a subsequent Close every accepted socket is closed" must hold of the
// second Shutdown after a first one that gave up, of a Shutdown issued after Close while the handlers are still
// unwinding, of two Shutdowns racing each other or racing Close — and at the level of HTTPProxy.Run of every way
// the drain can end (the shutdown timeout, a second shutdown signal, or by itself).
//
// Family "ctl" (rig b, martian.Proxy driven directly): 1-4 calls over
//
//	Shutdown(ctx short: 60-150 ms) | Shutdown(ctx long: 1.5-3 s) | Shutdown(ctx without deadline)
//	| Shutdown(ctx cancelled by its caller after 80-300 ms) | Close
//
// issued one after the other ("ret": 0-40 ms after the previous call returned) or overlapping ("par": 0-30 ms
// after the previous call was ISSUED), against 2-5 connections in the phases in flight at the origin / idle
// keep-alive / open tunnel / request head half sent, which either drain by themselves some time after closing
// is known (so that a later call finds them in a later phase) or never (only Close ends them). A last Close and a
// last Shutdown are always appended (the counter must return to zero). EVERY call is judged:
//
//	nil    => at the moment of the return every socket the proxy has accepted has been closed by the proxy
//	          (observed on the proxy's side of the socket: the listener handed to Serve wraps every connection
//	          and records its Close; the handler closes the socket BEFORE it decrements the counter, so this is
//	          exact) and the clients see the closure within 5 s;
//	error  => it is the error of that call's own context (== ctx.Err(): DeadlineExceeded for a deadline, Canceled
//	          for a cancellation) and the call returned no earlier than that context was done;
//
// and the whole history goes to the acceptor and the clause oracle of Driver/C11.lean (calls numbered; a call's
// context events D:k / Z:k).
//
// Family "runend" (rig a, forwarder.HTTPProxy.Run in a child process): ShutdownSignals = {SIGUSR1}; connections
// that do not drain (idle keep-alive, open tunnel, request parked at the origin until the case is over); Run's
// context is cancelled; then the drain is ended by a second signal (SIGUSR1 to the child's own pid, repeated
// until Run returns; shutdown timeout 20 s), by the shutdown timeout (300-600 ms), or the connections are
// released and it ends by itself. After Run returned — however the drain ended — every accepted socket must be
// closed (clients see EOF/RST within 3 s), the listener's gauge of active connections must be 0, and no exchange
// may still be served (an origin answer released after the return must not reach the client).
type Call struct {
	Op       string `json:"op"`                  // "shutdown" | "close"
	CtxMs    int    `json:"ctx_ms,omitempty"`    // shutdown: deadline of its context (0 = none)
	CancelMs int    `json:"cancel_ms,omitempty"` // shutdown: its caller cancels the context this long after the call (0 = never)
	Start    string `json:"start"`               // "ret": GapMs after the previous call returned | "par": GapMs after the previous call was issued
	GapMs    int    `json:"gap_ms,omitempty"`
}

func (c Call) label() string {
	if c.Op == "close" {
		return "close"
	}
	switch {
	case c.CancelMs > 0:
		return "shutdown-cancelled"
	case c.CtxMs == 0:
		return "shutdown-nodeadline"
	case c.CtxMs <= 200:
		return "shutdown-short"
	default:
		return "shutdown-long"
	}
}

// callObs is what was observed of one call.
type callObs struct {
	Op      string        `json:"op"`
	N       int           `json:"n"` // number among the calls of its kind (as in the history: SC:n / CC:n)
	CallAt  time.Duration `json:"call_at"`
	RetAt   time.Duration `json:"ret_at"`
	Ret     bool          `json:"returned"`
	Result  string        `json:"result"`             // shutdown: "n" | "d" | "c" | "?:<error>"
	OwnErr  bool          `json:"own_err,omitempty"`  // shutdown, error: the error is ctx.Err() of the call's own context
	DoneAt  time.Duration `json:"done_at,omitempty"`  // shutdown, error: the earliest instant at which its context can have been done
	OpenAt  int           `json:"open_at_ret"`        // sockets accepted by the proxy and not closed by it at the return
	OpenIDs []int         `json:"open_ids,omitempty"` // … which (order of acceptance)
}

// connTracker records, on the proxy's side, which accepted sockets the proxy has closed.
type connTracker struct {
	mu   sync.Mutex
	open map[int]struct{}
	n    int
}

func (t *connTracker) snapshot() []int {
	t.mu.Lock()
	defer t.mu.Unlock()
	ids := make([]int, 0, len(t.open))
	for id := range t.open {
		ids = append(ids, id)
	}
	return ids
}

type trackListener struct {
	net.Listener
	t *connTracker
}

func (l *trackListener) Accept() (net.Conn, error) {
	c, err := l.Listener.Accept()
	if err != nil {
		return nil, err
	}
	l.t.mu.Lock()
	id := l.t.n
	l.t.n++
	l.t.open[id] = struct{}{}
	l.t.mu.Unlock()
	return &trackConn{Conn: c, t: l.t, id: id}, nil
}

type trackConn struct {
	net.Conn
	t    *connTracker
	id   int
	once sync.Once
}

func (c *trackConn) Close() error {
	c.once.Do(func() {
		c.t.mu.Lock()
		delete(c.t.open, c.id)
		c.t.mu.Unlock()
	})
	return c.Conn.Close()
}

// CloseWrite: the tunnel copier half-closes through this interface.
func (c *trackConn) CloseWrite() error {
	if cw, ok := c.Conn.(interface{ CloseWrite() error }); ok {
		return cw.CloseWrite()
	}
	return errors.New("CloseWrite not supported")
}

func resOf(err error) string {
	switch {
	case err == nil:
		return "n"
	case errors.Is(err, context.DeadlineExceeded):
		return "d"
	case errors.Is(err, context.Canceled):
		return "c"
	default:
		return "?:" + err.Error()
	}
}

var ctlCallKinds = []Call{
	{Op: "shutdown", CtxMs: 100},              // short
	{Op: "shutdown", CtxMs: 100},              // short
	{Op: "shutdown", CtxMs: 2000},             // long
	{Op: "shutdown", CtxMs: 0},                // no deadline
	{Op: "shutdown", CtxMs: 0, CancelMs: 150}, // cancelled by its caller
	{Op: "close"},
	{Op: "close"},
}

// genCtl: the i-th control-call history for rig b.
func genCtl(r *core.Rand, i int) *Case {
	c := &Case{Kind: "b", Family: "ctl", Op: "shutdown", ListenerFirst: true, Trigger: "ready", TLS: r.Chance(15),
		DelayUs: core.Pick(r, []int{0, 0, 1000, 20000}), TimeoutMs: 4000}
	// how closing becomes known when the first call does not return by itself
	for k := 0; k < 2; k++ {
		c.Conns = append(c.Conns, ConnScript{Phase: "idle", Sentinel: true, PreExchange: true})
	}
	// the calls: the first families are fixed (every run has them), the rest drawn
	n := 1 + i%4
	fixed := [][]int{
		{0, 2},    // Shutdown(short) gives up, Shutdown(long) at once: must wait for the exchanges
		{0, 3},    // … Shutdown(no deadline)
		{5, 2},    // Close, then Shutdown while the handlers unwind
		{0, 0, 2}, // two that give up, then one that waits
		{2, 2},    // two at the same time (made "par" below)
		{2, 5},    // Shutdown racing Close
		{4, 2},    // cancelled by its caller, then one that waits
		{0, 5, 3}, // give up, Close, Shutdown
	}
	var kinds []int
	if i < len(fixed) {
		kinds = fixed[i]
	} else {
		for j := 0; j < n; j++ {
			kinds = append(kinds, r.Intn(len(ctlCallKinds)))
		}
	}
	par := i == 4 || i == 5
	for j, k := range kinds {
		call := ctlCallKinds[k]
		switch {
		case call.Op == "shutdown" && call.CancelMs > 0:
			call.CancelMs = r.Range(80, 300)
		case call.Op == "shutdown" && call.CtxMs > 0 && call.CtxMs <= 200:
			call.CtxMs = r.Range(60, 150)
		case call.Op == "shutdown" && call.CtxMs > 200:
			call.CtxMs = r.Range(1500, 3000)
		}
		call.Start = "ret"
		call.GapMs = core.Pick(r, []int{0, 0, 5, 40})
		if j > 0 && (par || (i >= len(fixed) && r.Chance(35))) {
			call.Start = "par"
			call.GapMs = core.Pick(r, []int{0, 0, 1, 5, 30})
		}
		c.Calls = append(c.Calls, call)
	}
	// does some Shutdown wait without bound (no deadline, never cancelled)? then every connection must end by itself
	unbounded := false
	for _, call := range c.Calls {
		if call.Op == "shutdown" && call.CtxMs == 0 && call.CancelMs == 0 {
			unbounded = true
		}
	}
	phases := []string{"origin", "idle", "tunnel", "partial"}
	nc := r.Range(2, 5)
	for j := 0; j < nc; j++ {
		ph := phases[(i+j)%len(phases)]
		if j >= len(phases) {
			ph = core.Pick(r, phases)
		}
		s := ConnScript{Phase: ph}
		stay := !unbounded && r.Chance(40) // never drains: only Close ends it
		switch ph {
		case "origin":
			// answered some time after closing is known: a later call finds it still in flight, or written, or closed
			s.Gate = false
			s.DelayMs = r.Range(250, 900)
			s.PreExchange = r.Chance(30)
			s.NoBody = r.Chance(20)
			s.After = core.Pick(r, []string{"send", "close"})
			if stay {
				s.Park = true
			}
		case "idle":
			s.PreExchange = r.Chance(60)
			s.After = core.Pick(r, []string{"close", "send", "connect"})
			if stay {
				s.After = "wait"
			}
		case "tunnel":
			s.HoldMs = r.Range(150, 700)
			s.After = core.Pick(r, []string{"close", "oend"})
			if stay {
				s.After = "wait"
			}
		case "partial":
			// the handler is reading the request: completed once closing is known (read, then dropped), or never
			s.Gate = true
			s.After = core.Pick(r, []string{"close", "send"})
			if stay {
				s.After = "wait"
			}
		}
		c.Conns = append(c.Conns, s)
	}
	c.Conns = append(c.Conns, ConnScript{Phase: "late"})
	return c
}

// genRunEnd: the i-th case of the family "the drain of Run is ended by …" for rig a.
func genRunEnd(r *core.Rand, i int) *Case {
	end := []string{"signal", "timeout", "signal", "drain"}[i%4]
	c := &Case{Kind: "a", Family: "runend", Op: "shutdown", ListenerFirst: true, Trigger: "ready", End: end,
		TLS: r.Chance(15), DelayUs: core.Pick(r, []int{0, 0, 1000, 20000})}
	switch end {
	case "signal":
		c.TimeoutMs = 20000
		c.SignalMs = r.Range(80, 400)
	case "timeout":
		c.TimeoutMs = r.Range(300, 600)
	default:
		c.TimeoutMs = 20000
	}
	for k := 0; k < 2; k++ {
		c.Conns = append(c.Conns, ConnScript{Phase: "idle", Sentinel: true, PreExchange: true})
	}
	work := [][]string{{"idle"}, {"tunnel"}, {"origin"}, {"origin", "idle", "tunnel"}, {"idle", "origin"}, {"tunnel", "partial"}}[(i/4)%6]
	for _, w := range work {
		s := ConnScript{Phase: w}
		switch w {
		case "idle":
			s.PreExchange = r.Chance(60)
			s.After = "wait"
		case "tunnel":
			s.After = "wait"
			s.HoldMs = 100
		case "origin":
			s.Park = true
			s.DelayMs = 8000
			s.PreExchange = r.Chance(30)
		case "partial":
			s.After = "wait"
		}
		if end == "drain" {
			// the same work, released once closing is known
			switch w {
			case "idle":
				s.After = "close"
			case "tunnel":
				s.After = core.Pick(r, []string{"close", "oend"})
				s.HoldMs = r.Range(100, 400)
			case "origin":
				s.Park = false
				s.DelayMs = r.Range(200, 600)
				s.After = "close"
			case "partial":
				s.Gate = true
				s.After = "close"
			}
		}
		c.Conns = append(c.Conns, s)
	}
	c.Conns = append(c.Conns, ConnScript{Phase: "idle", After: "send", PreExchange: r.Chance(50)})
	c.Conns = append(c.Conns, ConnScript{Phase: "late"})
	return c
}

// runCalls issues the calls of a control-call history against martian.Proxy (rig b) and records what every one
// of them returned and what the proxy's side of the sockets looked like at that moment.
func (cr *caseRun) runCalls(out *outcome) {
	c := cr.c
	calls := append([]Call(nil), c.Calls...)
	// the end of every history: a Close, then (once every script has left) a Shutdown that must find nothing
	calls = append(calls, Call{Op: "close", Start: "ret"})
	obs := make([]*callObs, len(calls))
	issued := make([]chan struct{}, len(calls))
	returned := make([]chan struct{}, len(calls))
	nShut, nClose := 0, 0
	for i, call := range calls {
		issued[i], returned[i] = make(chan struct{}), make(chan struct{})
		o := &callObs{Op: call.Op}
		if call.Op == "shutdown" {
			o.N = nShut
			nShut++
		} else {
			o.N = nClose
			nClose++
		}
		obs[i] = o
	}
	out.shutCalls = nShut
	limit := func(call Call) time.Duration {
		if call.Op == "shutdown" && call.CtxMs > 0 {
			return time.Duration(call.CtxMs)*time.Millisecond + 10*time.Second
		}
		return cr.patience() + 24*time.Second
	}
	var wg sync.WaitGroup
	for i, call := range calls {
		i, call := i, call
		wg.Add(1)
		go func() {
			defer wg.Done()
			if i > 0 {
				if call.Start == "par" {
					<-issued[i-1]
				} else if !waitOr(returned[i-1], limit(calls[i-1])) {
					// the previous call hangs (reported below): go on, so that the case ends
				}
				time.Sleep(time.Duration(call.GapMs) * time.Millisecond)
			}
			o := obs[i]
			if call.Op == "close" {
				e := cr.log.Add("CC", o.N)
				o.CallAt = e.T
				close(issued[i])
				cr.mp.Close()
				o.OpenIDs = cr.tracker.snapshot()
				r := cr.log.Add("CR", o.N)
				o.RetAt, o.Ret, o.OpenAt = r.T, true, len(o.OpenIDs)
				close(returned[i])
				cr.setKnown()
				return
			}
			ctx, cancel := context.WithCancel(context.Background())
			defer cancel()
			e := cr.log.Add("SC", o.N, call.CtxMs == 0, call.CancelMs > 0)
			o.CallAt = e.T
			if call.CtxMs > 0 {
				// created after SC was logged: the deadline is not before SC + CtxMs
				var c2 context.CancelFunc
				ctx, c2 = context.WithTimeout(ctx, time.Duration(call.CtxMs)*time.Millisecond)
				defer c2()
			}
			var zAt atomic.Int64
			if call.CancelMs > 0 {
				go func() {
					if waitOr(returned[i], time.Duration(call.CancelMs)*time.Millisecond) {
						return
					}
					z := cr.log.Add("Z", o.N)
					zAt.Store(int64(z.T))
					cancel()
				}()
			}
			close(issued[i])
			err := cr.mp.Shutdown(ctx)
			open := cr.tracker.snapshot()
			r := cr.log.AddRet(o.N, strings.SplitN(resOf(err), ":", 2)[0])
			o.RetAt, o.Ret, o.Result, o.OpenAt, o.OpenIDs = r.T, true, resOf(err), len(open), open
			if err != nil {
				o.OwnErr = err == ctx.Err() //nolint:errorlint // identity: the very error of this call's context
				switch {
				case errors.Is(err, context.DeadlineExceeded) && call.CtxMs > 0:
					o.DoneAt = o.CallAt + time.Duration(call.CtxMs)*time.Millisecond
				case errors.Is(err, context.Canceled) && zAt.Load() > 0:
					o.DoneAt = time.Duration(zAt.Load())
				default:
					o.DoneAt = -1 // no reason for this error exists
				}
			}
			close(returned[i])
			cr.setKnown()
		}()
	}
	done := make(chan struct{})
	go func() { wg.Wait(); close(done) }()
	total := 20 * time.Second
	for _, call := range calls {
		total += limit(call) / 4
	}
	if !waitOr(done, total) {
		for i, o := range obs {
			if !isClosed(returned[i]) {
				cr.note("call %d (%s) did not return", i, calls[i].label())
				_ = o
			}
		}
	}
	out.Calls = obs
	out.HaveRet = true
}

// evaluateCalls: the verdict on every call of a control-call history (rig b).
func evaluateCalls(ctx *core.Ctx, c *Case, out *outcome, doc caseDoc, h string) {
	// the calls of the case, the Close and the Shutdown that end every history
	calls := append(append([]Call(nil), c.Calls...), Call{Op: "close", Start: "ret"}, Call{Op: "shutdown", CtxMs: 2500, Start: "ret"})
	for i, o := range out.Calls {
		if i >= len(calls) {
			break
		}
		ctx.Count("ctl/call/" + calls[i].label() + "/" + calls[i].Start + "/" + strings.SplitN(o.Result, ":", 2)[0])
		if !o.Ret {
			continue // reported as a note
		}
		if o.Op == "close" {
			if o.OpenAt > 0 {
				ctx.SpecFail("after Close every accepted socket is closed", "", doc, h,
					fmt.Sprintf("call %d (Close %d) returned; %d socket(s) the proxy had accepted and registered were not closed by it at that moment", i, o.N, o.OpenAt))
			}
			continue
		}
		if i == len(calls)-1 && o.Result != "n" {
			ctx.SpecFail("the proxy's count of open connections returns to zero", "", doc, h,
				"after the last Close and after every client socket was closed, a further Shutdown(2.5s) returned: "+o.Result)
			continue
		}
		switch {
		case o.Result == "n":
			if o.OpenAt > 0 {
				ctx.SpecFail("Shutdown reports success only once every connection that was being served has been closed", "", doc, h,
					fmt.Sprintf("call %d (%s, Shutdown %d) returned nil %v after it was called; %d accepted socket(s) had not been closed by the proxy at that moment (order of acceptance: %v)",
						i, calls[i].label(), o.N, o.RetAt-o.CallAt, o.OpenAt, o.OpenIDs))
			}
			// the clients' view, with a generous bound
			var late []int
			for k := range c.Conns {
				if c.Conns[k].Phase == "late" || findK(out.History, "c", k) == nil {
					continue
				}
				var at time.Duration = -1
				if x := findK(out.History, "x", k); x != nil {
					at = x.T
				}
				if g := findK(out.History, "g", k); g != nil && (at < 0 || g.T < at) {
					at = g.T
				}
				if at < 0 || at > o.RetAt+5*time.Second {
					late = append(late, k)
				}
			}
			if len(late) > 0 {
				ctx.SpecFail("Shutdown reports success only once every connection that was being served has been closed", "", doc, h,
					fmt.Sprintf("call %d (%s, Shutdown %d) returned nil; connections %v were not seen closed by their clients within 5s of that", i, calls[i].label(), o.N, late))
			}
		default:
			if !o.OwnErr || o.DoneAt < 0 {
				ctx.SpecFail("Shutdown otherwise returns the context's error", "", doc, h,
					fmt.Sprintf("call %d (%s, Shutdown %d) returned %q: not the error of its own context", i, calls[i].label(), o.N, o.Result))
			} else if o.RetAt < o.DoneAt {
				ctx.SpecFail("Shutdown returns the context's error only when the context is done", "", doc, h,
					fmt.Sprintf("call %d (%s, Shutdown %d) returned %q %v after the call; its context was not done before %v", i, calls[i].label(), o.N, o.Result, o.RetAt-o.CallAt, o.DoneAt-o.CallAt))
			}
		}
	}
}

// ---- rig a: the end of the drain ----

var sigOnce sync.Once

// holdSignals makes SIGUSR1 / SIGUSR2 harmless for this process for good (their default action terminates it):
// the proxy registers for its ShutdownSignals only while it drains.
func holdSignals() {
	sigOnce.Do(func() {
		ch := make(chan os.Signal, 64)
		signal.Notify(ch, syscall.SIGUSR1, syscall.SIGUSR2)
		go func() {
			for range ch {
			}
		}()
	})
}

// secondSignal delivers the proxy's shutdown signal to this process SignalMs after the cancellation and then every
// 25 ms until Run has returned (a signal that arrives before the proxy has registered for it is lost).
func (cr *caseRun) secondSignal(runDone chan struct{}) {
	if waitOr(runDone, time.Duration(cr.c.SignalMs)*time.Millisecond) {
		return
	}
	cr.log.Add("Z", 0)
	for i := 0; i < 800; i++ {
		syscall.Kill(os.Getpid(), syscall.SIGUSR1)
		if waitOr(runDone, 25*time.Millisecond) {
			return
		}
	}
}

// activeGauge reads the listener's gauge of active connections from the proxy's registry (-1: not found).
func activeGauge(reg *prometheus.Registry) float64 {
	if reg == nil {
		return -1
	}
	mfs, err := reg.Gather()
	if err != nil {
		return -1
	}
	v, found := 0.0, false
	for _, mf := range mfs {
		if strings.HasSuffix(mf.GetName(), "listener_cx_active") {
			for _, m := range mf.GetMetric() {
				if m.GetGauge() != nil {
					v += m.GetGauge().GetValue()
					found = true
				}
			}
		}
	}
	if !found {
		return -1
	}
	return v
}
