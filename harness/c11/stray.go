package c11

import (
	"bufio"
	"fmt"
	"net"
	"strings"
	"time"

	"github.com/saucelabs/forwarder/verifharness/rig"
)

// What is NOT the case's own. Many cases — of this check and of other checks of the sandbox — run at the same time, every
// one with listeners on ephemeral loopback ports, and a port that one of them has just closed is handed to the next
// listener that asks. A client that dials "where the proxy was" after its listener was closed (lateDial: the `late`
// phase, and every dial of a `race` case that comes after the shutdown was initiated) can therefore reach SOMEBODY ELSE'S
// listener: it is prepared for that (outcome.Foreign). The receiving side was not (correction 21): the scripted origin
// attributed a request by its path /k/j alone, so the late dials of a foreign case — "GET http://origin-<their
// nonce>.test/k/0" for k = 0, 1, 2, … — were entered into THIS case's history as "the origin has a request of connection
// k" (o:k, a:k): origin events no send explains, a history no execution of the model has, and the clause "no request
// first sent after shutdown began is forwarded" judged on requests the case never sent.
//
//	origin          a request is the case's only if it NAMES the case's origin (Host / absolute target: the host name
//	                carries the case's nonce, which nobody else knows): anything else is answered 421 and closed, counted
//	                (outcome.StrayOrigin), never logged. A request that does name it is request j of connection k only if
//	                that connection has logged the send of a request j — once (else a note: the proxy invented or
//	                duplicated it).
//	proxy listener  the remote address of every socket the listener accepts is compared with the local addresses of the
//	                case's own client sockets: a connection nobody of the case made is somebody else's; it takes part in
//	                the proxy's count of open connections and in its drain, so the case is INCONCLUSIVE
//	                (inconclusive/foreign-connection-on-the-proxy-listener), not judged.
//	clients         send every request once (there is no client-side retry anywhere in conn.go; waits only wait).
//
// Case.Stray makes the first of these an exercised part of the check: a client that is not part of the case plays the
// foreign late dialer against the case's origin (and upstream proxy) while the case runs.

func (cr *caseRun) ownRequest(m *rig.Msg) bool {
	own := cr.originHost()
	for _, v := range m.Values("Host") {
		h := v
		if hh, _, err := net.SplitHostPort(v); err == nil {
			h = hh
		}
		if strings.EqualFold(h, own) {
			return true
		}
	}
	if i := strings.Index(m.Target, "://"); i >= 0 {
		t := m.Target[i+3:]
		if s := strings.IndexByte(t, '/'); s >= 0 {
			t = t[:s]
		}
		if hh, _, err := net.SplitHostPort(t); err == nil {
			t = hh
		}
		return strings.EqualFold(t, own)
	}
	return false
}

const (
	sawOK = iota
	sawUnsent
	sawTwice
)

// originSaw: the origin has request j of this connection.
func (c *connRun) originSaw(j int) int {
	c.mu.Lock()
	defer c.mu.Unlock()
	if c.atOrigin == nil {
		c.atOrigin = map[int]bool{}
	}
	switch {
	case j < 0 || j >= int(c.sent.Load()):
		return sawUnsent
	case c.atOrigin[j]:
		return sawTwice
	}
	c.atOrigin[j] = true
	return sawOK
}

func (cr *caseRun) noteDial(addr string) {
	cr.addrMu.Lock()
	if cr.dialed == nil {
		cr.dialed = map[string]bool{}
	}
	cr.dialed[addr] = true
	cr.addrMu.Unlock()
}

func (cr *caseRun) noteAccepted(addr string) {
	cr.addrMu.Lock()
	cr.accepted = append(cr.accepted, addr)
	cr.addrMu.Unlock()
}

// strayConns: sockets the proxy's listener accepted that none of the case's clients made.
func (cr *caseRun) strayConns() int {
	cr.addrMu.Lock()
	defer cr.addrMu.Unlock()
	n := 0
	for _, a := range cr.accepted {
		if !cr.dialed[a] {
			n++
		}
	}
	return n
}

// addrListener records whose connections the listener hands out (rig b).
type addrListener struct {
	net.Listener
	cr *caseRun
}

func (l *addrListener) Accept() (net.Conn, error) {
	c, err := l.Listener.Accept()
	if err == nil {
		l.cr.noteAccepted(c.RemoteAddr().String())
	}
	return c, err
}

// strayClient plays the late dialer of somebody else's case whose proxy port has become this case's origin (or
// upstream proxy): one request "for" every connection of the case, under a host name that is not the case's, while the
// case's own traffic flows; and one connection that sends nothing valid at all.
func (cr *caseRun) strayClient() {
	targets := []string{cr.origin.Addr}
	if cr.upstream != nil {
		targets = append(targets, cr.upstream.Addr)
	}
	for _, addr := range targets {
		for k := range cr.conns {
			conn, err := net.DialTimeout("tcp", addr, 2*time.Second)
			if err != nil {
				continue
			}
			conn.SetDeadline(time.Now().Add(2 * time.Second))
			fmt.Fprintf(conn, "GET http://origin-%s.test/%d/0 HTTP/1.1\r\nHost: origin-%s.test\r\nAccept: */*\r\n\r\n", "5747261", k, "5747261")
			if m, err := rig.ReadResponse(bufio.NewReader(conn), "GET"); err == nil && m != nil && m.Status == 200 {
				cr.note("the case's origin answered 200 to a request that does not name it (connection %d)", k)
			}
			conn.Close()
			if k%2 == 1 {
				time.Sleep(300 * time.Microsecond)
			}
		}
	}
}
