/-
  `fwdmodel`: the executable model driver.  One request per line on stdin, one answer per
  line on stdout.  Imports only core-only modules (Lib, Model, Driver) so that it links.
-/
import FwdVerif.Driver.C16
import FwdVerif.Driver.Req
import FwdVerif.Driver.Resp
import FwdVerif.Driver.C17
import FwdVerif.Driver.C20
import FwdVerif.Driver.C03
import FwdVerif.Driver.C08
import FwdVerif.Driver.C18
import FwdVerif.Driver.C19
import FwdVerif.Driver.C14
import FwdVerif.Driver.C07
import FwdVerif.Driver.C15
import FwdVerif.Driver.H2
import FwdVerif.Driver.C13
import FwdVerif.Driver.C12
import FwdVerif.Driver.C11
import FwdVerif.Driver.C04
import FwdVerif.Driver.C05
import FwdVerif.Driver.C06
import FwdVerif.Driver.ReqConn
import FwdVerif.Driver.C01

open FwdVerif

def dispatch (line : String) : String :=
  match (line.trimAscii.toString).splitOn " " with
  | "C16" :: rest => C16.handle rest
  | "REQ" :: rest => Req.handle rest
  | "RESP" :: rest => Resp.handle rest
  | "C17" :: rest => C17.handle rest
  | "C20" :: rest => C20.handle rest
  | "C03" :: rest => C03.handle rest
  | "C08" :: rest => C08.handle rest
  | "C18" :: rest => C18.handle rest
  | "C19" :: rest => C19.handle rest
  | "C14" :: rest => C14.handle rest
  | "C07" :: rest => C07.handle rest
  | "C15" :: rest => C15.handle rest
  | "C09" :: rest => H2.handle rest
  | "C10" :: rest => H2.handle rest
  | "C13" :: rest => C13.handle rest
  | "C12" :: rest => C12.handle rest
  | "C11" :: rest => C11.handle rest
  | "C04" :: rest => C04.handle rest
  | "C05" :: rest => C05.handle rest
  | "C06" :: rest => C06.handle rest
  | "C02" :: rest => ReqConn.handle rest
  | "C01" :: rest => C01.handle rest
  | ["ping"] => "pong"
  | _ => "bad-op"

partial def loop (hin hout : IO.FS.Stream) : IO Unit := do
  let line ← hin.getLine
  if line.isEmpty then return ()
  hout.putStrLn (dispatch line)
  hout.flush
  loop hin hout

def main : IO Unit := do
  loop (← IO.getStdin) (← IO.getStdout)
