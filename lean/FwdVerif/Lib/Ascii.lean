/-
  ASCII helpers shared by the models: case folding, RFC 7230 token bytes,
  Go's `textproto.CanonicalMIMEHeaderKey` on byte strings.  Core-only.
-/
import FwdVerif.Lib.Wire

namespace FwdVerif
namespace Ascii

def isUpper (c : UInt8) : Bool := 65 ≤ c && c ≤ 90
def isLower (c : UInt8) : Bool := 97 ≤ c && c ≤ 122
def isDigit (c : UInt8) : Bool := 48 ≤ c && c ≤ 57
def isAlpha (c : UInt8) : Bool := isUpper c || isLower c

def toLower (c : UInt8) : UInt8 := if isUpper c then c + 32 else c
def toUpper (c : UInt8) : UInt8 := if isLower c then c - 32 else c

def lower (s : Bytes) : Bytes := s.map toLower

/-- ASCII case-insensitive equality (`strings.EqualFold` restricted to ASCII). -/
def eqFold (a b : Bytes) : Bool := lower a == lower b

/-- `[A-Za-z0-9-]` : the byte class of forwarder's header-rule names. -/
def isNameByte (c : UInt8) : Bool := isAlpha c || isDigit c || c == 45

/-- RFC 7230 `tchar` = Go's `validHeaderFieldByte`. -/
def isTokenByte (c : UInt8) : Bool :=
  isAlpha c || isDigit c ||
  c == 33 || c == 35 || c == 36 || c == 37 || c == 38 || c == 39 || c == 42 || c == 43 ||
  c == 45 || c == 46 || c == 94 || c == 95 || c == 96 || c == 124 || c == 126

/-- Go `\s` in RE2 syntax: `[\t\n\f\r ]`. -/
def isSpaceRE (c : UInt8) : Bool := c == 9 || c == 10 || c == 12 || c == 13 || c == 32

/-- canonicalisation loop of `canonicalMIMEHeaderKey` (all bytes already known valid) -/
def canonLoop : Bool → Bytes → Bytes
  | _, [] => []
  | up, c :: cs =>
    let c' := if up && isLower c then c - 32 else if !up && isUpper c then c + 32 else c
    c' :: canonLoop (c' == 45) cs

/-- Go's `textproto.CanonicalMIMEHeaderKey` / `http.CanonicalHeaderKey`. -/
def canonicalKey (s : Bytes) : Bytes :=
  if s.all isTokenByte then canonLoop true s else s

end Ascii
end FwdVerif
