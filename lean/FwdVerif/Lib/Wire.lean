/-
  Wire format of the line protocol between the Go harness (`fwdcheck`) and the Lean
  model driver (`fwdmodel`).  Core-only.

  A request line is  `<PROPERTY> <verb> <field> <field> …`  with fields separated by one
  space.  Byte strings are hex-encoded (`_` = empty string); lists of atoms are joined
  with `,` (`~` = empty list); lists of lists with `;`.  Numbers are decimal, negative
  numbers with a leading `-`.
-/
namespace FwdVerif

abbrev Bytes := List UInt8

namespace Wire

def hexDigit (n : Nat) : Char :=
  if n < 10 then Char.ofNat (48 + n) else Char.ofNat (87 + n)

def hexVal (c : Char) : Option Nat :=
  let n := c.toNat
  if 48 ≤ n ∧ n ≤ 57 then some (n - 48)
  else if 97 ≤ n ∧ n ≤ 102 then some (n - 87)
  else if 65 ≤ n ∧ n ≤ 70 then some (n - 55)
  else none

def hexOfBytes (bs : Bytes) : String :=
  if bs.isEmpty then "_" else
  String.ofList (bs.flatMap fun b => [hexDigit (b.toNat / 16), hexDigit (b.toNat % 16)])

def bytesOfHexChars : List Char → Option Bytes
  | [] => some []
  | [_] => none
  | a :: b :: rest => do
      let x ← hexVal a
      let y ← hexVal b
      let r ← bytesOfHexChars rest
      pure (UInt8.ofNat (x * 16 + y) :: r)

def bytesOfHex (s : String) : Option Bytes :=
  if s = "_" then some [] else bytesOfHexChars s.toList

/-- list of atoms: `~` is the empty list, otherwise comma separated -/
def splitList (s : String) : List String :=
  if s = "~" then [] else s.splitOn ","

def joinList (xs : List String) : String :=
  if xs.isEmpty then "~" else ",".intercalate xs

def splitList2 (s : String) : List String :=
  if s = "~" then [] else s.splitOn ";"

def joinList2 (xs : List String) : String :=
  if xs.isEmpty then "~" else ";".intercalate xs

def bytesList (s : String) : Option (List Bytes) :=
  (splitList s).mapM bytesOfHex

def hexList (xs : List Bytes) : String :=
  joinList (xs.map hexOfBytes)

def natOf (s : String) : Option Nat := s.toNat?

def intOf (s : String) : Option Int := s.toInt?

def natList (s : String) : Option (List Nat) := (splitList s).mapM natOf

def boolOf (s : String) : Option Bool :=
  if s = "1" ∨ s = "true" then some true
  else if s = "0" ∨ s = "false" then some false
  else none

def ofBool (b : Bool) : String := if b then "1" else "0"

/-- ASCII string → bytes (used for literals in models). -/
def b (s : String) : Bytes := s.toUTF8.toList

/-- bytes → String for diagnostics (lossy for non-UTF-8). -/
def str (bs : Bytes) : String :=
  String.ofList (bs.map fun x => Char.ofNat x.toNat)

end Wire
end FwdVerif

namespace FwdVerif
namespace Wire

/-- `key=value` tokens: look a key up. -/
def kv (toks : List String) (key : String) : Option String :=
  toks.findSome? fun t =>
    let pre := key ++ "="
    if t.startsWith pre then some ((t.drop pre.length).toString) else none

def kvD (toks : List String) (key dflt : String) : String := (kv toks key).getD dflt

/-- optional hex atom: `~` = none -/
def optBytes (s : String) : Option (Option Bytes) :=
  if s = "~" then some none else (bytesOfHex s).map some

end Wire
end FwdVerif
