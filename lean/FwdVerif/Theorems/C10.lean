/-
  C10 — "HTTP/2 relay preserves every stream's headers, data, END_STREAM, order, delivery".

  Property theorems over `Model/H2Relay.lean`, for every schedule of frames from both endpoints and
  every map-iteration order.  Helper lemmas: `Lemmas/H2Split.lean` (splitting), `H2Fifo.lean`
  (per-stream FIFO), `H2Flow.lean` (gate, no stranding), `H2Machine.lean` (whole schedules),
  `H2Order.lean` (reader loop), `H2Drain.lean` (whole-connection drain).

  Fidelity is stated in two layers.  (1) `c10_fifo`: for every stream of either direction, the frames
  released so far followed by the frames still queued are exactly the frames the relay built for
  the sender's frames (`enqOf`), in the sender's order.  (2) what `enqOf` builds carries the sender's
  content unchanged: `c10_data_*`, `c10_header_*`, `c10_zero_cost_*`.  HPACK is opaque: the block
  handed to the splitter is the relay encoder's output for the decoded list (trusted base: the
  library's round trip); `c10_encode_order_*` is about when that encoder is run.
-/
import FwdVerif.Lemmas.H2Encode
import FwdVerif.Lemmas.H2Size
import FwdVerif.Lemmas.H2Drain
import FwdVerif.Lemmas.H2Wire
import FwdVerif.Model.H2Handoff
import FwdVerif.Lemmas.H2TableCap
import FwdVerif.Model.H2Headers

namespace FwdVerif
namespace C10

open H2

variable {α : Type}

/-- relay state, ledgers and histories after a schedule, from the state `Config.Proxy` starts in -/
def after (evs : List (Ev α)) : Relay α × Ghost α := Relay.runG {} {} evs

/-! ### order and delivery -/

/-- **per-stream FIFO**, both directions, every schedule, every iteration order:
    released ++ still queued = built for the sender's frames, in the sender's order. -/
theorem c10_fifo (evs : List (Ev α)) (s : Nat) :
    (after evs).2.Hcs.out s ++ (after evs).1.cs.queueOf s = (after evs).2.Hcs.enq s ∧
    (after evs).2.Hsc.out s ++ (after evs).1.sc.queueOf s = (after evs).2.Hsc.enq s :=
  ⟨((RInv.init (α := α)).run evs).cs.fifo.split s, ((RInv.init (α := α)).run evs).sc.fifo.split s⟩

/-- **no stranding**: in every reachable state every queue is empty or its head does not fit
    `min(win s, connWin)`. -/
theorem c10_no_strand (evs : List (Ev α)) (s : Nat) (st : Stream α) :
    ((after evs).1.cs.streams.get s = some st → stuck st.win (after evs).1.cs.connWin st.queue) ∧
    ((after evs).1.sc.streams.get s = some st → stuck st.win (after evs).1.sc.connWin st.queue) :=
  ⟨((RInv.init (α := α)).run evs).cs.stuck s st, ((RInv.init (α := α)).run evs).sc.stuck s st⟩

/-- **delivery**: once the windows cover a stream's whole queue, the gate releases all of it. -/
theorem c10_drain_stream (d : Dir α) (s : Nat) (st : Stream α) (hs : d.streams.get s = some st)
    (hw : fcSum st.queue ≤ st.win) (hc : fcSum st.queue ≤ d.connWin) :
    (d.emitOn s).2 = st.queue ∧ (d.emitOn s).1.queueOf s = [] := by
  rcases d.emitOn_spec s with ⟨hn, _⟩ | ⟨st0, hs0, he2, he1⟩
  · rw [hn] at hs; simp at hs
  · rw [hs] at hs0; injection hs0 with hs0; subst hs0
    have := emitQ_all st.win d.connWin st.queue hw hc
    refine ⟨by rw [he2]; exact this.1, ?_⟩
    rw [he1]
    simp [Dir.queueOf, SMap.get_set, this.2]

/-- every scan (`sendQueuedFramesUnderWindowSize`) ends with nothing that fits left queued,
    whatever the state it starts from and whatever order Go's map iteration takes -/
theorem c10_scan_maximal (d : Dir α) (order : List Nat) : AllStuck (d.pass order).1 := AllStuck.pass d order

/-! ### whole-connection drain

  A direction is named by the side that sends on it (`Relay.dir`: `.client` = client→server); its
  receiver is `side.other`, whose frames — WINDOW_UPDATE among them — are read by the opposite relay
  `dir side.other`.  `releasedOn side trace` are the queued frames a trace of `Relay.run` released
  on the direction, in writer order.

  The model, like `updateWindow` in relay.go, adds increments to `int` windows without any upper
  bound check (RFC 7540 §6.9.1 wants FLOW_CONTROL_ERROR above 2³¹−1): no overflow guard is needed
  for the statements below, and none would be truthful.  What *is* needed is that the relay still
  reads the receiver's frames (`readerReady`): `c10_drain_reader_guard_witness`. -/

/-- the hypothesis of `c10_drain_connection` on the update list (decidable): only WINDOW_UPDATE
    frames sent by the receiver of the direction, increments in 1 … 2³¹−1, in any order and any
    split, whose totals cover what is queued on the direction `d`:
    connection   Σ over the buffers of the flow-controlled octets queued  ≤ connWin + Σ increments on stream 0
    stream `s` with a non-empty queue   octets queued on `s`  ≤ win s + Σ increments on `s`
    (a non-empty queue of zero-cost frames behind a negative window needs the window back at 0) -/
def Grants (d : Dir α) (side : Side) (ups : List (Ev α)) : Prop :=
  grantsOnly side ups = true ∧ Sufficient d (grantOn side 0 ups) (fun s => grantOn side s ups)

instance (d : Dir α) (side : Side) (ups : List (Ev α)) : Decidable (Grants d side ups) := by
  unfold Grants; exact inferInstance

/-- what the three drain theorems conclude about direction `side` after `evs ++ sfx`:
    every queue is empty; per stream, the frames released during `sfx` are exactly the frames that
    were queued after `evs`, in order; and (with `c10_fifo`) everything ever built for a stream has
    been released -/
def DrainedAfter (evs sfx : List (Ev α)) (side : Side) : Prop :=
  (∀ s, ((after (evs ++ sfx)).1.dir side).queueOf s = []) ∧
  (∀ s, onStream s (releasedOn side (Relay.run (after evs).1 sfx).2) =
        ((after evs).1.dir side).queueOf s) ∧
  (∀ s, ((after (evs ++ sfx)).2.hist side).out s = ((after (evs ++ sfx)).2.hist side).enq s)

/-- **eventual delivery, any fair suffix** (the general form).  After any schedule `evs`, let `sfx`
    be any continuation in which the sender of the direction sends nothing that goes through a queue
    (`quietFor`: it may send WINDOW_UPDATE, SETTINGS, PING, GOAWAY … — they act on the other
    direction) and the receiver sends *anything*: its own DATA and header blocks, PING, SETTINGS,
    WINDOW_UPDATE on the connection and on streams in any order and split, under any map iteration
    orders.  If the credit the relay gets out of `sfx` covers what is queued, the direction drains.
    The credit is (`Relay.connCredit`, `Relay.streamCredit`): the increments of the WINDOW_UPDATE
    frames the receiver's reader loop *processes* (`readOps`: none once that loop has ended, and a
    frame out of the Framer's order ends it) and, on streams, the net change of
    SETTINGS_INITIAL_WINDOW_SIZE over `sfx` (a decrease takes credit back:
    `c10_fair_suffix_settings_witness`). -/
theorem c10_eventual_delivery_any_fair_suffix (evs sfx : List (Ev α)) (side : Side)
    (hq : quietFor side sfx = true)
    (hc : Sufficient ((after evs).1.dir side) ((after evs).1.connCredit side sfx)
            ((after evs).1.streamCredit side sfx)) :
    DrainedAfter evs sfx side := by
  have hinv := (RInv.init (α := α)).run evs
  have hd := drain_of_quiet hinv side sfx hq hc
  have hnil : ∀ s, ((after (evs ++ sfx)).1.dir side).queueOf s = [] := by
    intro s; rw [show (after (evs ++ sfx)).1 = _ from Relay.runG_append_fst {} {} evs sfx]; exact hd.1 s
  refine ⟨hnil, hd.2, ?_⟩
  intro s
  have := (((RInv.init (α := α)).run (evs ++ sfx)).dir side).fifo.split s
  have hn := hnil s
  unfold after at hn
  rw [hn, List.append_nil] at this
  exact this

/-- **whole-connection drain** (T1).  For every schedule `evs` and each direction: if the relay still
    reads the receiver's frames and is not inside one of its header blocks, and the receiver then
    sends WINDOW_UPDATE frames — any order, any split into increments, connection and streams
    interleaved arbitrarily, any map iteration orders — whose totals cover what is queued
    (`Grants`), then after `evs ++ ups` every queue of the direction is empty and each stream's queue
    went out during `ups`, whole and in order. -/
theorem c10_drain_connection (evs ups : List (Ev α)) (side : Side)
    (hr : ((after evs).1.dir side.other).readerReady)
    (hu : Grants ((after evs).1.dir side) side ups) :
    DrainedAfter evs ups side := by
  have hcr := credit_of_updates (after evs).1 side ups hr hu.1
  exact c10_eventual_delivery_any_fair_suffix evs ups side (grantsOnly_quiet side ups hu.1)
    (hu.2.congr hcr.1.symm (fun s => (hcr.2 s).symm))

/-- **eventual delivery, interleaved** (the guarded form of the previous theorem, with the exceptions
    spelled out).  `c10_drain_connection` also holds when the WINDOW_UPDATE frames are interleaved
    with arbitrary further frames of the receiver — its own DATA, header blocks, PING, SETTINGS … —
    and with frames of the sender that go through no queue, *except* (`fairFrom`, decidable):
    the receiver's frames must pass the Framer's order check and be of a known type (otherwise the
    relay stops reading them, F38/F39, and with them all later credit), and its SETTINGS frames
    must not set SETTINGS_INITIAL_WINDOW_SIZE (that changes every stream window of this direction:
    the previous theorem accounts for it, `c10_fair_suffix_settings_witness` shows it matters).
    The totals are those of all WINDOW_UPDATE frames of the receiver in `sfx`. -/
theorem c10_eventual_delivery_interleaved (evs sfx : List (Ev α)) (side : Side)
    (hr : ((after evs).1.dir side.other).readerReady)
    (hf : fairFrom side none sfx = true)
    (hc : Sufficient ((after evs).1.dir side) (grantOn side 0 sfx) (fun s => grantOn side s sfx)) :
    DrainedAfter evs sfx side := by
  have hcr := credit_of_fair (after evs).1 side sfx hr hf
  exact c10_eventual_delivery_any_fair_suffix evs sfx side (fairFrom_spec side sfx none hf).1
    (hc.congr hcr.1.symm (fun s => (hcr.2 s).symm))

/-- **nothing is sent without credit** (stream; T1's hypothesis is tight): whatever state the
    reader loops are in, if the WINDOW_UPDATE frames do not cover the queue of stream `s`, stream `s`
    still has something queued at the end -/
theorem c10_drain_needs_stream_credit (evs ups : List (Ev α)) (side : Side) (hu : grantsOnly side ups = true)
    (s : Nat) (hq : ((after evs).1.dir side).queueOf s ≠ [])
    (hlt : (((after evs).1.dir side).buf s).win + grantOn side s ups < fcSum (((after evs).1.dir side).queueOf s)) :
    ((after (evs ++ ups)).1.dir side).queueOf s ≠ [] := by
  rw [show (after (evs ++ ups)).1 = _ from Relay.runG_append_fst {} {} evs ups]
  exact starved_of_updates side ups hu s hq hlt

/-- **nothing is sent without credit** (connection): in any continuation that enqueues nothing, if
    the connection-level increments sent do not cover everything queued, flow-controlled octets are
    still queued at the end -/
theorem c10_drain_needs_conn_credit (evs sfx : List (Ev α)) (side : Side) (hq : quietFor side sfx = true)
    (hlt : ((after evs).1.dir side).connWin + grantOn side 0 sfx < queuedTotal ((after evs).1.dir side).streams) :
    0 < queuedTotal ((after (evs ++ sfx)).1.dir side).streams := by
  rw [show (after (evs ++ sfx)).1 = _ from Relay.runG_append_fst {} {} evs sfx]
  exact conn_starved_of_quiet ((RInv.init (α := α)).run evs) side sfx hq hlt

/-- the guard of `c10_drain_connection` is needed (a consequence of F15 / F38 / F39: a relay
    direction that stopped reading also stops the *opposite* direction's credit).  10 octets wait on
    stream 1 for stream credit; (a) the server sends a frame of unknown type, (b) the server opens a
    header block and sends WINDOW_UPDATE before its CONTINUATION.  In both cases the server→client
    reader loop ends, the WINDOW_UPDATE that covers the queue (`Grants` holds) is never processed
    and the DATA stays queued — for good: nothing the server sends is read any more. -/
theorem c10_drain_reader_guard_witness :
    let upd : List (Ev Unit) := [⟨.server, fun _ => [], .windowUpdate 1 10⟩]
    let evsA : List (Ev Unit) :=
      [⟨.server, fun _ => [], .settings [(4, 0)]⟩,
       ⟨.client, fun _ => [], .data 1 (List.replicate 10 ()) none true⟩,
       ⟨.server, fun _ => [], .unknown 16⟩]
    let evsB : List (Ev Unit) :=
      [⟨.server, fun _ => [], .settings [(4, 0)]⟩,
       ⟨.client, fun _ => [], .data 1 (List.replicate 10 ()) none true⟩,
       ⟨.server, fun _ => [], .headers 1 false false {} [()] []⟩]
    (Grants ((after evsA).1.dir .client) .client upd ∧ ¬ ((after evsA).1.dir .server).readerReady ∧
      ((after (evsA ++ upd ++ upd)).1.dir .client).queueOf 1 = [.data 1 true (List.replicate 10 ())]) ∧
    (Grants ((after evsB).1.dir .client) .client upd ∧ ¬ ((after evsB).1.dir .server).readerReady ∧
      ((after (evsB ++ upd ++ upd)).1.dir .client).queueOf 1 = [.data 1 true (List.replicate 10 ())]) := by
  decide

/-- the SETTINGS_INITIAL_WINDOW_SIZE term of `Relay.streamCredit` is needed: 30 octets wait on stream
    1 behind a stream window of 10; the WINDOW_UPDATE of 20 covers them (`Grants` holds for it
    alone), but the receiver first lowers its initial window to 0, which takes 10 back — the suffix
    is quiet and fully read, and the DATA stays queued. -/
theorem c10_fair_suffix_settings_witness :
    let evs : List (Ev Unit) :=
      [⟨.server, fun _ => [], .settings [(4, 10)]⟩,
       ⟨.client, fun _ => [], .data 1 (List.replicate 30 ()) none true⟩]
    let upd : List (Ev Unit) := [⟨.server, fun _ => [], .windowUpdate 1 20⟩]
    let sfx : List (Ev Unit) := ⟨.server, fun _ => [], .settings [(4, 0)]⟩ :: upd
    Grants ((after evs).1.dir .client) .client upd ∧ ((after evs).1.dir .server).readerReady ∧
    quietFor .client sfx = true ∧ (after evs).1.readOps .client sfx = sfx.map (·.op) ∧
    (after evs).1.streamCredit .client sfx 1 = 10 ∧
    ((after (evs ++ sfx)).1.dir .client).queueOf 1 = [.data 1 true (List.replicate 30 ())] := by
  decide

/-! ### content -/

/-- DATA: the fragments concatenate to the sender's payload … -/
theorem c10_data_concat (d : Dir α) (sid : Nat) (payload : List α) (pad : Option Nat) (es : Bool) :
    (dataPayloads (enqOf d (.data sid payload pad es))).flatten = payload := by
  simp only [enqOf, dataQ_payloads, splitData_flatten]

/-- … all on the sender's stream, END_STREAM on the last fragment exactly when the sender set it -/
theorem c10_data_endstream_last (d : Dir α) (sid : Nat) (payload : List α) (pad : Option Nat) (es : Bool) :
    ∃ (cs : List (List α)) (c : List α), enqOf d (.data sid payload pad es) =
      cs.map (fun x => QFrame.data sid false x) ++ [QFrame.data sid es c] := by
  simp only [enqOf]
  have hne := splitData_ne_nil d.maxFrame payload
  obtain ⟨cs, c, h⟩ : ∃ cs c, splitData d.maxFrame payload = cs ++ [c] :=
    ⟨(splitData d.maxFrame payload).dropLast, (splitData d.maxFrame payload).getLast hne,
      (List.dropLast_concat_getLast hne).symm⟩
  exact ⟨cs, c, by rw [h, dataQ_shape]⟩

/-- header blocks: the chunks of the queued frame concatenate to the encoded block, and the frame
    goes out as HEADERS + CONTINUATION* carrying exactly these chunks, on the sender's stream, with
    the sender's priority and (for a block the sender did not continue) its END_STREAM flag -/
theorem c10_header_block (d : Dir α) (hm : 0 < d.maxFrame) (sid : Nat) (es : Bool) (prio : Prio) (frag reenc : List α) :
    ∃ chunks, enqOf d (.headers sid es true prio frag reenc) = [.headers sid es prio chunks d.encSeq] ∧
      chunks.flatten = reenc ∧
      frags (QFrame.send (.headers sid es prio chunks d.encSeq)) = chunks := by
  refine ⟨_, rfl, splitChunks_flatten _ _ hm reenc, send_headers_frags _ _ _ _ _⟩

theorem c10_push_promise_block (d : Dir α) (hm : 0 < d.maxFrame) (sid promised : Nat) (frag reenc : List α) :
    ∃ chunks, enqOf d (.pushPromise sid promised true frag reenc) = [.push sid promised chunks d.encSeq] ∧
      chunks.flatten = reenc ∧
      frags (QFrame.send (.push sid promised chunks d.encSeq)) = chunks := by
  refine ⟨_, rfl, splitChunks_flatten _ _ hm reenc, send_push_frags _ _ _ _⟩

/-- END_HEADERS is on the last frame of a block and nowhere else -/
theorem c10_end_headers_last (sid : Nat) (cs : List (List α)) (c : List α) :
    contFrames sid (cs ++ [c]) =
      cs.map (fun x => Frame.continuation sid false x) ++ [Frame.continuation sid true c] :=
  contFrames_shape sid cs c

/-- RST_STREAM, PRIORITY: relayed as they are, through the stream's queue -/
theorem c10_zero_cost_frames (d : Dir α) (sid code : Nat) (p : Prio) :
    enqOf d (.rst sid code) = [.rst sid code] ∧ QFrame.send (.rst sid code : QFrame α) = [.rst sid code] ∧
    enqOf d (.priority sid p) = [.priority sid p] ∧ QFrame.send (.priority sid p : QFrame α) = [.priority sid p] :=
  ⟨rfl, rfl, rfl, rfl⟩

/-- the connection-level frame a frame is relayed as -/
def connFrame : Op α → List (Frame α)
  | .settings kvs => [.settings kvs]
  | .settingsAck => [.settingsAck]
  | .ping a d => [.ping a d]
  | .goAway l c dbg => [.goAway l c dbg]
  | _ => []

/-- **connection-level frames** are relayed one for one, immediately, and nothing else is written
    to the receiver outside the queues -/
theorem c10_conn_frames_relayed (d o : Dir α) (ord : Nat → List Nat) (op : Op α) :
    (process d o ord op).2.2.fwdDirect = connFrame op := by
  cases op with
  | data sid p pad es => rfl
  | headers sid es eh prio frag reenc => simp only [H2.process, connFrame]; split <;> rfl
  | continuation sid eh frag reenc =>
    simp only [H2.process, connFrame]
    split
    · split <;> rfl
    · rfl
  | pushPromise sid promised eh frag reenc => simp only [H2.process, connFrame]; split <;> rfl
  | priority sid prio => rfl
  | rst sid code => rfl
  | windowUpdate sid inc => rfl
  | settings kvs => rfl
  | settingsAck => rfl
  | ping ack data => rfl
  | goAway last code debug => rfl
  | unknown typ => rfl

/-! ### END_STREAM of a continued HEADERS (F7) -/

/-- the relay direction after HEADERS without END_HEADERS -/
def afterOpenHeaders (d o : Dir α) (ord : Nat → List Nat) (sid : Nat) (es : Bool) (prio : Prio) (frag : List α) : Dir α :=
  (step d o ord (.headers sid es false prio frag [])).1

/-- full strength: a HEADERS frame completed by CONTINUATION is forwarded with the END_STREAM flag
    the sender put on it.  `fix` says which tree is meant: `false` the unchanged one, `true` the one
    with F7 repaired. -/
def c10_endstream_full_statement (fix : Bool) : Prop :=
  ∀ (d o : Dir Unit) (ord : Nat → List Nat) (sid : Nat) (es : Bool) (prio : Prio) (f1 f2 reenc : List Unit),
    d.fixEndStream = fix → d.dead = false → d.expectCont = none →
    ∃ chunks n, enqOf (afterOpenHeaders d o ord sid es prio f1) (.continuation sid true f2 reenc) =
      [.headers sid es prio chunks n]

theorem c10_open_headers_state (d o : Dir α) (ord : Nat → List Nat) (sid : Nat) (es : Bool) (prio : Prio) (f1 : List α)
    (hd : d.dead = false) (he : d.expectCont = none) :
    (afterOpenHeaders d o ord sid es prio f1).cont = Cont.headers prio es ∧
    (afterOpenHeaders d o ord sid es prio f1).fixEndStream = d.fixEndStream := by
  simp [afterOpenHeaders, H2.step, hd, orderOk, he, H2.process]

/-- the unchanged code passes `streamEnded = true` (F7): the statement holds when the sender did
    set END_STREAM (and for blocks that were not continued, `c10_header_block`) … -/
theorem c10_endstream_partial (d o : Dir α) (ord : Nat → List Nat) (sid : Nat) (prio : Prio) (f1 f2 reenc : List α)
    (hd : d.dead = false) (he : d.expectCont = none) :
    ∃ chunks n, enqOf (afterOpenHeaders d o ord sid true prio f1) (.continuation sid true f2 reenc) =
      [.headers sid true prio chunks n] := by
  have hc := c10_open_headers_state d o ord sid true prio f1 hd he
  simp only [enqOf, hc.1, if_true]
  have : (if (afterOpenHeaders d o ord sid true prio f1).fixEndStream = true then true else true) = true := by
    split <;> rfl
  rw [this]
  exact ⟨_, _, rfl⟩

/-- … and fails otherwise: request HEADERS (no END_STREAM) + CONTINUATION is queued with END_STREAM -/
theorem c10_endstream_witness : ¬ c10_endstream_full_statement false := by
  intro h
  obtain ⟨chunks, n, hq⟩ := h {} {} (fun _ => []) 1 false {} [()] [()] [(), ()] rfl rfl rfl
  revert hq
  simp [enqOf, afterOpenHeaders, H2.step, orderOk, H2.process, Dir.headerQ]

/-- with the proposed repair (`proposed/F7.diff`: keep the flag in `headerContinuation`) the full
    statement holds -/
theorem c10_endstream_full_repaired : c10_endstream_full_statement true := by
  intro d o ord sid es prio f1 f2 reenc hf hd he
  have hc := c10_open_headers_state d o ord sid es prio f1 hd he
  simp only [enqOf, hc.1, hc.2, hf, if_true]
  exact ⟨_, _, rfl⟩

/-! ### encoding order versus sending order (F21) -/

/-- full strength: header blocks leave a direction in the order in which they were encoded
    (`seqs` = encode sequence numbers of the blocks in a list of released frames, `Ghost.Ecs` /
    `Ghost.Esc` = everything released towards the server / the client, in writer order) -/
def c10_encode_order_full_statement : Prop :=
  ∀ evs : List (Ev Unit),
    (seqs (after evs).2.Ecs).Pairwise (· < ·) ∧ (seqs (after evs).2.Esc).Pairwise (· < ·)

/-- what the code guarantees, for whole schedules and every iteration order: if at no step boundary
    a header block is waiting in a queue (`NeverQueuesHeaders`: blocks are never queued behind
    flow-controlled DATA or a negative window), the blocks leave each direction in encoding order -/
theorem c10_encode_order_partial (evs : List (Ev α)) (h : NeverQueuesHeaders {} evs) :
    (seqs (after evs).2.Ecs).Pairwise (· < ·) ∧ (seqs (after evs).2.Esc).Pairwise (· < ·) := by
  have := EncInv.run (RInv.init (α := α)) EncInv.init EncInv.init evs h
  exact ⟨this.1.sorted, this.2.sorted⟩

/-- the local fact behind it: a block whose stream has nothing queued and a non-negative window is
    sent by the very step that encoded it -/
theorem c10_header_sent_at_once (d : Dir α) (sid : Nat) (block : List α) (es : Bool) (p : Prio)
    (hq : d.queueOf sid = []) (hw : 0 ≤ (d.buf sid).win) (hc : 0 ≤ d.connWin) :
    (d.header sid block es p).2 = [d.headerQ sid block es p] := by
  have hsid : (d.headerQ sid block es p).sid = sid := rfl
  unfold Dir.header Dir.enqEmit Dir.emitOn
  simp only [hsid, SMap.get_set, if_true]
  have hb : ({ d with encSeq := d.encSeq + 1 } : Dir α).buf sid = d.buf sid := rfl
  rw [hb, Dir.buf_queue, hq]
  simp only [List.nil_append, emitQ]
  have : ¬ (((d.headerQ sid block es p).fc : Int) > d.connWin ∨ ((d.headerQ sid block es p).fc : Int) > (d.buf sid).win) := by
    have : (d.headerQ sid block es p).fc = 0 := rfl
    rw [this]; simp; omega
  simp [this]

/-- F21 witness: the server grants no stream credit; a body on stream 1 is queued, its trailers are
    encoded (sequence number 1) and queued behind it; a request on stream 3, encoded later
    (sequence number 2), is sent first. -/
theorem c10_encode_order_witness : ¬ c10_encode_order_full_statement := by
  intro h
  have := (h [⟨.server, fun _ => [], .settings [(4, 0)]⟩,
             ⟨.client, fun _ => [], .headers 1 false true {} [()] [()]⟩,
             ⟨.client, fun _ => [], .data 1 [(), ()] none false⟩,
             ⟨.client, fun _ => [], .headers 1 true true {} [()] [()]⟩,
             ⟨.client, fun _ => [], .headers 3 true true {} [()] [()]⟩,
             ⟨.server, fun _ => [], .windowUpdate 1 10⟩]).1
  revert this
  decide

/-! ### the reader loop -/

/-- the nil `continuationState` dereference of `processFrame` is unreachable: the Framer's order
    check accepts CONTINUATION only after HEADERS without END_HEADERS -/
theorem c10_no_panic (evs : List (Ev α)) : ∀ x ∈ (Relay.run {} evs).2, x.2.2.panic = false := by
  have key : ∀ (r : Relay α), ContOk r.cs → ContOk r.sc → ∀ x ∈ (Relay.run r evs).2, x.2.2.panic = false := by
    induction evs with
    | nil => intro r _ _ x hx; simp [Relay.run] at hx
    | cons e es ih =>
      intro r hcs hsc x hx
      obtain ⟨side, ord, op⟩ := e
      simp only [Relay.run, List.mem_cons] at hx
      cases side with
      | client =>
        have h1 := hcs.step r.sc ord op
        have h2 := hsc.of_same (step_other r.cs r.sc ord op)
        rcases hx with hx | hx
        · subst hx; exact h1.2
        · exact ih _ h1.1 h2 x hx
      | server =>
        have h1 := hsc.step r.cs ord op
        have h2 := hcs.of_same (step_other r.sc r.cs ord op)
        rcases hx with hx | hx
        · subst hx; exact h1.2
        · exact ih _ h2 h1.1 x hx
  exact key {} (by intro s hs; simp at hs) (by intro s hs; simp at hs)

/-- F38 witness: a PUSH_PROMISE continued in a CONTINUATION frame does not open a block for the
    Framer; the CONTINUATION is a read error, the direction stops and relays nothing more (the
    PING after it is lost), while the other direction goes on -/
theorem c10_continued_push_promise_witness :
    let evs : List (Ev Unit) :=
      [⟨.server, fun _ => [], .pushPromise 1 2 false [()] []⟩,
       ⟨.server, fun _ => [], .continuation 1 true [()] [(), ()]⟩,
       ⟨.server, fun _ => [], .ping false 7⟩,
       ⟨.client, fun _ => [], .ping false 8⟩]
    let x := Relay.run {} evs
    x.1.sc.dead = true ∧ x.1.cs.dead = false ∧
    x.2.map (fun y => (y.2.2.fwd.length, y.2.2.fwdDirect)) = [(0, []), (0, []), (0, []), (0, [.ping false 8])] := by
  decide

/-! ### frames of unknown type (F39) -/

/-- full strength (RFC 7540 §4.1, "implementations MUST ignore and discard any frame that has a
    type that is unknown"): an unknown frame leaves the direction running -/
def c10_unknown_frame_full_statement : Prop :=
  ∀ (d o : Dir Unit) (ord : Nat → List Nat) (typ : Nat), (step d o ord (.unknown typ)).1.dead = d.dead

/-- what the code guarantees: processing a frame of any type the Framer knows never returns an error
    (HPACK decoding errors aside, which the model does not have: F15) -/
theorem c10_known_frames_never_fatal (d o : Dir α) (ord : Nat → List Nat) (op : Op α)
    (h : ∀ typ, op ≠ .unknown typ) : (process d o ord op).2.2.fatal = false := by
  cases op with
  | data sid p pad es => rfl
  | headers sid es eh prio frag reenc => simp only [H2.process]; split <;> rfl
  | continuation sid eh frag reenc =>
    simp only [H2.process]
    split
    · split <;> rfl
    · rfl
  | pushPromise sid promised eh frag reenc => simp only [H2.process]; split <;> rfl
  | priority sid prio => rfl
  | rst sid code => rfl
  | windowUpdate sid inc => rfl
  | settings kvs => rfl
  | settingsAck => rfl
  | ping ack data => rfl
  | goAway last code debug => rfl
  | unknown typ => exact absurd rfl (h typ)

/-- F39 witness: an extension frame (type 0x10, RFC 9218 PRIORITY_UPDATE) ends the client-to-server
    direction: `processFrame` answers "unrecognized frame type", the PING after it is never relayed -/
theorem c10_unknown_frame_witness :
    ¬ c10_unknown_frame_full_statement ∧
    (let evs : List (Ev Unit) :=
      [⟨.client, fun _ => [], .unknown 16⟩, ⟨.client, fun _ => [], .ping false 7⟩, ⟨.server, fun _ => [], .ping false 8⟩]
     let x := Relay.run {} evs
     x.1.cs.dead = true ∧ x.1.sc.dead = false ∧
     x.2.map (fun y => y.2.2.fwdDirect) = [[], [], [.ping false 8]]) := by
  refine ⟨?_, by decide⟩
  intro h
  have := h {} {} (fun _ => []) 16
  revert this
  decide

/-! ### non-vacuity -/

/-- `c10_drain_connection` on `H2.DrainExample` (Lemmas/H2Drain.lean): a 65 535-octet body on stream 5
    closes the connection window, the server lowers its initial window to 25, bodies of 30 and 20
    octets on streams 1 and 3 are queued behind the closed connection window (stream 1 also lacks 5
    octets of stream credit); the server grants 50 on the connection in three increments and 5 on
    stream 1 in two, interleaved -/
example : ((after DrainExample.queued).1.dir .server).readerReady ∧ Grants ((after DrainExample.queued).1.dir .client) .client DrainExample.updates := by
  rw [show (after DrainExample.queued).1 = _ from DrainExample.state_eq]
  decide

example : DrainedAfter DrainExample.queued DrainExample.updates .client := by
  have h : ((after DrainExample.queued).1.dir .server).readerReady ∧ Grants ((after DrainExample.queued).1.dir .client) .client DrainExample.updates := by
    rw [show (after DrainExample.queued).1 = _ from DrainExample.state_eq]; decide
  exact c10_drain_connection DrainExample.queued DrainExample.updates .client h.1 h.2

/-- what happens in this example, step by step: nothing fits the first two increments, stream 3 goes
    out with the third, stream 1 with the last -/
example :
    (Relay.run DrainExample.state DrainExample.updates).2.map (fun x => x.2.2.back.map (fun q => (q.sid, q.fc))) =
      [[], [], [(3, 20)], [], [(1, 30)]] := by
  decide

/-- the updates of this example minus the last one leave stream 1 queued (`c10_drain_needs_conn_credit`) -/
example : ((after DrainExample.queued).1.dir .client).connWin + grantOn .client 0 (DrainExample.updates.take 4) <
    queuedTotal ((after DrainExample.queued).1.dir .client).streams := by
  rw [show (after DrainExample.queued).1 = _ from DrainExample.state_eq]
  decide

/-- … and without the second increment on stream 1 it lacks stream credit (`c10_drain_needs_stream_credit`) -/
example :
    grantsOnly .client (DrainExample.updates.take 3 ++ DrainExample.updates.drop 4) = true ∧
    ((after DrainExample.queued).1.dir .client).queueOf 1 ≠ [] ∧
    (((after DrainExample.queued).1.dir .client).buf 1).win + grantOn .client 1 (DrainExample.updates.take 3 ++ DrainExample.updates.drop 4) <
      fcSum (((after DrainExample.queued).1.dir .client).queueOf 1) := by
  rw [show (after DrainExample.queued).1 = _ from DrainExample.state_eq]
  decide

/-- `c10_eventual_delivery_any_fair_suffix`: a request with body and trailers on stream 1 and a body
    on stream 3 wait for stream credit (initial window 10).  The server answers on stream 1 with a
    continued header block and DATA, the client credits that DATA and pings; in between the server
    grants 12 on stream 1, raises its initial window to 18 (8 more for every stream) and grants 7
    on stream 3 — exactly what the queues need (30 = 10 + 12 + 8, 25 = 10 + 7 + 8). -/
example :
    let evs : List (Ev Unit) :=
      [⟨.server, fun _ => [], .settings [(4, 10)]⟩,
       ⟨.client, fun _ => [], .headers 1 false true {} [()] [()]⟩,
       ⟨.client, fun _ => [], .data 1 (List.replicate 30 ()) none false⟩,
       ⟨.client, fun _ => [], .headers 1 true true {} [()] [()]⟩,
       ⟨.client, fun _ => [], .data 3 (List.replicate 25 ()) none true⟩]
    let sfx : List (Ev Unit) :=
      [⟨.server, fun _ => [], .headers 1 false false {} [()] []⟩,
       ⟨.server, fun _ => [], .continuation 1 true [()] [(), ()]⟩,
       ⟨.client, fun _ => [], .windowUpdate 1 100⟩,
       ⟨.server, fun _ => [], .windowUpdate 1 12⟩,
       ⟨.server, fun _ => [], .data 1 (List.replicate 7 ()) none false⟩,
       ⟨.client, fun _ => [], .ping false 1⟩,
       ⟨.server, fun _ => [3, 1], .settings [(4, 18)]⟩,
       ⟨.server, fun _ => [], .ping true 1⟩,
       ⟨.server, fun _ => [], .windowUpdate 3 7⟩]
    quietFor .client sfx = true ∧
    Sufficient ((after evs).1.dir .client) ((after evs).1.connCredit .client sfx) ((after evs).1.streamCredit .client sfx) ∧
    ((after evs).1.dir .client).queueOf 1 = [.data 1 false (List.replicate 30 ()), .headers 1 true {} [[()]] 1] ∧
    ((after evs).1.dir .client).queueOf 3 = [.data 3 true (List.replicate 25 ())] := by
  decide

/-- `c10_eventual_delivery_interleaved`: the same queues; the server's answer (continued header block,
    DATA), the client's credit for it and a PING exchange are interleaved with WINDOW_UPDATE frames
    of 12 + 8 on stream 1 and 15 on stream 3 -/
example :
    let evs : List (Ev Unit) :=
      [⟨.server, fun _ => [], .settings [(4, 10)]⟩,
       ⟨.client, fun _ => [], .headers 1 false true {} [()] [()]⟩,
       ⟨.client, fun _ => [], .data 1 (List.replicate 30 ()) none false⟩,
       ⟨.client, fun _ => [], .headers 1 true true {} [()] [()]⟩,
       ⟨.client, fun _ => [], .data 3 (List.replicate 25 ()) none true⟩]
    let sfx : List (Ev Unit) :=
      [⟨.server, fun _ => [], .headers 1 false false {} [()] []⟩,
       ⟨.server, fun _ => [], .continuation 1 true [()] [(), ()]⟩,
       ⟨.client, fun _ => [], .windowUpdate 1 100⟩,
       ⟨.server, fun _ => [], .windowUpdate 1 12⟩,
       ⟨.server, fun _ => [], .data 1 (List.replicate 7 ()) none false⟩,
       ⟨.client, fun _ => [], .ping false 1⟩,
       ⟨.server, fun _ => [3, 1], .windowUpdate 3 15⟩,
       ⟨.server, fun _ => [], .settings [(3, 100), (5, 20000)]⟩,
       ⟨.server, fun _ => [], .ping true 1⟩,
       ⟨.server, fun _ => [], .windowUpdate 1 8⟩]
    ((after evs).1.dir .server).readerReady ∧ fairFrom .client none sfx = true ∧
    Sufficient ((after evs).1.dir .client) (grantOn .client 0 sfx) (fun s => grantOn .client s sfx) := by
  decide

/-- a schedule in which no header block is ever queued: request headers, a body that fits, trailers -/
example : NeverQueuesHeaders ({} : Relay Unit)
    [⟨.client, fun _ => [], .headers 1 false true {} [()] [()]⟩,
     ⟨.client, fun _ => [], .data 1 [(), ()] none false⟩,
     ⟨.client, fun _ => [], .headers 1 true true {} [()] [()]⟩] := by
  refine ⟨?_, ?_, ?_, ?_, ?_, ?_, ?_, ?_⟩ <;> exact NoHdrQ.of_all _ (by decide)

/-- a 40-octet header block under a 16-octet limit with priority: HEADERS(11) + CONTINUATION(16) +
    CONTINUATION(13), END_HEADERS on the last, END_STREAM on the HEADERS frame -/
example :
    let d : Dir Unit := { maxFrame := 16 }
    (enqOf d (.headers 5 true true { dep := 3, weight := 7 } [] (List.replicate 40 ()))).flatMap QFrame.send =
      [.headers 5 true false { dep := 3, weight := 7 } (List.replicate 11 ()),
       .continuation 5 false (List.replicate 16 ()), .continuation 5 true (List.replicate 13 ())] := by
  decide

/-- DATA of 40 octets under a 16-octet limit: 16 + 16 + 8 with END_STREAM on the last -/
example :
    let d : Dir Unit := { maxFrame := 16 }
    (enqOf d (.data 1 (List.replicate 40 ()) none true)).map (fun q => (q.fc, match q with | .data _ e _ => e | _ => false)) =
      [(16, false), (16, false), (8, true)] := by
  decide


/-! ### several writers, one Framer: header blocks stay contiguous (RFC 7540 §6.10)

  The wire towards an endpoint is a merge of what three goroutines write to its Framer
  (`Model/H2Relay.lean`, last section).  `destMu` is held per queued ELEMENT, so the merge never
  splits an element; `sched` is the order in which the scheduler grants the lock. -/

/-- **in every merge of element sequences every header block is contiguous**: when each writer's
    elements are whole (may start with no block open, leave none open) and the lock is held per
    element, then for every number of writers, every element sequence and every order in which the
    lock is granted, the wire satisfies §6.10 and ends with no block open. -/
theorem c10_header_block_contiguous (ps : List (Producer α))
    (h : ∀ p ∈ ps, ∀ e ∈ p, wholeElem e = true) (sched : List Nat) :
    wireOk (mergeBy sched ps) = true ∧ wireScan none (mergeBy sched ps) = some none := by
  have hw : AllWhole ps := by
    intro p hp e he
    have := h p hp e he
    simpa [wholeElem] using this
  have := mergeBy_whole sched ps hw
  exact ⟨by simp [wireOk, this], this⟩

/-- the wire is a concatenation of unsplit elements, each one taken from one of the writers: the
    frames of a header block are next to each other, in their order -/
theorem c10_wire_is_unsplit_elements (ps : List (Producer α)) (sched : List Nat) :
    mergeBy sched ps = (mergeElems sched ps).flatten ∧ ∀ e ∈ mergeElems sched ps, ∃ p ∈ ps, e ∈ p :=
  mergeBy_flatten sched ps

/-- **the three writers of the relay**: the writer goroutine sends queued elements (`QFrame.send`,
    whatever was released), the reader goroutine of the same relay writes what `processFrame` writes
    directly towards the receiver, the reader goroutine of the peer relay what it writes directly
    towards its sender (WINDOW_UPDATE) — for any frames processed in any states, any released
    elements, and any lock order, the destination sees contiguous header blocks. -/
theorem c10_destination_wire_contiguous (released : List (QFrame α))
    (own : List (Dir α × Dir α × (Nat → List Nat) × Op α))
    (peer : List (Dir α × Dir α × (Nat → List Nat) × Op α)) (sched : List Nat) :
    let writer : Producer α := released.map QFrame.send
    let reader : Producer α := (own.flatMap fun x => (process x.1 x.2.1 x.2.2.1 x.2.2.2).2.2.fwdDirect).map fun f => [f]
    let peerReader : Producer α := (peer.flatMap fun x => (process x.1 x.2.1 x.2.2.1 x.2.2.2).2.2.backDirect).map fun f => [f]
    wireOk (mergeBy sched [writer, reader, peerReader]) = true := by
  intro writer reader peerReader
  refine (c10_header_block_contiguous [writer, reader, peerReader] ?_ sched).1
  intro p hp e he
  simp only [List.mem_cons, List.mem_nil_iff, or_false] at hp
  rcases hp with hp | hp | hp
  · subst hp
    obtain ⟨q, _, hq⟩ := List.mem_map.mp he
    subst hq
    simp [wholeElem, send_whole]
  · subst hp
    obtain ⟨f, hf, hq⟩ := List.mem_map.mp he
    subst hq
    obtain ⟨x, _, hfx⟩ := List.mem_flatMap.mp hf
    simp [wholeElem, single_whole f ((process_direct_single x.1 x.2.1 x.2.2.1 x.2.2.2).1 f hfx)]
  · subst hp
    obtain ⟨f, hf, hq⟩ := List.mem_map.mp he
    subst hq
    obtain ⟨x, _, hfx⟩ := List.mem_flatMap.mp hf
    simp [wholeElem, single_whole f ((process_direct_single x.1 x.2.1 x.2.2.1 x.2.2.2).2 f hfx)]

/-- witness that the granularity of the lock is what the statement rests on: a 40-octet block under
    a 16-octet limit (HEADERS + 2 CONTINUATION) and one PING of the reader goroutine.  With the lock
    per element every grant order is fine; with the lock per FRAME (`perFrame`) the order "writer,
    reader, writer, writer" puts the PING inside the block. -/
theorem c10_frame_granular_merge_witness :
    let d : Dir Unit := { maxFrame := 16 }
    let writer : Producer Unit := (enqOf d (.headers 5 false true {} [] (List.replicate 40 ()))).map QFrame.send
    let reader : Producer Unit := [[.ping false 7]]
    wireOk (mergeBy [0, 1, 0, 0] [writer, reader]) = true ∧
    wireOk (mergeBy [1, 0, 0, 0] [writer, reader]) = true ∧
    wireOk (mergeBy [0, 1, 0, 0] [perFrame writer, perFrame reader]) = false ∧
    wireFirstBad none 0 (mergeBy [0, 1, 0, 0] [perFrame writer, perFrame reader]) = some 1 := by
  decide

/-! ### the entry path: no HTTP/1 deadline under the relay (`Model/H2Handoff.lean`) -/

/-- **hand-off clears the deadlines**: for every configuration of the HTTP/1 timeouts (each set or
    not), whatever the times of the CONNECT request and of the `200`: a connection on which the
    client negotiates h2 is passed to the relay with no read and no write deadline armed. -/
theorem c10_h2_handoff_clears_deadlines (t : Timeouts) (t0 t1 t2 : Nat) :
    connectThenMITM false t t0 t1 t2 .tlsH2 = ({ rd := none, wr := none }, .relay) := by
  unfold connectThenMITM handleMITM writeResponse readRequest
  by_cases hw : t.write = 0 <;> simp [hw]

/-- … so no deadline ever fires under the relay: it is read for as long as the connection lives -/
theorem c10_h2_relay_never_times_out (t : Timeouts) (t0 t1 t2 at_ : Nat) :
    (connectThenMITM false t t0 t1 t2 .tlsH2).1.firedBy at_ = false := by
  rw [c10_h2_handoff_clears_deadlines]; rfl

/-- the other two continuations go back to `readRequest`, which arms its own deadlines from its own
    clock whatever it finds armed: there (and only there) a deadline left by `handleMITM` is harmless -/
theorem c10_http1_branches_rearm (c : Bool) (t : Timeouts) (t0 t1 t2 t3 t4 : Nat) (k : Tunnel) (hk : k ≠ .tlsH2) :
    (connectThenMITM c t t0 t1 t2 k).2 = .readRequest ∧
    (readRequest t t3 t4 (connectThenMITM c t t0 t1 t2 k).1).rd = arm t4 t.read := by
  cases k with
  | tlsH2 => exact absurd rfl hk
  | plain =>
    refine ⟨rfl, ?_⟩
    simp only [readRequest]
    split
    · rename_i h; exact h
    · rfl
  | tlsHttp1 =>
    refine ⟨rfl, ?_⟩
    simp only [readRequest]
    split
    · rename_i h; exact h
    · rfl

/-- witness for the conditional clear ("clear the idle deadline only when a MITM handshake timeout
    is configured"): IdleTimeout 400 ms, no handshake timeout, `200` written at 1000: the relay
    receives a read deadline of 1400 and is cut off then — with a handshake timeout it is not. -/
theorem c10_conditional_clear_witness :
    (connectThenMITM true { idle := 400 } 0 0 1000 .tlsH2).1.rd = some 1400 ∧
    (connectThenMITM true { idle := 400 } 0 0 1000 .tlsH2).1.firedBy 1400 = true ∧
    (connectThenMITM true { idle := 400, mitmHandshake := 300 } 0 0 1000 .tlsH2).1.rd = none ∧
    (connectThenMITM true { read := 500 } 0 0 1000 .tlsH2).1.rd = some 1500 := by
  decide

-- every timeout set, the CONNECT read at 10..20, the `200` at 30: nothing armed at hand-off
example : connectThenMITM false { idle := 300, read := 400, readHeader := 350, write := 500 } 10 20 30 .tlsH2 =
    ({ rd := none, wr := none }, .relay) := by decide

-- a PUSH_PROMISE block and the peer relay's WINDOW_UPDATE pair, any of 3^4 grant orders of length 4
example :
    let d : Dir Unit := { maxFrame := 16 }
    let writer : Producer Unit := (enqOf d (.pushPromise 1 2 true [] (List.replicate 30 ()))).map QFrame.send
    let peerReader : Producer Unit := [[.windowUpdate 0 5], [.windowUpdate 3 5]]
    (∀ p ∈ [writer, peerReader], ∀ e ∈ p, wholeElem e = true) ∧
    mergeBy [1, 0, 1] [writer, peerReader] =
      [.windowUpdate 0 5, .pushPromise 1 2 false (List.replicate 12 ()), .continuation 1 false (List.replicate 16 ()),
       .continuation 1 true (List.replicate 2 ()), .windowUpdate 3 5] := by
  decide

/-! ### HPACK table-size changes: header blocks in flight while SETTINGS_HEADER_TABLE_SIZE changes

  `Model/H2TableCap.lean`: a header block may begin with dynamic table size updates; the relay's
  decoder refuses one above its limit (`Dir.decoderCap`), and a refused block stops the direction —
  it is never delivered.  The sender is bound by the setting it has acknowledged, the relay applies
  the setting when it reads it: between the two, blocks governed by an OLDER value arrive. -/

/-- the decoders' limit is what `newRelay` set, after every schedule (sizes included) -/
theorem c10_decoder_cap_constant (f6 f7 : Bool) (hist : List (EvS α)) :
    (Relay.runSized false (Relay.start f6 f7) hist).1.cs.decoderCap = 4294967295 ∧
    (Relay.runSized false (Relay.start f6 f7) hist).1.sc.decoderCap = 4294967295 := by
  have h := caps_runSized (Relay.start (α := α) f6 f7) hist
  simp only [Relay.caps, Relay.start, Prod.mk.injEq] at h
  exact h

/-- **no header block whose size updates are within ANY value its sender was ever allowed is refused**
    — the protocol default or any SETTINGS_HEADER_TABLE_SIZE the other endpoint has sent so far,
    however long ago, whatever it has sent since, acknowledged or not: after every history the
    decoder of the sender's direction accepts the block and the frame is processed exactly as by the
    machine all the other theorems are about (`Relay.step`). -/
theorem c10_in_flight_size_update_accepted (f6 f7 : Bool) (hist : List (EvS α)) (hw : wireSettings hist)
    (e : EvS α) (he : ∀ u ∈ e.updates, ∃ v ∈ allowedEver e.ev.side hist, u ≤ v) :
    ((Relay.runSized false (Relay.start f6 f7) hist).1.dir e.ev.side).acceptsBlock e.updates = true ∧
    (Relay.runSized false (Relay.start f6 f7) hist).1.stepSized false e =
      (Relay.runSized false (Relay.start f6 f7) hist).1.step e.ev.side e.ev.ord e.ev.op := by
  have hc := c10_decoder_cap_constant f6 f7 hist
  have hacc : ((Relay.runSized false (Relay.start f6 f7) hist).1.dir e.ev.side).acceptsBlock e.updates = true := by
    simp only [Dir.acceptsBlock, List.all_eq_true, Dir.acceptsUpdate, decide_eq_true_eq]
    intro u hu
    obtain ⟨v, hv, huv⟩ := he u hu
    have := allowedEver_lt e.ev.side hist hw v hv
    cases hs : e.ev.side <;> simp only [Relay.dir, hc.1, hc.2] <;> omega
  refine ⟨hacc, ?_⟩
  unfold Relay.stepSized Relay.step
  cases hs : e.ev.side with
  | client =>
    rw [hs] at hacc
    simp only [stepSized_eq_step _ _ _ _ _ (by simpa [Relay.dir] using hacc)]
  | server =>
    rw [hs] at hacc
    simp only [stepSized_eq_step _ _ _ _ _ (by simpa [Relay.dir] using hacc)]

/-- so a whole schedule with size updates (32-bit values, as the wire carries them) IS a schedule of
    the machine without them: same outputs, same final state — fidelity, order and delivery
    (`c10_fifo` … `c10_eventual_delivery_*`) hold "with any HPACK table-size changes". -/
theorem c10_sized_schedule_is_schedule (f6 f7 : Bool) (es : List (EvS α))
    (hu : ∀ e ∈ es, ∀ u ∈ e.updates, u < 4294967296) :
    Relay.runSized false (Relay.start f6 f7) es = Relay.run (Relay.start f6 f7) (es.map (·.ev)) := by
  suffices h : ∀ (r : Relay α), r.caps = (4294967295, 4294967295) →
      Relay.runSized false r es = Relay.run r (es.map (·.ev)) from h _ rfl
  induction es with
  | nil => intro r _; rfl
  | cons e t ih =>
    intro r hr
    have hacc : ∀ d : Dir α, d.decoderCap = 4294967295 → d.acceptsBlock e.updates = true := by
      intro d hd
      simp only [Dir.acceptsBlock, List.all_eq_true, Dir.acceptsUpdate, decide_eq_true_eq, hd]
      intro u hu'
      have := hu e (List.mem_cons_self ..) u hu'
      omega
    simp only [Relay.caps, Prod.mk.injEq] at hr
    have hstep : r.stepSized false e = r.step e.ev.side e.ev.ord e.ev.op := by
      unfold Relay.stepSized Relay.step
      cases e.ev.side with
      | client => simp only [stepSized_eq_step _ _ _ _ _ (hacc _ hr.1)]
      | server => simp only [stepSized_eq_step _ _ _ _ _ (hacc _ hr.2)]
    have hcaps : (r.stepSized false e).1.caps = (4294967295, 4294967295) := by
      rw [caps_stepSized]; simp only [Relay.caps, hr.1, hr.2]
    simp only [Relay.runSized, List.map_cons, Relay.run]
    rw [ih (fun e' he' => hu e' (List.mem_cons_of_mem _ he')) _ hcaps, hstep]

/-- the server raises SETTINGS_HEADER_TABLE_SIZE to 8192 and lowers it to 1024; the client's request,
    encoded before the second frame reached it, begins with the size update 8192 -/
def inFlightExample : List (EvS Unit) :=
  [ { ev := { side := .server, ord := fun _ => [], op := .settings [(1, 8192)] } },
    { ev := { side := .server, ord := fun _ => [], op := .settings [(1, 1024)] } },
    { ev := { side := .client, ord := fun _ => [], op := .headers 1 true true {} [(), ()] [(), (), ()] },
      updates := [8192] } ]

/-- **witness**: a relay whose decoder limit follows the relayed setting ("the source must not signal
    a larger table than it was told": `capFollows`) refuses that request — the client-to-server
    direction stops, nothing is delivered — although 8192 is a value the client was allowed; the relay
    as it is delivers it at once. -/
theorem c10_cap_follows_setting_witness :
    (∀ u ∈ [8192], ∃ v ∈ allowedEver .client (inFlightExample.take 2), u ≤ v) ∧
    ((Relay.runSized true (Relay.startCap true false false) inFlightExample).2.map
        fun x => (x.2.2.fatal, x.2.2.fwd)) = [(false, []), (false, []), (true, [])] ∧
    (Relay.runSized true (Relay.startCap true false false) inFlightExample).1.cs.dead = true ∧
    ((Relay.runSized false (Relay.start false false) inFlightExample).2.map
        fun x => (x.2.2.fatal, x.2.2.fwd)) =
      [(false, []), (false, []), (false, [.headers 1 true {} [[(), (), ()]] 0])] ∧
    (Relay.runSized false (Relay.start false false) inFlightExample).1.cs.dead = false := by
  decide

-- a history in which the hypotheses of `c10_in_flight_size_update_accepted` hold with an update above
-- the value in force (1024) and above the default: 8192 was allowed once
example : wireSettings (inFlightExample.take 2) ∧
    (∀ u ∈ [8192], ∃ v ∈ allowedEver .client (inFlightExample.take 2), u ≤ v) := by
  refine ⟨?_, by decide⟩
  intro e he v hv
  simp only [inFlightExample, List.take, List.mem_cons, List.not_mem_nil, or_false] at he
  rcases he with rfl | rfl <;> simp [tableSizesOf, settingHeaderTableSize] at hv <;> omega

/-! ### header lists and the options of `h2.Config` (`Model/H2Headers.lean`)

  Between the relay's HPACK decoder and its encoder a header list passes through the loop of
  `encodeFull`, which also writes the debug dump when `EnableDebugLogs` is on.  What the receiving
  endpoint decodes — names, VALUES, never-indexed marks, order, count — is the list that was sent,
  whatever the option says; this for every schedule of header blocks of both directions (HEADERS,
  trailers, PUSH_PROMISE).  The frame machine of the other theorems is not given the option at all. -/

/-- the fields written to the encoder are the decoded fields, in order, for either setting -/
theorem c10_encode_full_writes_the_decoded_list (debug : Bool) (hs : List HField) :
    (encodeFull debug hs).2 = hs := by
  induction hs with
  | nil => rfl
  | cons h t ih =>
    simp only [encodeFull, encodeFullWith, List.map_cons, encodeField] at ih ⊢
    rw [ih]

/-- **header lists are relayed verbatim**: every header block of a schedule is decoded by its receiver
    to the list its sender encoded — names, values and never-indexed marks, in order — under every
    configuration -/
theorem c10_header_lists_relayed_verbatim (c : RelayCfg) (evs : List HEv) : relayLists c evs = evs := by
  induction evs with
  | nil => rfl
  | cons e t ih =>
    simp only [relayLists, relayListsWith, List.map_cons] at ih ⊢
    rw [ih]
    have : relayListWith encodeField c e.list = e.list := c10_encode_full_writes_the_decoded_list _ _
    rw [this]

/-- **the logging option changes no relayed header**: for every schedule the receivers decode the same
    lists (names and values, in order) whether `EnableDebugLogs` is on or off — and whatever else the
    two configurations differ in -/
theorem c10_header_values_independent_of_debug_logs (c c' : RelayCfg) (evs : List HEv) :
    relayLists c evs = relayLists c' evs := by
  rw [c10_header_lists_relayed_verbatim, c10_header_lists_relayed_verbatim]

/-- in particular the two settings of the option, everything else equal -/
theorem c10_header_values_same_with_logs_on_and_off (c : RelayCfg) (evs : List HEv) :
    relayLists { c with debugLogs := true } evs = relayLists { c with debugLogs := false } evs :=
  c10_header_values_independent_of_debug_logs _ _ evs

/-- what the option does change: the debug dump is the whole list when it is on, empty when it is off -/
theorem c10_debug_dump (hs : List HField) : (encodeFull true hs).1 = hs ∧ (encodeFull false hs).1 = [] := by
  induction hs with
  | nil => exact ⟨rfl, rfl⟩
  | cons h t ih =>
    simp only [encodeFull, encodeFullWith, List.map_cons, encodeField, List.filterMap_cons, if_true,
      Bool.false_eq_true, if_false] at ih ⊢
    exact ⟨by rw [ih.1], ih.2⟩

/-- the frame machine is started without the option: flow control, splitting, order and delivery of
    every schedule are those of the other theorems for both settings -/
theorem c10_frame_machine_independent_of_debug_logs (c : RelayCfg) (b : Bool) (evs : List (Ev α)) :
    Relay.run (Relay.startCfg { c with debugLogs := b }) evs = Relay.run (Relay.startCfg c) evs := rfl

/-- a request with an `authorization` field ("a" / "secret") its sender marked never indexed, and the
    response with an indexable field, as one schedule -/
def sensitiveExample : List HEv :=
  [ { side := .client, sid := 1,
      list := [ { name := [58, 112], value := [47] },
                { name := [97], value := [115, 101, 99, 114, 101, 116], sensitive := true } ] },
    { side := .server, sid := 1, list := [ { name := [58, 115], value := [50, 48, 48] } ] } ]

/-- **witness** (a loop body that redacts the value of a never-indexed field on the range copy before
    printing it, `encodeFieldRedacting`): with the option on, the server decodes "[redacted]" in place of
    the value the client sent — same names, same marks, same order and count — while with the option
    off the same schedule is relayed verbatim; so for that body the relayed values DO depend on the
    option, and only a run with the option on AND a never-indexed field shows it. -/
theorem c10_redacting_loop_body_witness :
    relayListsWith encodeFieldRedacting { debugLogs := true } sensitiveExample ≠
      relayListsWith encodeFieldRedacting { debugLogs := false } sensitiveExample ∧
    relayListsWith encodeFieldRedacting { debugLogs := false } sensitiveExample = sensitiveExample ∧
    (relayListsWith encodeFieldRedacting { debugLogs := true } sensitiveExample).map
        (fun e => e.list.map fun h => (h.name, h.sensitive)) =
      sensitiveExample.map (fun e => e.list.map fun h => (h.name, h.sensitive)) ∧
    (relayListsWith encodeFieldRedacting { debugLogs := true } sensitiveExample).map
        (fun e => e.list.map (·.value)) = [[[47], redacted], [[50, 48, 48]]] := by
  decide

/-- the same body is invisible without the option, for every schedule … -/
theorem c10_redacting_loop_body_silent_without_logs (c : RelayCfg) (h : c.debugLogs = false) (evs : List HEv) :
    relayListsWith encodeFieldRedacting c evs = evs := by
  have hl : ∀ hs : List HField, relayListWith encodeFieldRedacting c hs = hs := by
    intro hs
    induction hs with
    | nil => rfl
    | cons x t ih =>
      simp only [relayListWith, encodeFullWith, List.map_cons, encodeFieldRedacting, h, Bool.false_and,
        Bool.false_eq_true, if_false] at ih ⊢
      rw [ih]
  induction evs with
  | nil => rfl
  | cons e t ih =>
    simp only [relayListsWith, List.map_cons] at ih ⊢
    rw [ih, hl]

/-- … and without a never-indexed field, whatever the option says -/
theorem c10_redacting_loop_body_silent_without_sensitive_fields (c : RelayCfg) (evs : List HEv)
    (h : ∀ e ∈ evs, ∀ f ∈ e.list, f.sensitive = false) :
    relayListsWith encodeFieldRedacting c evs = evs := by
  have hl : ∀ hs : List HField, (∀ f ∈ hs, f.sensitive = false) → relayListWith encodeFieldRedacting c hs = hs := by
    intro hs
    induction hs with
    | nil => intro _; rfl
    | cons x t ih =>
      intro hx
      have h1 := hx x (List.mem_cons_self ..)
      have h2 := ih (fun f hf => hx f (List.mem_cons_of_mem _ hf))
      simp only [relayListWith, encodeFullWith, List.map_cons, encodeFieldRedacting, h1, Bool.and_false,
        Bool.false_eq_true, if_false] at h2 ⊢
      rw [h2]
  induction evs with
  | nil => rfl
  | cons e t ih =>
    have h1 := hl e.list (h e (List.mem_cons_self ..))
    have h2 := ih (fun e' he' => h e' (List.mem_cons_of_mem _ he'))
    simp only [relayListsWith, List.map_cons] at h2 ⊢
    rw [h2, h1]

-- the schedule of the witness has a never-indexed field and is relayed verbatim by the tree's loop body
example : relayLists { debugLogs := true } sensitiveExample = sensitiveExample ∧
    (sensitiveExample.any fun e => e.list.any (·.sensitive)) = true := by decide

end C10
end FwdVerif
