/-
  C10 — "HTTP/2 relay preserves every stream's headers, data, END_STREAM, order, delivery".

  Property theorems over `Model/H2Relay.lean`, for every schedule of frames from both endpoints and
  every map-iteration order.  Helper lemmas: `Lemmas/H2Split.lean` (splitting), `H2Fifo.lean`
  (per-stream FIFO), `H2Flow.lean` (gate, no stranding), `H2Machine.lean` (whole schedules),
  `H2Order.lean` (reader loop).

  Fidelity is stated in two layers.  (1) `c10_fifo`: for every stream of either direction, the frames
  released so far followed by the frames still queued are exactly the frames the relay built for
  the sender's frames (`enqOf`), in the sender's order.  (2) what `enqOf` builds carries the sender's
  content unchanged: `c10_data_*`, `c10_header_*`, `c10_zero_cost_*`.  HPACK is opaque: the block
  handed to the splitter is the relay encoder's output for the decoded list (trusted base: the
  library's round trip); `c10_encode_order_*` is about when that encoder is run.
-/
import FwdVerif.Lemmas.H2Encode
import FwdVerif.Lemmas.H2Size

namespace FwdVerif
namespace C10

open H2

variable {α : Type}

/-- relay state, ledgers and histories after a schedule, from the state `Config.Proxy` starts in -/
def after (evs : List (Ev α)) : Relay α × Ghost α := Relay.runG {} {} evs

/-! ### order and delivery -/

/-- **per-stream FIFO**, both directions, every schedule, every iteration order:
    released ++ still queued = built for the sender's frames, in the sender's order. -/
theorem c10_fifo (evs : List (Ev α)) (s : Nat) :
    (after evs).2.Hcs.out s ++ (after evs).1.cs.queueOf s = (after evs).2.Hcs.enq s ∧
    (after evs).2.Hsc.out s ++ (after evs).1.sc.queueOf s = (after evs).2.Hsc.enq s :=
  ⟨((RInv.init (α := α)).run evs).cs.fifo.split s, ((RInv.init (α := α)).run evs).sc.fifo.split s⟩

/-- **no stranding**: in every reachable state every queue is empty or its head does not fit
    `min(win s, connWin)`. -/
theorem c10_no_strand (evs : List (Ev α)) (s : Nat) (st : Stream α) :
    ((after evs).1.cs.streams.get s = some st → stuck st.win (after evs).1.cs.connWin st.queue) ∧
    ((after evs).1.sc.streams.get s = some st → stuck st.win (after evs).1.sc.connWin st.queue) :=
  ⟨((RInv.init (α := α)).run evs).cs.stuck s st, ((RInv.init (α := α)).run evs).sc.stuck s st⟩

/-- **delivery**: once the windows cover a stream's whole queue, the gate releases all of it. -/
theorem c10_drain_stream (d : Dir α) (s : Nat) (st : Stream α) (hs : d.streams.get s = some st)
    (hw : fcSum st.queue ≤ st.win) (hc : fcSum st.queue ≤ d.connWin) :
    (d.emitOn s).2 = st.queue ∧ (d.emitOn s).1.queueOf s = [] := by
  rcases d.emitOn_spec s with ⟨hn, _⟩ | ⟨st0, hs0, he2, he1⟩
  · rw [hn] at hs; simp at hs
  · rw [hs] at hs0; injection hs0 with hs0; subst hs0
    have := emitQ_all st.win d.connWin st.queue hw hc
    refine ⟨by rw [he2]; exact this.1, ?_⟩
    rw [he1]
    simp [Dir.queueOf, SMap.get_set, this.2]

/-- every scan (`sendQueuedFramesUnderWindowSize`) ends with nothing that fits left queued,
    whatever the state it starts from and whatever order Go's map iteration takes -/
theorem c10_scan_maximal (d : Dir α) (order : List Nat) : AllStuck (d.pass order).1 := AllStuck.pass d order

/-! ### content -/

/-- DATA: the fragments concatenate to the sender's payload … -/
theorem c10_data_concat (d : Dir α) (sid : Nat) (payload : List α) (pad : Option Nat) (es : Bool) :
    (dataPayloads (enqOf d (.data sid payload pad es))).flatten = payload := by
  simp only [enqOf, dataQ_payloads, splitData_flatten]

/-- … all on the sender's stream, END_STREAM on the last fragment exactly when the sender set it -/
theorem c10_data_endstream_last (d : Dir α) (sid : Nat) (payload : List α) (pad : Option Nat) (es : Bool) :
    ∃ (cs : List (List α)) (c : List α), enqOf d (.data sid payload pad es) =
      cs.map (fun x => QFrame.data sid false x) ++ [QFrame.data sid es c] := by
  simp only [enqOf]
  have hne := splitData_ne_nil d.maxFrame payload
  obtain ⟨cs, c, h⟩ : ∃ cs c, splitData d.maxFrame payload = cs ++ [c] :=
    ⟨(splitData d.maxFrame payload).dropLast, (splitData d.maxFrame payload).getLast hne,
      (List.dropLast_concat_getLast hne).symm⟩
  exact ⟨cs, c, by rw [h, dataQ_shape]⟩

/-- header blocks: the chunks of the queued frame concatenate to the encoded block, and the frame
    goes out as HEADERS + CONTINUATION* carrying exactly these chunks, on the sender's stream, with
    the sender's priority and (for a block the sender did not continue) its END_STREAM flag -/
theorem c10_header_block (d : Dir α) (hm : 0 < d.maxFrame) (sid : Nat) (es : Bool) (prio : Prio) (frag reenc : List α) :
    ∃ chunks, enqOf d (.headers sid es true prio frag reenc) = [.headers sid es prio chunks d.encSeq] ∧
      chunks.flatten = reenc ∧
      frags (QFrame.send (.headers sid es prio chunks d.encSeq)) = chunks := by
  refine ⟨_, rfl, splitChunks_flatten _ _ hm reenc, send_headers_frags _ _ _ _ _⟩

theorem c10_push_promise_block (d : Dir α) (hm : 0 < d.maxFrame) (sid promised : Nat) (frag reenc : List α) :
    ∃ chunks, enqOf d (.pushPromise sid promised true frag reenc) = [.push sid promised chunks d.encSeq] ∧
      chunks.flatten = reenc ∧
      frags (QFrame.send (.push sid promised chunks d.encSeq)) = chunks := by
  refine ⟨_, rfl, splitChunks_flatten _ _ hm reenc, send_push_frags _ _ _ _⟩

/-- END_HEADERS is on the last frame of a block and nowhere else -/
theorem c10_end_headers_last (sid : Nat) (cs : List (List α)) (c : List α) :
    contFrames sid (cs ++ [c]) =
      cs.map (fun x => Frame.continuation sid false x) ++ [Frame.continuation sid true c] :=
  contFrames_shape sid cs c

/-- RST_STREAM, PRIORITY: relayed as they are, through the stream's queue -/
theorem c10_zero_cost_frames (d : Dir α) (sid code : Nat) (p : Prio) :
    enqOf d (.rst sid code) = [.rst sid code] ∧ QFrame.send (.rst sid code : QFrame α) = [.rst sid code] ∧
    enqOf d (.priority sid p) = [.priority sid p] ∧ QFrame.send (.priority sid p : QFrame α) = [.priority sid p] :=
  ⟨rfl, rfl, rfl, rfl⟩

/-- the connection-level frame a frame is relayed as -/
def connFrame : Op α → List (Frame α)
  | .settings kvs => [.settings kvs]
  | .settingsAck => [.settingsAck]
  | .ping a d => [.ping a d]
  | .goAway l c dbg => [.goAway l c dbg]
  | _ => []

/-- **connection-level frames** are relayed one for one, immediately, and nothing else is written
    to the receiver outside the queues -/
theorem c10_conn_frames_relayed (d o : Dir α) (ord : Nat → List Nat) (op : Op α) :
    (process d o ord op).2.2.fwdDirect = connFrame op := by
  cases op with
  | data sid p pad es => rfl
  | headers sid es eh prio frag reenc => simp only [H2.process, connFrame]; split <;> rfl
  | continuation sid eh frag reenc =>
    simp only [H2.process, connFrame]
    split
    · split <;> rfl
    · rfl
  | pushPromise sid promised eh frag reenc => simp only [H2.process, connFrame]; split <;> rfl
  | priority sid prio => rfl
  | rst sid code => rfl
  | windowUpdate sid inc => rfl
  | settings kvs => rfl
  | settingsAck => rfl
  | ping ack data => rfl
  | goAway last code debug => rfl
  | unknown typ => rfl

/-! ### END_STREAM of a continued HEADERS (F7) -/

/-- the relay direction after HEADERS without END_HEADERS -/
def afterOpenHeaders (d o : Dir α) (ord : Nat → List Nat) (sid : Nat) (es : Bool) (prio : Prio) (frag : List α) : Dir α :=
  (step d o ord (.headers sid es false prio frag [])).1

/-- full strength: a HEADERS frame completed by CONTINUATION is forwarded with the END_STREAM flag
    the sender put on it.  `fix` says which tree is meant: `false` the unchanged one, `true` the one
    with F7 repaired. -/
def c10_endstream_full_statement (fix : Bool) : Prop :=
  ∀ (d o : Dir Unit) (ord : Nat → List Nat) (sid : Nat) (es : Bool) (prio : Prio) (f1 f2 reenc : List Unit),
    d.fixEndStream = fix → d.dead = false → d.expectCont = none →
    ∃ chunks n, enqOf (afterOpenHeaders d o ord sid es prio f1) (.continuation sid true f2 reenc) =
      [.headers sid es prio chunks n]

theorem c10_open_headers_state (d o : Dir α) (ord : Nat → List Nat) (sid : Nat) (es : Bool) (prio : Prio) (f1 : List α)
    (hd : d.dead = false) (he : d.expectCont = none) :
    (afterOpenHeaders d o ord sid es prio f1).cont = Cont.headers prio es ∧
    (afterOpenHeaders d o ord sid es prio f1).fixEndStream = d.fixEndStream := by
  simp [afterOpenHeaders, H2.step, hd, orderOk, he, H2.process]

/-- the unchanged code passes `streamEnded = true` (F7): the statement holds when the sender did
    set END_STREAM (and for blocks that were not continued, `c10_header_block`) … -/
theorem c10_endstream_partial (d o : Dir α) (ord : Nat → List Nat) (sid : Nat) (prio : Prio) (f1 f2 reenc : List α)
    (hd : d.dead = false) (he : d.expectCont = none) :
    ∃ chunks n, enqOf (afterOpenHeaders d o ord sid true prio f1) (.continuation sid true f2 reenc) =
      [.headers sid true prio chunks n] := by
  have hc := c10_open_headers_state d o ord sid true prio f1 hd he
  simp only [enqOf, hc.1, if_true]
  have : (if (afterOpenHeaders d o ord sid true prio f1).fixEndStream = true then true else true) = true := by
    split <;> rfl
  rw [this]
  exact ⟨_, _, rfl⟩

/-- … and fails otherwise: request HEADERS (no END_STREAM) + CONTINUATION is queued with END_STREAM -/
theorem c10_endstream_witness : ¬ c10_endstream_full_statement false := by
  intro h
  obtain ⟨chunks, n, hq⟩ := h {} {} (fun _ => []) 1 false {} [()] [()] [(), ()] rfl rfl rfl
  revert hq
  simp [enqOf, afterOpenHeaders, H2.step, orderOk, H2.process, Dir.headerQ]

/-- with the proposed repair (`proposed/F7.diff`: keep the flag in `headerContinuation`) the full
    statement holds -/
theorem c10_endstream_full_repaired : c10_endstream_full_statement true := by
  intro d o ord sid es prio f1 f2 reenc hf hd he
  have hc := c10_open_headers_state d o ord sid es prio f1 hd he
  simp only [enqOf, hc.1, hc.2, hf, if_true]
  exact ⟨_, _, rfl⟩

/-! ### encoding order versus sending order (F21) -/

/-- full strength: header blocks leave a direction in the order in which they were encoded
    (`seqs` = encode sequence numbers of the blocks in a list of released frames, `Ghost.Ecs` /
    `Ghost.Esc` = everything released towards the server / the client, in writer order) -/
def c10_encode_order_full_statement : Prop :=
  ∀ evs : List (Ev Unit),
    (seqs (after evs).2.Ecs).Pairwise (· < ·) ∧ (seqs (after evs).2.Esc).Pairwise (· < ·)

/-- what the code guarantees, for whole schedules and every iteration order: if at no step boundary
    a header block is waiting in a queue (`NeverQueuesHeaders`: blocks are never queued behind
    flow-controlled DATA or a negative window), the blocks leave each direction in encoding order -/
theorem c10_encode_order_partial (evs : List (Ev α)) (h : NeverQueuesHeaders {} evs) :
    (seqs (after evs).2.Ecs).Pairwise (· < ·) ∧ (seqs (after evs).2.Esc).Pairwise (· < ·) := by
  have := EncInv.run (RInv.init (α := α)) EncInv.init EncInv.init evs h
  exact ⟨this.1.sorted, this.2.sorted⟩

/-- the local fact behind it: a block whose stream has nothing queued and a non-negative window is
    sent by the very step that encoded it -/
theorem c10_header_sent_at_once (d : Dir α) (sid : Nat) (block : List α) (es : Bool) (p : Prio)
    (hq : d.queueOf sid = []) (hw : 0 ≤ (d.buf sid).win) (hc : 0 ≤ d.connWin) :
    (d.header sid block es p).2 = [d.headerQ sid block es p] := by
  have hsid : (d.headerQ sid block es p).sid = sid := rfl
  unfold Dir.header Dir.enqEmit Dir.emitOn
  simp only [hsid, SMap.get_set, if_true]
  have hb : ({ d with encSeq := d.encSeq + 1 } : Dir α).buf sid = d.buf sid := rfl
  rw [hb, Dir.buf_queue, hq]
  simp only [List.nil_append, emitQ]
  have : ¬ (((d.headerQ sid block es p).fc : Int) > d.connWin ∨ ((d.headerQ sid block es p).fc : Int) > (d.buf sid).win) := by
    have : (d.headerQ sid block es p).fc = 0 := rfl
    rw [this]; simp; omega
  simp [this]

/-- F21 witness: the server grants no stream credit; a body on stream 1 is queued, its trailers are
    encoded (sequence number 1) and queued behind it; a request on stream 3, encoded later
    (sequence number 2), is sent first. -/
theorem c10_encode_order_witness : ¬ c10_encode_order_full_statement := by
  intro h
  have := (h [⟨.server, fun _ => [], .settings [(4, 0)]⟩,
             ⟨.client, fun _ => [], .headers 1 false true {} [()] [()]⟩,
             ⟨.client, fun _ => [], .data 1 [(), ()] none false⟩,
             ⟨.client, fun _ => [], .headers 1 true true {} [()] [()]⟩,
             ⟨.client, fun _ => [], .headers 3 true true {} [()] [()]⟩,
             ⟨.server, fun _ => [], .windowUpdate 1 10⟩]).1
  revert this
  decide

/-! ### the reader loop -/

/-- the nil `continuationState` dereference of `processFrame` is unreachable: the Framer's order
    check accepts CONTINUATION only after HEADERS without END_HEADERS -/
theorem c10_no_panic (evs : List (Ev α)) : ∀ x ∈ (Relay.run {} evs).2, x.2.2.panic = false := by
  have key : ∀ (r : Relay α), ContOk r.cs → ContOk r.sc → ∀ x ∈ (Relay.run r evs).2, x.2.2.panic = false := by
    induction evs with
    | nil => intro r _ _ x hx; simp [Relay.run] at hx
    | cons e es ih =>
      intro r hcs hsc x hx
      obtain ⟨side, ord, op⟩ := e
      simp only [Relay.run, List.mem_cons] at hx
      cases side with
      | client =>
        have h1 := hcs.step r.sc ord op
        have h2 := hsc.of_same (step_other r.cs r.sc ord op)
        rcases hx with hx | hx
        · subst hx; exact h1.2
        · exact ih _ h1.1 h2 x hx
      | server =>
        have h1 := hsc.step r.cs ord op
        have h2 := hcs.of_same (step_other r.sc r.cs ord op)
        rcases hx with hx | hx
        · subst hx; exact h1.2
        · exact ih _ h2 h1.1 x hx
  exact key {} (by intro s hs; simp at hs) (by intro s hs; simp at hs)

/-- F38 witness: a PUSH_PROMISE continued in a CONTINUATION frame does not open a block for the
    Framer; the CONTINUATION is a read error, the direction stops and relays nothing more (the
    PING after it is lost), while the other direction goes on -/
theorem c10_continued_push_promise_witness :
    let evs : List (Ev Unit) :=
      [⟨.server, fun _ => [], .pushPromise 1 2 false [()] []⟩,
       ⟨.server, fun _ => [], .continuation 1 true [()] [(), ()]⟩,
       ⟨.server, fun _ => [], .ping false 7⟩,
       ⟨.client, fun _ => [], .ping false 8⟩]
    let x := Relay.run {} evs
    x.1.sc.dead = true ∧ x.1.cs.dead = false ∧
    x.2.map (fun y => (y.2.2.fwd.length, y.2.2.fwdDirect)) = [(0, []), (0, []), (0, []), (0, [.ping false 8])] := by
  decide

/-! ### frames of unknown type (F39) -/

/-- full strength (RFC 7540 §4.1, "implementations MUST ignore and discard any frame that has a
    type that is unknown"): an unknown frame leaves the direction running -/
def c10_unknown_frame_full_statement : Prop :=
  ∀ (d o : Dir Unit) (ord : Nat → List Nat) (typ : Nat), (step d o ord (.unknown typ)).1.dead = d.dead

/-- what the code guarantees: processing a frame of any type the Framer knows never returns an error
    (HPACK decoding errors aside, which the model does not have: F15) -/
theorem c10_known_frames_never_fatal (d o : Dir α) (ord : Nat → List Nat) (op : Op α)
    (h : ∀ typ, op ≠ .unknown typ) : (process d o ord op).2.2.fatal = false := by
  cases op with
  | data sid p pad es => rfl
  | headers sid es eh prio frag reenc => simp only [H2.process]; split <;> rfl
  | continuation sid eh frag reenc =>
    simp only [H2.process]
    split
    · split <;> rfl
    · rfl
  | pushPromise sid promised eh frag reenc => simp only [H2.process]; split <;> rfl
  | priority sid prio => rfl
  | rst sid code => rfl
  | windowUpdate sid inc => rfl
  | settings kvs => rfl
  | settingsAck => rfl
  | ping ack data => rfl
  | goAway last code debug => rfl
  | unknown typ => exact absurd rfl (h typ)

/-- F39 witness: an extension frame (type 0x10, RFC 9218 PRIORITY_UPDATE) ends the client-to-server
    direction: `processFrame` answers "unrecognized frame type", the PING after it is never relayed -/
theorem c10_unknown_frame_witness :
    ¬ c10_unknown_frame_full_statement ∧
    (let evs : List (Ev Unit) :=
      [⟨.client, fun _ => [], .unknown 16⟩, ⟨.client, fun _ => [], .ping false 7⟩, ⟨.server, fun _ => [], .ping false 8⟩]
     let x := Relay.run {} evs
     x.1.cs.dead = true ∧ x.1.sc.dead = false ∧
     x.2.map (fun y => y.2.2.fwdDirect) = [[], [], [.ping false 8]]) := by
  refine ⟨?_, by decide⟩
  intro h
  have := h {} {} (fun _ => []) 16
  revert this
  decide

/-! ### non-vacuity -/

/-- a schedule in which no header block is ever queued: request headers, a body that fits, trailers -/
example : NeverQueuesHeaders ({} : Relay Unit)
    [⟨.client, fun _ => [], .headers 1 false true {} [()] [()]⟩,
     ⟨.client, fun _ => [], .data 1 [(), ()] none false⟩,
     ⟨.client, fun _ => [], .headers 1 true true {} [()] [()]⟩] := by
  refine ⟨?_, ?_, ?_, ?_, ?_, ?_, ?_, ?_⟩ <;> exact NoHdrQ.of_all _ (by decide)

/-- a 40-octet header block under a 16-octet limit with priority: HEADERS(11) + CONTINUATION(16) +
    CONTINUATION(13), END_HEADERS on the last, END_STREAM on the HEADERS frame -/
example :
    let d : Dir Unit := { maxFrame := 16 }
    (enqOf d (.headers 5 true true { dep := 3, weight := 7 } [] (List.replicate 40 ()))).flatMap QFrame.send =
      [.headers 5 true false { dep := 3, weight := 7 } (List.replicate 11 ()),
       .continuation 5 false (List.replicate 16 ()), .continuation 5 true (List.replicate 13 ())] := by
  decide

/-- DATA of 40 octets under a 16-octet limit: 16 + 16 + 8 with END_STREAM on the last -/
example :
    let d : Dir Unit := { maxFrame := 16 }
    (enqOf d (.data 1 (List.replicate 40 ()) none true)).map (fun q => (q.fc, match q with | .data _ e _ => e | _ => false)) =
      [(16, false), (16, false), (8, true)] := by
  decide

end C10
end FwdVerif
