/-
  C06 — credentials are confined to the hop they belong to: property theorems over
  `Model/C06.lean` (credentials table, `MatchURL`/`Match`, `upstreamProxyURL`, `pacAttach`,
  `setBasicAuth`, `resolve`) and the messages the request pipeline writes upstream
  (`Model/Req.lean`: `processRequest`/`writeRequest`, `transportConnectHead`, `processConnect`/
  `dialviaConnectHead`).  Helper lemmas are in `Lemmas/C06.lean`, `Lemmas/C06Seq.lean`, `Lemmas/C06Conc.lean`.

  Wire-level statements talk about `OutMsg.fields`: lower-case field name ↦ the values of the field
  lines with that name, in order, as the hop receives them.
-/
import FwdVerif.Lemmas.C06
import FwdVerif.Lemmas.C06Seq
import FwdVerif.Lemmas.C06Conc
import FwdVerif.Lemmas.ReqUpgrade

namespace FwdVerif
namespace C06

open Ascii Req
open C16 (HMap Rule)
open C05 (ProxyURL)

/-! ## A. The credentials table: precedence, default ports, duplicates -/

/-- exact `host:port` entry wins -/
theorem c06_match_exact {t : CredTable} {hp : Bytes} {c : Cred} (h : t.hostport.lookup hp = some c) :
    t.matchHostport hp = some c := by
  unfold CredTable.matchHostport; rw [h]

/-- else `*:port` -/
theorem c06_match_any_host {t : CredTable} {hp host port : Bytes} {c : Cred} (h0 : t.hostport.lookup hp = none)
    (hs : netSplitHostPort hp = some (host, port)) (h1 : t.port.lookup port = some c) :
    t.matchHostport hp = some c := by
  unfold CredTable.matchHostport; rw [h0, hs]; simp only [h1]

/-- else `host:*` -/
theorem c06_match_any_port {t : CredTable} {hp host port : Bytes} {c : Cred} (h0 : t.hostport.lookup hp = none)
    (hs : netSplitHostPort hp = some (host, port)) (h1 : t.port.lookup port = none) (h2 : t.host.lookup host = some c) :
    t.matchHostport hp = some c := by
  unfold CredTable.matchHostport; rw [h0, hs]; simp only [h1, h2]

/-- else `*:*` (or nothing) -/
theorem c06_match_global {t : CredTable} {hp host port : Bytes} (h0 : t.hostport.lookup hp = none)
    (hs : netSplitHostPort hp = some (host, port)) (h1 : t.port.lookup port = none) (h2 : t.host.lookup host = none) :
    t.matchHostport hp = t.global := by
  unfold CredTable.matchHostport; rw [h0, hs]; simp only [h1, h2]

/-- a host:port that does not split matches only an exact entry -/
theorem c06_match_unsplittable {t : CredTable} {hp : Bytes} (h0 : t.hostport.lookup hp = none)
    (hs : netSplitHostPort hp = none) : t.matchHostport hp = none := by
  unfold CredTable.matchHostport; rw [h0, hs]

/-- default ports by scheme: 80 for http, 443 for https, no match for any other scheme -/
theorem c06_matchURL_default_port (t : CredTable) (scheme urlHost : Bytes) (hp : (urlPort urlHost).isEmpty = true) :
    t.matchURL scheme urlHost =
      if scheme == bs "http" then t.matchHostport (urlHost ++ bs ":80")
      else if scheme == bs "https" then t.matchHostport (urlHost ++ bs ":443") else none := by
  unfold CredTable.matchURL; simp [hp]

theorem c06_matchURL_explicit_port (t : CredTable) (scheme urlHost : Bytes) (hp : (urlPort urlHost).isEmpty = false) :
    t.matchURL scheme urlHost = t.matchHostport urlHost := by
  unfold CredTable.matchURL; simp [hp]

set_option linter.unusedSimpArgs false in
/-- a second entry for a slot that is already taken rejects the whole configuration -/
theorem c06_duplicate_rejected (t : CredTable) (e : CredEntry) :
    (e.host = star → e.port = zero → t.global.isSome → addEntry t e = none) ∧
    (e.host = star → e.port ≠ zero → (t.port.lookup e.port).isSome → addEntry t e = none) ∧
    (e.host ≠ star → e.port = zero → (t.host.lookup e.host).isSome → addEntry t e = none) ∧
    (e.host ≠ star → e.port ≠ zero → (t.hostport.lookup (netJoinHostPort e.host e.port)).isSome → addEntry t e = none) := by
  refine ⟨?_, ?_, ?_, ?_⟩
  · intro h1 h2 h3; unfold addEntry; split; · rfl
    simp [h1, h2, h3]
  · intro h1 h2 h3; unfold addEntry; split; · rfl
    simp [h1, h2, h3]
  · intro h1 h2 h3; unfold addEntry; split; · rfl
    simp [h1, h2, h3]
  · intro h1 h2 h3; unfold addEntry; split; · rfl
    simp [h1, h2, h3]

/-- once an entry is refused, the table is refused -/
theorem c06_build_rejects {pre post : List CredEntry} {t : CredTable} {e : CredEntry}
    (hpre : pre.foldlM addEntry {} = some t) (he : addEntry t e = none) : buildTable (pre ++ e :: post) = none := by
  unfold buildTable
  have : (pre ++ e :: post).isEmpty = false := by cases pre <;> rfl
  simp [this, List.foldlM_append, hpre, he]

def exTable : List CredEntry :=
  [⟨bs "origin.test", bs "443", (bs "exact", bs "1")⟩, ⟨star, bs "443", (bs "anyhost", bs "2")⟩,
   ⟨bs "origin.test", zero, (bs "anyport", bs "3")⟩, ⟨star, zero, (bs "global", bs "4")⟩]

example :
    (buildTable exTable).isSome = true ∧
    matchURL ((buildTable exTable).getD none) (bs "https") (bs "origin.test") = some (bs "exact", bs "1") ∧
    matchURL ((buildTable exTable).getD none) (bs "https") (bs "other.test") = some (bs "anyhost", bs "2") ∧
    matchURL ((buildTable exTable).getD none) (bs "http") (bs "origin.test") = some (bs "anyport", bs "3") ∧
    matchURL ((buildTable exTable).getD none) (bs "http") (bs "other.test:8080") = some (bs "global", bs "4") ∧
    matchURL ((buildTable exTable).getD none) (bs "ftp") (bs "origin.test") = none ∧
    buildTable (exTable ++ [⟨star, bs "443", (bs "dup", bs "5")⟩]) = none := by
  with_unfolding_all decide

/-! ## B. Which credential the upstream proxy gets -/

/-- userinfo of the configured proxy URL wins over the table -/
theorem c06_upstream_userinfo_wins (t : Option CredTable) (u : ProxyURL) (c : Bytes × Bytes) (h : u.user = some c) :
    upstreamProxyURL t u = u := by
  unfold upstreamProxyURL; rw [h]

/-- without userinfo the table entry for the proxy's own host:port is used -/
theorem c06_upstream_from_table (t : Option CredTable) (u : ProxyURL) (h : u.user = none) :
    upstreamProxyURL t u = { u with user := matchURL t u.scheme u.host } := by
  unfold upstreamProxyURL; rw [h]

/-- a PAC-selected proxy gets the table entry for its host:port, if any -/
theorem c06_pac_attach (t : Option CredTable) (u : ProxyURL) :
    (pacAttach t u).user = (match matchURL t u.scheme u.host with | some c => some c | none => u.user) ∧
    (pacAttach t u).scheme = u.scheme ∧ (pacAttach t u).host = u.host := by
  unfold pacAttach
  cases matchURL t u.scheme u.host <;> simp

/-! ## C. The client's Proxy-Authorization goes nowhere; upstream credentials only to the proxy -/

/-- Whatever the client sent (any number of Proxy-Authorization lines, any spelling of the name,
    nominated by Connection or not): in a forwarded non-CONNECT request every field line named
    proxy-authorization carries the credential configured for the upstream proxy, and such a line
    exists only in a message written to an HTTP(S) proxy hop.  (`RulesAvoid`: no `--header` rule
    names the field — a rule that does would be the operator's own doing.) -/
theorem c06_request_proxy_authorization {cfg : Cfg} {ctx : Ctx} {r : Request} {hop : Hop} {out : OutMsg}
    (hrules : RulesAvoid PA cfg.rules) (hf : Req.processRequest cfg ctx r = .forwarded hop out)
    {e : Bytes × List Bytes} (he : e ∈ out.fields) (hname : e.1 = bs "proxy-authorization")
    {v : Bytes} (hv : v ∈ e.2) : upstreamAuth cfg.upstream = some v ∧ hop.speaksProxy = true := by
  cases hr : readRequest r with
  | error err => unfold Req.processRequest at hf; rw [hr] at hf; cases hf
  | ok g0 =>
    rcases processRequest_proxyAuth hr (readRequest_canon hr) hrules hf he hname with h | ⟨a, h1, h2, h3⟩
    · rw [h] at hv; cases hv
    · rw [h3] at hv
      simp only [List.mem_singleton] at hv
      subst hv
      exact ⟨h1, h2⟩

/-- consequently a message that goes to an origin (directly or through SOCKS5) has no
    proxy-authorization value at all: neither the client's nor the upstream proxy's -/
theorem c06_origin_gets_no_proxy_authorization {cfg : Cfg} {ctx : Ctx} {r : Request} {hop : Hop} {out : OutMsg}
    (hrules : RulesAvoid PA cfg.rules) (hf : Req.processRequest cfg ctx r = .forwarded hop out)
    (horigin : hop.speaksProxy = false)
    {e : Bytes × List Bytes} (he : e ∈ out.fields) (hname : e.1 = bs "proxy-authorization") : e.2 = [] := by
  cases hv : e.2 with
  | nil => rfl
  | cons v vs =>
    have := (c06_request_proxy_authorization hrules hf he hname (v := v) (by rw [hv]; exact List.mem_cons_self)).2
    rw [horigin] at this
    cases this

/-- the CONNECT head the transport writes to an HTTP(S) proxy for an https request: proxy-authorization
    carries that proxy's credential only -/
theorem c06_transport_connect_proxy_authorization {cfg : Cfg} (target : Bytes) (auth : Option Bytes)
    (hrules : RulesAvoid PA cfg.connectRules)
    {e : Bytes × List Bytes} (he : e ∈ (transportConnectHead target auth (connectExtra cfg)).fields)
    (hname : e.1 = bs "proxy-authorization") {v : Bytes} (hv : v ∈ e.2) : auth = some v :=
  transportConnectHead_proxyAuth (noKeyFold_connectExtra hrules) he hname hv

/-- client CONNECT through an HTTP(S) upstream proxy: in the CONNECT head that proxy receives, every
    proxy-authorization value is the proxy's own credential — the client's lines are gone before the
    header is cloned -/
theorem c06_connect_proxy_authorization {cfg : Cfg} {ctx : Ctx} {q : ConnectReq} {a : Action}
    (hrules : RulesAvoid PA cfg.connectRules) (hp : Req.processConnect cfg ctx q = .tunnel a)
    {s : Sent} (hs : s ∈ a.sent) {e : Bytes × List Bytes} (he : e ∈ s.msg.fields)
    (hname : e.1 = bs "proxy-authorization") {v : Bytes} (hv : v ∈ e.2) :
    upstreamAuth cfg.upstream = some v ∧ s.recv = .proxy := by
  unfold Req.processConnect at hp
  cases hr : readRequest q.asRequest with
  | error err => rw [hr] at hp; cases hp
  | ok g0 =>
    rw [hr] at hp
    simp only [] at hp
    cases hm : connectModified cfg { g0 with header := C16.goDel g0.header (bs "X-Martian-Terminate-Tls") } with
    | error o =>
      rw [hm] at hp
      simp only [] at hp
      subst hp
      unfold connectModified at hm
      split at hm
      · cases hm
      · simp only [] at hm
        split at hm
        · cases hm
        · split at hm <;> cases hm
    | ok h =>
      rw [hm] at hp
      simp only [] at hp
      have hn := connectModified_noPA (CanonKeys.goDel _ (readRequest_canon hr)) hrules hm
      have hx := noKeyFold_connectExtra hrules
      unfold connectDispatch at hp
      split at hp
      · cases hp
      · split at hp
        · injection hp with hp; subst hp; cases hs
        · rename_i hpx auth hup
          injection hp with hp; subst hp
          simp only [List.mem_singleton] at hs
          subst hs
          exact ⟨by rw [hup]; exact dialviaConnectHead_proxyAuth hn hx he hname hv, rfl⟩
        · rename_i hpx auth hup
          injection hp with hp; subst hp
          simp only [List.mem_singleton] at hs
          subst hs
          exact ⟨by rw [hup]; exact dialviaConnectHead_proxyAuth hn hx he hname hv, rfl⟩
        · injection hp with hp; subst hp; cases hs
        · cases hp
        · cases hp

/-- Capstone for non-CONNECT requests (plain, or https from an intercepted tunnel): over EVERYTHING
    written upstream on behalf of the request — the request itself and, for https through a proxy,
    the transport's CONNECT head — a proxy-authorization value is the configured upstream credential
    and is read by the proxy, never by an origin -/
theorem c06_request_actions_proxy_authorization {cfg : Cfg} {ctx : Ctx} {r : Request}
    (hr1 : RulesAvoid PA cfg.rules) (hr2 : RulesAvoid PA cfg.connectRules)
    {a : Action} (ha : a ∈ Req.requestActions cfg ctx r) {s : Sent} (hs : s ∈ a.sent)
    {e : Bytes × List Bytes} (he : e ∈ s.msg.fields) (hname : e.1 = bs "proxy-authorization")
    {v : Bytes} (hv : v ∈ e.2) : upstreamAuth cfg.upstream = some v ∧ s.recv = .proxy := by
  unfold Req.requestActions at ha
  cases hp : Req.processRequest cfg ctx r with
  | refused st w => rw [hp] at ha; cases ha
  | badRequest => rw [hp] at ha; cases ha
  | unreadable => rw [hp] at ha; cases ha
  | routeError => rw [hp] at ha; cases ha
  | forwarded hop out =>
    rw [hp] at ha
    cases ht : reqTarget ctx r with
    | none => rw [ht] at ha; cases ha
    | some su =>
      obtain ⟨scheme, urlHost⟩ := su
      rw [ht] at ha
      simp only [List.mem_singleton] at ha
      subst ha
      -- facts about the request message itself
      have hout : ∀ {e : Bytes × List Bytes}, e ∈ out.fields → e.1 = bs "proxy-authorization" → ∀ {v : Bytes}, v ∈ e.2 →
          upstreamAuth cfg.upstream = some v ∧ (scheme == bs "http") = true := by
        intro e he hname v hv
        have := c06_request_proxy_authorization hr1 hp he hname hv
        exact ⟨this.1, forwarded_speaksProxy_scheme hp ht this.2⟩
      unfold transportAction at hs
      cases hup : cfg.upstream with
      | none =>
        rw [hup] at hs
        simp only [List.mem_singleton] at hs
        subst hs
        have := (hout he hname hv).1
        rw [hup] at this; cases this
      | failed =>
        rw [hup] at hs
        simp only [List.mem_singleton] at hs
        subst hs
        have := (hout he hname hv).1
        rw [hup] at this; cases this
      | socks5 hp' au =>
        rw [hup] at hs
        simp only [List.mem_singleton] at hs
        subst hs
        have := (hout he hname hv).1
        rw [hup] at this; cases this
      | http hp' au =>
        rw [hup] at hs
        simp only [] at hs
        split at hs
        · simp only [List.mem_singleton] at hs
          subst hs
          exact ⟨by rw [← hup]; exact (hout he hname hv).1, rfl⟩
        · rename_i hsch
          simp only [List.mem_cons, List.not_mem_nil, or_false] at hs
          rcases hs with rfl | rfl
          · exact ⟨by simp only [upstreamAuth]; exact c06_transport_connect_proxy_authorization _ _ hr2 he hname hv, rfl⟩
          · exact absurd (hout he hname hv).2 hsch
      | https hp' au =>
        rw [hup] at hs
        simp only [] at hs
        split at hs
        · simp only [List.mem_singleton] at hs
          subst hs
          exact ⟨by rw [← hup]; exact (hout he hname hv).1, rfl⟩
        · rename_i hsch
          simp only [List.mem_cons, List.not_mem_nil, or_false] at hs
          rcases hs with rfl | rfl
          · exact ⟨by simp only [upstreamAuth]; exact c06_transport_connect_proxy_authorization _ _ hr2 he hname hv, rfl⟩
          · exact absurd (hout he hname hv).2 hsch
      | other sc hp' au =>
        rw [hup] at hs
        simp only [] at hs
        split at hs
        · simp only [List.mem_singleton] at hs
          subst hs
          exact ⟨by rw [← hup]; exact (hout he hname hv).1, rfl⟩
        · rename_i hsch
          simp only [List.mem_cons, List.not_mem_nil, or_false] at hs
          rcases hs with rfl | rfl
          · exact ⟨by simp only [upstreamAuth]; exact c06_transport_connect_proxy_authorization _ _ hr2 he hname hv, rfl⟩
          · exact absurd (hout he hname hv).2 hsch

def exUp : Cfg := { tag := bs "t-1", name := bs "fwd", upstream := .http (bs "proxy.test:3128") (some (bs "Basic dXA6cHc=")) }

def exReq : Request :=
  { method := bs "GET", minor := 1, target := .absolute (bs "http") (bs "origin.test"), path := bs "/", query := none,
    fields := [(bs "Proxy-Authorization", bs "Basic Y2xpZW50OnNlY3JldA=="), (bs "proxy-AUTHORIZATION", bs "Bearer x"),
               (bs "Connection", bs "proxy-authorization"), (bs "PROXY-AUTHORIZATION", bs "third")] }

-- three client Proxy-Authorization lines in different spellings, one nominated by Connection: the
-- upstream proxy receives exactly its own credential
example :
    (match Req.processRequest exUp { clientIP := bs "10.0.0.1" } exReq with
      | .forwarded (.proxy _) out => out.fields.lookup (bs "proxy-authorization") == some [bs "Basic dXA6cHc="]
      | _ => false) = true := by
  with_unfolding_all decide

/-! ## C'. Protocol upgrades and nominated credential fields -/

/-- Full strength, every request of the model's domain (any header shape: Proxy-Authorization
    repeated, in any spelling, nominated in `Connection` or not, on a protocol upgrade or not):
    over everything written upstream on behalf of the request, NO value other than the credential
    configured for the upstream proxy ever stands under proxy-authorization — in particular none of
    the values the client presented to this proxy (unless the operator configured that very value
    for the upstream proxy) -/
theorem c06_client_proxy_authorization_reaches_no_hop {cfg : Cfg} {ctx : Ctx} {r : Request}
    (hr1 : RulesAvoid PA cfg.rules) (hr2 : RulesAvoid PA cfg.connectRules)
    {w : Bytes} (hw : upstreamAuth cfg.upstream ≠ some w)
    {a : Action} (ha : a ∈ Req.requestActions cfg ctx r) {s : Sent} (hs : s ∈ a.sent)
    {e : Bytes × List Bytes} (he : e ∈ s.msg.fields) (hname : e.1 = bs "proxy-authorization") :
    w ∉ e.2 :=
  fun hv => hw (c06_request_actions_proxy_authorization hr1 hr2 ha hs he hname hv).1

/-- A protocol upgrade that nominates credential fields next to `Upgrade`: the upgrade re-add puts
    back `Connection: Upgrade` only, so (1) the hop sees no `Connection` option but the proxy's own
    `close` and `Upgrade`; (2) every proxy-authorization value at the hop is the upstream proxy's
    configured credential, read by a proxy hop — an origin sees none; (3) a client Authorization the
    request nominated is not passed on: the hop sees the site credential for the target, or nothing;
    (4) no other nominated name that the proxy does not write itself has a line at the hop. -/
theorem c06_upgrade_nominated_credentials_confined {cfg : Cfg} {ctx : Ctx} {r : Request} {hop : Hop}
    {out : OutMsg} (hr : cfg.rules = []) (hf : Req.processRequest cfg ctx r = .forwarded hop out)
    (hup : upgradeRequested r ≠ []) :
    (∀ v ∈ outValues out (bs "connection"), v = bs "close" ∨ v = bs "Upgrade") ∧
    (∀ e ∈ out.fields, e.1 = bs "proxy-authorization" → ∀ v ∈ e.2,
      upstreamAuth cfg.upstream = some v ∧ hop.speaksProxy = true) ∧
    (bs "authorization" ∈ nominated r →
      outValues out (bs "authorization") = match cfg.siteCred with | some a => [a] | none => []) ∧
    (∀ n : Bytes, n.all isTokenByte = true → lower n = n → n ∈ nominated r →
      n ∉ proxyWrittenLower ++ [bs "user-agent"] → outValues out n = []) := by
  have hrules : RulesAvoid PA cfg.rules := by rw [hr]; exact fun _ h => by cases h
  obtain ⟨g0, h3, h4, auth, t⟩ := processRequest_forwarded hf
  have hne : (upgradeRequested r).isEmpty = false := by
    cases hu : upgradeRequested r with
    | nil => exact absurd hu hup
    | cons _ _ => rfl
  refine ⟨?_, ?_, ?_, ?_⟩
  · intro v hv
    obtain ⟨cl, hcl, ho⟩ := t.outValues_conn hr
    rw [ho, finish_eq, hr] at hv
    change v ∈ cl ++ hget (finishTail cfg (upgradeType g0.header) h4) (bs "Connection") at hv
    rw [hget_finishTail_conn, t.upType, hne] at hv
    rcases List.mem_append.mp hv with hv | hv
    · rcases hcl with hcl | hcl <;> rw [hcl] at hv
      · cases hv
      · exact Or.inl (by simpa using hv)
    · exact Or.inr (by simpa using hv)
  · intro e he hname v hv
    exact c06_request_proxy_authorization hrules hf he hname hv
  · intro hnom
    rw [t.outValues_auth hr]
    cases cfg.siteCred <;> simp [survivingFirst, survivingValues, hnom]
  · intro n hn hl hnom hL
    have k3 : canonicalKey n ∉ fwdKeys := key_not_mem_of_lower stageKeys_written.1 hl hL
    have k45 : canonicalKey n ∉ [bs "Content-Length", bs "Via"] :=
      key_not_mem_of_lower stageKeys_written.2.1 hl hL
    have k6 : canonicalKey n ∉ tailKeys := key_not_mem_of_lower stageKeys_written.2.2 hl hL
    simp only [List.mem_cons, List.not_mem_nil, or_false, not_or] at k45
    rw [t.outValues_other hr hn hl (fun hwn => hL (writerNames_written _ hwn))]
    exact t.hget_nominated_removed hr hn hl hnom k3 (by rw [ck_CL]; exact k45.1)
      (by rw [ck_Via]; exact k45.2) k6

def exReqUpgrade : Request :=
  { method := bs "GET", minor := 1, target := .origin, path := bs "/chat", query := none,
    fields := [(bs "Host", bs "origin.test"), (bs "Proxy-Authorization", bs "Basic Z2F0ZTprZWVwZXI="),
               (bs "Upgrade", bs "websocket"), (bs "Connection", bs "Upgrade, Proxy-Authorization ,AUTHORIZATION"),
               (bs "proxy-authorization", bs "Bearer second"), (bs "Authorization", bs "Bearer for-the-proxy")] }

def exGate : Cfg := { tag := bs "t-1", name := bs "fwd", basicAuth := some (bs "gate", bs "keeper") }

-- `Connection: Upgrade, Proxy-Authorization ,AUTHORIZATION` + `Upgrade: websocket` with both credential
-- fields present (proxy basic auth on, the first Proxy-Authorization is the valid one): the origin gets
-- `Connection: Upgrade`, `Upgrade: websocket` and neither credential field; an upstream proxy gets its own
-- credential only
example : upgradeRequested exReqUpgrade = bs "websocket" ∧
    (match Req.processRequest exGate { clientIP := bs "10.0.0.1" } exReqUpgrade with
      | .forwarded (.direct _) out =>
        out.fields.lookup (bs "connection") == some [bs "Upgrade"] &&
        out.fields.lookup (bs "upgrade") == some [bs "websocket"] &&
        out.fields.lookup (bs "proxy-authorization") == none && out.fields.lookup (bs "authorization") == none
      | _ => false) = true ∧
    (match Req.processRequest { exUp with basicAuth := exGate.basicAuth } { clientIP := bs "10.0.0.1" } exReqUpgrade with
      | .forwarded (.proxy _) out =>
        out.fields.lookup (bs "connection") == some [bs "Upgrade"] &&
        out.fields.lookup (bs "proxy-authorization") == some [bs "Basic dXA6cHc="] &&
        out.fields.lookup (bs "authorization") == none
      | _ => false) = true := by
  with_unfolding_all decide

/-! ## C''. The fixed hop-by-hop list does not depend on what `Connection` says -/

/-- `removeHopByHopHeaders` with a fast path for a lone `Connection: keep-alive` / `close` line (the
    shape of seeded change c06-11): the line nominates nothing, so only the connection-management
    fields are deleted and the fixed list is not walked.  A counter-model, not part of the pipeline. -/
def removeHopByHopLoneFast (h : HMap) : HMap :=
  match hget h (bs "Connection") with
  | [v] =>
    if eqFold v (bs "keep-alive") || eqFold v (bs "close") then
      C16.goDel (C16.goDel (C16.goDel h (bs "Connection")) (bs "Keep-Alive")) (bs "Proxy-Connection")
    else removeHopByHop h
  | _ => removeHopByHop h

/-- The hop-by-hop step deletes the fixed list UNCONDITIONALLY: for every header map, whatever its
    `Connection` entry says — as it is; with `Connection` set to any list of values (one line or several,
    a lone `keep-alive` / `close`, any options, empty); with `Connection` deleted — no name of the fixed
    list (Connection, Keep-Alive, Proxy-Authenticate, Proxy-Authorization, Proxy-Connection, Te, Trailer,
    Transfer-Encoding, Upgrade) has an entry afterwards, and on the canonical-key maps `ReadRequest`
    produces no spelling of the name is left.  (The messages written upstream:
    `c06_client_proxy_authorization_reaches_no_hop`, `c01_fixed_hop_by_hop_removed_whatever_connection_says`.) -/
theorem c06_fixed_hop_by_hop_removed_whatever_connection_says (h : HMap) {n : Bytes}
    (hn : n ∈ hopByHopNames) :
    HMap.get (removeHopByHop h) n = none ∧
    (∀ conn : List Bytes, HMap.get (removeHopByHop (HMap.put h (bs "Connection") conn)) n = none) ∧
    HMap.get (removeHopByHop (C16.goDel h (bs "Connection"))) n = none ∧
    (C16.CanonKeys h → n.all isTokenByte = true → NoKeyFold n (removeHopByHop h)) :=
  ⟨get_removeHopByHop_none h (Or.inr hn), fun _ => get_removeHopByHop_none _ (Or.inr hn),
   get_removeHopByHop_none _ (Or.inr hn), fun hc ht => noKeyFold_removeHopByHop hc hn ht⟩

/-- why the fast path is wrong for EVERY message, not only the witness: on a lone `keep-alive` / `close`
    the variant hands every other entry of the map on as it came — in particular those of the fixed list
    (Proxy-Authorization, Proxy-Authenticate, Te, Trailer, Transfer-Encoding, Upgrade), which
    `removeHopByHop` deletes (`c06_fixed_hop_by_hop_removed_whatever_connection_says`) -/
theorem c06_lone_fast_path_passes_fixed_names_on (h : HMap) {v : Bytes}
    (hv : hget h (bs "Connection") = [v])
    (hm : (eqFold v (bs "keep-alive") || eqFold v (bs "close")) = true) {n : Bytes}
    (hne : n ∉ [bs "Connection", bs "Keep-Alive", bs "Proxy-Connection"]) :
    HMap.get (removeHopByHopLoneFast h) n = HMap.get h n := by
  have key : ∀ m ∈ [bs "Connection", bs "Keep-Alive", bs "Proxy-Connection"], canonicalKey m = m := by
    decide +kernel
  have ne : ∀ m ∈ [bs "Connection", bs "Keep-Alive", bs "Proxy-Connection"], n ≠ canonicalKey m := by
    intro m hmem e
    rw [key m hmem] at e
    exact hne (e ▸ hmem)
  unfold removeHopByHopLoneFast
  rw [hv]
  simp only [hm, if_true]
  rw [get_goDel_ne _ (ne _ (by simp)), get_goDel_ne _ (ne _ (by simp)), get_goDel_ne _ (ne _ (by simp))]

example : bs "Proxy-Authorization" ∈ hopByHopNames ∧ bs "Te" ∈ hopByHopNames ∧ bs "Upgrade" ∈ hopByHopNames ∧
    (bs "Proxy-Authorization").all isTokenByte = true := by decide +kernel

/-- what a client that keeps its connection open sends next to its credential for this proxy -/
def exLone (opt : Bytes) : HMap :=
  toHeader [(bs "Host", bs "origin.test"), (bs "Connection", opt),
    (bs "Proxy-Authorization", bs "Basic Z2F0ZTprZWVwZXI="), (bs "TE", bs "trailers"),
    (bs "Keep-Alive", bs "timeout=5"), (bs "X-Custom", bs "v")]

theorem c06_lone_option_fast_path_witness :
    (∀ opt ∈ [bs "keep-alive", bs "close", bs "Keep-Alive", bs "CLOSE"],
      hget (exLone opt) (bs "Connection") = [opt] ∧
      HMap.get (removeHopByHopLoneFast (exLone opt)) (bs "Proxy-Authorization") = some [bs "Basic Z2F0ZTprZWVwZXI="] ∧
      HMap.get (removeHopByHopLoneFast (exLone opt)) (bs "Te") = some [bs "trailers"] ∧
      HMap.get (removeHopByHopLoneFast (exLone opt)) (bs "Keep-Alive") = none ∧
      HMap.get (removeHopByHop (exLone opt)) (bs "Proxy-Authorization") = none ∧
      HMap.get (removeHopByHop (exLone opt)) (bs "Te") = none ∧
      HMap.get (removeHopByHop (exLone opt)) (bs "X-Custom") = some [bs "v"]) ∧
    -- with a second option on the line the variant takes the ordinary path
    removeHopByHopLoneFast (exLone (bs "keep-alive, x-custom")) = removeHopByHop (exLone (bs "keep-alive, x-custom")) := by
  decide +kernel

def exReqLone (opt : Bytes) : Request :=
  { method := bs "GET", minor := 1, target := .origin, path := bs "/", query := none,
    fields := [(bs "Host", bs "origin.test"), (bs "Connection", opt),
               (bs "Proxy-Authorization", bs "Basic Z2F0ZTprZWVwZXI="), (bs "proxy-authorization", bs "Bearer second"),
               (bs "TE", bs "trailers"), (bs "Proxy-Authenticate", bs "Basic realm=\"x\"")] }

-- the whole pipeline on a lone `Connection: keep-alive` / `close` next to the credential for this proxy (basic
-- auth on): the origin gets no proxy-authorization, te or proxy-authenticate; an upstream proxy its own credential only
example : ∀ opt ∈ [bs "keep-alive", bs "close"],
    (match Req.processRequest exGate { clientIP := bs "10.0.0.1" } (exReqLone opt) with
      | .forwarded (.direct _) out =>
        out.fields.lookup (bs "proxy-authorization") == none && out.fields.lookup (bs "te") == none &&
        out.fields.lookup (bs "proxy-authenticate") == none
      | _ => false) = true ∧
    (match Req.processRequest { exUp with basicAuth := exGate.basicAuth } { clientIP := bs "10.0.0.1" } (exReqLone opt) with
      | .forwarded (.proxy _) out =>
        out.fields.lookup (bs "proxy-authorization") == some [bs "Basic dXA6cHc="] && out.fields.lookup (bs "te") == none
      | _ => false) = true := by
  decide +kernel

/-! ## D. Site credentials -/

/-- attached exactly when the table yields a credential for the request URL and the client supplied no
    (non-empty) Authorization -/
theorem c06_site_credential_attached (site : Option Bytes) (h : HMap) :
    setBasicAuth site h =
      match site with
      | some a => if goGet h (bs "Authorization") = [] then C16.goSet h (bs "Authorization") a else h
      | none => h := by
  unfold setBasicAuth
  cases site with
  | none => rfl
  | some a => simp [List.isEmpty_iff]

/-- never replaces an Authorization the client supplied -/
theorem c06_client_authorization_kept (site : Option Bytes) (h : HMap) (hc : goGet h (bs "Authorization") ≠ []) :
    setBasicAuth site h = h := by
  unfold setBasicAuth
  cases site with
  | none => rfl
  | some a =>
    have : (goGet h (bs "Authorization")).isEmpty = false := by
      cases hg : goGet h (bs "Authorization") with
      | nil => exact absurd hg hc
      | cons _ _ => rfl
    simp [this]

/-- no matching entry ⇒ nothing attached -/
theorem c06_no_entry_no_credential (h : HMap) : setBasicAuth none h = h := rfl

/-- when attached, the value under Authorization is exactly the table's credential -/
theorem c06_site_credential_value (a : Bytes) (h : HMap) (hc : goGet h (bs "Authorization") = []) :
    HMap.get (setBasicAuth (some a) h) (bs "Authorization") = some [a] := by
  unfold setBasicAuth
  have hcan : canonicalKey (bs "Authorization") = bs "Authorization" := by with_unfolding_all decide
  simp only [hc, List.isEmpty_nil, if_true]
  have := C04.lookup_goSet_self h (bs "Authorization") a
  rw [hcan] at this
  exact this

/-- the request pipeline applies exactly this step with the table's answer for the request URL; the
    CONNECT pipeline does not apply it at all (`setBasicAuth` returns at once for CONNECT — the
    repair of F20): after the `--connect-header` rules only the empty User-Agent is set -/
theorem c06_site_credential_pipelines (fc : FullCfg) (scheme urlHost : Bytes) :
    (resolve fc scheme urlHost).siteCred = siteCredFor fc.table scheme urlHost ∧
    ∀ (cfg : Cfg) (g : GoReq) (h : HMap), connectModified cfg g = .ok h →
      ∃ h3, h = setEmptyUserAgent (C16.applyRules cfg.connectRules h3) := by
  refine ⟨rfl, ?_⟩
  intro cfg g h hm
  unfold connectModified at hm
  split at hm
  · cases hm
  · simp only [] at hm
    split at hm
    · cases hm
    · split at hm
      · cases hm
      · rename_i h3 _
        injection hm with hm
        exact ⟨h3, hm.symm⟩

/-- the credential a target gets is the table's answer under the documented precedence, with the
    default port of the scheme; a CONNECT target (empty scheme) needs an explicit port -/
theorem c06_site_credential_lookup (t : CredTable) (scheme urlHost : Bytes) :
    siteCredFor (some t) scheme urlHost = (t.matchURL scheme urlHost).map fun c => basicAuthValue c.1 c.2 := rfl

/-- Everything written upstream on behalf of a client CONNECT: an authorization value in it is a
    value of one of the client's own Authorization field lines (which travel end to end) — the
    proxy adds none.  (`RulesAvoid`: no `--connect-header` rule names the field.) -/
theorem c06_connect_authorization_is_clients {cfg : Cfg} {ctx : Ctx} {q : ConnectReq} {a : Action}
    (hrules : RulesAvoid AUTH cfg.connectRules) (ha : a ∈ Req.connectActions cfg ctx q)
    {s : Sent} (hs : s ∈ a.sent) {e : Bytes × List Bytes} (he : e ∈ s.msg.fields)
    (hname : e.1 = bs "authorization") {v : Bytes} (hv : v ∈ e.2) :
    v ∈ wireValuesFold AUTH q.fields := by
  unfold Req.connectActions at ha
  cases hp : Req.processConnect cfg ctx q with
  | refused st w => rw [hp] at ha; cases ha
  | badRequest => rw [hp] at ha; cases ha
  | unreadable => rw [hp] at ha; cases ha
  | mitm => rw [hp] at ha; cases ha
  | routeError => rw [hp] at ha; cases ha
  | tunnel a' =>
    rw [hp] at ha
    simp only [List.mem_singleton] at ha
    subst ha
    unfold Req.processConnect at hp
    cases hr : readRequest q.asRequest with
    | error err => rw [hr] at hp; cases hp
    | ok g0 =>
      rw [hr] at hp
      simp only [] at hp
      cases hm : connectModified cfg { g0 with header := C16.goDel g0.header (bs "X-Martian-Terminate-Tls") } with
      | error o =>
        rw [hm] at hp
        simp only [] at hp
        subst hp
        unfold connectModified at hm
        split at hm
        · cases hm
        · simp only [] at hm
          split at hm
          · cases hm
          · split at hm <;> cases hm
      | ok h =>
        rw [hm] at hp
        simp only [] at hp
        have h0 : ValsOK AUTH (· ∈ wireValuesFold AUTH q.fields)
            (C16.goDel g0.header (bs "X-Martian-Terminate-Tls")) :=
          (readRequest_valsOK_auth hr).goDel _
        have hn := connectModified_valsOK hrules h0 hm
        have hx : NoKeyFold AUTH (connectExtra cfg) := by
          unfold connectExtra
          exact (NoKeyFold.nil _).applyRules cfg.connectRules hrules
        unfold connectDispatch at hp
        split at hp
        · cases hp
        · split at hp
          · injection hp with hp; subst hp; cases hs
          · injection hp with hp; subst hp
            simp only [List.mem_singleton] at hs
            subst hs
            exact dialviaConnectHead_authorization hn hx he hname hv
          · injection hp with hp; subst hp
            simp only [List.mem_singleton] at hs
            subst hs
            exact dialviaConnectHead_authorization hn hx he hname hv
          · injection hp with hp; subst hp; cases hs
          · cases hp
          · cases hp

set_option linter.unusedVariables false in
/-- full clause (formerly false of the code, F20 — fixed): a tunnel set-up message (a CONNECT head
    addressed to the upstream proxy) never carries the site credential.  The two hypotheses exclude
    what is not the proxy's doing: an operator's `--connect-header` rule that names Authorization,
    and a client that itself sent that very value on its CONNECT (a client's own Authorization is
    passed on, `c06_connect_authorization_is_clients`). -/
theorem c06_site_credential_confined_full (cfg : Cfg) (ctx : Ctx) (q : ConnectReq) (a : Action) (s : Sent)
    (cred : Bytes) (hrules : RulesAvoid AUTH cfg.connectRules)
    (hclient : cred ∉ wireValuesFold AUTH q.fields)
    (ha : a ∈ Req.connectActions cfg ctx q) (hs : s ∈ a.sent) (hsetup : s.setup = true)
    (hcred : cfg.siteCred = some cred) :
    ∀ e ∈ s.msg.fields, e.1 = bs "authorization" → cred ∉ e.2 := by
  intro e he hname hv
  exact hclient (c06_connect_authorization_is_clients hrules ha hs he hname hv)

/-- the set-up messages of the transport path (https requests through an HTTP(S) proxy, e.g. from an
    intercepted tunnel) carry no Authorization at all -/
theorem c06_transport_connect_no_authorization {cfg : Cfg} (target : Bytes) (auth : Option Bytes)
    (hrules : RulesAvoid (bs "Authorization") cfg.connectRules)
    {e : Bytes × List Bytes} (he : e ∈ (transportConnectHead target auth (connectExtra cfg)).fields)
    (hname : e.1 = bs "authorization") : e.2 = [] := by
  have hx : NoKeyFold (bs "Authorization") (connectExtra cfg) := by
    unfold connectExtra
    exact (NoKeyFold.nil _).applyRules cfg.connectRules hrules
  exact transportConnectHead_noAuthorization hx he hname

def f20Cfg : Cfg :=
  { tag := bs "t-1", name := bs "fwd", upstream := .http (bs "proxy.test:3128") none,
    siteCred := some (bs "Basic c2l0ZTpzZWNyZXQ=") }

-- client `CONNECT secure.test:443` with a site credential configured for secure.test:443 and an
-- upstream HTTP proxy (the former F20 witness: the CONNECT head the *proxy* receives used to carry
-- `Authorization: Basic …`): no authorization field; a client's own Authorization is passed on
example :
    let q : ConnectReq := { authority := bs "secure.test:443", fields := [(bs "Host", bs "secure.test:443")] }
    RulesAvoid AUTH f20Cfg.connectRules ∧
    (match Req.connectActions f20Cfg { clientIP := bs "10.0.0.1" } q with
      | [a] => (match a.sent with
        | [s] => s.setup && s.recv == .proxy && s.msg.method == bs "CONNECT" &&
                 s.msg.fields.lookup (bs "authorization") == none
        | _ => false)
      | _ => false) = true ∧
    (match Req.connectActions f20Cfg { clientIP := bs "10.0.0.1" }
        { q with fields := q.fields ++ [(bs "AUTHORIZATION", bs "Bearer own")] } with
      | [a] => (match a.sent with
        | [s] => s.msg.fields.lookup (bs "authorization") == some [bs "Bearer own"]
        | _ => false)
      | _ => false) = true := by
  intro q
  subst q
  refine ⟨fun r hr => (by cases hr), ?_, ?_⟩ <;> with_unfolding_all decide

/-! ## E. PAC-selected proxies over request sequences: the lookup keeps no history and is keyed by host:port -/

/-- the `--credentials` lookup of the request pipeline for a PAC configuration is `pacSelect` on the
    script's answer for the target host (after `--proxy-localhost direct` and `--direct-domains`) -/
theorem c06_pac_select_is_pipeline (fc : FullCfg) (p : C05.PacScript) (host : Bytes) (hb : fc.route.base = .pac p) :
    selectWithCreds fc host =
      if (fc.route.localhostDirect && isLocalhostNames fc.route.localhostNames host) = true then .ok none
      else if (match fc.route.directDomains with | some rules => C05.directMatch rules host | none => false) = true then .ok none
      else pacSelect fc.table (p.eval host) := by
  have hsel : C05.selectProxy fc.route host =
      if (fc.route.localhostDirect && isLocalhostNames fc.route.localhostNames host) = true then .ok none
      else if (match fc.route.directDomains with | some rules => C05.directMatch rules host | none => false) = true then .ok none
      else C05.pacAnswer (p.eval host) := by
    unfold C05.selectProxy C05.proxyFunc C05.wrapDirectLocalhost C05.wrapDirectDomains
    rw [hb]
    simp only [C05.baseFn]
    cases hl : fc.route.localhostDirect <;> cases hd : fc.route.directDomains <;>
      simp [C05.pacProxy_eq_pacAnswer]
  unfold selectWithCreds
  simp only [hb]
  rw [hsel]
  by_cases h1 : (fc.route.localhostDirect && isLocalhostNames fc.route.localhostNames host) = true
  · simp only [if_pos h1]
  · by_cases h2 : (match fc.route.directDomains with | some rules => C05.directMatch rules host | none => false) = true
    · simp only [if_neg h1, if_pos h2]
    · simp only [if_neg h1, if_neg h2]
      unfold pacSelect
      cases C05.pacAnswer (p.eval host) with
      | error e => rfl
      | ok o => cases o <;> rfl

/-- one proxy instance serving a list of requests attaches to each what it attaches to it alone -/
theorem c06_pac_credentials_seq_pointwise (t : Option CredTable) (st : C05.InstState) (rs : List C05.PacResult) :
    pacCredSeq t st rs = rs.map (pacSelect t) :=
  pacCredSeq_eq_map t st rs

/-- History independence of the PAC-credential lookup: whatever was served before (`pre`: other
    proxies, the same proxy, failures), from whatever pool state, and whatever comes after, the
    request in position `pre.length` is handed the proxy URL `pacSelect t r`; and the credentials in
    it are the table's answer for that proxy's own host:port — a function of (table, host:port)
    only, not even of the proxy's scheme -/
theorem c06_pac_credentials_history_independent (t : Option CredTable) (st : C05.InstState)
    (pre post : List C05.PacResult) (r : C05.PacResult) :
    (pacCredSeq t st (pre ++ r :: post))[pre.length]? = some (pacSelect t r) ∧
    (∀ u, C05.pacAnswer r = .ok (some u) →
      ∃ h p, u.host = netJoinHostPort h p ∧
        pacSelect t r = .ok (some { u with user := matchHostport t (netJoinHostPort h p) })) := by
  constructor
  · rw [pacCredSeq_eq_map]; simp
  · intro u hu
    obtain ⟨h, p, hh, _, hp, huser⟩ := pacAnswer_shape hu
    refine ⟨h, p, hh, ?_⟩
    have hl := pacLookup_of_host t hh hp
    unfold pacLookup at hl
    unfold pacSelect pacAttach
    rw [hu]
    simp only [hl]
    cases matchHostport t (netJoinHostPort h p) with
    | some c => rfl
    | none =>
      simp only []
      cases u
      simp only at huser
      subst huser
      rfl

/-- the same request (script answer) repeated is handed the same credentials each time, whatever
    lies between -/
theorem c06_pac_credentials_repeat_stable (t : Option CredTable) (st : C05.InstState)
    (pre mid post : List C05.PacResult) (r : C05.PacResult) :
    (pacCredSeq t st (pre ++ r :: (mid ++ r :: post)))[pre.length]? =
      (pacCredSeq t st (pre ++ r :: (mid ++ r :: post)))[pre.length + 1 + mid.length]? := by
  have h1 := (c06_pac_credentials_history_independent t st pre (mid ++ r :: post) r).1
  have h2 := (c06_pac_credentials_history_independent t st (pre ++ r :: mid) post r).1
  simp only [List.append_assoc, List.cons_append, List.length_append, List.length_cons] at h2
  rw [h1, ← Nat.add_assoc] at *
  rw [Nat.add_right_comm pre.length mid.length 1] at h2
  exact h2.symm

/-- a proxy address as the PAC path produces it (`pacAnswer_shape`) that a `--credentials` entry can
    name exactly: the host is not `*`, the port not `0` -/
def PacProxyAddr (u : ProxyURL) : Prop :=
  ∃ h p, u.host = netJoinHostPort h p ∧ C05.validHost h = true ∧ C05.validPort p = true ∧ h ≠ star ∧ p ≠ zero

/-- the lookup reads the proxy's host:port only: two selected proxies with the same host:port get
    the same answer from every table, whatever their schemes (`PROXY` vs `HTTPS` on one address) -/
theorem c06_pac_lookup_same_hostport (t : Option CredTable) {u u' : ProxyURL} (hu : PacProxyAddr u)
    (h : u.host = u'.host) : pacLookup t u = pacLookup t u' := by
  obtain ⟨hst, p, hh, _, hp, _, _⟩ := hu
  rw [pacLookup_of_host t hh hp, pacLookup_of_host t (h ▸ hh) hp]

/-- The lookup is keyed by host:port: two selected proxies with DIFFERENT host:port — the same host
    under two ports, the same port on two hosts, two spellings of one name — are looked up
    independently: for any pair of answers (a credential or none, each) there is a credentials
    table under which the first proxy gets the first and the second the second.  So nothing that
    is known about one lookup says anything about the other. -/
theorem c06_pac_lookup_keyed_by_hostport {u u' : ProxyURL} (hu : PacProxyAddr u) (hu' : PacProxyAddr u')
    (hne : u.host ≠ u'.host) (a a' : Option Cred)
    (ha : ∀ c, a = some c → c.1 ≠ []) (ha' : ∀ c, a' = some c → c.1 ≠ []) :
    ∃ es t, buildTable es = some t ∧ pacLookup t u = a ∧ pacLookup t u' = a' := by
  obtain ⟨h, p, hh, hvh, hvp, hs, hz⟩ := hu
  obtain ⟨h', p', hh', hvh', hvp', hs', hz'⟩ := hu'
  rw [hh, hh'] at hne
  have valid : ∀ (x y : Bytes) (c : Cred), C05.validHost x = true → C05.validPort y = true → c.1 ≠ [] →
      (CredEntry.mk x y c).valid = true := by
    intro x y c hx hy hc
    have h1 := validHost_ne_nil hx
    have h2 := (validPort_digits hy).1
    unfold CredEntry.valid
    cases x <;> cases y <;> cases hc' : c.1 <;> simp_all
  have hk : (netJoinHostPort h p == netJoinHostPort h' p') = false := by simpa using hne
  have hk' : (netJoinHostPort h' p' == netJoinHostPort h p) = false := by simpa using fun e => hne e.symm
  cases a with
  | none =>
    cases a' with
    | none =>
      refine ⟨[], none, rfl, ?_, ?_⟩ <;> rfl
    | some c' =>
      refine ⟨[⟨h', p', c'⟩], _, buildTable_exact1 _ (valid _ _ _ hvh' hvp' (ha' c' rfl)) hs' hz', ?_, ?_⟩
      · simp only [pacLookup_of_host _ hh hvp, matchHostport, matchHostport_exact_only, List.lookup, hk]
      · simp only [pacLookup_of_host _ hh' hvp', matchHostport, matchHostport_exact_only, List.lookup, beq_self_eq_true]
  | some c =>
    cases a' with
    | none =>
      refine ⟨[⟨h, p, c⟩], _, buildTable_exact1 _ (valid _ _ _ hvh hvp (ha c rfl)) hs hz, ?_, ?_⟩
      · simp only [pacLookup_of_host _ hh hvp, matchHostport, matchHostport_exact_only, List.lookup, beq_self_eq_true]
      · simp only [pacLookup_of_host _ hh' hvp', matchHostport, matchHostport_exact_only, List.lookup, hk']
    | some c' =>
      refine ⟨[⟨h, p, c⟩, ⟨h', p', c'⟩], _, buildTable_exact2 _ _ (valid _ _ _ hvh hvp (ha c rfl)) hs hz
        (valid _ _ _ hvh' hvp' (ha' c' rfl)) hs' hz' hne, ?_, ?_⟩
      · simp only [pacLookup_of_host _ hh hvp, matchHostport, matchHostport_exact_only, List.lookup, beq_self_eq_true]
      · simp only [pacLookup_of_host _ hh' hvp', matchHostport, matchHostport_exact_only, List.lookup, hk', beq_self_eq_true]

/-- serving the lookups through a memo keyed by `key` is the same as looking each proxy up afresh,
    for every sequence of selected proxies, exactly when equal keys mean equal answers.  (The proxy
    has no such memo; this says which memos would be harmless under table `t`.) -/
theorem c06_pac_memo_sound_iff {κ : Type} [DecidableEq κ] (key : ProxyURL → κ) (t : Option CredTable) :
    (∀ us, pacLookupMemo key t us = us.map (pacLookup t)) ↔
      (∀ u u', key u = key u' → pacLookup t u' = pacLookup t u) := by
  unfold pacLookupMemo
  constructor
  · intro h u u' hk
    have := h [u, u']
    simp only [C05.memoRun, C05.assoc, if_true, hk, List.map_cons, List.map_nil, List.cons.injEq, and_true, true_and] at this
    exact this.symm
  · intro hs us
    exact C05.memoRun_eq_map (fun q q' hk _ => hs q q' hk) [] (by intro e he; cases he) us

/-- a memo keyed by the proxy's full host:port is harmless under every table, on every sequence of
    PAC-selected proxies … -/
theorem c06_pac_memo_by_hostport_sound (t : Option CredTable) (us : List ProxyURL) (hus : ∀ u ∈ us, PacProxyAddr u) :
    pacLookupMemo (fun u => u.host) t us = us.map (pacLookup t) := by
  unfold pacLookupMemo
  exact memoRun_eq_map_on PacProxyAddr (fun q q' hq _ hk _ => (c06_pac_lookup_same_hostport t hq hk).symm) []
    (by intro e he; cases he) us hus

/-- … and a memo that is harmless under every table must tell proxies with different host:port
    apart: a key that two such proxies share (the bare host name, the port alone, a case-folded
    name) serves one of them the other's answer under some table -/
theorem c06_pac_memo_key_separates {κ : Type} [DecidableEq κ] (key : ProxyURL → κ)
    (hsound : ∀ es t, buildTable es = some t → ∀ us, (∀ u ∈ us, PacProxyAddr u) →
      pacLookupMemo key t us = us.map (pacLookup t))
    {u u' : ProxyURL} (hu : PacProxyAddr u) (hu' : PacProxyAddr u') (hk : key u = key u') : u.host = u'.host := by
  refine Classical.byContradiction fun hne => ?_
  obtain ⟨es, t, hb, h1, h2⟩ := c06_pac_lookup_keyed_by_hostport hu hu' hne (some (bs "a", bs "pw")) none
    (by intro c hc; cases hc; with_unfolding_all decide) (by intro c hc; cases hc)
  have := hsound es t hb [u, u'] (by
    intro x hx
    simp only [List.mem_cons, List.not_mem_nil, or_false] at hx
    rcases hx with rfl | rfl <;> assumption)
  unfold pacLookupMemo at this
  simp only [C05.memoRun, C05.assoc, if_true, hk, List.map_cons, List.map_nil, List.cons.injEq, and_true, true_and] at this
  rw [h1, h2] at this
  cases this

def gwTable : List CredEntry := [⟨bs "gw.test", bs "3128", (bs "alice", bs "a-secret")⟩]
def gwA : ProxyURL := { scheme := bs "http", host := bs "gw.test:3128" }
def gwB : ProxyURL := { scheme := bs "http", host := bs "gw.test:3129" }

/-- the host-only memo (`pac.Proxy.Host` is the bare host name, the port lives in `Port`): with one
    `--credentials` entry for `gw.test:3128`, a script that selects `PROXY gw.test:3128` for one
    request and `PROXY gw.test:3129` for the next makes the memoising instance send
    `gw.test:3128`'s Proxy-Authorization to `gw.test:3129`, which has no entry; visited in the other
    order, `gw.test:3128` never gets its credentials.  The model sends each proxy its own. -/
theorem c06_host_memo_witness :
    C05.pacAnswer (.ok (bs "PROXY gw.test:3128")) = .ok (some gwA) ∧
    C05.pacAnswer (.ok (bs "PROXY gw.test:3129; DIRECT")) = .ok (some gwB) ∧
    (buildTable gwTable).isSome = true ∧
    (let t := (buildTable gwTable).getD none
     let memo := pacLookupMemo (fun u : ProxyURL => hostname u.host) t
     ([gwA, gwB].zipWith proxyAuthFor (memo [gwA, gwB]) =
        [some (bs "Basic YWxpY2U6YS1zZWNyZXQ="), some (bs "Basic YWxpY2U6YS1zZWNyZXQ=")] ∧
      [gwB, gwA].zipWith proxyAuthFor (memo [gwB, gwA]) = [none, none] ∧
      [gwA, gwB].zipWith proxyAuthFor ([gwA, gwB].map (pacLookup t)) = [some (bs "Basic YWxpY2U6YS1zZWNyZXQ="), none] ∧
      pacCredSeq t {} [.ok (bs "PROXY gw.test:3129; DIRECT"), .ok (bs "PROXY gw.test:3128"), .ok (bs "PROXY gw.test:3129; DIRECT")] =
        [.ok (some gwB), .ok (some { gwA with user := some (bs "alice", bs "a-secret") }), .ok (some gwB)])) := by
  with_unfolding_all decide

-- two PAC proxies on one host under different ports are both `PacProxyAddr`, with different host:port
example : PacProxyAddr gwA ∧ PacProxyAddr gwB ∧ gwA.host ≠ gwB.host :=
  ⟨⟨bs "gw.test", bs "3128", by with_unfolding_all decide⟩, ⟨bs "gw.test", bs "3129", by with_unfolding_all decide⟩,
   by with_unfolding_all decide⟩

/-! ## F. Requests in flight at the same time: what a hop is sent depends on that request alone

The model is a function of (configuration, request).  That the implementation is one as well while other requests
are in flight is a statement about the matcher all requests share: it is stated over the matcher as a machine
whose lookups are interleaved by a schedule (`runSched`). -/

/-- `CredentialsMatcher.Match` with other lookups in flight: under EVERY schedule, whatever the other lookups
    ask for and wherever they stand, a lookup that got to run has the table's answer for its own host:port -/
theorem c06_lookup_answer_independent_of_schedule (t : Option CredTable) (s : Unit) (ls : Nat → Lookup)
    (sched : List Nat) (i : Nat) (h0 : (ls i).pc = .start) (hm : i ∈ sched) :
    ((runSched (tableMatcher t) s ls sched).2 i).hp = (ls i).hp ∧
    ((runSched (tableMatcher t) s ls sched).2 i).pc = .done (matchHostport t (ls i).hp) :=
  ⟨(runSched_table_inv t sched s ls i).1, runSched_table_done t sched s ls i h0 hm⟩

/-- what lookups can get from the table matcher, over all schedules and all companies of other lookups, is the
    function `matchHostport t` and nothing else -/
theorem c06_table_matcher_serves_the_table (t : Option CredTable) (look : Bytes → Option Cred) :
    ServedBy (tableMatcher t) () look ↔ look = matchHostport t := by
  constructor
  · intro h
    funext hp
    obtain ⟨ls, sched, i, h0, hhp, hm, hd⟩ := h hp
    have := (c06_lookup_answer_independent_of_schedule t () ls sched i (h0 i) hm).2
    rw [this, hhp] at hd
    exact (LookupPc.done.inj hd).symm
  · rintro rfl hp
    exact ⟨fun _ => { hp := hp }, [0], 0, fun _ => rfl, rfl, List.mem_cons_self, rfl⟩

/-- the heads written on behalf of a request (plain, intercepted, CONNECT) whose lookups were answered by the
    matcher while ANY other lookups were in flight under ANY schedule are the model's answer for that request
    alone: what a hop is sent depends on the configuration and on this request, never on what else is in flight -/
theorem c06_heads_depend_only_on_own_request (fc : FullCfg) (look : Bytes → Option Cred)
    (h : ServedBy (tableMatcher fc.table) () look) (ctx : Ctx) :
    (∀ r : Request, requestActionsWith look fc ctx r = requestActions fc ctx r) ∧
    (∀ q : ConnectReq, connectActionsWith look fc ctx q = connectActions fc ctx q) := by
  have hl := (c06_table_matcher_serves_the_table fc.table look).mp h
  subst hl
  constructor
  · intro r
    unfold requestActionsWith requestActions
    simp only [resolveWith_table]
  · intro q
    unfold connectActionsWith connectActions
    simp only [resolveWith_table]

/-- a batch of requests in flight together is served pointwise: the k-th answer is the answer to the k-th request
    on its own, whatever the batch and its order -/
theorem c06_batch_pointwise (fc : FullCfg) (ctx : Ctx) (rs : List Request) (k : Nat) :
    (rs.map (requestActions fc ctx))[k]? = rs[k]?.map (requestActions fc ctx) := List.getElem?_map

/-- the two-cell "last lookup" memo answers like the table as long as lookups are made one at a time (each
    finished before the next starts), from every state in which the two cells agree with the table, for every
    sequence of lookups: no sequential run of requests tells it from the code's matcher -/
theorem c06_two_slot_cache_sound_in_turn (t : Option CredTable) (hps : List Bytes) :
    ∀ s : LastSlots, SlotsAgree t s →
      lookupsInTurn (twoSlotCache t) s hps = hps.map fun hp => LookupPc.done (matchHostport t hp) := by
  induction hps with
  | nil => intro s _; rfl
  | cons hp hps ih =>
    intro s hs
    obtain ⟨h1, h2⟩ := lookupAlone_twoSlot t s hp hs
    simp only [lookupsInTurn, h1, ih _ h2, List.map_cons]

example : SlotsAgree (some {}) {} := by intro k hk; cases hk

def raceTable : List CredEntry := [⟨bs "a.test", bs "80", (bs "alice", bs "pwA")⟩]
/-- lookup 0 is for `a.test:80` (has an entry), lookups 1 and 2 are for `b.test:80` (no entry) -/
def raceLookups : Nat → Lookup := fun j => if j = 0 then { hp := bs "a.test:80" } else { hp := bs "b.test:80" }

/-- … and is wrong when two lookups overlap.  Lookups 0 (`a.test:80`) and 1 (`b.test:80`) both miss; the stores
    interleave as key a, key b, answer none, answer alice: the cells say `b.test:80 ↦ alice`, and lookup 2 for
    `b.test:80` — a target without any entry — is answered with a.test's credentials (its request would leave with
    `Authorization: Basic YWxpY2U6cHdB`).  Interleaved the other way round the cells say `a.test:80 ↦ none`
    and a.test's own request goes without.  The table matcher answers `none` resp. alice under these very
    schedules. -/
theorem c06_two_slot_cache_witness :
    (buildTable raceTable).isSome = true ∧
    (let t := (buildTable raceTable).getD none
     matchHostport t (bs "b.test:80") = none ∧
     matchHostport t (bs "a.test:80") = some (bs "alice", bs "pwA") ∧
     ((runSched (twoSlotCache t) {} raceLookups [0, 1, 0, 1, 1, 0, 2, 2]).2 2).pc = .done (some (bs "alice", bs "pwA")) ∧
     (some (bs "alice", bs "pwA")).map (fun c : Cred => basicAuthValue c.1 c.2) = some (bs "Basic YWxpY2U6cHdB") ∧
     ((runSched (twoSlotCache t) {} (fun j => if j = 1 then { hp := bs "b.test:80" } else { hp := bs "a.test:80" })
        [0, 1, 1, 0, 0, 1, 2, 2]).2 2).pc = .done none ∧
     ((runSched (tableMatcher t) () raceLookups [0, 1, 0, 1, 1, 0, 2, 2]).2 2).pc = .done none ∧
     ¬ ServedBy (tableMatcher t) () (fun _ => some (bs "alice", bs "pwA"))) := by
  refine ⟨by with_unfolding_all decide, by with_unfolding_all decide, by with_unfolding_all decide,
    by with_unfolding_all decide, by with_unfolding_all decide, by with_unfolding_all decide,
    by with_unfolding_all decide, ?_⟩
  intro h
  have := (c06_table_matcher_serves_the_table _ _).mp h
  have := congrFun this (bs "b.test:80")
  revert this
  with_unfolding_all decide

/-! ## G. One process, several proxies: the credentials a proxy presents upstream come from its own configuration

A constructor is handed the caller's configuration; the caller may hand the same `*url.URL` to several
constructors and copy it (`runHist`, cells).  `upstreamProxyURL` completes a copy of the URL (`ctorCopy`). -/

/-- a construction writes nothing into the configuration it is handed: after any history the caller's URLs are
    what the caller wrote -/
theorem c06_construction_leaves_configuration_unwritten (cells : List ProxyURL) (ops : List HistOp) :
    (runHist ctorCopy cells ops).2 = writtenCells cells ops := runHist_copy_cells ops cells

/-- what the caller wrote does not depend on which proxies were constructed in between -/
theorem c06_written_configuration_ignores_constructions (ops : List HistOp) : ∀ cells : List ProxyURL,
    writtenCells cells ops = writtenCells cells (ops.filter fun | .build _ _ => false | .derive _ _ => true) := by
  induction ops with
  | nil => intro cells; rfl
  | cons op ops ih =>
    intro cells
    cases op with
    | build c t => simp only [writtenCells_cons, callerStep, List.filter_cons, Bool.false_eq_true, if_false, ih]
    | derive src host => simp only [writtenCells_cons, List.filter_cons, if_true, ih]

/-- the URL (host and credentials) the k-th constructed proxy presents itself to its upstream proxy with is a
    function of the URL in ITS cell as the caller wrote it and of ITS table — the URL's userinfo, failing that its
    table's entry for that URL's host:port — whatever was constructed before, from the same cell or another, with
    whatever tables -/
theorem c06_upstream_credentials_from_own_configuration (cells : List ProxyURL) (ops : List HistOp) (k c : Nat)
    (t : Option CredTable) (u : ProxyURL) (hop : ops[k]? = some (.build c t))
    (hu : (writtenCells cells (ops.take k))[c]? = some u) :
    (runHist ctorCopy cells ops).1[k]? = some (some (upstreamProxyURL t u)) ∧
    (upstreamProxyURL t u).scheme = u.scheme ∧ (upstreamProxyURL t u).host = u.host ∧
    (upstreamProxyURL t u).user = (match u.user with
                                   | some c => some c
                                   | none => matchURL t u.scheme u.host) := by
  have hk : k < ops.length := by
    rcases Nat.lt_or_ge k ops.length with h | h
    · exact h
    · rw [List.getElem?_eq_none h] at hop; cases hop
  refine ⟨?_, ?_⟩
  · rw [runHist_copy_answers ops cells k, if_pos hk, ownAnswer, hop]
    simp only [hu, Option.map_some]
  · unfold upstreamProxyURL
    cases hx : u.user with
    | none => exact ⟨rfl, rfl, rfl⟩
    | some c => simp only [hx, and_self]

def histTableA : List CredEntry := [⟨bs "pa.test", bs "3128", (bs "alice", bs "pwA")⟩]
def histCell : ProxyURL := { scheme := bs "http", host := bs "pa.test:3128" }
/-- proxy 1 from the URL with alice's table; proxy 2 from the SAME URL without a table; a value copy of the URL
    pointed at `pb.test:3128`; proxy 3 from the copy without a table -/
def histOps (t : Option CredTable) : List HistOp := [.build 0 t, .build 0 none, .derive 0 (bs "pb.test:3128"), .build 1 none]

example : (histOps none)[3]? = some (.build 1 none) ∧
    (writtenCells [histCell] ((histOps none).take 3))[1]? = some { histCell with host := bs "pb.test:3128" } :=
  ⟨rfl, by with_unfolding_all decide⟩

/-- the constructor that completes the caller's URL in place: after proxy 1 the caller's URL carries alice's
    credentials; proxy 2 (no table) presents them to `pa.test:3128`, and proxy 3 presents them to `pb.test:3128`,
    a proxy nothing was configured for.  The copying constructor gives proxies 2 and 3 none and leaves the cells
    as written. -/
theorem c06_in_place_constructor_witness :
    (buildTable histTableA).isSome = true ∧
    (let t := (buildTable histTableA).getD none
     let alice : Option Cred := some (bs "alice", bs "pwA")
     runHist ctorInPlace [histCell] (histOps t) =
       ([some { histCell with user := alice }, some { histCell with user := alice }, none,
         some { histCell with host := bs "pb.test:3128", user := alice }],
        [{ histCell with user := alice }, { histCell with host := bs "pb.test:3128", user := alice }]) ∧
     runHist ctorCopy [histCell] (histOps t) =
       ([some { histCell with user := alice }, some histCell, none, some { histCell with host := bs "pb.test:3128" }],
        [histCell, { histCell with host := bs "pb.test:3128" }]) ∧
     C05.authValue { histCell with host := bs "pb.test:3128", user := alice } = some (bs "Basic YWxpY2U6cHdB")) := by
  with_unfolding_all decide

end C06
end FwdVerif
