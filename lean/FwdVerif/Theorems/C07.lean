/-
  C07 — property theorems: MITM serves a valid certificate for the requested host and keeps origin
  verification.  Only property theorems, full-strength statements that the unchanged code violates
  (kept visible as `def …_full : Prop` with a kernel-checked witness) and non-vacuity examples live
  here; helper lemmas and the hypothesis predicates `Plain`, `FreshVerifies`, `dotted`, `octetOK`
  are in `FwdVerif/Lemmas/C07.lean`.

  Crypto is not modelled.  x509 verification is the abstract `vf : Verifier`; what is assumed of it
  is the explicit hypothesis `FreshVerifies vf validity` (a leaf just issued for `n` verifies for
  `n` throughout its window) — a hypothesis, never an axiom; `x509ish` shows it is satisfiable.

  Byte strings used in the examples:
    ':' = 58   '[' = 91   ']' = 93   '.' = 46   '%' = 37
    "a.test" = [97,46,116,101,115,116]        "A.Test" = [65,46,84,101,115,116]
    "b.test" = [98,46,116,101,115,116]        "443" = [52,52,51]
    "::1" = [58,58,49]                        "1.2.3.4" = [49,46,50,46,51,46,52]
    "http" = [104,116,116,112]                "https" = [104,116,116,112,115]
    "8443" = [56,52,52,51]                    "80" = [56,48]
    "a.test$"-style end anchors are the harness's business (regular expressions belong to C17);
    here a list is any pair of predicates `incl excl : Bytes → Bool`, or a finite table of verdicts.
-/
import FwdVerif.Lemmas.C07

namespace FwdVerif
namespace C07

open Ascii

/-! ## A. Which name the certificate is issued for -/

/-- an SNI host name is used verbatim (no case folding), whatever the CONNECT authority says -/
theorem c07_name_sni {sni : Bytes} (h0 : sni ≠ []) (hc : (58 : UInt8) ∉ sni) (host : Bytes) :
    certName sni host = sni := by
  have : sni.isEmpty = false := by cases sni <;> simp_all
  simp [certName, this, splitHostPort_no_colon hc]

-- SNI "A.Test" inside CONNECT b.test:443
example : certName [65,46,84,101,115,116] [98,46,116,101,115,116,58,52,52,51] = [65,46,84,101,115,116] := by
  decide

/-- without SNI the name is the CONNECT host with the port stripped (`host:port`) -/
theorem c07_name_connect_host {h p : Bytes} (hh : Plain h) (hp : Plain p) :
    certName [] (h ++ 58 :: p) = h := by
  simp [certName, splitHostPort_host_port hh hp]

example : certName [] [97,46,116,101,115,116,58,52,52,51] = [97,46,116,101,115,116] := by decide

/-- … and for a bracketed IPv6 literal the brackets go as well (`[v6]:port`) -/
theorem c07_name_connect_bracketed {h p : Bytes} (h2 : (91 : UInt8) ∉ h) (h3 : (93 : UInt8) ∉ h)
    (hp : Plain p) : certName [] (91 :: (h ++ 93 :: 58 :: p)) = h := by
  simp [certName, splitHostPort_bracketed h2 h3 hp]

example : certName [] [91,58,58,49,93,58,52,52,51] = [58,58,49] := by decide       -- "[::1]:443"

/-- full statement "the certificate name is the host of the CONNECT authority, for every
    authority" — FALSE of the unchanged code outside the `host:port` forms: `net.SplitHostPort`
    fails on a bracketed literal without port and the brackets stay in the name -/
def c07_name_is_hostname_full : Prop := ∀ a : Bytes, certName [] a = urlHostname a

/-- `CONNECT [::1]` (no port, not a legal authority-form target): name "[::1]", a DNS SAN -/
theorem c07_name_portless_bracket_witness :
    certName [] [91,58,58,49,93] = [91,58,58,49,93] ∧ san [91,58,58,49,93] = .dns ∧
      urlHostname [91,58,58,49,93] = [58,58,49] ∧ san [58,58,49] = .ip := by decide

theorem c07_name_is_hostname_full_false : ¬ c07_name_is_hostname_full := by
  intro h
  have := h [91,58,58,49,93]
  revert this
  decide

/-! ## B. SAN kind follows literal kind -/

/-- every dotted quad gets an IP SAN -/
theorem c07_san_ipv4 {a b c d : Nat} (ha : a < 256) (hb : b < 256) (hc : c < 256) (hd : d < 256) :
    san (dotted a b c d) = .ip := by
  have := isIP_octets (octetOK_dec ⟨a, ha⟩) (octetOK_dec ⟨b, hb⟩) (octetOK_dec ⟨c, hc⟩)
    (octetOK_dec ⟨d, hd⟩)
  simp only [san, dotted]
  simp [this]

example : dotted 203 0 113 7 = [50,48,51,46,48,46,49,49,51,46,55] := by decide

/-- a name without ':' that has a byte other than a digit or '.' (every host name) gets a DNS SAN -/
theorem c07_san_dns {name : Bytes} (hc : (58 : UInt8) ∉ name) {c : UInt8} (hm : c ∈ name)
    (hd : isDigit c = false) (h46 : c ≠ 46) : san name = .dns := by
  have : isIP name = false := by
    cases hip : isIP name with
    | false => rfl
    | true =>
      rcases isIP_no_colon_bytes hc hip c hm with h | h
      · rw [hd] at h; cases h
      · exact absurd h h46
  simp [san, this]

example : san [97,46,116,101,115,116] = .dns := by decide                          -- "a.test"

-- IPv6 literals (after the brackets were removed), embedded IPv4, and near misses
example : san [58,58,49] = .ip := by decide                                       -- "::1"
example : san [50,48,48,49,58,100,98,56,58,58,49] = .ip := by decide              -- "2001:db8::1"
example : san [58,58,102,102,102,102,58,49,46,50,46,51,46,52] = .ip := by decide  -- "::ffff:1.2.3.4"
example : san [49,46,50,46,51] = .dns := by decide                                -- "1.2.3"
example : san [50,53,54,46,49,46,49,46,49] = .dns := by decide                    -- "256.1.1.1"
example : san [48,49,46,50,46,51,46,52] = .dns := by decide                       -- "01.2.3.4"
example : san [49,58,58,50,58,58,51] = .dns := by decide                          -- "1::2::3"

/-- a newly issued leaf carries the name as CN and as its only SAN, of the kind `san` says, and is
    signed by the configured CA -/
theorem c07_fresh_leaf (validity : Int) (n : Bytes) (t : Int) :
    (fresh validity n t).cn = n ∧ (fresh validity n t).sanVal = n ∧
      (fresh validity n t).kind = san n ∧ (fresh validity n t).byCA = true :=
  ⟨rfl, rfl, rfl, rfl⟩

/-! ## C. The certificate served verifies, for every cache state and every history -/

/-- the window of a new leaf contains the instant of issuance (validity of at least one second) -/
theorem c07_window_contains_now {validity : Int} (hv : sec ≤ validity) (n : Bytes) (now : Int) :
    (fresh validity n now).notBefore ≤ now ∧ now ≤ (fresh validity n now).notAfter :=
  fresh_window hv n now

example : (fresh sec [] 5999000000).notBefore = 4000000000 ∧
    (fresh sec [] 5999000000).notAfter = 6000000000 := by decide

/-- full statement "for every positive validity" — FALSE for sub-second validities because
    notAfter keeps whole seconds only (model-level boundary; `--mitm-validity` below 1 s) -/
def c07_window_full : Prop :=
  ∀ validity : Int, 0 < validity → ∀ n now, now ≤ (fresh validity n now).notAfter

/-- validity 50 ms, issued at 0.9 s: notAfter = 0 s -/
theorem c07_window_subsecond_witness : (fresh 50000000 [] 900000000).notAfter < 900000000 := by
  decide

theorem c07_window_full_false : ¬ c07_window_full := by
  intro h
  have := h 50000000 (by decide) [] 900000000
  revert this
  decide

/-- MAIN: whatever the cache holds (any eviction, any TTL state, any content), the certificate
    served for a handshake verifies for the requested name at the time of the handshake -/
theorem c07_cert_verifies {vf : Verifier} {validity : Int} (hv : sec ≤ validity)
    (hf : FreshVerifies vf validity) (cache : Cache) (sni connectHost : Bytes) (now : Int) :
    vf (handshakeCert vf validity cache sni connectHost now) (certName sni connectHost) now = true :=
  certFor_verifies hv hf cache _ now

/-- a cached entry that does not verify for (name, now) is never served -/
theorem c07_invalid_entry_not_served (vf : Verifier) (validity : Int) (cache : Cache)
    (name : Bytes) (now : Int) {c : Cert} (hc : cache name = some c) (hbad : vf c name now = false) :
    certFor vf validity cache name now = fresh validity name now := by
  simp [certFor, hc, hbad]

/-- a cached entry that verifies is served again (the cache is used) -/
theorem c07_valid_entry_served (vf : Verifier) (validity : Int) (cache : Cache)
    (name : Bytes) (now : Int) {c : Cert} (hc : cache name = some c) (hok : vf c name now = true) :
    certFor vf validity cache name now = c := by
  simp [certFor, hc, hok]

/-- every history: handshakes interleaved in any order with evictions, expiries, overwrites by
    other writers and flushes, from any initial cache — every certificate served verifies for the
    name and at the time it was asked for -/
theorem c07_history_verifies {vf : Verifier} {validity : Int} (hv : sec ≤ validity)
    (hf : FreshVerifies vf validity) (cache : Cache) (ops : List Op) :
    ∀ s ∈ run vf validity cache ops, vf s.cert s.name s.now = true :=
  run_all_verify hv hf ops cache

/-- the assumption is satisfiable: with the concrete x509-shaped verifier (chain to the CA, time
    inside the window, SAN of the right kind equal to the name up to ASCII case) nothing is assumed -/
theorem c07_cert_verifies_x509ish {validity : Int} (hv : sec ≤ validity) (cache : Cache)
    (sni connectHost : Bytes) (now : Int) :
    let c := handshakeCert x509ish validity cache sni connectHost now
    let n := certName sni connectHost
    c.byCA = true ∧ c.notBefore ≤ now ∧ now ≤ c.notAfter ∧ c.kind = san n ∧
      eqFold c.sanVal n = true := by
  have h := c07_cert_verifies hv (x509ish_fresh validity) cache sni connectHost now
  simp only [x509ish, Bool.and_eq_true, decide_eq_true_eq, beq_iff_eq] at h
  obtain ⟨⟨⟨⟨h1, h2⟩, h3⟩, h4⟩, h5⟩ := h
  exact ⟨h1, h2, h3, h4, h5⟩

-- non-vacuity: a stale entry for another name and an expired one are both replaced
example :
    let stale : Cert := { cn := [98], kind := .dns, sanVal := [98], notBefore := 0, notAfter := 9000000000, byCA := true }
    certFor x509ish sec (fun _ => some stale) [97] 5000000000 = fresh sec [97] 5000000000 := by decide
example :
    let old : Cert := fresh sec [97] 1000000000
    certFor x509ish sec (fun _ => some old) [97] 5000000000 = fresh sec [97] 5000000000 ∧
      certFor x509ish sec (fun _ => some old) [97] 1500000000 = old := by decide

/-! ## C2. Names of every length; one cache entry per name

  "aaaa…a.test" below = 60 × 'a' (97) followed by ".test" (46,116,101,115,116): 65 characters, one
  more than RFC 5280's ub-common-name; its first 64 characters are "aaaa…a.tes". -/

/-- the model of the tree (`certFor`, `cacheAfter`) is the handling that keeps the name as it is -/
theorem c07_tree_keeps_name (vf : Verifier) (validity : Int) (cache : Cache) (name : Bytes) (now : Int) :
    certForH .verbatim vf validity cache name now = certFor vf validity cache name now ∧
      cacheAfterH .verbatim vf validity cache name now = cacheAfter vf validity cache name now :=
  ⟨rfl, rfl⟩

/-- for a requested name of EVERY length `len` (DNS names run to 253 characters; nothing here stops
    there), from any cache state: the leaf served verifies for the name, its name set contains the
    requested name — up to ASCII case, all `len` characters of it — and the SAN kind is the name's -/
theorem c07_leaf_valid_for_name_of_any_length {validity : Int} (hv : sec ≤ validity) (cache : Cache)
    (len : Nat) (sni connectHost : Bytes) (hlen : (certName sni connectHost).length = len) (now : Int) :
    let n := certName sni connectHost
    let c := certForH .verbatim x509ish validity cache n now
    x509ish c n now = true ∧ (∃ m ∈ leafNames c, eqFold m n = true ∧ m.length = len) ∧
      c.kind = san n := by
  intro n c
  have h : x509ish c n now = true := certFor_verifies hv (x509ish_fresh validity) cache n now
  have hs := x509ish_san h
  refine ⟨h, ⟨c.sanVal, by simp [leafNames], hs.2, ?_⟩, hs.1⟩
  rw [eqFold_length hs.2]; exact hlen

/-- a leaf issued on a miss carries the requested name itself, uncut, as its only SAN and as common
    name (the code enforces no ub-common-name), for every length -/
theorem c07_fresh_leaf_keeps_name_of_any_length (vf : Verifier) (validity : Int) (cache : Cache)
    (name : Bytes) (now : Int) (hmiss : cache name = none) :
    let c := certForH .verbatim vf validity cache name now
    leafNames c = [name] ∧ c.cn = name ∧ c.cn.length = name.length := by
  simp [certForH, hmiss, leafNames, fresh, issuedName]

example : ((certForH .verbatim x509ish sec (fun _ => none)
    (List.replicate 60 97 ++ [46,116,101,115,116]) 5000000000).sanVal).length = 65 := by decide

/-- the cache key is injective on names -/
theorem c07_cache_key_injective {a b : Bytes} (h : cacheKey .verbatim a = cacheKey .verbatim b) :
    a = b := h

/-- two different names never share a cache entry: a handshake for `a` leaves the entry of every
    other name as it was, whatever it stores … -/
theorem c07_cache_entry_per_name (vf : Verifier) (validity : Int) (cache : Cache) (a : Bytes)
    (now : Int) {b : Bytes} (hab : b ≠ a) :
    cacheAfterH .verbatim vf validity cache a now b = cache b := by
  rw [cacheAfterH_verbatim]
  unfold cacheAfter
  cases hc : cache a with
  | none => simp [hab]
  | some c =>
    by_cases hv : vf c a now = true
    · simp [hv]
    · simp [hv, hab]

/-- … and what it served is what the next lookup of `a` finds -/
theorem c07_served_leaf_is_cached (vf : Verifier) (validity : Int) (cache : Cache) (a : Bytes)
    (now : Int) :
    cacheAfterH .verbatim vf validity cache a now a =
      some (certForH .verbatim vf validity cache a now) := by
  rw [cacheAfterH_verbatim, certForH_verbatim]
  unfold cacheAfter certFor
  cases hc : cache a with
  | none => simp
  | some c =>
    by_cases hv : vf c a now = true
    · simp [hv, hc]
    · simp [hv]

/-- over every history: one certificate is served for two requests only when both ask for the same
    name up to ASCII case — names that differ anywhere, also only beyond their 64th character, never
    get each other's leaf -/
theorem c07_leaf_never_served_for_another_name {validity : Int} (hv : sec ≤ validity) (cache : Cache)
    (ops : List Op) {s₁ s₂ : Served} (h₁ : s₁ ∈ run x509ish validity cache ops)
    (h₂ : s₂ ∈ run x509ish validity cache ops) (hne : eqFold s₁.name s₂.name = false) :
    s₁.cert ≠ s₂.cert := by
  intro hc
  rw [run_cert_one_name hv cache ops h₁ h₂ hc] at hne
  cases hne

/-- the statement for an arbitrary handling of the name -/
def c07_any_length_full (h : NameHandling) : Prop :=
  ∀ validity : Int, sec ≤ validity → ∀ (cache : Cache) (name : Bytes) (now : Int),
    x509ish (certForH h x509ish validity cache name now) name now = true

/-- it holds of the tree's handling, for every cache state, name and instant -/
theorem c07_any_length : c07_any_length_full .verbatim :=
  fun _ hv cache name now => certFor_verifies hv (x509ish_fresh _) cache name now

/-- the variant that cuts the name to `k` bytes between lookup and template fails for EVERY name
    longer than `k` that is not already cached: the leaf's SAN is shorter than the name -/
theorem c07_cut_fails_every_longer_name (k : Nat) (validity : Int) (cache : Cache) (name : Bytes)
    (now : Int) (hmiss : cache name = none) (hlong : k < name.length) :
    x509ish (certForH (.cutAt k) x509ish validity cache name now) name now = false := by
  cases hx : x509ish (certForH (.cutAt k) x509ish validity cache name now) name now with
  | false => rfl
  | true =>
    have hl := eqFold_length (x509ish_san hx).2
    simp only [certForH, hmiss, fresh, issuedName, hlong, if_true] at hl
    rw [List.length_take] at hl
    omega

/-- kernel-checked witness, cut at 64: "aaaa…a.test" (65 characters) gets a leaf whose only name is
    "aaaa…a.tes", which does not verify for the name asked for, and the leaf is stored where the
    next lookup of the name does not find it -/
theorem c07_cut_name_witness :
    let n : Bytes := List.replicate 60 97 ++ [46,116,101,115,116]
    let c := certForH (.cutAt 64) x509ish sec (fun _ => none) n 5000000000
    n.length = 65 ∧ leafNames c = [List.replicate 60 97 ++ [46,116,101,115]] ∧
      x509ish c n 5000000000 = false ∧
      cacheAfterH (.cutAt 64) x509ish sec (fun _ => none) n 5000000000 n = none := by decide

theorem c07_cut_any_length_full_false : ¬ c07_any_length_full (.cutAt 64) := by
  intro h
  have := h sec (Int.le_refl _) (fun _ => none) (List.replicate 60 97 ++ [46,116,101,115,116]) 5000000000
  rw [c07_cut_fails_every_longer_name 64 sec _ _ _ rfl (by decide)] at this
  cases this

/-- kernel-checked witness, cut at 64: "aaaa…a.test" and "aaaa…a.tesu" agree in their first 64
    characters — one cache key, one and the same leaf for both, valid for neither; the entry a
    handshake for the first stores is the entry of the second -/
theorem c07_cut_cache_key_witness :
    let a : Bytes := List.replicate 60 97 ++ [46,116,101,115,116]
    let b : Bytes := List.replicate 60 97 ++ [46,116,101,115,117]
    a ≠ b ∧ cacheKey (.cutAt 64) a = cacheKey (.cutAt 64) b ∧
      certForH (.cutAt 64) x509ish sec (fun _ => none) a 5000000000 =
        certForH (.cutAt 64) x509ish sec (fun _ => none) b 5000000000 ∧
      cacheAfterH (.cutAt 64) x509ish sec (fun _ => none) a 5000000000 (cacheKey (.cutAt 64) b) =
        some (certForH (.cutAt 64) x509ish sec (fun _ => none) a 5000000000) ∧
      x509ish (certForH (.cutAt 64) x509ish sec (fun _ => none) b 5000000000) b 5000000000 = false := by
  decide

theorem c07_cut_cache_key_not_injective :
    ¬ ∀ a b : Bytes, cacheKey (.cutAt 64) a = cacheKey (.cutAt 64) b → a = b := by
  intro h
  have := h (List.replicate 60 97 ++ [46,116,101,115,116]) (List.replicate 60 97 ++ [46,116,101,115,117])
    (by decide)
  revert this
  decide

/-! ## D. Which CONNECTs are intercepted -/

/-- a host the exclude list matches is not intercepted: tunnel path -/
theorem c07_excluded_tunnelled (incl excl : Bytes → Bool) (a : Bytes)
    (he : excl (urlHostname a) = true) :
    connectPath true (some (domainsMatch incl excl)) a = .tunnel := by
  simp [connectPath, shouldMITM, domainsMatch, he]

/-- a host no include rule matches is not intercepted either -/
theorem c07_not_included_tunnelled (incl excl : Bytes → Bool) (a : Bytes)
    (hi : incl (urlHostname a) = false) :
    connectPath true (some (domainsMatch incl excl)) a = .tunnel := by
  simp [connectPath, shouldMITM, domainsMatch, hi]

/-- included and not excluded: intercepted -/
theorem c07_included_intercepted (incl excl : Bytes → Bool) (a : Bytes)
    (hi : incl (urlHostname a) = true) (he : excl (urlHostname a) = false) :
    connectPath true (some (domainsMatch incl excl)) a = .mitm := by
  simp [connectPath, shouldMITM, domainsMatch, hi, he]

/-- no mitm-domains list: every CONNECT is intercepted; no MITM configuration: none is -/
theorem c07_no_filter_intercepted (a : Bytes) : connectPath true none a = .mitm := by
  simp [connectPath, shouldMITM]

theorem c07_no_config_tunnelled (f : Option (Bytes → Bool)) (a : Bytes) :
    connectPath false f a = .tunnel := by
  simp [connectPath, shouldMITM]

-- the lists see the host without port and brackets: "a.test:443" ↦ "a.test", "[::1]:443" ↦ "::1"
example : urlHostname [97,46,116,101,115,116,58,52,52,51] = [97,46,116,101,115,116] := by decide
example : urlHostname [91,58,58,49,93,58,52,52,51] = [58,58,49] := by decide

/-- the lists are asked about the host name ALONE: for `host:port` with any numeric port the
    filter's argument is `host` -/
theorem c07_filter_sees_hostname (f : Bytes → Bool) {h p : Bytes} (h2 : (91 : UInt8) ∉ h)
    (hp : p.all isDigit = true) : shouldMITM true (some f) (h ++ 58 :: p) = f h := by
  simp [shouldMITM, urlHostname_host_port h2 hp]

/-- … and for `[v6]:port` it is what stands between the brackets -/
theorem c07_filter_sees_hostname_bracketed (f : Bytes → Bool) (v : Bytes) {p : Bytes}
    (hp : p.all isDigit = true) : shouldMITM true (some f) (91 :: (v ++ 93 :: 58 :: p)) = f v := by
  simp [shouldMITM, urlHostname_bracketed v hp]

/-- the decision does not depend on the port: same host, any two numeric ports, any filter, with
    or without MITM configuration -/
theorem c07_filter_ignores_port (cfg : Bool) (f : Option (Bytes → Bool)) {h p q : Bytes}
    (h2 : (91 : UInt8) ∉ h) (hp : p.all isDigit = true) (hq : q.all isDigit = true) :
    connectPath cfg f (h ++ 58 :: p) = connectPath cfg f (h ++ 58 :: q) := by
  simp [connectPath, shouldMITM, urlHostname_host_port h2 hp, urlHostname_host_port h2 hq]

theorem c07_filter_ignores_port_bracketed (cfg : Bool) (f : Option (Bytes → Bool)) (v : Bytes)
    {p q : Bytes} (hp : p.all isDigit = true) (hq : q.all isDigit = true) :
    connectPath cfg f (91 :: (v ++ 93 :: 58 :: p)) = connectPath cfg f (91 :: (v ++ 93 :: 58 :: q)) := by
  simp [connectPath, shouldMITM, urlHostname_bracketed v hp, urlHostname_bracketed v hq]

/-- an excluded host is tunnelled on EVERY port (443, 8443, 80, …) -/
theorem c07_excluded_tunnelled_any_port (incl excl : Bytes → Bool) {h p : Bytes}
    (h2 : (91 : UInt8) ∉ h) (hp : p.all isDigit = true) (he : excl h = true) :
    connectPath true (some (domainsMatch incl excl)) (h ++ 58 :: p) = .tunnel :=
  c07_excluded_tunnelled incl excl _ (by rw [urlHostname_host_port h2 hp]; exact he)

theorem c07_excluded_tunnelled_any_port_bracketed (incl excl : Bytes → Bool) (v : Bytes) {p : Bytes}
    (hp : p.all isDigit = true) (he : excl v = true) :
    connectPath true (some (domainsMatch incl excl)) (91 :: (v ++ 93 :: 58 :: p)) = .tunnel :=
  c07_excluded_tunnelled incl excl _ (by rw [urlHostname_bracketed v hp]; exact he)

-- non-vacuity: an "end-anchored" exclude (true of "a.test" only, not of "a.test:8443") and an
-- include-everything rule: "a.test:443", "a.test:8443" and "a.test:80" are all tunnelled …
example :
    let excl : Bytes → Bool := fun s => s == [97,46,116,101,115,116]
    connectPath true (some (domainsMatch (fun _ => true) excl)) [97,46,116,101,115,116,58,52,52,51] = .tunnel ∧
    connectPath true (some (domainsMatch (fun _ => true) excl)) [97,46,116,101,115,116,58,56,52,52,51] = .tunnel ∧
    connectPath true (some (domainsMatch (fun _ => true) excl)) [97,46,116,101,115,116,58,56,48] = .tunnel := by
  decide
-- … also when the list is the finite table the harness hands over, in which the `host:port`
-- spelling is NOT excluded (what a filter applied to `host:port` would see)
example :
    connectPath true (some (tableFilter [([97,46,116,101,115,116], true, true),
      ([97,46,116,101,115,116,58,56,52,52,51], true, false)])) [97,46,116,101,115,116,58,56,52,52,51] = .tunnel := by
  decide
-- "[::1]:8443" with "::1" excluded
example :
    connectPath true (some (domainsMatch (fun _ => true) (fun s => s == [58,58,49]))) [91,58,58,49,93,58,56,52,52,51] = .tunnel := by
  decide

/-! ## E. Requests read from the intercepted session -/

/-- full statement "an intercepted request is always sent with scheme https" — FALSE of the
    unchanged code (F17): the client's own `X-Forwarded-Proto` wins over `req.TLS`, and forwarder
    runs martian with `AllowHTTP = true` -/
def c07_intercepted_https_full : Prop :=
  ∀ (xfp : Bytes) (insecure originVerifies : Bool),
    interceptedRequest xfp true insecure originVerifies ≠ .deliverPlain

/-- `X-Forwarded-Proto: http` inside the TLS session: the request leaves in clear text -/
theorem c07_intercepted_https_witness :
    interceptedRequest [104,116,116,112] true false true = .deliverPlain := by decide

theorem c07_intercepted_https_full_false : ¬ c07_intercepted_https_full := by
  intro h
  exact h [104,116,116,112] false true c07_intercepted_https_witness

/-- … and that also reaches an origin whose certificate would not verify, insecure mode off -/
theorem c07_unverified_origin_witness :
    (interceptedRequest [104,116,116,112] true false false).delivered = true := by decide

/-- the clause under the hypothesis that excludes the defect class: without a client
    `X-Forwarded-Proto` the request goes over TLS or is refused — never in clear text -/
theorem c07_intercepted_https_partial (allowHTTP insecure originVerifies : Bool) :
    interceptedRequest [] allowHTTP insecure originVerifies = .deliverTLS ∨
      interceptedRequest [] allowHTTP insecure originVerifies = .refused502 := by
  cases allowHTTP <;> cases insecure <;> cases originVerifies <;> decide

/-- only the value "http" opens the clear-text path -/
theorem c07_intercepted_plain_only_if_xfp_http {xfp : Bytes} (allowHTTP insecure ok : Bool)
    (h : interceptedRequest xfp allowHTTP insecure ok = .deliverPlain) : xfp = http := by
  unfold interceptedRequest fixScheme forward at h
  by_cases hx : xfp = []
  · subst hx
    revert h
    cases allowHTTP <;> cases insecure <;> cases ok <;> decide
  · have hne : xfp.isEmpty = false := by cases xfp <;> simp_all
    by_cases hh : xfp = http
    · exact hh
    · have hb : (xfp == http) = false := by simpa using hh
      simp only [List.isEmpty_nil, hne, Bool.not_false, if_true, hb, Bool.false_and,
        Bool.false_eq_true, if_false] at h
      split at h
      · split at h <;> cases h
      · simp_all

/-- with martian's upgrade left on (`AllowHTTP = false`) no header could open it -/
theorem c07_intercepted_https_when_http_disallowed (xfp : Bytes) (insecure ok : Bool) :
    interceptedRequest xfp false insecure ok ≠ .deliverPlain := by
  intro h
  have hx := c07_intercepted_plain_only_if_xfp_http false insecure ok h
  subst hx
  revert h
  cases insecure <;> cases ok <;> decide

/-- origin verification is kept: the certificate does not verify, insecure mode off ⇒ 502-class
    outcome and no request delivered -/
theorem c07_origin_verification_kept (allowHTTP : Bool) :
    interceptedRequest [] allowHTTP false false = .refused502 ∧
      (interceptedRequest [] allowHTTP false false).delivered = false := by
  cases allowHTTP <;> decide

/-- whatever the client sends: a request reaches an origin whose certificate does not verify only
    in insecure mode or through the F17 class -/
theorem c07_unverified_origin_only_if {xfp : Bytes} (allowHTTP insecure : Bool)
    (h : (interceptedRequest xfp allowHTTP insecure false).delivered = true) :
    insecure = true ∨ xfp = http := by
  cases hi : insecure with
  | true => exact Or.inl rfl
  | false =>
    right
    subst hi
    cases ho : interceptedRequest xfp allowHTTP false false with
    | deliverPlain => exact c07_intercepted_plain_only_if_xfp_http allowHTTP false false ho
    | deliverTLS =>
      exfalso
      unfold interceptedRequest forward at ho
      split at ho
      · simp at ho
      · split at ho <;> cases ho
    | refused502 => rw [ho] at h; cases h
    | unsupported => rw [ho] at h; cases h

/-- insecure mode forwards regardless; a verifying origin is always served -/
theorem c07_insecure_forwards (allowHTTP originVerifies : Bool) :
    interceptedRequest [] allowHTTP true originVerifies = .deliverTLS := by
  cases allowHTTP <;> cases originVerifies <;> decide

theorem c07_valid_origin_forwards (allowHTTP insecure : Bool) :
    interceptedRequest [] allowHTTP insecure true = .deliverTLS := by
  cases allowHTTP <;> cases insecure <;> decide

/-! ## F. Which name the origin's certificate is verified for (DNS names and IP literals alike) -/

/-- `Host: host:port` — the certificate must be valid for `host` -/
theorem c07_origin_verify_name_host_port {h p : Bytes} (h2 : (91 : UInt8) ∉ h)
    (hp : p.all isDigit = true) : originVerifyName (h ++ 58 :: p) = h :=
  urlHostname_host_port h2 hp

/-- `Host: [v6]:port` — for the literal between the brackets -/
theorem c07_origin_verify_name_bracketed (v : Bytes) {p : Bytes} (hp : p.all isDigit = true) :
    originVerifyName (91 :: (v ++ 93 :: 58 :: p)) = v :=
  urlHostname_bracketed v hp

/-- `Host: host` (default port) -/
theorem c07_origin_verify_name_portless {h : Bytes} (h1 : (58 : UInt8) ∉ h) (h2 : (91 : UInt8) ∉ h) :
    originVerifyName h = h :=
  urlHostname_plain h1 h2

example : originVerifyName [91,58,58,49,93] = [58,58,49] := by decide              -- "[::1]"

/-- a certificate whose SAN is of the wrong kind or names something else is refused, whatever the
    authority (chain and dates may be perfectly good): 502, nothing delivered -/
theorem c07_origin_wrong_name_refused (allowHTTP : Bool) (c : Cert) (a : Bytes) (now : Int)
    (hbad : c.kind ≠ san (originVerifyName a) ∨ eqFold c.sanVal (originVerifyName a) = false) :
    interceptedTo x509ish [] allowHTTP false c a now = .refused502 ∧
      (interceptedTo x509ish [] allowHTTP false c a now).delivered = false := by
  apply interceptedTo_refused
  rcases hbad with h | h
  · have : (c.kind == san (originVerifyName a)) = false := by simpa using h
    simp [originVerifies, x509ish, this]
  · simp [originVerifies, x509ish, h]

/-- IPv4-literal authority, any port: the name verified is the literal itself (never empty), and a
    certificate issued for DNS names only, or for another address, is refused -/
theorem c07_origin_name_checked_for_ip_literals {a b c d : Nat} (ha : a < 256) (hb : b < 256)
    (hc : c < 256) (hd : d < 256) {p : Bytes} (hp : p.all isDigit = true) (allowHTTP : Bool)
    (crt : Cert) (now : Int)
    (hbad : crt.kind = .dns ∨ eqFold crt.sanVal (dotted a b c d) = false) :
    originVerifyName (dotted a b c d ++ 58 :: p) = dotted a b c d ∧ dotted a b c d ≠ [] ∧
      interceptedTo x509ish [] allowHTTP false crt (dotted a b c d ++ 58 :: p) now = .refused502 ∧
      (interceptedTo x509ish [] allowHTTP false crt (dotted a b c d ++ 58 :: p) now).delivered = false := by
  obtain ⟨⟨_, h91, _⟩, hne⟩ := dotted_plain ha hb hc hd
  have hn := c07_origin_verify_name_host_port h91 hp
  refine ⟨hn, hne, ?_⟩
  apply c07_origin_wrong_name_refused
  rw [hn, c07_san_ipv4 ha hb hc hd]
  rcases hbad with h | h
  · left; rw [h]; decide
  · right; exact h

-- "203.0.113.7:8443" and a certificate for the DNS name "a.test", good chain and dates
example :
    interceptedTo x509ish [] true false
      { cn := [97,46,116,101,115,116], kind := .dns, sanVal := [97,46,116,101,115,116],
        notBefore := 0, notAfter := 10, byCA := true }
      ([50,48,51,46,48,46,49,49,51,46,55] ++ 58 :: [56,52,52,51]) 5 = .refused502 := by decide

/-- bracketed IPv6-literal authority, any port: likewise -/
theorem c07_origin_name_checked_for_ipv6_literals {v : Bytes} (hv : isIP v = true) {p : Bytes}
    (hp : p.all isDigit = true) (allowHTTP : Bool) (crt : Cert) (now : Int)
    (hbad : crt.kind = .dns ∨ eqFold crt.sanVal v = false) :
    originVerifyName (91 :: (v ++ 93 :: 58 :: p)) = v ∧
      interceptedTo x509ish [] allowHTTP false crt (91 :: (v ++ 93 :: 58 :: p)) now = .refused502 ∧
      (interceptedTo x509ish [] allowHTTP false crt (91 :: (v ++ 93 :: 58 :: p)) now).delivered = false := by
  have hn := c07_origin_verify_name_bracketed v hp
  refine ⟨hn, ?_⟩
  apply c07_origin_wrong_name_refused
  rw [hn]
  have hs : san v = .ip := by simp [san, hv]
  rcases hbad with h | h
  · left; rw [h, hs]; decide
  · right; exact h

-- "[::1]:443" and a certificate with the IP SAN "::2"
example :
    interceptedTo x509ish [] true false
      { cn := [58,58,50], kind := .ip, sanVal := [58,58,50], notBefore := 0, notAfter := 10, byCA := true }
      [91,58,58,49,93,58,52,52,51] 5 = .refused502 := by decide

/-- outside its validity period: refused, for every authority -/
theorem c07_origin_expired_refused (allowHTTP : Bool) (c : Cert) (a : Bytes) (now : Int)
    (h : now < c.notBefore ∨ c.notAfter < now) :
    interceptedTo x509ish [] allowHTTP false c a now = .refused502 ∧
      (interceptedTo x509ish [] allowHTTP false c a now).delivered = false := by
  apply interceptedTo_refused
  rcases h with h | h
  · have : ¬ c.notBefore ≤ now := by omega
    simp [originVerifies, x509ish, this]
  · have : ¬ now ≤ c.notAfter := by omega
    simp [originVerifies, x509ish, this]

/-- no chain to a trusted root: refused, for every authority -/
theorem c07_origin_untrusted_refused (allowHTTP : Bool) (c : Cert) (a : Bytes) (now : Int)
    (h : c.byCA = false) :
    interceptedTo x509ish [] allowHTTP false c a now = .refused502 ∧
      (interceptedTo x509ish [] allowHTTP false c a now).delivered = false := by
  apply interceptedTo_refused
  simp [originVerifies, x509ish, h]

/-- a certificate that is good for the name is served, insecure mode on or off -/
theorem c07_origin_good_forwards (allowHTTP insecure : Bool) (c : Cert) (a : Bytes) (now : Int)
    (h1 : c.byCA = true) (h2 : c.notBefore ≤ now) (h3 : now ≤ c.notAfter)
    (h4 : c.kind = san (originVerifyName a)) (h5 : eqFold c.sanVal (originVerifyName a) = true) :
    interceptedTo x509ish [] allowHTTP insecure c a now = .deliverTLS := by
  have : originVerifies x509ish c a now = true := by
    simp [originVerifies, x509ish, h1, h2, h3, h4, h5]
  unfold interceptedTo
  rw [this]
  exact c07_valid_origin_forwards allowHTTP insecure

/-- insecure mode: any certificate, any verifier -/
theorem c07_origin_insecure_any_cert (vf : Verifier) (allowHTTP : Bool) (c : Cert) (a : Bytes)
    (now : Int) : interceptedTo vf [] allowHTTP true c a now = .deliverTLS := by
  unfold interceptedTo
  exact c07_insecure_forwards allowHTTP _

/-! ## G. Origin verification over histories on ONE proxy instance

  `up` = the upstream proxy configuration, a history = any list of events (CONNECTs tunnelled because
  mitm-domains excludes them, requests read from intercepted sessions, plain `GET https://…`), each
  verifying event opening a fresh origin connection.  Byte strings of the examples:
    "p.test" = [112,46,116,101,115,116]   (the upstream proxy's host)
    "t.test:443" = [116,46,116,101,115,116,58,52,52,51]   "a.test:443" = [97,46,116,101,115,116,58,52,52,51] -/

/-- the TLS client configuration is per connection: no history changes the transport's own -/
theorem c07_transport_conf_untouched (up : Upstream) (vf : Verifier) (allowHTTP insecure : Bool)
    (st : Inst) (evs : List Event) : histState .cloned up vf allowHTTP insecure st evs = st :=
  histState_of_state_fixed .cloned up vf allowHTTP insecure st evs
    (fun e _ => evStep_cloned_state up vf allowHTTP insecure st e)

/-- MAIN: for every upstream configuration and every history, every origin is verified for ITS OWN
    host (`URL.Hostname()` of the request's authority) and gets the history-free outcome -/
theorem c07_history_verify_name_is_origin_host (up : Upstream) (vf : Verifier)
    (allowHTTP insecure : Bool) (evs : List Event) :
    runHist .cloned up vf allowHTTP insecure Inst.fresh evs = evs.map (specOut vf allowHTTP insecure) := by
  rw [runHist_of_state_fixed .cloned up vf allowHTTP insecure Inst.fresh evs
    (fun e _ => evStep_cloned_state up vf allowHTTP insecure Inst.fresh e)]
  exact List.map_congr_left (fun e _ => evStep_fresh_out .cloned up vf allowHTTP insecure e)

/-- the name itself, event by event: the `k`-th event of any history, when it verifies an origin,
    verifies it for the host of that event's authority -/
theorem c07_verify_name_kth (up : Upstream) (vf : Verifier) (allowHTTP insecure : Bool)
    (evs : List Event) (k : Nat) (n : Bytes) (o : Outcome)
    (h : (runHist .cloned up vf allowHTTP insecure Inst.fresh evs)[k]? = some (.origin n o)) :
    ∃ r, (evs[k]? = some (.intercepted r) ∨ evs[k]? = some (.absolute r)) ∧
      n = originVerifyName r.authority := by
  rw [c07_history_verify_name_is_origin_host, List.getElem?_map] at h
  cases he : evs[k]? with
  | none => rw [he] at h; cases h
  | some e =>
    rw [he] at h
    cases e with
    | tunnel t => simp [specOut] at h
    | intercepted r =>
      refine ⟨r, Or.inl rfl, ?_⟩
      simp only [Option.map_some, specOut, Option.some.injEq, EvOut.origin.injEq] at h
      exact h.1.symm
    | absolute r =>
      refine ⟨r, Or.inr rfl, ?_⟩
      simp only [Option.map_some, specOut, Option.some.injEq, EvOut.origin.injEq] at h
      exact h.1.symm

/-- history independence: whatever happened on the instance before (`pre`), a history gets exactly
    what it gets on a fresh instance -/
theorem c07_history_independent (up : Upstream) (vf : Verifier) (allowHTTP insecure : Bool)
    (pre evs : List Event) :
    runHist .cloned up vf allowHTTP insecure
        (histState .cloned up vf allowHTTP insecure Inst.fresh pre) evs =
      runHist .cloned up vf allowHTTP insecure Inst.fresh evs := by
  rw [c07_transport_conf_untouched]

/-- … in particular every single event: its verdict after any prefix is its verdict alone on a
    fresh instance -/
theorem c07_event_verdict_is_fresh_verdict (up : Upstream) (vf : Verifier) (allowHTTP insecure : Bool)
    (pre : List Event) (e : Event) :
    (runHist .cloned up vf allowHTTP insecure Inst.fresh (pre ++ [e])).getLast? =
      (runHist .cloned up vf allowHTTP insecure Inst.fresh [e]).getLast? := by
  simp [c07_history_verify_name_is_origin_host]

/-- the clause, inside any history: an origin whose certificate does not verify for its own host
    (expired / other name / untrusted) is refused with 502, insecure mode off — whatever CONNECTs
    were tunnelled before, through whatever upstream proxy -/
theorem c07_history_bad_cert_refused (up : Upstream) (allowHTTP : Bool) (evs : List Event) (k : Nat)
    (r : OriginReq) (hk : evs[k]? = some (.intercepted r) ∨ evs[k]? = some (.absolute r))
    (hbad : x509ish r.cert (originVerifyName r.authority) r.now = false) :
    (runHist .cloned up x509ish allowHTTP false Inst.fresh evs)[k]? =
      some (.origin (originVerifyName r.authority) .refused502) := by
  rw [c07_history_verify_name_is_origin_host, List.getElem?_map]
  rcases hk with hk | hk
  · rw [hk]
    simp only [Option.map_some, specOut]
    rw [(interceptedTo_refused allowHTTP (by simpa [originVerifies] using hbad)).1]
  · rw [hk]
    simp only [Option.map_some, specOut]
    rw [absoluteAs_refused allowHTTP hbad]

/-- … and a certificate that is good for the origin's own host is served in every history -/
theorem c07_history_good_cert_served (up : Upstream) (allowHTTP insecure : Bool) (evs : List Event)
    (k : Nat) (r : OriginReq) (hk : evs[k]? = some (.intercepted r))
    (hgood : x509ish r.cert (originVerifyName r.authority) r.now = true) :
    (runHist .cloned up x509ish allowHTTP insecure Inst.fresh evs)[k]? =
      some (.origin (originVerifyName r.authority) .deliverTLS) := by
  rw [c07_history_verify_name_is_origin_host, List.getElem?_map, hk]
  simp only [Option.map_some, specOut, interceptedTo, originVerifies, hgood]
  rw [c07_valid_origin_forwards]

/-- WITNESS for the shared-configuration variant (`clientTLSConfig` handing out the transport's
    configuration itself): upstream proxy `https://p.test`, one tunnelled CONNECT, then two
    intercepted requests for `a.test:443` — the origin presenting a (trusted, current) certificate
    for the PROXY's name "p.test" is accepted and the one presenting a certificate for "a.test" is
    refused; both are verified for "p.test".  Without the CONNECT in front it is the other way round. -/
theorem c07_shared_conf_witness :
    let p : Bytes := [112,46,116,101,115,116]
    let a : Bytes := [97,46,116,101,115,116,58,52,52,51]
    let certP : Cert := { cn := p, kind := .dns, sanVal := p, notBefore := 0, notAfter := 10, byCA := true }
    let certA : Cert := { cn := [97,46,116,101,115,116], kind := .dns, sanVal := [97,46,116,101,115,116],
                          notBefore := 0, notAfter := 10, byCA := true }
    runHist .shared (.https p) x509ish true false Inst.fresh
        [.tunnel [116,46,116,101,115,116,58,52,52,51], .intercepted ⟨a, certP, 5⟩, .intercepted ⟨a, certA, 5⟩] =
      [.tunnelled, .origin p .deliverTLS, .origin p .refused502] ∧
    runHist .shared (.https p) x509ish true false Inst.fresh
        [.intercepted ⟨a, certP, 5⟩, .intercepted ⟨a, certA, 5⟩] =
      [.origin [97,46,116,101,115,116] .refused502, .origin [97,46,116,101,115,116] .deliverTLS] := by
  decide

/-- the statement of `c07_history_verify_name_is_origin_host` for the shared variant is FALSE -/
def c07_shared_conf_full : Prop :=
  ∀ (up : Upstream) (evs : List Event),
    runHist .shared up x509ish true false Inst.fresh evs = evs.map (specOut x509ish true false)

theorem c07_shared_conf_full_false : ¬ c07_shared_conf_full := by
  intro h
  have := h (.https [112,46,116,101,115,116])
    [.tunnel [116,46,116,101,115,116,58,52,52,51],
     .intercepted ⟨[97,46,116,101,115,116,58,52,52,51],
       { cn := [112,46,116,101,115,116], kind := .dns, sanVal := [112,46,116,101,115,116],
         notBefore := 0, notAfter := 10, byCA := true }, 5⟩]
  revert this
  decide

/-- the witness needs the CONFIGURATION: without an `https://` upstream proxy (direct, `http://`,
    `socks5://`) sharing the configuration changes nothing -/
theorem c07_shared_conf_needs_https_upstream {up : Upstream} (hup : ∀ p, up ≠ .https p)
    (vf : Verifier) (allowHTTP insecure : Bool) (evs : List Event) :
    runHist .shared up vf allowHTTP insecure Inst.fresh evs = evs.map (specOut vf allowHTTP insecure) := by
  rw [runHist_of_state_fixed .shared up vf allowHTTP insecure Inst.fresh evs
    (fun e _ => by cases e <;> simp [evStep, tunnelStep_not_https .shared hup])]
  exact List.map_congr_left (fun e _ => evStep_fresh_out .shared up vf allowHTTP insecure e)

/-- … and the HISTORY: without a tunnelled CONNECT in it, likewise -/
theorem c07_shared_conf_needs_tunnelled_connect (up : Upstream) (vf : Verifier)
    (allowHTTP insecure : Bool) (evs : List Event) (hno : ∀ e ∈ evs, ∀ t, e ≠ .tunnel t) :
    runHist .shared up vf allowHTTP insecure Inst.fresh evs = evs.map (specOut vf allowHTTP insecure) := by
  rw [runHist_of_state_fixed .shared up vf allowHTTP insecure Inst.fresh evs
    (fun e he => by
      cases e with
      | tunnel t => exact absurd rfl (hno _ he t)
      | intercepted r => rfl
      | absolute r => rfl)]
  exact List.map_congr_left (fun e _ => evStep_fresh_out .shared up vf allowHTTP insecure e)

-- non-vacuity: a history mixing all three kinds of event behind an https upstream proxy; the
-- wrong-name origin (certificate for the proxy's name) is refused before and after the CONNECT
example :
    let p : Bytes := [112,46,116,101,115,116]
    let a : Bytes := [97,46,116,101,115,116,58,52,52,51]
    let certP : Cert := { cn := p, kind := .dns, sanVal := p, notBefore := 0, notAfter := 10, byCA := true }
    runHist .cloned (.https p) x509ish true false Inst.fresh
        [.intercepted ⟨a, certP, 5⟩, .tunnel [116,46,116,101,115,116,58,52,52,51],
         .intercepted ⟨a, certP, 5⟩, .absolute ⟨a, certP, 5⟩] =
      [.origin [97,46,116,101,115,116] .refused502, .tunnelled,
       .origin [97,46,116,101,115,116] .refused502, .origin [97,46,116,101,115,116] .refused502] := by
  decide

/-! ## H. Whom an instance trusts: histories of instance construction in ONE process

  A process builds any number of transports / proxy instances (`NewHTTPTransport`), each with its own
  `--cacert-file` list, and any of them verifies origins at any time.  CA names in the examples:
  0 = a system root, 1 = "X", 2 = "Y", 3 = "Z" (in nobody's list). -/

/-- every event of every process history gets what the history-free reading gives it: an instance
    accepts exactly what its OWN configuration trusts -/
theorem c07_trust_of_own_configuration (sys : List CA) (evs : List PEvent) :
    runProc .copied sys (Proc.start sys) evs = specRun sys [] evs := by
  simpa [Proc.start] using runProc_copied sys sys [] evs

/-- the verdict of a verification by instance `i` at any point `k` of any history is a function of
    the configuration instance `i` was built with (and of the certificate): `trustOf cfg` -/
theorem c07_trust_probe_verdict (sys : List CA) (evs : List PEvent) (k i : Nat) (s : CA) (cfg : TrustCfg)
    (hk : evs[k]? = some (.probe i s)) (hi : (buildsOf (evs.take k))[i]? = some cfg) :
    (runProc .copied sys (Proc.start sys) evs)[k]? =
      some (if cfg.insecure || (trustOf sys cfg).contains s then .accept else .refuse) := by
  rw [c07_trust_of_own_configuration, specRun_getElem sys [] evs k i s hk]
  simp [specProbe, hi, trustsSigner]

/-- history independence over construction sequences: two verifications of certificates chaining to
    the same CA, by instances built with the same configuration, in ANY two process histories (other
    instances with other CA lists built before, in between or afterwards, in any order) end alike -/
theorem c07_trust_independent_of_other_instances (sys : List CA) (evs₁ evs₂ : List PEvent)
    (k₁ k₂ i₁ i₂ : Nat) (s : CA) (cfg : TrustCfg)
    (h₁ : evs₁[k₁]? = some (.probe i₁ s)) (h₂ : evs₂[k₂]? = some (.probe i₂ s))
    (c₁ : (buildsOf (evs₁.take k₁))[i₁]? = some cfg) (c₂ : (buildsOf (evs₂.take k₂))[i₂]? = some cfg) :
    (runProc .copied sys (Proc.start sys) evs₁)[k₁]? = (runProc .copied sys (Proc.start sys) evs₂)[k₂]? := by
  rw [c07_trust_probe_verdict sys evs₁ k₁ i₁ s cfg h₁ c₁, c07_trust_probe_verdict sys evs₂ k₂ i₂ s cfg h₂ c₂]

/-- … in particular against the instance alone in its process -/
theorem c07_trust_as_if_alone (sys : List CA) (evs : List PEvent) (k i : Nat) (s : CA) (cfg : TrustCfg)
    (hk : evs[k]? = some (.probe i s)) (hi : (buildsOf (evs.take k))[i]? = some cfg) :
    (runProc .copied sys (Proc.start sys) evs)[k]? =
      (runProc .copied sys (Proc.start sys) [.build cfg, .probe 0 s])[1]? :=
  c07_trust_independent_of_other_instances sys evs [.build cfg, .probe 0 s] k 1 i 0 s cfg hk rfl hi rfl

/-- a CA that is neither a system root nor in the instance's own list is refused (insecure mode
    off), whoever else in the process was given that CA -/
theorem c07_trust_foreign_ca_refused (sys : List CA) (evs : List PEvent) (k i : Nat) (s : CA) (cfg : TrustCfg)
    (hk : evs[k]? = some (.probe i s)) (hi : (buildsOf (evs.take k))[i]? = some cfg)
    (hins : cfg.insecure = false) (hsys : s ∉ sys) (hown : s ∉ cfg.extra) :
    (runProc .copied sys (Proc.start sys) evs)[k]? = some .refuse := by
  rw [c07_trust_probe_verdict sys evs k i s cfg hk hi]
  have : s ∉ trustOf sys cfg := by
    unfold trustOf
    split <;> simp [hsys, hown]
  simp [hins, this]

/-- the instance's own CAs and the system roots are accepted, whatever else was built -/
theorem c07_trust_own_ca_accepted (sys : List CA) (evs : List PEvent) (k i : Nat) (s : CA) (cfg : TrustCfg)
    (hk : evs[k]? = some (.probe i s)) (hi : (buildsOf (evs.take k))[i]? = some cfg)
    (hs : s ∈ sys ∨ s ∈ cfg.extra) :
    (runProc .copied sys (Proc.start sys) evs)[k]? = some .accept := by
  rw [c07_trust_probe_verdict sys evs k i s cfg hk hi]
  have : s ∈ trustOf sys cfg := by
    unfold trustOf
    split
    · rename_i he
      rcases hs with hs | hs
      · exact hs
      · have : cfg.extra = [] := by simpa using he
        rw [this] at hs; cases hs
    · rcases hs with hs | hs <;> simp [hs]
  simp [this]

/-- the clause: with the chain check of the instance's own trust set as `byCA`, a request read from
    an intercepted session to an origin whose CA the instance does not trust gets 502 and is not delivered -/
theorem c07_trust_foreign_ca_502 (sys : List CA) (cfg : TrustCfg) (s : CA) (c : Cert) (a : Bytes) (now : Int)
    (allowHTTP : Bool) (hsys : s ∉ sys) (hown : s ∉ cfg.extra) :
    interceptedTo x509ish [] allowHTTP false { c with byCA := trustsSigner sys cfg s } a now = .refused502 ∧
      (interceptedTo x509ish [] allowHTTP false { c with byCA := trustsSigner sys cfg s } a now).delivered = false := by
  apply interceptedTo_refused
  have : trustsSigner sys cfg s = false := by
    unfold trustsSigner trustOf
    split <;> simp [hsys, hown]
  simp [originVerifies, x509ish, this]

/-- WITNESS for the one-pool-per-process variant (`x509.SystemCertPool` cached, every instance
    appending its `--cacert-file` certificates to the shared pool): an instance built with Y only
    accepts an origin chaining to X once an instance with X exists — built before it or after it —
    and the X instance accepts Y; with a pool per instance all of these are refused. -/
theorem c07_shared_pool_witness :
    let x : TrustCfg := ⟨[1], false⟩
    let y : TrustCfg := ⟨[2], false⟩
    runProc .shared [0] (Proc.start [0]) [.build x, .build y, .probe 1 1, .probe 0 2, .probe 1 3, .probe 1 0] =
      [.built, .built, .accept, .accept, .refuse, .accept] ∧
    runProc .copied [0] (Proc.start [0]) [.build x, .build y, .probe 1 1, .probe 0 2, .probe 1 3, .probe 1 0] =
      [.built, .built, .refuse, .refuse, .refuse, .accept] ∧
    runProc .shared [0] (Proc.start [0]) [.build y, .probe 0 1, .build x, .probe 0 1] =
      [.built, .refuse, .built, .accept] ∧
    runProc .copied [0] (Proc.start [0]) [.build y, .probe 0 1, .build x, .probe 0 1] =
      [.built, .refuse, .built, .refuse] := by
  decide

/-- the statement of `c07_trust_of_own_configuration` for the shared variant is FALSE -/
def c07_shared_pool_full : Prop :=
  ∀ (sys : List CA) (evs : List PEvent), runProc .shared sys (Proc.start sys) evs = specRun sys [] evs

theorem c07_shared_pool_full_false : ¬ c07_shared_pool_full := by
  intro h
  have := h [0] [.build ⟨[1], false⟩, .build ⟨[2], false⟩, .probe 1 1]
  revert this
  decide

/-- the witness needs the HISTORY: with a single instance in the process (as in every run of the
    check before these histories were added) one pool per process changes nothing -/
theorem c07_shared_pool_needs_another_instance (sys : List CA) (cfg : TrustCfg) (ps : List PEvent)
    (hp : ∀ e ∈ ps, ∃ i s, e = PEvent.probe i s) :
    runProc .shared sys (Proc.start sys) (.build cfg :: ps) =
      runProc .copied sys (Proc.start sys) (.build cfg :: ps) := by
  simp only [runProc, pStep]
  rw [runProc_probes_congr .shared .copied sys _ _ (probeOut_single sys cfg) ps hp]

-- non-vacuity: four instances {none, {X}, {Y}, {X,Y}} and an insecure one, probed while and after
-- the others are built: each accepts its own list and the system root, nothing else
example :
    runProc .copied [0] (Proc.start [0])
        [.build ⟨[], false⟩, .probe 0 0, .probe 0 1, .build ⟨[1], false⟩, .build ⟨[2], false⟩,
         .probe 0 1, .probe 1 1, .probe 1 2, .probe 2 1, .probe 2 2, .build ⟨[1, 2], false⟩, .build ⟨[], true⟩,
         .probe 3 1, .probe 3 2, .probe 3 3, .probe 4 3, .probe 2 1, .probe 9 1] =
      [.built, .accept, .refuse, .built, .built,
       .refuse, .accept, .refuse, .refuse, .accept, .built, .built,
       .accept, .accept, .refuse, .accept, .refuse, .noInstance] := by
  decide

end C07
end FwdVerif
