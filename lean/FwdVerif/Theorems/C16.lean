/-
  C16 — property theorems (only property theorems, witnesses and non-vacuity examples live here;
  helper lemmas are in `FwdVerif/Lemmas/C16.lean`).
-/
import FwdVerif.Model.C16

namespace FwdVerif
namespace C16

open Ascii

/-- dispatch clause, stated outright: request rules touch non-CONNECT requests only, connect rules
    CONNECT requests only, response rules non-CONNECT responses only. -/
theorem c16_dispatch (l : RuleList) (m : Msg) :
    appliesTo l m = true ↔
      (l = .header ∧ m = .request) ∨ (l = .connectHeader ∧ m = .connectRequest) ∨
      (l = .responseHeader ∧ m = .response) := by
  cases l <;> cases m <;> simp [appliesTo]

end C16
end FwdVerif
