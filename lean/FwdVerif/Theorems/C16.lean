/-
  C16 — property theorems (only property theorems; the one clause the code still violates, F9c,
  keeps its full-strength statement visible as `def …_full : Prop` next to a `_partial` theorem
  and a kernel-checked witness; non-vacuity examples live here; helper lemmas and the
  hypothesis predicates `CanonKeys`, `NodupKeys`, `NoRename`, `ValidRule`, `valuesOf` are in
  `FwdVerif/Lemmas/C16.lean`).

  The parser clauses "value without CR/LF" and "print/parse round trip" and the `%name` clause
  "keeps every field line" are proved at full strength since the repairs of F9b, F9e and F9a.

  Byte strings used in the concrete examples:
    "a" = [97]   "b" = [98]   "v" = [118]   ":" = 58   ";" = 59   "-" = 45   "*" = 42   "%" = 37
    CR = 13   LF = 10   " " = 32
    "X-Foo" = [88,45,70,111,111]      "x-foo" = [120,45,102,111,111]
    "X-Bar" = [88,45,66,97,114]       "x-" = [120,45]
-/
import FwdVerif.Lemmas.C16
import FwdVerif.Lemmas.C16Stack
import FwdVerif.Lemmas.C16Src

namespace FwdVerif
namespace C16

open Ascii

/-! ## A. Every accepted rule is a legal header field -/

/-- the parser only lets rules with a name in `[A-Za-z0-9-]+` through -/
theorem c16_parse_valid {v : Bytes} {r : Rule} (h : parseRule v = some r) : ValidRule r :=
  (parseRule_some h).2

example : parseRule [45, 120, 45, 42] = some (.removePrefix [120, 45]) := by decide   -- "-x-*"

/-- token name: non-empty and every byte an RFC 7230 `tchar` -/
theorem c16_parse_name_token {v : Bytes} {r : Rule} (h : parseRule v = some r) :
    r.name ≠ [] ∧ r.name.all isTokenByte = true :=
  ⟨ne_nil_of_validName (parseRule_some h).2, all_token_of_validName (parseRule_some h).2⟩

example : parseRule [88, 45, 70, 111, 111, 59] = some (.empty [88, 45, 70, 111, 111]) := by
  decide                                                                            -- "X-Foo;"

/-- an accepted rule's name is pure ASCII: no byte of a multi-byte UTF-8 sequence gets through, so a
    rune that merely case-folds to an ASCII letter (U+212A KELVIN SIGN ~ k, U+017F LONG S ~ s — a
    case-insensitive regexp class would match them) never makes a rule name, in any rule kind -/
theorem c16_parse_name_ascii {v : Bytes} {r : Rule} (h : parseRule v = some r) :
    ∀ c ∈ r.name, c < 128 := by
  intro c hc
  have hv := (parseRule_some h).2
  have hn : validName r.name = true := hv
  simp only [validName, Bool.and_eq_true, List.all_eq_true] at hn
  have := hn.2 c hc
  simp only [Ascii.isNameByte, Ascii.isAlpha, Ascii.isDigit, Ascii.isUpper, Ascii.isLower] at this
  grind

/-- "\u212aeep-Alive: x", "-\u017fet-Cookie*" and "%Coo\u212aie" are refused -/
example : parseRule [0xE2, 0x84, 0xAA, 101, 101, 112, 45, 65, 108, 105, 118, 101, 58, 32, 120] = none ∧
    parseRule [45, 0xC5, 0xBF, 101, 116, 45, 67, 111, 111, 107, 105, 101, 42] = none ∧
    parseRule [37, 67, 111, 111, 0xE2, 0x84, 0xAA, 105, 101] = none := by decide

/-- no LF in the value of an accepted add-rule -/
theorem c16_parse_value_no_lf {v n val : Bytes} (h : parseRule v = some (.add n val)) :
    (10 : UInt8) ∉ val :=
  (parseRule_add_no_crlf h).2

example : parseRule [97, 58, 32, 98, 10] = some (.add [97] [98]) := by decide        -- "a: b\n"

/-- the value of an accepted add-rule contains neither CR nor LF, for every rule string
    (full clause; F9b repaired: the value class of the rule regexp is `[^\r\n]*`) -/
theorem c16_parse_value_legal {v n val : Bytes} (h : parseRule v = some (.add n val)) :
    (13 : UInt8) ∉ val ∧ (10 : UInt8) ∉ val :=
  parseRule_add_no_crlf h

-- "a:b\r\n" (the former F9b witness) now yields the value "b"; "a:b\rc" is rejected
example : parseRule [97, 58, 98, 13, 10] = some (.add [97] [98]) ∧
    parseRule [97, 58, 98, 13, 99] = none := by decide

/-! ## B. Print / parse round trip -/

/-- every accepted rule other than `name:value` prints back to exactly the accepted string -/
theorem c16_print_exact_non_add {v : Bytes} {r : Rule} (h : parseRule v = some r)
    (hr : ∀ n val, r ≠ .add n val) : printRule r = v :=
  printRule_parseRaw (parseRule_some h).1 hr

example : parseRule [37, 120, 45, 102, 111, 111] = some (.rename [120, 45, 102, 111, 111]) ∧
    ∀ n val, Rule.rename [120, 45, 102, 111, 111] ≠ .add n val :=
  ⟨by decide, fun _ _ h => Rule.noConfusion h⟩                                      -- "%x-foo"

/-- round trip for every accepted rule (full clause; F9e repaired: a string ending in `;` is the
    set-empty rule only when what precedes the `;` is a valid name) -/
theorem c16_roundtrip {v : Bytes} {r : Rule} (h : parseRule v = some r) :
    parseRule (printRule r) = some r :=
  roundtrip h

-- "a:b;\n" (the former F9e witness) parses to add "a" "b;", which prints as "a:b;", which now
-- parses to the same add-rule
example : parseRule [97, 58, 98, 59, 10] = some (.add [97] [98, 59]) ∧
    printRule (.add [97] [98, 59]) = [97, 58, 98, 59] ∧
    parseRule [97, 58, 98, 59] = some (.add [97] [98, 59]) := by decide

/-- the set-empty rule is accepted exactly for `name;` with a name in `[A-Za-z0-9-]+` -/
theorem c16_parse_empty_iff (v n : Bytes) :
    parseRule v = some (.empty n) ↔ v = n ++ [59] ∧ ValidRule (.empty n) ∧
      n.head? ≠ some 45 ∧ n.head? ≠ some 37 :=
  parseRule_empty_iff v n

example : parseRule [88, 45, 70, 111, 111, 59] = some (.empty [88, 45, 70, 111, 111]) ∧
    parseRule [97, 32, 59] = none := by decide                              -- "X-Foo;"   "a ;"

/-! ## C. `Apply` against the documented meaning on the case-insensitive field-line view -/

/-- full clause — FALSE of the code (F9c, not repaired): `%name` breaks the canonical-key invariant
    that `Del/Set/Add` rely on -/
def c16_apply_spec_full : Prop :=
  ∀ rs h, (∀ r ∈ rs, ValidRule r) → CanonKeys h → NodupKeys h →
    (fieldsOf (applyRules rs h)).Perm (specRules rs (fieldsOf h))

/-- for rule lists without `%name`, on maps as `net/http` builds them (unique canonical keys),
    the field lines after `Apply` are, as a multiset, what the documented meaning gives -/
theorem c16_apply_spec_partial {rs : List Rule} {h : HMap} (hr : NoRename rs)
    (hv : ∀ r ∈ rs, ValidRule r) (hc : CanonKeys h) (hn : NodupKeys h) :
    (fieldsOf (applyRules rs h)).Perm (specRules rs (fieldsOf h)) :=
  applyRules_spec hr hv hc hn

-- "-x-*", "X-Bar:v", "x-foo;", "-a" on {"X-Foo": ["v","v"], "X-Bar": ["a"]}
example :
    let rs : List Rule := [.removePrefix [120, 45], .add [88, 45, 66, 97, 114] [118],
      .empty [120, 45, 102, 111, 111], .remove [97]]
    let h : HMap := [([88, 45, 70, 111, 111], [[118], [118]]), ([88, 45, 66, 97, 114], [[97]])]
    NoRename rs ∧ (∀ r ∈ rs, ValidRule r) ∧ CanonKeys h ∧ NodupKeys h := by decide

/-- `name:value` appends: the values under the canonical key are the old ones followed by the
    new one (order preserved), for every map and name -/
theorem c16_add_appends (h : HMap) (n v : Bytes) :
    valuesOf (goAdd h n v) (canonicalKey n) = valuesOf h (canonicalKey n) ++ [v] := by
  unfold valuesOf goAdd HMap.get
  rw [lookup_put_self]
  rfl

example : valuesOf (goAdd [([88, 45, 70, 111, 111], [[97]])] [120, 45, 102, 111, 111] [118])
    [88, 45, 70, 111, 111] = [[97], [118]] := by decide

/-- … and leaves the values under every other raw key alone -/
theorem c16_add_others_untouched (h : HMap) (n v : Bytes) {k : Bytes}
    (hk : k ≠ canonicalKey n) : valuesOf (goAdd h n v) k = valuesOf h k := by
  unfold valuesOf goAdd
  rw [lookup_put_ne h _ hk]

example : ([88, 45, 66, 97, 114] : Bytes) ≠ canonicalKey [120, 45, 102, 111, 111] := by decide

/-- `%name` only changes the spelling, it never adds, drops or alters values: the multiset of
    (folded name, value) lines is kept, for every name (full clause; F9a repaired).
    (`ValidRule (.rename n)` is not needed and therefore not assumed.) -/
theorem c16_rename_preserves_fields {h : HMap} {n : Bytes}
    (hc : CanonKeys h) (hn : NodupKeys h) :
    (fieldsOf (renameCase h n)).Perm (fieldsOf h) :=
  fieldsOf_renameCase_perm hc hn

-- "%x-foo" on {"X-Foo": ["v"], "X-Bar": ["a"]}; the field is present, so the rule does act
example :
    let h : HMap := [([88, 45, 70, 111, 111], [[118]]), ([88, 45, 66, 97, 114], [[97]])]
    ValidRule (.rename [120, 45, 102, 111, 111]) ∧ CanonKeys h ∧
      NodupKeys h ∧ renameCase h [120, 45, 102, 111, 111] ≠ h := by decide

/-- `%name` with a name that is already in canonical spelling is the identity on every map -/
theorem c16_rename_canonical_identity (h : HMap) {n : Bytes} (hcn : canonicalKey n = n) :
    renameCase h n = h :=
  renameCase_of_canon h hcn

-- "%X-Foo" on {"X-Foo": ["v"]} (the former F9a witness)
example : canonicalKey [88, 45, 70, 111, 111] = [88, 45, 70, 111, 111] ∧
    renameCase [([88, 45, 70, 111, 111], [[118]])] [88, 45, 70, 111, 111] =
      [([88, 45, 70, 111, 111], [[118]])] := by decide

/-- `%x-foo` then `-x-foo` on {"X-Foo": ["v"]} leaves the line ("x-foo","v") in place although
    the documented meaning removes it: `Del` looks for the canonical key only -/
theorem c16_rule_after_rename_witness :
    (∀ r ∈ [Rule.rename [120, 45, 102, 111, 111], Rule.remove [120, 45, 102, 111, 111]],
        ValidRule r) ∧
      CanonKeys [([88, 45, 70, 111, 111], [[118]])] ∧
      NodupKeys [([88, 45, 70, 111, 111], [[118]])] ∧
      fieldsOf (applyRules [.rename [120, 45, 102, 111, 111], .remove [120, 45, 102, 111, 111]]
        [([88, 45, 70, 111, 111], [[118]])]) = [([120, 45, 102, 111, 111], [118])] ∧
      specRules [.rename [120, 45, 102, 111, 111], .remove [120, 45, 102, 111, 111]]
        (fieldsOf [([88, 45, 70, 111, 111], [[118]])]) = [] := by decide

theorem c16_apply_spec_full_false : ¬ c16_apply_spec_full := by
  intro h
  obtain ⟨h1, h2, h3, h4, h5⟩ := c16_rule_after_rename_witness
  have := h _ _ h1 h2 h3
  rw [h4, h5] at this
  exact absurd this.length_eq (by decide)

/-! ## D. Dispatch by message kind -/

/-- dispatch clause, stated outright: request rules touch non-CONNECT requests only, connect rules
    CONNECT requests only, response rules non-CONNECT responses only. -/
theorem c16_dispatch (l : RuleList) (m : Msg) :
    appliesTo l m = true ↔
      (l = .header ∧ m = .request) ∨ (l = .connectHeader ∧ m = .connectRequest) ∨
      (l = .responseHeader ∧ m = .response) := by
  cases l <;> cases m <;> simp [appliesTo]

example : appliesTo .connectHeader .connectRequest = true ∧
    appliesTo .header .connectRequest = false := by decide

/-! ### D2. Response rules on every kind of response the client can be sent

  `rulesApplyTo k` mirrors the guard of `configureHeadersModifiers`' response modifier evaluated on what
  `res.Request` names while the modifiers run, in the order of martian `writeErrorResponse`
  (`writeErrorOrder`: rebind, modify, write). -/

/-- the response list touches EVERY response to a non-CONNECT request of the client — the origin's (with
    a body, header-only, 101), the proxy's own error responses, and an upstream proxy's refusal of the
    transport's CONNECT relayed to the client — and no response to a client's CONNECT -/
theorem c16_response_rules_on_every_non_connect_response (k : ResponseKind) :
    rulesApplyTo k = true ↔ answersConnect k = false := by
  cases k <;> decide

example : rulesApplyTo .relayedRefusal = true ∧ rulesApplyTo .localError = true ∧
    rulesApplyTo .connectRefusal = false ∧ rulesApplyTo .connectOK = false := by decide

/-- … which is the dispatch clause (`appliesTo`) read over the kinds of response -/
theorem c16_response_rules_dispatch (k : ResponseKind) :
    rulesApplyTo k = appliesTo .responseHeader (msgOf k) := by
  cases k <;> decide

/-- neither the request list nor the connect list touches any response -/
theorem c16_only_the_response_list_touches_responses (l : RuleList) (k : ResponseKind)
    (h : l ≠ .responseHeader) : appliesTo l (msgOf k) = false := by
  cases l <;> cases k <;> first | decide | exact absurd rfl h

example : appliesTo .connectHeader (msgOf .connectRefusal) = false := by decide

/-- every order of the steps of `writeErrorResponse` in which the rebinding comes before the response
    modifiers keeps the clause, for every kind of response -/
theorem c16_rebind_before_modifiers_suffices (order : List WriteStep) (k : ResponseKind)
    (h : (order.takeWhile (fun s => s != .modify)).contains .rebind = true) :
    rulesApplyToWith order k = !answersConnect k := by
  simp only [rulesApplyToWith, boundAtModify, h, if_true, modifierRuns]

example : (writeErrorOrder.takeWhile (fun s => s != .modify)).contains .rebind = true := by decide

/-- the order matters for the relayed refusal only: every other kind of response is born bound to the
    client's request -/
theorem c16_rebind_order_matters_for_relayed_refusal_only (order : List WriteStep) (k : ResponseKind)
    (h : k ≠ .relayedRefusal) : rulesApplyToWith order k = rulesApplyTo k := by
  have hb : bornBoundTo k = .clientRequest := by cases k <;> first | rfl | exact absurd rfl h
  have : ∀ o, boundAtModify o k = .clientRequest := by
    intro o; simp only [boundAtModify, hb]; split <;> rfl
  simp only [rulesApplyTo, rulesApplyToWith, this]

/-- witness for "rebind after the modifiers" (bind once, right before the write): the relayed refusal
    answers a non-CONNECT request, and the response list skips it — while the order of the code and
    every other kind of response are as before -/
theorem c16_rebind_after_modifiers_witness :
    answersConnect .relayedRefusal = false ∧
    rulesApplyToWith rebindBeforeWrite .relayedRefusal = false ∧
    rulesApplyToWith writeErrorOrder .relayedRefusal = true ∧
    (ResponseKind.all.filter (fun k => rulesApplyToWith rebindBeforeWrite k != rulesApplyTo k)) =
      [.relayedRefusal] := by
  decide

/-- the order of `writeErrorResponse` is needed: the clause is not a theorem for every order -/
theorem c16_rebind_order_needed :
    ¬ ∀ (order : List WriteStep) (k : ResponseKind),
        rulesApplyToWith order k = true ↔ answersConnect k = false := by
  intro h
  exact absurd ((h rebindBeforeWrite .relayedRefusal).mpr (by decide)) (by decide)

/-! ## E. The rules on the message that is actually forwarded: `User-Agent` and `Authorization`

  `runStack order cred rs h` runs the stages of `HTTPProxy.middlewareStack` (user rules,
  `setBasicAuth`, `setEmptyUserAgent`) in the given order over the header map `h` the rules see;
  `writtenUA` is the `User-Agent` line of net/http's `Request.write` (`none` = no such line; the
  library default "Go-http-client/1.1" when the map has no such key).  `stackOrder` is the order of
  the code.  Byte strings:  "User-Agent" = `uaKey`, "Authorization" = `authKey`,
  "curl/8.0" = [99,117,114,108,47,56,46,48], "probe/1.0" = [112,114,111,98,101,47,49,46,48],
  "Basic c2l0ZQ==" = [66,97,115,105,99,32,99,50,108,48,90,81,61,61], "Bearer r" = [66,101,97,114,101,114,32,114] -/

/-- whatever the rules do, the written request never carries the library's default: after the stack
    the map always has the key `User-Agent` -/
theorem c16_stack_user_agent_key_present (cred : Option Bytes) (rs : List Rule) (h : HMap) :
    (HMap.get (runStack stackOrder cred rs h) uaKey).isSome = true := by
  rw [runStack_stackOrder]
  exact get_setEmptyUserAgent_ua_isSome _

example : (HMap.get (runStack stackOrder none [.remove uaKey] [(uaKey, [[99, 117, 114, 108, 47, 56, 46, 48]])])
    uaKey) = some [[]] := by decide

/-- the `User-Agent` line the hop receives is decided by the rules alone: it is the FIRST value the
    rules leave under `User-Agent`, trimmed (net/http writes one value only), and there is no line at
    all when the rules leave no such field or an empty first value -/
theorem c16_stack_written_user_agent (cred : Option Bytes) (rs : List Rule) (h : HMap) :
    hopUA stackOrder cred rs h =
      uaLineOfValues (HMap.get (applyRules rs h) uaKey) := by
  unfold hopUA
  rw [runStack_stackOrder, writtenUA_setEmptyUserAgent, get_setBasicAuth_ua]

-- client sent "curl/8.0", rule "User-Agent: probe/1.0": the hop receives the first value only
example : hopUA stackOrder none [.add uaKey [112, 114, 111, 98, 101, 47, 49, 46, 48]]
    [(uaKey, [[99, 117, 114, 108, 47, 56, 46, 48]])] = some [99, 117, 114, 108, 47, 56, 46, 48] := by decide

/-- `-User-Agent` (any spelling) as the last rule that is applied: NO `User-Agent` line is written,
    whatever the client sent, whatever the other rules did and whether or not site credentials are
    configured -/
theorem c16_stack_remove_user_agent (cred : Option Bytes) (rs : List Rule) (h : HMap) {n : Bytes}
    (hn : canonicalKey n = uaKey) : hopUA stackOrder cred (rs ++ [.remove n]) h = none := by
  rw [c16_stack_written_user_agent, applyRules_append_one]
  have := get_goDel_self (applyRules rs h) n
  rw [hn] at this
  simp only [applyRule, this, uaLineOfValues]

example : canonicalKey [117, 115, 101, 114, 45, 97, 103, 101, 110, 116] = uaKey ∧          -- "user-agent"
    hopUA stackOrder none [.remove [117, 115, 101, 114, 45, 97, 103, 101, 110, 116]]
      [(uaKey, [[99, 117, 114, 108, 47, 56, 46, 48]])] = none := by decide

/-- `-prefix*` with a prefix of "User-Agent" (whatever the case) as the last rule: no `User-Agent`
    line is written -/
theorem c16_stack_remove_prefix_user_agent (cred : Option Bytes) (rs : List Rule) (h : HMap) {p : Bytes}
    (hp : prefixFold p uaKey = true) : hopUA stackOrder cred (rs ++ [.removePrefix p]) h = none := by
  rw [c16_stack_written_user_agent, applyRules_append_one]
  have := get_removeByPrefix_self (applyRules rs h) hp canonicalKey_uaKey
  simp only [applyRule, this, uaLineOfValues]

example : prefixFold [117, 115, 101, 114, 45] uaKey = true ∧                                 -- "user-"
    hopUA stackOrder none [.removePrefix [117, 115, 101, 114, 45]]
      [(uaKey, [[99, 117, 114, 108, 47, 56, 46, 48]])] = none := by decide

/-- `User-Agent: value` on a request that has no such field when the rule runs: the hop receives
    exactly that value (trimmed as `Request.write` trims it) -/
theorem c16_stack_add_user_agent (cred : Option Bytes) (rs : List Rule) (h : HMap) {n v : Bytes}
    (hn : canonicalKey n = uaKey) (hv : v ≠ []) (habs : HMap.get (applyRules rs h) uaKey = none) :
    hopUA stackOrder cred (rs ++ [.add n v]) h = some (trimString (newlineToSpace v)) := by
  rw [c16_stack_written_user_agent, applyRules_append_one]
  have := get_goAdd_self (applyRules rs h) n v
  rw [hn, habs] at this
  simp only [applyRule, this, Option.getD_none, List.nil_append, uaLineOfValues, hv, if_false]

example : hopUA stackOrder none [.add uaKey [112, 114, 111, 98, 101, 47, 49, 46, 48]] [] =
    some [112, 114, 111, 98, 101, 47, 49, 46, 48] := by decide

/-- `User-Agent;` as the last rule: the map holds the empty value and `Request.write` writes NO line
    for an empty value (the hop cannot be sent an empty-valued `User-Agent`; stated as the code is) -/
theorem c16_stack_empty_user_agent (cred : Option Bytes) (rs : List Rule) (h : HMap) {n : Bytes}
    (hn : canonicalKey n = uaKey) : hopUA stackOrder cred (rs ++ [.empty n]) h = none := by
  rw [c16_stack_written_user_agent, applyRules_append_one]
  have := get_goSet_self (applyRules rs h) n []
  rw [hn] at this
  simp only [applyRule, this, uaLineOfValues, if_true]

example : hopUA stackOrder none [.empty uaKey] [(uaKey, [[99, 117, 114, 108, 47, 56, 46, 48]])] = none := by
  decide

/-- an `Authorization` with a non-empty first value after the rules (e.g. added by a rule) suppresses
    the configured site credentials: the hop receives what the rules left -/
theorem c16_stack_rule_authorization_wins (cred : Option Bytes) (rs : List Rule) (h : HMap)
    (hne : goGet1 (applyRules rs h) authKey ≠ []) :
    hopAuthorization stackOrder cred rs h = (HMap.get (applyRules rs h) authKey).getD [] := by
  unfold hopAuthorization
  rw [runStack_stackOrder, get_setEmptyUserAgent_auth]
  unfold setBasicAuth
  cases cred with
  | none => rfl
  | some a =>
    have : (goGet1 (applyRules rs h) authKey == []) = false := by simpa using hne
    simp only [this, Bool.false_eq_true, if_false]

/-- `Authorization: value` on a request without the field: the hop receives exactly that value, also
    when site credentials for the origin are configured -/
theorem c16_stack_add_authorization (cred : Option Bytes) (rs : List Rule) (h : HMap) {n v : Bytes}
    (hn : canonicalKey n = authKey) (hv : v ≠ []) (habs : HMap.get (applyRules rs h) authKey = none) :
    hopAuthorization stackOrder cred (rs ++ [.add n v]) h = [v] := by
  have hg : HMap.get (applyRules (rs ++ [.add n v]) h) authKey = some [v] := by
    rw [applyRules_append_one]
    have := get_goAdd_self (applyRules rs h) n v
    rw [hn, habs] at this
    simpa [applyRule] using this
  rw [c16_stack_rule_authorization_wins]
  · rw [hg]; rfl
  · rw [goGet1_eq, hg]; exact hv

example : hopAuthorization stackOrder (some [66, 97, 115, 105, 99, 32, 99, 50, 108, 48, 90, 81, 61, 61])
    [.add authKey [66, 101, 97, 114, 101, 114, 32, 114]] [] = [[66, 101, 97, 114, 101, 114, 32, 114]] := by decide

/-- … and when the rules leave no `Authorization` (or one whose first value is empty — `Header.Get`
    cannot tell the two apart) the configured site credentials are what the hop receives -/
theorem c16_stack_credentials_fill_in (a : Bytes) (rs : List Rule) (h : HMap)
    (he : goGet1 (applyRules rs h) authKey = []) :
    hopAuthorization stackOrder (some a) rs h = [a] := by
  unfold hopAuthorization
  rw [runStack_stackOrder, get_setEmptyUserAgent_auth]
  unfold setBasicAuth
  have : (goGet1 (applyRules rs h) authKey == []) = true := by simpa using he
  simp only [this, if_true]
  have := get_goSet_self (applyRules rs h) authKey a
  rw [canonicalKey_authKey] at this
  rw [this]; rfl

example : hopAuthorization stackOrder (some [66, 97, 115, 105, 99, 32, 99, 50, 108, 48, 90, 81, 61, 61])
    [.remove authKey] [(authKey, [[66, 101, 97, 114, 101, 114, 32, 114]])] =
      [[66, 97, 115, 105, 99, 32, 99, 50, 108, 48, 90, 81, 61, 61]] := by decide

/-- the order matters: with the built-in modifiers registered BEFORE the user's rules
    (`builtinsFirst`) `-User-Agent` on a request from "curl/8.0" makes the hop receive the library's
    "Go-http-client/1.1" (the code's order: no line) … -/
theorem c16_builtins_first_breaks_remove_user_agent :
    hopUA builtinsFirst none [.remove uaKey] [(uaKey, [[99, 117, 114, 108, 47, 56, 46, 48]])] = some goDefaultUA ∧
    hopUA stackOrder none [.remove uaKey] [(uaKey, [[99, 117, 114, 108, 47, 56, 46, 48]])] = none := by decide

/-- … "User-Agent: probe/1.0" on a request without the field is lost (the planted empty value stays
    first; the code's order: the hop receives "probe/1.0") … -/
theorem c16_builtins_first_breaks_add_user_agent :
    hopUA builtinsFirst none [.add uaKey [112, 114, 111, 98, 101, 47, 49, 46, 48]] [] = none ∧
    hopUA stackOrder none [.add uaKey [112, 114, 111, 98, 101, 47, 49, 46, 48]] [] =
      some [112, 114, 111, 98, 101, 47, 49, 46, 48] := by decide

/-- … and a rule-added "Authorization: Bearer r" no longer suppresses the site credentials
    "Basic c2l0ZQ==": the hop receives both (the code's order: the rule's value alone) -/
theorem c16_builtins_first_breaks_authorization :
    hopAuthorization builtinsFirst (some [66, 97, 115, 105, 99, 32, 99, 50, 108, 48, 90, 81, 61, 61])
      [.add authKey [66, 101, 97, 114, 101, 114, 32, 114]] [] =
        [[66, 97, 115, 105, 99, 32, 99, 50, 108, 48, 90, 81, 61, 61], [66, 101, 97, 114, 101, 114, 32, 114]] ∧
    hopAuthorization stackOrder (some [66, 97, 115, 105, 99, 32, 99, 50, 108, 48, 90, 81, 61, 61])
      [.add authKey [66, 101, 97, 114, 101, 114, 32, 114]] [] = [[66, 101, 97, 114, 101, 114, 32, 114]] := by decide

/-- hence the three hop-level clauses above are NOT theorems of an arbitrary order of the stages -/
theorem c16_stack_order_needed :
    ¬ (∀ order cred rs h, hopUA order cred (rs ++ [.remove uaKey]) h = none) ∧
    ¬ (∀ order cred rs h, HMap.get (applyRules rs h) authKey = none →
        hopAuthorization order cred (rs ++ [.add authKey [66, 101, 97, 114, 101, 114, 32, 114]]) h =
          [[66, 101, 97, 114, 101, 114, 32, 114]]) := by
  refine ⟨fun hall => ?_, fun hall => ?_⟩
  · have := hall builtinsFirst none [] [(uaKey, [[99, 117, 114, 108, 47, 56, 46, 48]])]
    rw [List.nil_append, c16_builtins_first_breaks_remove_user_agent.1] at this
    exact absurd this (by decide)
  · have := hall builtinsFirst (some [66, 97, 115, 105, 99, 32, 99, 50, 108, 48, 90, 81, 61, 61]) [] [] rfl
    rw [List.nil_append, c16_builtins_first_breaks_authorization.1] at this
    exact absurd this (by decide)

/-! ## F. The connect rule list on the CONNECT head the upstream proxy receives (F47)

  `connectHeadMap rs h`: the `--connect-header` list `rs` as request modifier over the client's
  CONNECT header `h`, then `GetProxyConnectHeader` (the list applied to an EMPTY header) copied over
  it key by key.  `-name`, `name;` and `%name` survive the second pass; `name:value` does not append
  when the CONNECT already carries the name.  Byte strings: "X-Foo" = [88,45,70,111,111],
  "a" = [97], "v" = [118]. -/

/-- full clause — FALSE of the code (F47, not repaired): `name:value` appends to the values the
    client's CONNECT carries under the name -/
def c16_connect_add_appends_full : Prop :=
  ∀ (h : HMap) (n v : Bytes),
    valuesOf (connectHeadMap [.add n v] h) (canonicalKey n) = valuesOf h (canonicalKey n) ++ [v]

/-- what the code does, for every header and name: the upstream proxy receives the rule's value
    ALONE (the second pass overwrites the key) -/
theorem c16_connect_add_second_pass_overwrites (h : HMap) (n v : Bytes) :
    valuesOf (connectHeadMap [.add n v] h) (canonicalKey n) = [v] := by
  unfold connectHeadMap connectSecondPass applyRules valuesOf
  simp only [List.foldl_cons, List.foldl_nil, applyRule, goAdd_nil, copyOver_single]
  rw [lookup_put_self]
  rfl

example : valuesOf (connectHeadMap [.add [88, 45, 70, 111, 111] [118]] [([88, 45, 70, 111, 111], [[97]])])
    [88, 45, 70, 111, 111] = [[118]] := by decide

/-- the append clause holds on CONNECT heads when the CONNECT does not carry the name as the rule runs -/
theorem c16_connect_add_appends_partial (h : HMap) (n v : Bytes)
    (habs : valuesOf h (canonicalKey n) = []) :
    valuesOf (connectHeadMap [.add n v] h) (canonicalKey n) = valuesOf h (canonicalKey n) ++ [v] := by
  rw [c16_connect_add_second_pass_overwrites, habs]
  rfl

example : valuesOf ([] : HMap) (canonicalKey [88, 45, 70, 111, 111]) = [] := by decide

/-- "X-Foo: v" on a CONNECT that carries "X-Foo: a": the upstream proxy receives ["v"], the
    documented meaning is ["a", "v"] -/
theorem c16_connect_second_pass_witness :
    valuesOf (connectHeadMap [.add [88, 45, 70, 111, 111] [118]] [([88, 45, 70, 111, 111], [[97]])])
      (canonicalKey [88, 45, 70, 111, 111]) = [[118]] ∧
    valuesOf [([88, 45, 70, 111, 111], [[97]])] (canonicalKey [88, 45, 70, 111, 111]) ++ [[118]] =
      [[97], [118]] := by decide

theorem c16_connect_add_appends_full_false : ¬ c16_connect_add_appends_full := by
  intro hall
  have := hall [([88, 45, 70, 111, 111], [[97]])] [88, 45, 70, 111, 111] [118]
  rw [c16_connect_second_pass_witness.1, c16_connect_second_pass_witness.2] at this
  exact absurd this (by decide)

/-- `-name` does remove a field the client's CONNECT carries: the second pass has nothing to copy -/
theorem c16_connect_remove_removes (h : HMap) (n : Bytes) :
    HMap.get (connectHeadMap [.remove n] h) (canonicalKey n) = none := by
  unfold connectHeadMap connectSecondPass applyRules
  simp only [List.foldl_cons, List.foldl_nil, applyRule, goDel_nil, copyOver_nil]
  exact get_goDel_self h n

example : HMap.get (connectHeadMap [.remove [120, 45, 102, 111, 111]] [([88, 45, 70, 111, 111], [[97]])])
    [88, 45, 70, 111, 111] = none := by decide

/-- `name;` gives the empty value, whatever the CONNECT carried -/
theorem c16_connect_empty_sets_empty (h : HMap) (n : Bytes) :
    valuesOf (connectHeadMap [.empty n] h) (canonicalKey n) = [[]] := by
  unfold connectHeadMap connectSecondPass applyRules valuesOf
  simp only [List.foldl_cons, List.foldl_nil, applyRule, goSet_nil, copyOver_single]
  rw [lookup_put_self]
  rfl

example : valuesOf (connectHeadMap [.empty [88, 45, 70, 111, 111]] [([88, 45, 70, 111, 111], [[97]])])
    [88, 45, 70, 111, 111] = [[]] := by decide

/-- `%name` respells the field of the client's CONNECT exactly as `Apply` does: the second pass
    finds nothing to respell in the empty header and copies nothing -/
theorem c16_connect_rename_is_apply (h : HMap) (n : Bytes) :
    connectHeadMap [.rename n] h = renameCase h n := by
  unfold connectHeadMap connectSecondPass applyRules
  simp only [List.foldl_cons, List.foldl_nil, applyRule, renameCase_nil, copyOver_nil]

example : connectHeadMap [.rename [120, 45, 102, 111, 111]] [([88, 45, 70, 111, 111], [[97]])] =
    [([120, 45, 102, 111, 111], [[97]])] := by decide

/-! ## H. How a rule list arrives: command line, environment, config file

  (`Model/C16Src.lean`: every occurrence of a flag and every `FORWARDER_*` variable is ONE record of
  comma separated values as `encoding/csv` reads it; a config-file LIST is taken element by element.)

  Byte strings used in the concrete examples:
    "X: a,-B" = [88,58,32,97,44,45,66]   "X: a" = [88,58,32,97]   "-B" = [45,66]   "," = 44   "\"" = 34 -/

/-- a config-file list of `n` strings yields exactly those `n` rule texts, in order: nothing inside
    an element — comma, double quote, blank — ever splits it -/
theorem c16_config_list_elements_are_rules (s : Source) (xs : List Bytes)
    (hf : s.flags = []) (he : s.env = none ∨ s.env = some []) (hc : s.config = some (.list xs)) :
    rulesOfSource s = .ok xs := by
  unfold rulesOfSource
  rcases he with he | he <;> simp [hf, he, hc, textsOfConfig]

example : rulesOfSource { config := some (.list [[88, 58, 32, 97, 44, 45, 66]]) } =
    .ok [[88, 58, 32, 97, 44, 45, 66]] := by decide

/-- … and the header set after processing is the one the elements give as rules, applied in order;
    there are as many rules as elements -/
theorem c16_config_list_header_set (s : Source) (xs : List Bytes) {rs : List Rule}
    (hf : s.flags = []) (he : s.env = none ∨ s.env = some []) (hc : s.config = some (.list xs))
    (hp : xs.mapM parseRule = some rs) (h : HMap) :
    headerSetOf s h = some (applyRules rs h) ∧ rs.length = xs.length := by
  refine ⟨?_, mapM_parse_length hp⟩
  simp [headerSetOf, rulesOf, c16_config_list_elements_are_rules s xs hf he hc, hp]

example : headerSetOf { config := some (.list [[88, 58, 32, 97, 44, 45, 66]]) } [([66], [[118]])] =
    some [([66], [[118]]), ([88], [[97, 44, 45, 66]])] := by decide

/-- flag form: a list of rule texts (none holding CR or LF) written as one CSV record — fields that
    hold a comma or a double quote in quotes with `"` doubled, any other field quoted or not — is read
    back as exactly that list -/
theorem c16_csv_record_roundtrip (force : Bytes → Bool) {texts : List Bytes} (hne : texts ≠ [])
    (hl : ∀ t ∈ texts, (13 : UInt8) ∉ t ∧ (10 : UInt8) ∉ t) :
    csvRecord (csvEncode force texts) = .ok texts :=
  csvRecord_encode force hne hl

-- `"X: a,-B",-B`  is read as the two texts  `X: a,-B`  and  `-B`
example : csvEncode (fun _ => false) [[88, 58, 32, 97, 44, 45, 66], [45, 66]] =
      [34, 88, 58, 32, 97, 44, 45, 66, 34, 44, 45, 66] ∧
    csvRecord [34, 88, 58, 32, 97, 44, 45, 66, 34, 44, 45, 66] =
      .ok [[88, 58, 32, 97, 44, 45, 66], [45, 66]] := by decide

/-- a rule text without comma, double quote, CR and LF goes through a flag (or a variable) as it
    stands and is one rule text -/
theorem c16_plain_flag_value_is_one_rule {t : Bytes} (hne : t ≠ [])
    (h : ∀ c ∈ t, c ≠ 44 ∧ c ≠ 34 ∧ c ≠ 13 ∧ c ≠ 10) : csvRecord t = .ok [t] := by
  have hq : csvNeedsQuote t = false := by
    cases t with
    | nil => exact absurd rfl hne
    | cons c t =>
      simp only [csvNeedsQuote, List.isEmpty_cons, Bool.false_or, List.any_eq_false, Bool.or_eq_true,
        beq_iff_eq, not_or]
      exact fun d hd => ⟨(h d hd).1, (h d hd).2.1⟩
  have := csvRecord_encode (fun _ => false) (fs := [t]) (by simp)
    (fun x hx => by
      have hx' : x = t := by simpa using hx
      subst hx'
      exact ⟨fun m => (h 13 m).2.2.1 rfl, fun m => (h 10 m).2.2.2 rfl⟩)
  simpa [csvEncode, csvField, hq] using this

example : csvRecord [88, 58, 32, 97] = .ok [[88, 58, 32, 97]] := by decide

/-- the same list arrives whichever way it is written down: one flag holding the record, one flag
    per rule, the variable, a config-file string holding the record, a config-file list -/
theorem c16_sources_agree (force : Bytes → Bool) {texts : List Bytes} (hne : texts ≠ [])
    (hl : ∀ t ∈ texts, (13 : UInt8) ∉ t ∧ (10 : UInt8) ∉ t) :
    rulesOfSource { flags := [csvEncode force texts] } = .ok texts ∧
    rulesOfSource { flags := texts.map (fun t => csvEncode force [t]) } = .ok texts ∧
    rulesOfSource { env := some (csvEncode force texts) } = .ok texts ∧
    rulesOfSource { config := some (.text (csvEncode force texts)) } = .ok texts ∧
    rulesOfSource { config := some (.list texts) } = .ok texts := by
  have hr := csvRecord_encode force hne hl
  have hm : texts.map (fun t => csvEncode force [t]) ≠ [] := by
    cases texts with
    | nil => exact absurd rfl hne
    | cons t ts => simp
  refine ⟨?_, ?_, ?_, ?_, ?_⟩
  · simp [rulesOfSource, setAll, hr]
  · simp [rulesOfSource, hm, setAll_singletons force hl]
  · simp [rulesOfSource, csvEncode_ne_nil force hne, hr]
  · simp [rulesOfSource, textsOfConfig, hr]
  · simp [rulesOfSource, textsOfConfig]

example : rulesOfSource { env := some [34, 88, 58, 32, 97, 44, 45, 66, 34, 44, 45, 66] } =
    rulesOfSource { config := some (.list [[88, 58, 32, 97, 44, 45, 66], [45, 66]]) } := by decide

/-- occurrences of a flag are concatenated in command line order -/
theorem c16_repeated_flags_concatenate {v : Bytes} {vs : List Bytes} {r rs : List Bytes}
    (h1 : csvRecord v = .ok r) (h2 : setAll vs = .ok rs) : setAll (v :: vs) = .ok (r ++ rs) := by
  simp [setAll, h1, h2]

example : setAll [[88, 58, 32, 97], [45, 66]] = .ok [[88, 58, 32, 97], [45, 66]] := by decide

/-- command line before environment before config file -/
theorem c16_flags_shadow_env_and_config (s : Source) (h : s.flags ≠ []) :
    rulesOfSource s = setAll s.flags := by
  simp [rulesOfSource, h]

theorem c16_env_shadows_config (s : Source) {e : Bytes} (hf : s.flags = []) (he : s.env = some e)
    (hne : e ≠ []) : rulesOfSource s = csvRecord e := by
  simp [rulesOfSource, hf, he, hne]

example :
    rulesOfSource
      { flags := [[45, 66]], env := some [88, 58, 32, 97], config := some (.list [[88, 58, 32, 97, 44, 45, 66]]) } =
    .ok [[45, 66]] := by decide

/-- witness for the slip "join the config-file list with commas and hand it to `Set`": the element
    `X: a,-B` comes back as the two rule texts `X: a` and `-B`, both of them rules, and a message that
    carries `B: v` loses it — where the list as given adds `X: a,-B` and keeps `B`; an element with a
    double quote or an empty list makes `Set` fail although the list as given is fine -/
theorem c16_join_then_split_witness :
    rulesOfSource { config := some (.list [[88, 58, 32, 97, 44, 45, 66]]) } =
      .ok [[88, 58, 32, 97, 44, 45, 66]] ∧
    joinedThenSplit [[88, 58, 32, 97, 44, 45, 66]] = .ok [[88, 58, 32, 97], [45, 66]] ∧
    headerSetOf { config := some (.list [[88, 58, 32, 97, 44, 45, 66]]) } [([66], [[118]])] =
      some [([66], [[118]]), ([88], [[97, 44, 45, 66]])] ∧
    ([[88, 58, 32, 97], [45, 66]].mapM parseRule).map (fun rs => applyRules rs [([66], [[118]])]) =
      some [([88], [[97]])] ∧
    joinedThenSplit [[88, 58, 34]] = .error .bareQuote ∧ parseRule [88, 58, 34] = some (.add [88] [34]) ∧
    joinedThenSplit [] = .error .eof ∧ rulesOf { config := some (.list []) } = some [] := by
  decide

end C16
end FwdVerif
