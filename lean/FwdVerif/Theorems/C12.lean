/-
  C12 — property theorems over `Model/C12.lean` (only property theorems, the full-strength
  statements the unchanged code falsifies kept visible as `def …_full : Prop`, their witnesses, and
  non-vacuity examples; helper lemmas are in `FwdVerif/Lemmas/C12.lean`).

  A. the classification table of `errorResponse`, stated outright for every `ErrKind`; a time-out is 504
     whatever `Op` wraps it (`proxyconnect tcp: dial tcp …`), on every path of an exchange, and whatever
     type reports it (`context.DeadlineExceeded`, net/http's time-out errors); a connection the remote
     host closes early is 502 (F33 is the class for which the TLS clause is still false: a record that
     is no ServerHello)
  B. the error response: `X-Forwarder-Error`, self-delimiting, written as HTTP/1.0 or HTTP/1.1 whatever
     version the request line names; the relayed CONNECT rejection: the upstream proxy's reply under the
     client's protocol version, honouring the client's `close`
  C. one fault at any point of an exchange: a complete error response, or a prefix that no parser
     accepts as complete (F13, F37 are the classes for which the full statement is false; F12 is
     repaired: a transport-level CONNECT rejection is relayed well-formed)
  D. several exchanges on one connection: only this exchange's bytes, nothing after a torn response
  E. `handleLoop`: five consecutive non-closeable errors close the connection — and which errors count
  F. `writeResponse`: the writer selection as a table; a header-only response (HEAD, 1xx, 204, 304) is
     always written by the header-only writer, its body is never read; hence no upstream reply reaches
     the `panicBody` sentinel of `handleUpgradeResponse` (and the order of the cases matters); every
     accepted reply is answered: a 101 that is no protocol switch with a 502 error response
  G. the `host` label of the dialer's metrics (`addr2Host`): valid UTF-8 for EVERY dial address (what
     prometheus requires, or the process dies), never longer than the address; a bounding step behind
     the validity check keeps the guarantee when it cuts at encoding boundaries and loses it when it
     cuts at a byte offset (kernel-checked witness: 253)
  H. the handler variant (`proxy_handler.go` under net/http's server): a body torn upstream is never
     finished by the server — no terminating chunk, fewer bytes than `Content-Length`, the connection
     closed — exactly because the handler aborts on EVERY copy error; "return normally on
     closed-connection-like errors" is refuted by a witness, at the level of observations and of bytes
  I. the accept loop (`Proxy.Serve`): the classification table of the errors `Accept` returns; NO finite
     sequence of errors that pass by themselves (EMFILE, ENFILE, EINTR, ECONNABORTED, ECONNRESET, time-outs)
     ends the loop — every one is answered by a retry after 5 ms · 2^i capped at 1 s, the next connection is
     served — exactly because the loop retries on `Temporary()`; "retry time-outs only" is refuted by a witness
  J. the HTTP log mode is a parameter the relay ignores: the logger as a body wrapper is transparent in
     every mode (same terminal condition, no invented byte, a regular body byte for byte); hence a torn
     reply (and a torn upload) never reads back as complete under any mode, and the theorems of C and H
     hold with the logger in the path; a snapshot that drops the read error is refuted by a witness
  L. the dial phase (`forwarder.Dialer`, net.go): the retry loop returns `err == nil` only together with a
     connection — `(nil, nil)` is unreachable for every sequence of attempt outcomes, every attempt budget and
     every point at which the caller's context is done —, hence `DialContext` never hands a nil connection to
     the connection tracker; a dial phase in which every attempt ran into a time-out (the dialer's own or the
     caller's deadline: dialvia's `ConnectTimeout`) is answered 504 on every route; "stop retrying once the
     context is done, before the error is recorded" is refuted by a witness, "… after it is recorded" is not

  M. the interception point (`mitm.Config.cert`): the certificate generator is a resource every intercepted
     handshake of every client goes through; a generation that fails (a name x509 refuses: any byte outside
     ASCII) fails that handshake and leaves the generator as it was — never locked, for every sequence of
     names —, so a fresh valid name is issued a certificate after any history, and the results of all other
     names are what they are without the hostile one; "take a lock, return on the error path without
     releasing it" is refuted by a witness: one refused name, then every fresh name blocks

  Not in the model (observed by the correspondence runs only): panic-freedom of net/http and
  crypto/tls on hostile bytes, TCP delivery, the scheduler.
-/
import FwdVerif.Lemmas.C12
import FwdVerif.Lemmas.C12Label
import FwdVerif.Lemmas.C12Handler
import FwdVerif.Lemmas.C12Accept
import FwdVerif.Lemmas.C12Dial
import FwdVerif.Lemmas.C12Cert
import FwdVerif.Model.C12Gen

namespace FwdVerif
namespace C12

open Ascii
open C16 (HMap goDel goSet goAdd Rule applyRules NoRename ValidRule CanonKeys NodupKeys)
open Req (bs natToDec hopByHopNames)

/-! ## A. classification -/

/-- The table of `errorResponse`, for every error kind: what the ordered handler list answers. -/
theorem c12_classification_table (k : ErrKind) :
    classify k =
      match k with
      | .opError op true => (504, "net_" ++ op.text)
      | .opError op false => (502, "net_" ++ op.text)
      | .opChain outer _ true => (504, "net_" ++ outer.text)
      | .opChain outer _ false => (502, "net_" ++ outer.text)
      | .dns true => (504, "net_dial")
      | .dns false => (502, "net_dial")
      | .connRefused => (502, "net_dial")
      | .connReset => (502, "net_read")
      | .unexpectedEOF => (502, "unexpected_eof")
      | .tlsRecordHeader _ => (502, "tls_record_header")
      | .tlsCertificate => (502, "tls_certificate")
      | .tlsECHRejection => (502, "tls_ech_rejection")
      | .tlsAlertBare => (502, "tls_alert")
      | .tlsAlertRemote => (502, "net_remote error")
      | .tlsAlertLocal => (502, "net_local error")
      | .tlsGeneric => (500, "unexpected_error")
      | .tlsHandshakeTimeout => (504, "timeout")
      | .martianStatus s => if s = 0 then (500, "unexpected_error") else (s, "martian_error")
      | .proxyAuth => (407, "proxy_authentication")
      | .denied => (403, "-")
      | .prohibited => (451, "-")
      | .ctxCanceled => (500, "request_ctx_canceled")
      | .ctxDeadline => (504, "timeout")
      | .connectRejected _ => (500, "unexpected_error")
      | .statusTextError s https =>
        if https = true ∧ 400 ≤ s ∧ s < 600 then (s, "https_status_text") else (500, "unexpected_error")
      | .malformedResponse => (500, "unexpected_error")
      | .responseHeaderTimeout => (504, "timeout")
      | .other => (500, "unexpected_error") := by
  cases k with
  | opError op t => cases op <;> cases t <;> rfl
  | opChain outer inner t => cases outer <;> cases t <;> rfl
  | dns t => cases t <;> rfl
  | tlsRecordHeader b => cases b <;> rfl
  | martianStatus s =>
    by_cases h : s = 0
    · subst h; rfl
    · simp [classify, classifyShape, classifyWith, handlers, firstVerdict, shapeOf, ErrKind.https,
        handleWindowsNetError, handleNetError, handleTLSRecordHeader, handleTLSCertificateError,
        handleTLSECHRejectionError, handleTLSAlertError, handleMartianErrorStatus, pass, h]
  | statusTextError s https =>
    cases https
    · simp [classify, classifyShape, classifyWith, handlers, firstVerdict, shapeOf, ErrKind.https,
        handleWindowsNetError, handleNetError, handleTLSRecordHeader, handleTLSCertificateError,
        handleTLSECHRejectionError, handleTLSAlertError, handleMartianErrorStatus,
        handleAuthenticationError, handleDenyError, handleProhibitedError,
        handleContextCancelationError, handleStatusText, handleTimeoutError, handleEOFError, pass]
    · by_cases h : 400 ≤ s ∧ s < 600
      · have h0 : s ≠ 0 := by omega
        simp [classify, classifyShape, classifyWith, handlers, firstVerdict, shapeOf, ErrKind.https,
          handleWindowsNetError, handleNetError, handleTLSRecordHeader, handleTLSCertificateError,
          handleTLSECHRejectionError, handleTLSAlertError, handleMartianErrorStatus,
          handleAuthenticationError, handleDenyError, handleProhibitedError,
          handleContextCancelationError, handleStatusText, pass, h, h0]
      · simp [classify, classifyShape, classifyWith, handlers, firstVerdict, shapeOf, ErrKind.https,
          handleWindowsNetError, handleNetError, handleTLSRecordHeader, handleTLSCertificateError,
          handleTLSECHRejectionError, handleTLSAlertError, handleMartianErrorStatus,
          handleAuthenticationError, handleDenyError, handleProhibitedError,
          handleContextCancelationError, handleStatusText, handleTimeoutError, handleEOFError, pass, h]
  | _ => rfl

example : classify (.opError .dial true) = (504, "net_dial") ∧
    classify .connRefused = (502, "net_dial") ∧ classify (.martianStatus 400) = (400, "martian_error") := by
  decide

/-- connection failures — refused, reset, DNS failure, any `net.OpError` that is not a time-out — are 502 -/
theorem c12_connection_failures_502 (op : NetOp) :
    (classify (.opError op false)).1 = 502 ∧ (classify .connRefused).1 = 502 ∧
      (classify .connReset).1 = 502 ∧ (classify (.dns false)).1 = 502 := by
  cases op <;> decide

/-- connect time-outs are 504: a dial or a lookup that timed out, any `net.OpError` whose `Timeout()`
    holds — and the time-outs that are not `net.OpError`s: the bare `context.DeadlineExceeded` of a CONNECT
    that an upstream proxy does not answer within `ConnectTimeout` (the repaired F34), net/http's TLS
    handshake time-out and its time-out awaiting the response head -/
theorem c12_connect_timeouts_504 (op : NetOp) :
    (classify (.opError op true)).1 = 504 ∧ classify (.opError .dial true) = (504, "net_dial") ∧
      (classify (.dns true)).1 = 504 ∧ classify .ctxDeadline = (504, "timeout") ∧
      classify .tlsHandshakeTimeout = (504, "timeout") ∧ classify .responseHeaderTimeout = (504, "timeout") := by
  cases op <;> decide

/-- Whatever else an error chain is: if it is a time-out (`errors.As(net.Error)` with `Timeout()`), it is
    never answered `500 unexpected_error` — for every shape the predicates of the handlers can take, not
    only the chains listed in `ErrKind`. -/
theorem c12_timeout_never_unexpected (https : Bool) (e : ErrShape) (ht : e.timeout = true) :
    (classifyShape https e).2 ≠ "unexpected_error" := by
  have hne : (firstVerdict handlers https e).1 ≠ 0 :=
    firstVerdict_ne_zero (h := handleTimeoutError) (by simp [handlers]) (by simp [handleTimeoutError, ht])
  have hcl : classifyShape https e = firstVerdict handlers https e := by
    simp [classifyShape, classifyWith, hne]
  rw [hcl]
  rcases firstVerdict_mem handlers https e with hp | ⟨h, hm, he⟩
  · rw [hp] at hne; exact absurd rfl hne
  · rw [he]; exact handlers_label h hm https e

/-- … and unless one of the specific handlers claims it (a `net.OpError` — then `handleNetError` answers,
    504 as well when that is the time-out —, a typed TLS error, an `ErrorStatus`, one of the proxy's own
    refusals, a cancelled context, a status text) the answer is `504 timeout`. -/
theorem c12_untyped_timeout_504 (https : Bool) (e : ErrShape) (ht : e.timeout = true) (hop : e.opError = none)
    (h1 : e.recordHeader = none) (h2 : e.certVerification = false) (h3 : e.echRejection = false)
    (h4 : e.alert = false) (h5 : e.errorStatus = none) (h6 : e.proxyAuth = false) (h7 : e.deny = false)
    (h8 : e.prohibited = false) (h9 : e.canceled = false) (h10 : e.statusText = none) :
    classifyShape https e = (504, "timeout") := by
  obtain ⟨op, rh, cv, ech, al, es, pa, dn, ph, cn, stx, to, eo⟩ := e
  simp only at ht hop h1 h2 h3 h4 h5 h6 h7 h8 h9 h10
  subst ht hop h1 h2 h3 h4 h5 h6 h7 h8 h9 h10
  cases https <;> rfl

example : (classifyShape false { timeout := true }) = (504, "timeout") ∧
    (classifyShape true { timeout := true, eof := true }) = (504, "timeout") ∧
    (classifyShape false (shapeOf .ctxDeadline)) = (504, "timeout") := by decide

/-- The remote host closing the connection early (`io.EOF` / `io.ErrUnexpectedEOF`: in the TLS handshake,
    instead of a reply, inside a reply head that is well-formed as far as it goes) is a 502, never
    `500 unexpected_error`, whatever else the chain is; a chain that is also a time-out stays 504. -/
theorem c12_eof_never_unexpected (https : Bool) (e : ErrShape) (he : e.eof = true) :
    (classifyShape https e).2 ≠ "unexpected_error" ∧ classify .unexpectedEOF = (502, "unexpected_eof") := by
  refine ⟨?_, by decide⟩
  have hne : (firstVerdict handlers https e).1 ≠ 0 :=
    firstVerdict_ne_zero (h := handleEOFError) (by simp [handlers]) (by simp [handleEOFError, he])
  have hcl : classifyShape https e = firstVerdict handlers https e := by
    simp [classifyShape, classifyWith, hne]
  rw [hcl]
  rcases firstVerdict_mem handlers https e with hp | ⟨h, hm, he'⟩
  · rw [hp] at hne; exact absurd rfl hne
  · rw [he']; exact handlers_label h hm https e

example : classifyShape false { eof := true } = (502, "unexpected_eof") := by decide

/-- A time-out is 504 whatever `Op` wraps it: `http.Transport` reports a failed dial to the upstream proxy
    as `proxyconnect tcp: dial tcp …: i/o timeout` — an `OpError` around an `OpError` —, `errors.As` finds
    the outer one and its `Timeout()` is the innermost error's.  And a wrapped failure that is no time-out
    (refused, reset) stays 502.  The label names the outermost `Op`. -/
theorem c12_timeout_504_whatever_wraps (outer : NetOp) (inner : List NetOp) :
    classify (.opChain outer inner true) = (504, "net_" ++ outer.text) ∧
      classify (.opChain outer inner false) = (502, "net_" ++ outer.text) := by
  cases outer <;> exact ⟨rfl, rfl⟩

example : classify (.opChain .proxyconnect [.dial] true) = (504, "net_proxyconnect") ∧
    classify (.opChain .proxyconnect [.dial] false) = (502, "net_proxyconnect") ∧
    classify (.opChain .proxyconnect [.read] false) = (502, "net_proxyconnect") := by decide

/-- … on every path of an exchange: a dial that times out is answered 504 and a refused or reset one 502 —
    dialling the origin or the upstream proxy (http or https), for a plain request, `GET https://`, a
    request in an intercepted tunnel and a client CONNECT. -/
theorem c12_dial_fault_status (ex : Exchange) :
    (∀ k, faultErr .dialTimeout ex = some k → respStatus k = 504) ∧
      (∀ k, faultErr .dialRefused ex = some k → respStatus k = 502) ∧
      (∀ op k, faultErr (.dialReset op) ex = some k → respStatus k = 502) := by
  refine ⟨?_, ?_, ?_⟩
  · intro k h
    simp only [faultErr, Option.some.injEq] at h; subst h
    unfold dialErr; split <;> rfl
  · intro k h
    simp only [faultErr, Option.some.injEq] at h; subst h
    unfold dialErr; split <;> rfl
  · intro op k h
    simp only [faultErr, resetErr] at h
    split at h
    · simp at h
    · split at h <;> (simp only [Option.some.injEq] at h; subst h; cases op <;> rfl)

example : faultErr .dialTimeout { id := 1, kind := .httpsGet, viaUpstream := true } = some (.opChain .proxyconnect [.dial] true) ∧
    faultErr .dialTimeout { id := 1, kind := .connect, viaUpstream := true } = some (.opError .dial true) ∧
    faultErr (.dialReset .read) { id := 1, kind := .mitm, viaUpstream := true, upstreamTLS := true } = some (.opChain .proxyconnect [.read] false) ∧
    faultErr (.dialReset .write) { id := 1, kind := .plain, viaUpstream := true } = some (.opError .write false) ∧
    faultErr (.dialReset .read) { id := 1, kind := .connect } = none := by decide

/-- `handleNetError` with a branch for `Op == "proxyconnect"` ahead of the `Timeout()` test (the edit of
    seed c12-3): friendlier message, and every time-out towards the upstream proxy becomes a 502 -/
def handleNetErrorProxyFirst : Handler := fun _ e =>
  match e.opError with
  | some (.proxyconnect, _) => (502, "net_proxyconnect")
  | some (op, true) => (504, "net_" ++ op.text)
  | some (op, false) => (502, "net_" ++ op.text)
  | none => pass

/-- the order of the two tests inside `handleNetError` decides as well -/
theorem c12_proxyconnect_branch_order_matters :
    classify (.opChain .proxyconnect [.dial] true) = (504, "net_proxyconnect") ∧
      classifyWith [handleWindowsNetError, handleNetErrorProxyFirst] false
        (shapeOf (.opChain .proxyconnect [.dial] true)) = (502, "net_proxyconnect") := by
  decide

/-- The order of the handler list decides: a time-out is seen by `handleNetError` before anything that
    would make it a 502 or the wrapped status of an `ErrorStatus`; an alert that `crypto/tls` wraps
    in a `net.OpError` is a net error, not a `tls_alert`; with the alert handler first it would be one. -/
theorem c12_handler_order_matters :
    classifyShape false { opError := some (.dial, true), errorStatus := some 400 } = (504, "net_dial") ∧
      classifyWith [handleMartianErrorStatus, handleNetError] false
        { opError := some (.dial, true), errorStatus := some 400 } = (400, "martian_error") ∧
      classify .tlsAlertRemote = (502, "net_remote error") ∧
      classifyWith (handleTLSAlertError :: handlers) false (shapeOf .tlsAlertRemote) = (502, "tls_alert") := by
  decide

/-- full clause "TLS failures are 502" over every way the handshake with the origin can fail (504 when
    the failure is the handshake timing out) — FALSE of the code (F33, the part that is still open):
    failures that `crypto/tls` detects itself and reports as plain `errors.New("tls: …")` (a record that
    is no ServerHello) match no handler -/
def c12_tls_failures_502_full : Prop :=
  ∀ t : TLSFault, (classify t.errKind).1 = if t = .stall then 504 else 502

/-- every other TLS failure is a 502 — the typed errors, a reset, and the peer closing the connection
    during the handshake (`io.EOF`, repaired) — or, for the handshake time-out of `http.Transport`
    (repaired), a 504 -/
theorem c12_tls_failures_502_partial (t : TLSFault) (h : t ≠ .garbageHandshake) :
    (classify t.errKind).1 = if t = .stall then 504 else 502 := by
  cases t <;> first | rfl | contradiction

example : TLSFault.closed ≠ .garbageHandshake ∧ TLSFault.stall ≠ .garbageHandshake ∧
    classify TLSFault.closed.errKind = (502, "unexpected_eof") ∧
    classify TLSFault.stall.errKind = (504, "timeout") := by
  decide

/-- a handshake answered with garbage is a 500 `unexpected_error` -/
theorem c12_tls_failures_502_witness :
    classify TLSFault.garbageHandshake.errKind = (500, "unexpected_error") := by decide

theorem c12_tls_failures_502_full_false : ¬ c12_tls_failures_502_full := by
  intro h
  exact absurd (h .garbageHandshake) (by decide)

/-- the typed TLS errors, each: record header, certificate verification, ECH rejection, alert -/
theorem c12_typed_tls_errors_502 (b : Bool) :
    (classify (.tlsRecordHeader b)).1 = 502 ∧ (classify .tlsCertificate).1 = 502 ∧
      (classify .tlsECHRejection).1 = 502 ∧ (classify .tlsAlertBare).1 = 502 ∧
      (classify .tlsAlertRemote).1 = 502 ∧ (classify .tlsAlertLocal).1 = 502 := by
  cases b <;> decide

/-- a CONNECT the upstream proxy rejected is answered with the upstream's own status -/
theorem c12_rejected_connect_relays_status (s : Nat) :
    errorWritten (.connectRejected s) = .relay s ∧ respStatus (.connectRejected s) = s := by
  simp [errorWritten, respStatus, Written.status]

example : respStatus (.connectRejected 407) = 407 := by decide

/-- "a connect time-out is a 504" on the CONNECT path as well (the repaired F34): a client CONNECT
    through an upstream proxy that does not answer within `ConnectTimeout` — `dialvia` returns the bare
    `context.DeadlineExceeded` — is answered with ONE complete `504` error response, kept alive unless the
    client asked for close; for every exchange that is such a CONNECT -/
theorem c12_connect_reply_timeout_504 (ex : Exchange) (hk : ex.kind = .connect) (hu : ex.viaUpstream = true) :
    faultErr (.connectReply .timeout) ex = some .ctxDeadline ∧ respStatus .ctxDeadline = 504 ∧
      clientStream (.connectReply .timeout) ex = .errorResponse ex.id 504 "timeout" (!ex.reqClose) := by
  have h1 : faultErr (.connectReply .timeout) ex = some .ctxDeadline := by
    simp [faultErr, usesConnect, hk, hu]
  refine ⟨h1, by decide, ?_⟩
  simp only [clientStream, h1]
  rfl

example : clientStream (.connectReply .timeout) { id := 31, kind := .connect, viaUpstream := true } =
    .errorResponse 31 504 "timeout" true := by decide

/-- "otherwise 5xx": every upstream fault is answered 500, 502 or 504 -/
theorem c12_upstream_faults_5xx (k : ErrKind) (h : upstreamKind k = true) :
    respStatus k = 500 ∨ respStatus k = 502 ∨ respStatus k = 504 := by
  cases k with
  | opError op t => cases op <;> cases t <;> decide
  | opChain outer inner t => cases outer <;> cases t <;> simp [respStatus, errorWritten, Written.status, c12_classification_table]
  | dns t => cases t <;> decide
  | tlsRecordHeader b => cases b <;> decide
  | martianStatus s => simp [upstreamKind] at h
  | connectRejected s => simp [upstreamKind] at h
  | statusTextError s b => simp [upstreamKind] at h
  | proxyAuth => simp [upstreamKind] at h
  | denied => simp [upstreamKind] at h
  | prohibited => simp [upstreamKind] at h
  | _ => decide

example : upstreamKind .unexpectedEOF = true ∧ respStatus .unexpectedEOF = 502 ∧
    upstreamKind .malformedResponse = true ∧ respStatus .malformedResponse = 500 := by decide

/-- the proxy's own refusals keep their 4xx; a status-text error keeps a status in [400,600) -/
theorem c12_status_in_range (k : ErrKind)
    (hm : ∀ s, k = .martianStatus s → 400 ≤ s ∧ s < 600)
    (hc : ∀ s, k = .connectRejected s → 300 ≤ s ∧ s < 600) :
    300 ≤ respStatus k ∧ respStatus k < 600 := by
  cases k with
  | opError op t => cases op <;> cases t <;> decide
  | opChain outer inner t => cases outer <;> cases t <;> simp [respStatus, errorWritten, Written.status, c12_classification_table]
  | dns t => cases t <;> decide
  | tlsRecordHeader b => cases b <;> decide
  | martianStatus s =>
    have := hm s rfl
    have h0 : s ≠ 0 := by omega
    simp only [respStatus, errorWritten, Written.status, c12_classification_table, h0, if_false]
    omega
  | connectRejected s =>
    have := hc s rfl
    simp only [respStatus, errorWritten, Written.status]
    omega
  | statusTextError s b =>
    simp only [respStatus, errorWritten, Written.status, c12_classification_table]
    split <;> simp <;> omega
  | _ => decide

/-! ## B. the error response -/

/-- Every response `errorResponse` builds still carries exactly one `X-Forwarder-Error: <name> <error>`
    when it has passed the response modifiers — the configured `--response-header` rules (skipped for
    CONNECT) and hop-by-hop removal — and `writeResponse`: for every rule list without `%name` rules
    whose rules name neither `X-Forwarder-Error` nor `Connection` (`leaves`). -/
theorem c12_error_response_has_xfe (closing : Bool) (rq : ReqFacts) (st : Nat) (msg err : Bytes)
    (hr : NoRename rq.rules) (hv : ∀ r ∈ rq.rules, ValidRule r)
    (hl : ∀ r ∈ rq.rules, leaves (lower xfeName) r = true ∧ leaves (lower connName) r = true) :
    (writtenError closing rq st msg err).values xfeName = [rq.name ++ [32] ++ err] := by
  have h1 : (bs "content-length" == lower xfeName) = false := by with_unfolding_all rfl
  have h2 : (lower connName == lower xfeName) = false := by with_unfolding_all rfl
  have h3 : ∀ k ∈ [bs "Content-Length", bs "Transfer-Encoding", bs "Trailer"], (lower k == lower xfeName) = false := by
    with_unfolding_all decide
  unfold writtenError
  rw [values_writeResponse closing _ xfeName h1 h2 h3]
  exact modified_vals_xfe rq st msg err hr hv hl

-- "-Server", "X-Added: v", "-x-c*" leave X-Forwarder-Error and Connection alone
example : ∀ r ∈ [Rule.remove [83, 101, 114, 118, 101, 114], Rule.add [88, 45, 65, 100, 100, 101, 100] [118],
      Rule.removePrefix [120, 45, 99]],
    leaves (lower xfeName) r = true ∧ leaves (lower connName) r = true := by with_unfolding_all decide

example : (writtenError false { name := [102] } 502 [109] [101]).values xfeName = [[102, 32, 101]] :=
  c12_error_response_has_xfe false _ 502 [109] [101] (fun _ h => by simp at h) (fun _ h => by simp at h)
    (fun _ h => by simp at h)

/-- a rule that names the field does remove it: the hypothesis is needed -/
theorem c12_error_response_has_xfe_witness :
    (writtenError false { name := [102], rules := [.remove xfeName] } 502 [109] [101]).values xfeName = [] := by
  with_unfolding_all rfl

/-- Every error response is self-delimiting, whatever the response rules (without `%name`): it
    declares `Content-Length: <decimal of the body length>` exactly once, the body is
    `<name> SP <msg> LF <err> LF` (never empty), the bytes on the wire are the head followed by exactly
    that body, and the connection is kept unless the request (or a shutdown) said otherwise. -/
theorem c12_error_response_self_delimiting (closing : Bool) (rq : ReqFacts) (st : Nat) (msg err : Bytes)
    (hr : NoRename rq.rules) (hv : ∀ r ∈ rq.rules, ValidRule r) :
    (writtenError closing rq st msg err).values (bs "Content-Length") =
        [natToDec (writtenError closing rq st msg err).body.length] ∧
      (writtenError closing rq st msg err).body = rq.name ++ [32] ++ msg ++ [10] ++ err ++ [10] ∧
      0 < (writtenError closing rq st msg err).body.length ∧
      (writtenError closing rq st msg err).wire =
        (writtenError closing rq st msg err).head ++ (writtenError closing rq st msg err).body ∧
      (writtenError closing rq st msg err).status = st ∧
      (writtenError closing rq st msg err).keepAlive = !(closing || rq.close) := by
  have hb : (writtenError closing rq st msg err).body = rq.name ++ [32] ++ msg ++ [10] ++ err ++ [10] := rfl
  refine ⟨?_, hb, ?_, rfl, rfl, rfl⟩
  · unfold writtenError
    rw [values_writeResponse_cl closing _ (modified_canon rq st msg err hr hv)]
    rfl
  · rw [hb]
    simp only [List.length_append, List.length_cons, List.length_nil]
    omega

example : (writtenError false { name := [102] } 502 [109] [101]).body.length = 6 := rfl

/-- The relayed rejection of a transport-level CONNECT (`GET https://…`, also inside an intercepted
    session, through an upstream proxy that refuses the transport's own CONNECT) is a well-formed
    answer to the CLIENT's request: the status line carries the client's protocol version
    (`HTTP/1.<minor of the request>` for an HTTP/1.0 or HTTP/1.1 request — `respMinor` —, never the
    `HTTP/0.0` of the transport's synthetic CONNECT request)
    and the upstream proxy's status; `Content-Length` is declared exactly once and is the length of the
    relayed body, the bytes on the wire are the head followed by exactly that body; the connection is
    kept unless the client's request (or a shutdown) said otherwise, and when it is not kept
    `Connection: close` is on the wire.  For every upstream header map (canonical keys, as
    `net/http` reads them) and every response-rule list without `%name`. -/
theorem c12_relayed_rejection_wellformed (closing : Bool) (rq : ReqFacts) (st : Nat) (up : HMap) (body : Bytes)
    (hr : NoRename rq.rules) (hv : ∀ r ∈ rq.rules, ValidRule r) (hc : CanonKeys up) (hn : NodupKeys up) :
    (writtenRelay closing rq st up body).minor = respMinor rq ∧
      (writtenRelay closing rq st up body).status = st ∧
      (writtenRelay closing rq st up body).values (bs "Content-Length") = [natToDec body.length] ∧
      (writtenRelay closing rq st up body).body = body ∧
      (writtenRelay closing rq st up body).wire = (writtenRelay closing rq st up body).head ++ body ∧
      (writtenRelay closing rq st up body).keepAlive = !(closing || rq.close) ∧
      ((closing || rq.close) = true → bs "close" ∈ (writtenRelay closing rq st up body).values connName) := by
  refine ⟨rfl, rfl, ?_, rfl, rfl, rfl, ?_⟩
  · unfold writtenRelay
    rw [values_writeResponse_cl closing _ (modified_relay_canon rq st up body hr hv hc hn)]
    rfl
  · intro h
    exact close_on_wire closing _ h

-- an HTTP/1.0 client that asked `GET https://…`: `HTTP/1.0 403`, closed, `Connection: close` on the wire
example : (writtenRelay false { name := [102], minor := 0, close := true } 403 [(bs "X-Up", [[49]])] [100, 101]).minor = 0 ∧
    (writtenRelay false { name := [102], minor := 0, close := true } 403 [(bs "X-Up", [[49]])] [100, 101]).keepAlive = false ∧
    (writtenRelay false { name := [102], minor := 0, close := true } 403 [(bs "X-Up", [[49]])] [100, 101]).values connName = [bs "close"] ∧
    (writtenRelay false { name := [102], minor := 0, close := true } 403 [(bs "X-Up", [[49]])] [100, 101]).values (bs "Content-Length") = [[50]] := by
  with_unfolding_all decide

example : CanonKeys [(bs "X-Up", [[49]])] ∧ NodupKeys [(bs "X-Up", [[49]])] := by
  constructor
  · intro e he
    simp only [List.mem_singleton] at he
    subst he
    with_unfolding_all rfl
  · simp [NodupKeys]

/-- The relay adds nothing of forwarder's own and takes nothing away: the `X-Forwarder-Error` values the
    client reads are exactly those of the upstream proxy's reply (none when the upstream proxy sent
    none — the response is the upstream proxy's, and says so only if the upstream proxy did), for
    every rule list that leaves that field and `Connection` alone and every upstream reply without a
    `Connection` field. -/
theorem c12_relayed_rejection_passes_xfe (closing : Bool) (rq : ReqFacts) (st : Nat) (up : HMap) (body : Bytes)
    (hr : NoRename rq.rules) (hv : ∀ r ∈ rq.rules, ValidRule r) (hc : CanonKeys up) (hn : NodupKeys up)
    (hl : ∀ r ∈ rq.rules, leaves (lower xfeName) r = true ∧ leaves (lower connName) r = true)
    (hconn : vals up (lower connName) = []) :
    ((writtenRelay closing rq st up body).values xfeName).Perm (vals up (lower xfeName)) := by
  have h1 : (bs "content-length" == lower xfeName) = false := by with_unfolding_all rfl
  have h2 : (lower connName == lower xfeName) = false := by with_unfolding_all rfl
  have h3 : ∀ k ∈ [bs "Content-Length", bs "Transfer-Encoding", bs "Trailer"], (lower k == lower xfeName) = false := by
    with_unfolding_all decide
  have hx : ∀ k ∈ hopByHopNames.map canonicalKey, (lower k == lower xfeName) = false := by
    with_unfolding_all decide
  unfold writtenRelay
  rw [values_writeResponse closing _ xfeName h1 h2 h3]
  exact modified_relay_vals rq st up body (lower xfeName) hr hv hc hn hl hconn hx

-- an upstream forwarder's own `X-Forwarder-Error` reaches the client; a reply without one stays without
example : (writtenRelay false { name := [102] } 403 [(xfeName, [[117, 112]])] []).values xfeName = [[117, 112]] ∧
    (writtenRelay false { name := [102] } 403 [(bs "X-Up", [[49]])] []).values xfeName = [] := by
  with_unfolding_all decide

/-- Whatever protocol version the request line names — `http.ReadRequest` takes any `HTTP/<d>.<d>`: the
    cleartext HTTP/2 preface `PRI * HTTP/2.0`, `GET … HTTP/1.7`, `HTTP/0.9` — a generated error response
    and a relayed CONNECT rejection are written as `HTTP/1.0` or `HTTP/1.1` (the status line is
    `HTTP/1.<minor>`, `WireResp.head`): the request's own version when it is one of the two, `HTTP/1.1`
    otherwise (the repaired F36: the version of the request was echoed, `HTTP/2.0 500 …` on an HTTP/1
    connection). -/
theorem c12_response_version_http1 (closing : Bool) (rq : ReqFacts) (st : Nat) (msg err : Bytes) (up : HMap)
    (body : Bytes) :
    (writtenError closing rq st msg err).minor = respMinor rq ∧
      (writtenRelay closing rq st up body).minor = respMinor rq ∧
      (respMinor rq = 0 ∨ respMinor rq = 1) ∧
      (rq.major = 1 → rq.minor ≤ 1 → respMinor rq = rq.minor) ∧
      (¬ (rq.major = 1 ∧ rq.minor ≤ 1) → respMinor rq = 1) := by
  refine ⟨rfl, rfl, ?_, ?_, ?_⟩
  · unfold respMinor
    split
    · rename_i h
      simp only [Bool.and_eq_true, Bool.or_eq_true, beq_iff_eq] at h
      exact h.2
    · exact Or.inr rfl
  · intro h1 h2
    have : rq.minor = 0 ∨ rq.minor = 1 := by omega
    simp [respMinor, h1, this]
  · intro h
    unfold respMinor
    split
    · rename_i h'
      simp only [Bool.and_eq_true, Bool.or_eq_true, beq_iff_eq] at h'
      exact absurd ⟨h'.1, by omega⟩ h
    · rfl

-- `PRI * HTTP/2.0` and `GET … HTTP/1.7` are answered `HTTP/1.1 …`, an HTTP/1.0 request `HTTP/1.0 …`
example : (writtenError false { name := [102], major := 2, minor := 0 } 500 [109] [101]).minor = 1 ∧
    (writtenError false { name := [102], major := 1, minor := 7 } 500 [109] [101]).minor = 1 ∧
    (writtenError false { name := [102], major := 1, minor := 0, close := true } 502 [109] [101]).minor = 0 ∧
    (writtenRelay false { name := [102], major := 1, minor := 7 } 403 [] []).minor = 1 ∧
    ((writtenError false { name := [102], major := 2, minor := 0 } 500 [109] [101]).head.take 9) = bs "HTTP/1.1 " := by
  with_unfolding_all decide

/-! ## C. one fault at any point of an exchange -/

/-- a fault before the reply head is complete — dial, TLS handshake, CONNECT reply, `k` bytes of the
    head, an unparsable head — is answered with ONE complete response: the error response whose status
    and label the classification gives (kept alive unless the request said close), or the upstream
    proxy's own rejection, well-formed; a fault at a point the exchange does not pass changes nothing -/
theorem c12_early_fault_yields_one_response (f : Fault) (ex : Exchange)
    (hf : ∀ k r l, f ≠ .bodyCut k r l) (hc2 : ∀ s n k, f ≠ .connectReply (.rejectedCut s n k)) :
    clientStream f ex = okObs ex ∨
      (∃ k, faultErr f ex = some k ∧
        clientStream f ex = .errorResponse ex.id (classify k).1 (classify k).2 (!ex.reqClose)) ∨
      (∃ s ka, clientStream f ex = .relayedRejection ex.id s true ka) := by
  rcases clientStream_cases f ex with ⟨k, hk, h⟩ | ⟨s, fr, _, _, h⟩ | ⟨k, r, l, hb, _, _⟩ | ⟨s, n, k, hc, _, _⟩ | h
  · rcases faultErr_kind f ex k hk with ⟨_, hn⟩ | ⟨s, hs, _⟩
    · exact Or.inr (Or.inl ⟨k, hk, h.trans (errorObs_generated ex k hn)⟩)
    · subst hs; exact Or.inr (Or.inr ⟨s, _, h⟩)
  · exact Or.inr (Or.inr ⟨s, _, h⟩)
  · exact absurd hb (hf k r l)
  · exact absurd hc (hc2 s n k)
  · exact Or.inl h

-- a head torn inside a line is a malformed reply (500); torn behind a complete line, an early close (502)
example : clientStream (.headCut 17 false false false) { id := 1, headLen := 47, framing := .cl 10, bodyLen := 10 } =
      .errorResponse 1 500 "unexpected_error" true ∧
    clientStream (.headCut 17 false false true) { id := 1, headLen := 47, framing := .cl 10, bodyLen := 10 } =
      .errorResponse 1 502 "unexpected_eof" true ∧
    clientStream (.headCut 0 false false false) { id := 1, headLen := 47, framing := .cl 10, bodyLen := 10 } =
      .errorResponse 1 502 "unexpected_eof" true := by decide

/-- every fault point that raises an error: the status the client reads is the classification's
    (500, 502 or 504), or the upstream proxy's own for a rejected CONNECT -/
theorem c12_fault_status (f : Fault) (ex : Exchange) (k : ErrKind) (h : faultErr f ex = some k) :
    (respStatus k = 500 ∨ respStatus k = 502 ∨ respStatus k = 504) ∨
      ∃ s, ((∃ fr, f = .connectReply (.rejected s fr)) ∨ (∃ n c, f = .connectReply (.rejectedCut s n c))) ∧
        respStatus k = s := by
  rcases faultErr_kind f ex k h with ⟨hu, _⟩ | ⟨s, hs, ht⟩
  · exact Or.inl (c12_upstream_faults_5xx k hu)
  · subst hs
    right
    cases f with
    | connectReply r =>
      cases r with
      | rejected s' fr =>
        simp only [faultErr] at h
        split at h
        · split at h
          · simp at h
          · simp only [Option.some.injEq, ErrKind.connectRejected.injEq] at h
            exact ⟨s', Or.inl ⟨fr, rfl⟩, by simp [respStatus, errorWritten, Written.status, h]⟩
        · simp at h
      | rejectedCut s' n c =>
        simp only [faultErr] at h
        split at h
        · split at h
          · simp at h
          · simp only [Option.some.injEq, ErrKind.connectRejected.injEq] at h
            exact ⟨s', Or.inr ⟨n, c, rfl⟩, by simp [respStatus, errorWritten, Written.status, h]⟩
        · simp at h
      | _ => simp [transportConnectRejection] at ht
    | _ => simp [transportConnectRejection] at ht

example : faultErr .dialTimeout { id := 1 } = some (.opError .dial true) ∧
    respStatus (.opError .dial true) = 504 := by decide

/-- A transport-level CONNECT rejection — `GET https://…` or a request inside an intercepted session,
    through an upstream proxy that answers the transport's own CONNECT with a non-2xx status, whether or
    not the body of that answer arrives — reaches the client as ONE well-formed relayed response with
    the upstream proxy's status, and the connection is kept exactly when the client did not ask for
    `close` (the repaired F12: before, `HTTP/0.0 …` and kept whatever the client asked) -/
theorem c12_transport_connect_rejection_relayed (f : Fault) (ex : Exchange)
    (h : transportConnectRejection f ex = true) :
    ∃ s, f.rejectionStatus = some s ∧
      clientStream f ex = .relayedRejection ex.id s true (!ex.reqClose) ∧
      (300 ≤ s ∧ s < 600 → cleanOutcome ex (clientStream f ex) = true) := by
  have key : ∀ s, f.rejectionStatus = some s → faultErr f ex = some (.connectRejected s) →
      ∃ s, f.rejectionStatus = some s ∧
        clientStream f ex = .relayedRejection ex.id s true (!ex.reqClose) ∧
        (300 ≤ s ∧ s < 600 → cleanOutcome ex (clientStream f ex) = true) := by
    intro s hs hfe
    have hcs : clientStream f ex = .relayedRejection ex.id s true (!ex.reqClose) := by
      simp only [clientStream, hfe]
      rfl
    refine ⟨s, hs, hcs, ?_⟩
    intro hr
    rw [hcs]
    simp only [cleanOutcome, ClientObs.id?, beq_self_eq_true, Bool.true_and, Bool.and_eq_true,
      decide_eq_true_eq]
    omega
  cases f with
  | connectReply r =>
    cases r with
    | rejected s fr =>
      simp only [transportConnectRejection, Bool.and_eq_true, bne_iff_ne, ne_eq] at h
      refine key s rfl ?_
      have hk : (ex.kind == ReqKind.connect) = false := by simpa using h.2
      simp [faultErr, h.1, hk]
    | rejectedCut s n k =>
      simp only [transportConnectRejection, Bool.and_eq_true, bne_iff_ne, ne_eq] at h
      refine key s rfl ?_
      have hk : (ex.kind == ReqKind.connect) = false := by simpa using h.2
      simp [faultErr, h.1, hk]
    | _ => simp [transportConnectRejection] at h
  | _ => simp [transportConnectRejection] at h

example : transportConnectRejection (.connectReply (.rejected 403 true))
      { id := 3, kind := .httpsGet, viaUpstream := true, reqClose := true } = true ∧
    clientStream (.connectReply (.rejected 403 true))
      { id := 3, kind := .httpsGet, viaUpstream := true, reqClose := true } = .relayedRejection 3 403 true false ∧
    clientStream (.connectReply (.rejectedCut 407 6 2))
      { id := 4, kind := .mitm, viaUpstream := true } = .relayedRejection 4 407 true true := by decide

/-- a reply whose head stops after `k` bytes, reset or FIN, surfacing or not: a 502 — the peer closed or
    reset the connection before its reply was complete — unless the bytes that did arrive end in a line
    `http.ReadResponse` takes for malformed (then the 500 of a malformed reply) -/
theorem c12_head_cut_status (k : Nat) (r sf e : Bool) :
    (respStatus (cutErr k r sf e) = 500 ∨ respStatus (cutErr k r sf e) = 502) ∧
      (k = 0 ∨ e = true ∨ (r = true ∧ sf = true) → respStatus (cutErr k r sf e) = 502) := by
  unfold cutErr
  constructor
  · split
    · split <;> decide
    · split
      · decide
      · split <;> decide
  · intro h
    by_cases hk : k = 0
    · subst hk; cases r <;> rfl
    · have hk' : (k == 0) = false := by simpa using hk
      simp only [hk', Bool.false_eq_true, if_false]
      cases r <;> cases sf <;> cases e <;> simp_all <;> decide

/-- Content-Length framing: after a fault in the body the client has strictly fewer body bytes than
    the head declares, then the close — no parser takes that for a whole message -/
theorem c12_cl_cut_is_short (k lost n : Nat) (r : Bool) (ex : Exchange) (hk : ex.kind ≠ .connect)
    (hfr : ex.framing = .cl n) (hwf : (Fault.bodyCut k r lost).wf ex = true) :
    clientStream (.bodyCut k r lost) ex = .prefixThenClose ex.id (.cl n) (k - lost) false .fin ∧
      k - lost < n ∧ (clientStream (.bodyCut k r lost) ex).parsesComplete = false := by
  have hk' : (ex.kind == ReqKind.connect) = false := by
    cases h : ex.kind <;> simp_all
  simp only [Fault.wf, hfr, Bool.and_eq_true, beq_iff_eq, decide_eq_true_eq] at hwf
  obtain ⟨hn, hl, hlt⟩ := hwf
  have hs : clientStream (.bodyCut k r lost) ex = .prefixThenClose ex.id (.cl n) (k - lost) false .fin := by
    simp [clientStream, faultErr, bodyCutObs, hk', hfr]
  refine ⟨hs, by omega, ?_⟩
  rw [hs]
  simp only [ClientObs.parsesComplete, beq_eq_false_iff_ne, ne_eq]
  omega

example : (Fault.bodyCut 7 true 0).wf { id := 1, headLen := 47, framing := .cl 10, bodyLen := 10 } = true := by
  decide

/-- chunked framing (towards an HTTP/1.1 client): after a fault in the body the terminating chunk is
    never written -/
theorem c12_chunked_cut_is_unterminated (k lost : Nat) (r : Bool) (ex : Exchange) (hk : ex.kind ≠ .connect)
    (hfr : ex.framing = .chunked) (hm : (ex.clientMinor == 0) = false) :
    clientStream (.bodyCut k r lost) ex = .prefixThenClose ex.id .chunked (k - lost) false .fin ∧
      (clientStream (.bodyCut k r lost) ex).parsesComplete = false := by
  have hk' : (ex.kind == ReqKind.connect) = false := by
    cases h : ex.kind <;> simp_all
  simp [clientStream, faultErr, bodyCutObs, hk', hfr, hm, ClientObs.parsesComplete]

example : clientStream (.bodyCut 10 false 0) { id := 1, headLen := 47, framing := .chunked, bodyLen := 10 } =
    .prefixThenClose 1 .chunked 10 false .fin := by decide

/-- full clause — FALSE of the unchanged code (F13): whatever the fault, a message that lacks body
    bytes never parses as complete -/
def c12_truncation_detectable_full : Prop :=
  ∀ f ex, f.wf ex = true →
    (clientStream f ex).truncated ex = true → (clientStream f ex).parsesComplete = false

/-- … holds whenever the body is not relayed close-delimited (the origin's reply is not, and a chunked
    one does not go to an HTTP/1.0 client) -/
theorem c12_truncation_detectable_partial (f : Fault) (ex : Exchange) (hfr : relayFraming ex ≠ .eof)
    (hwf : f.wf ex = true) (ht : (clientStream f ex).truncated ex = true) :
    (clientStream f ex).parsesComplete = false := by
  obtain ⟨hne, hch⟩ := relayFraming_ne_eof hfr
  have hcl : ∀ n, ex.framing = .cl n → n = ex.bodyLen := by
    intro n hn
    simp only [Fault.wf, hn, Bool.and_eq_true, beq_iff_eq] at hwf
    exact hwf.1
  rcases clientStream_cases f ex with ⟨k, hk, h⟩ | ⟨s, fr, _, _, h⟩ | ⟨k, r, l, hb, hkc, h⟩ | ⟨s, n, k, hc, _, h⟩ | h
  · rw [h] at ht
    cases k <;> simp [errorObs, errorWritten, ClientObs.truncated] at ht
  · rw [h] at ht; simp [ClientObs.truncated] at ht
  · rw [h]
    subst hb
    cases hf : ex.framing with
    | eof => exact absurd hf hne
    | chunked => simp [bodyCutObs, hf, hch hf, ClientObs.parsesComplete]
    | cl n =>
      have := hcl n hf
      simp only [Fault.wf, hf, Bool.and_eq_true, beq_iff_eq, decide_eq_true_eq] at hwf
      simp only [bodyCutObs, hf, ClientObs.parsesComplete, beq_eq_false_iff_ne, ne_eq]
      omega
  · rw [h]
    subst hc
    simp only [Fault.wf, Bool.and_eq_true, decide_eq_true_eq] at hwf
    simp only [ClientObs.parsesComplete, beq_eq_false_iff_ne, ne_eq]
    omega
  · rw [h, okObs_not_truncated ex hcl] at ht
    exact absurd ht (by simp)

example : relayFraming { id := 1, headLen := 47, framing := .chunked, bodyLen := 10 } ≠ .eof ∧
    (Fault.bodyCut 3 true 1).wf { id := 1, headLen := 47, framing := .chunked, bodyLen := 10 } = true ∧
    (clientStream (.bodyCut 3 true 1) { id := 1, headLen := 47, framing := .chunked, bodyLen := 10 }).truncated
      { id := 1, headLen := 47, framing := .chunked, bodyLen := 10 } = true := by decide

/-- F13: a close-delimited body reset after 5 of 10 bytes reaches the client as head + 5 bytes + a
    normal FIN — truncated, and a complete message to every parser -/
theorem c12_truncation_detectable_witness :
    (Fault.bodyCut 5 true 0).wf { id := 1, headLen := 27, framing := .eof, bodyLen := 10 } = true ∧
      clientStream (.bodyCut 5 true 0) { id := 1, headLen := 27, framing := .eof, bodyLen := 10 } =
        .prefixThenClose 1 .eof 5 false .fin ∧
      (clientStream (.bodyCut 5 true 0) { id := 1, headLen := 27, framing := .eof, bodyLen := 10 }).truncated
        { id := 1, headLen := 27, framing := .eof, bodyLen := 10 } = true ∧
      (clientStream (.bodyCut 5 true 0)
        { id := 1, headLen := 27, framing := .eof, bodyLen := 10 }).parsesComplete = true := by decide

theorem c12_truncation_detectable_full_false : ¬ c12_truncation_detectable_full := by
  intro h
  have := h (.bodyCut 5 true 0) { id := 1, headLen := 27, framing := .eof, bodyLen := 10 } (by decide) (by decide)
  exact absurd this (by decide)

/-- full clause — FALSE of the unchanged code (F13, F37): for every fault point the client stream is
    a clean outcome (`cleanOutcome`: complete well-formed error response / relayed rejection / the
    origin's complete message / a prefix no parser accepts / a close) -/
def c12_clean_outcome_full : Prop := ∀ f ex, f.wf ex = true → cleanOutcome ex (clientStream f ex) = true

/-- … holds for every fault point outside the recorded classes, i.e. whenever the body is not relayed
    close-delimited — CONNECT rejections included, the client's own and the transport's (F12 is
    repaired); a relayed rejection carries a status in [300,600) (the upstream proxy's choice, not the
    proxy's) -/
theorem c12_clean_outcome_partial (f : Fault) (ex : Exchange) (hfr : relayFraming ex ≠ .eof)
    (hst : ∀ s, f.rejectionStatus = some s → 300 ≤ s ∧ s < 600)
    (hwf : f.wf ex = true) : cleanOutcome ex (clientStream f ex) = true := by
  obtain ⟨hne, hch⟩ := relayFraming_ne_eof hfr
  have hcl : ∀ n, ex.framing = .cl n → n = ex.bodyLen := by
    intro n hn
    simp only [Fault.wf, hn, Bool.and_eq_true, beq_iff_eq] at hwf
    exact hwf.1
  rcases clientStream_cases f ex with ⟨k, hk, h⟩ | ⟨s, fr, hf, hkc, h⟩ | ⟨k, r, l, hb, hkc, h⟩ | ⟨s, n, k, hc, _, h⟩ | h
  · rcases faultErr_kind f ex k hk with ⟨hu, hn⟩ | ⟨s, _, ht⟩
    · rw [h, errorObs_generated ex k hn]
      have h5 := c12_upstream_faults_5xx k hu
      have hc : respStatus k = (classify k).1 := by
        cases k <;> first | rfl | exact absurd rfl (hn _)
      simp only [cleanOutcome, ClientObs.id?, beq_self_eq_true, Bool.true_and, Bool.and_eq_true,
        decide_eq_true_eq]
      omega
    · obtain ⟨s', hs', _, hclean⟩ := c12_transport_connect_rejection_relayed f ex ht
      exact hclean (hst s' hs')
  · rw [h]
    have := hst s (by rw [hf]; rfl)
    simp only [cleanOutcome, ClientObs.id?, beq_self_eq_true, Bool.true_and, Bool.and_eq_true,
      decide_eq_true_eq]
    omega
  · rw [h]
    subst hb
    cases hf : ex.framing with
    | eof => exact absurd hf hne
    | chunked =>
      simp [bodyCutObs, hf, hch hf, cleanOutcome, ClientObs.id?, ClientObs.parsesComplete]
    | cl n =>
      have := hcl n hf
      simp only [Fault.wf, hf, Bool.and_eq_true, beq_iff_eq, decide_eq_true_eq] at hwf
      simp only [bodyCutObs, hf, cleanOutcome, ClientObs.id?, ClientObs.parsesComplete, beq_self_eq_true,
        Bool.true_and, Bool.not_eq_eq_eq_not, Bool.not_true, beq_eq_false_iff_ne, ne_eq]
      omega
  · rw [h]
    subst hc
    simp only [Fault.wf, Bool.and_eq_true, decide_eq_true_eq] at hwf
    simp only [cleanOutcome, ClientObs.id?, ClientObs.parsesComplete, beq_self_eq_true,
      Bool.true_and, Bool.not_eq_eq_eq_not, Bool.not_true, beq_eq_false_iff_ne, ne_eq]
    omega
  · rw [h]; exact okObs_clean ex hcl

-- a rejected client CONNECT, and `GET https://…` whose transport-level CONNECT is rejected (asked with close)
example : cleanOutcome { id := 2, kind := .connect, viaUpstream := true }
      (clientStream (.connectReply (.rejected 403 true)) { id := 2, kind := .connect, viaUpstream := true }) = true ∧
    relayFraming { id := 3, kind := .httpsGet, viaUpstream := true, reqClose := true } ≠ .eof ∧
    (Fault.connectReply (.rejected 403 true)).wf { id := 3, kind := .httpsGet, viaUpstream := true, reqClose := true } = true ∧
    cleanOutcome { id := 3, kind := .httpsGet, viaUpstream := true, reqClose := true }
      (clientStream (.connectReply (.rejected 403 true))
        { id := 3, kind := .httpsGet, viaUpstream := true, reqClose := true }) = true := by
  decide

/-- F13 again, as a failure of the clean-outcome clause -/
theorem c12_clean_outcome_witness_eof :
    (Fault.bodyCut 5 true 0).wf { id := 1, headLen := 27, framing := .eof, bodyLen := 10 } = true ∧
      cleanOutcome { id := 1, headLen := 27, framing := .eof, bodyLen := 10 }
        (clientStream (.bodyCut 5 true 0) { id := 1, headLen := 27, framing := .eof, bodyLen := 10 }) = false := by
  decide

/-- F37: a chunked origin body torn after 5 of 10 bytes on its way to an HTTP/1.0 client — relayed
    close-delimited, ended with a FIN: truncated, complete to every parser (FIN or RST at the origin) -/
theorem c12_clean_outcome_witness_http10 :
    (Fault.bodyCut 5 false 0).wf { id := 4, clientMinor := 0, reqClose := true, headLen := 47, framing := .chunked, bodyLen := 10 } = true ∧
      clientStream (.bodyCut 5 false 0)
          { id := 4, clientMinor := 0, reqClose := true, headLen := 47, framing := .chunked, bodyLen := 10 } =
        .prefixThenClose 4 .eof 5 false .fin ∧
      cleanOutcome { id := 4, clientMinor := 0, reqClose := true, headLen := 47, framing := .chunked, bodyLen := 10 }
        (clientStream (.bodyCut 5 false 0)
          { id := 4, clientMinor := 0, reqClose := true, headLen := 47, framing := .chunked, bodyLen := 10 }) = false := by
  decide

theorem c12_clean_outcome_full_false : ¬ c12_clean_outcome_full := by
  intro h
  have := h (.bodyCut 5 true 0) { id := 1, headLen := 27, framing := .eof, bodyLen := 10 } (by decide)
  exact absurd this (by decide)

/-! ## D. several exchanges on one connection -/

/-- whatever the fault, the client reads bytes of this exchange only -/
theorem c12_only_this_exchange (f : Fault) (ex : Exchange) : (clientStream f ex).id? = some ex.id := by
  rcases clientStream_cases f ex with ⟨k, _, h⟩ | ⟨s, fr, _, _, h⟩ | ⟨k, r, l, _, _, h⟩ | ⟨s, n, k, _, _, h⟩ | h
  · rw [h]; cases k <;> simp [errorObs, errorWritten, ClientObs.id?]
  · rw [h]; rfl
  · rw [h]
    simp only [bodyCutObs]
    cases ex.framing with
    | eof => cases r <;> rfl
    | chunked => simp only []; split <;> (try split) <;> rfl
    | cl n => rfl
  · rw [h]; rfl
  · rw [h]
    simp only [okObs]
    cases ex.kind <;> cases ex.framing <;> first | rfl | (simp only []; split <;> rfl)

/-- On a connection, the i-th thing the client reads is the outcome of the i-th exchange (and of no
    other), and it exists only if every earlier exchange left the connection open. -/
theorem c12_kth_observation_is_kth_exchange (l : List (Fault × Exchange)) (i : Nat) (o : ClientObs)
    (h : (connStream l)[i]? = some o) :
    ∃ f ex, l[i]? = some (f, ex) ∧ o = clientStream f ex ∧ o.id? = some ex.id ∧
      ∀ j, j < i → ∃ fj exj, l[j]? = some (fj, exj) ∧ (clientStream fj exj).keepsAlive = true := by
  obtain ⟨f, ex, h1, h2, h3⟩ := connStream_get l i o h
  exact ⟨f, ex, h1, h2, h2 ▸ c12_only_this_exchange f ex, h3⟩

/-- after a torn response (or any outcome that ends the connection) nothing more is written:
    no error response after a partial head or body, no bytes of a later exchange -/
theorem c12_nothing_after_torn_response (l : List (Fault × Exchange)) (i : Nat) (o : ClientObs)
    (h : (connStream l)[i]? = some o) (hk : o.keepsAlive = false) : (connStream l).length = i + 1 :=
  connStream_stops l i o h hk

example :
    connStream [(.dialRefused, { id := 1 }), (.bodyCut 3 false 0, { id := 2, framing := .cl 10, bodyLen := 10 }),
      (.none, { id := 3 })] =
      [.errorResponse 1 502 "net_dial" true, .prefixThenClose 2 (.cl 10) 3 false .fin] := by decide

/-! ## E. `handleLoop` -/

/-- five consecutive non-closeable errors close the connection, whatever came before on it -/
theorem c12_five_consecutive_errors_close (s : LoopState) (pre : List HandleResult) :
    (runLoop s (pre ++ List.replicate 5 .other)).closed = true := by
  rw [runLoop_append]
  by_cases hc : (runLoop s pre).closed = true
  · rw [runLoop_closed hc]; exact hc
  · have hc' : (runLoop s pre).closed = false := by simpa using hc
    rw [runLoop_replicate_other _ hc']
    have h5 : ¬ ((runLoop s pre).errorsN + 5 < maxConsecutiveErrors) := by
      simp only [maxConsecutiveErrors]; omega
    simp [h5]

example : closedAt [.ok, .other, .other, .other, .other, .other, .ok] = some 6 := by decide

/-- fewer than five do not, and the counter shows how many there were -/
theorem c12_fewer_than_five_stay_open (n : Nat) (h : n < 5) :
    runLoop {} (List.replicate n .other) = { errorsN := n, closed := false } := by
  rw [runLoop_replicate_other _ rfl]
  simp [maxConsecutiveErrors, h]

/-- a successful `handle` resets the counter: the five must be consecutive -/
theorem c12_ok_resets_counter (s : LoopState) (h : s.closed = false) :
    loopStep s .ok = { errorsN := 0, closed := false } := by
  simp [loopStep, h]

example : closedAt [.other, .other, .other, .other, .ok, .other, .other, .other, .other] = none := by decide

/-- a closed connection stays closed -/
theorem c12_closed_stays_closed (s : LoopState) (h : s.closed = true) (rs : List HandleResult) :
    runLoop s rs = s := runLoop_closed h rs

/-- which errors count: none of the outcomes of an HTTP/1 exchange does — `handle` returns nil after
    a response it wrote (error responses included) and `errClose` otherwise -/
theorem c12_exchange_results_never_count (f : Fault) (ex : Exchange) :
    resultOf (clientStream f ex) ≠ .other := by
  unfold resultOf
  split <;> simp

/-- … only non-closeable errors of the HTTP/2 interception path do -/
theorem c12_counted_errors (e : H2Err) : h2Result e = .other ↔ e = .dialTimeout ∨ e = .badPreface := by
  cases e <;> simp [h2Result]

/-- the exchange failed and was answered with an error response -/
def isErrorResponse : ClientObs → Bool
  | .errorResponse .. => true
  | _ => false

/-- full clause "after 5 consecutive failed exchanges the connection is closed" read over exchanges —
    FALSE of the unchanged code: a failed exchange that was answered with an error response counts
    as a success of `handle` and resets the counter -/
def c12_five_failed_exchanges_close_full : Prop :=
  ∀ l : List (Fault × Exchange),
    (∀ p ∈ l, p.1 ≠ .none ∧ isErrorResponse (clientStream p.1 p.2) = true) → (connStream l).length ≤ 5

/-- six refused dials on one connection: six 502s, the connection still open -/
theorem c12_five_failed_exchanges_close_witness :
    let l : List (Fault × Exchange) := (List.range 6).map fun i => (.dialRefused, { id := i })
    connStream l = (List.range 6).map (fun i => .errorResponse i 502 "net_dial" true) ∧
      runLoop {} ((connStream l).map resultOf) = { errorsN := 0, closed := false } := by decide

theorem c12_five_failed_exchanges_close_full_false : ¬ c12_five_failed_exchanges_close_full := by
  intro h
  have := h ((List.range 6).map fun i => (.dialRefused, { id := i })) (by decide)
  exact absurd this (by decide)

/-! ## F. `writeResponse`: the writer selection, and the body of a header-only response -/

/-- The table of the writer selection, for every (method, status, header, facts): which writer, by
    the three predicates in code order. -/
theorem c12_writer_selection_table (m : Bytes) (st : Nat) (h : HMap) (r : ResFacts) :
    selectWriter m st h r =
      if m == methodConnect && st / 100 == 2 then Writer.connectOK
      else if isHeaderOnlySpec m st then .headerOnly
      else if isTextEventStream h r then .sseFlush
      else if r.protoMajor == 1 && r.protoMinor == 1 && r.contentLength == -1 then .chunkFlush
      else .plain := by
  unfold selectWriter shouldChunk
  by_cases h1 : (m == methodConnect && st / 100 == 2) = true
  · simp [h1]
  · by_cases h2 : isHeaderOnlySpec m st = true
    · simp [h1, h2]
    · simp [h1, h2]

example : selectWriter (bs "GET") 200 [(bs "Content-Type", [bs "text/event-stream"])] {} = .sseFlush ∧
    selectWriter (bs "GET") 200 [(bs "Content-Type", [bs "Text/Event-Stream ; charset=utf-8"])] { contentLength := -1 } = .sseFlush ∧
    selectWriter (bs "GET") 200 [(bs "Content-Type", [bs "text/plain"])] { contentLength := -1 } = .chunkFlush ∧
    selectWriter (bs "GET") 200 [] { contentLength := 5 } = .plain ∧
    selectWriter (bs "CONNECT") 200 [(bs "Content-Type", [bs "text/event-stream"])] {} = .connectOK ∧
    selectWriter (bs "CONNECT") 403 [] { contentLength := 2 } = .plain := by
  with_unfolding_all decide

/-- A header-only response — any response to HEAD, any 1xx, 204, 304 — is ALWAYS written by the
    header-only writer (or, for the 204 answer to a CONNECT, by the literal), whatever its
    `Content-Type`, its framing fields, its protocol version. -/
theorem c12_header_only_written_by_header_only_writer (m : Bytes) (st : Nat) (h : HMap) (r : ResFacts)
    (ho : isHeaderOnlySpec m st = true) :
    selectWriter m st h r = (if m == methodConnect && st / 100 == 2 then Writer.connectOK else .headerOnly) := by
  unfold selectWriter
  by_cases h1 : (m == methodConnect && st / 100 == 2) = true
  · simp [h1]
  · simp [h1, ho]

example : isHeaderOnlySpec (bs "GET") 101 = true ∧ isHeaderOnlySpec (bs "HEAD") 200 = true ∧
    isHeaderOnlySpec (bs "POST") 304 = true ∧ isHeaderOnlySpec (bs "GET") 199 = true ∧
    isHeaderOnlySpec (bs "GET") 205 = false := by
  with_unfolding_all decide

/-- … hence the body of a header-only response is never read: no field an upstream sends with it
    (an event-stream `Content-Type`, an unknown length, …) selects a writer that touches the body. -/
theorem c12_header_only_body_never_read (m : Bytes) (st : Nat) (h : HMap) (r : ResFacts)
    (ho : isHeaderOnlySpec m st = true) :
    (selectWriter m st h r).readsBody = false := by
  rw [c12_header_only_written_by_header_only_writer m st h r ho]
  split <;> rfl

example : (selectWriter (bs "GET") 101
    [(bs "Connection", [bs "Upgrade"]), (bs "Upgrade", [bs "websocket"]), (bs "Content-Type", [bs "text/event-stream"])]
    { contentLength := -1 }) = .headerOnly := by
  with_unfolding_all decide

/-- exactly the other responses have their body read -/
theorem c12_body_read_iff (m : Bytes) (st : Nat) (h : HMap) (r : ResFacts) :
    (selectWriter m st h r).readsBody = true ↔
      isHeaderOnlySpec m st = false ∧ (m == methodConnect && st / 100 == 2) = false := by
  unfold selectWriter
  by_cases h1 : (m == methodConnect && st / 100 == 2) = true
  · simp [h1, Writer.readsBody]
  · by_cases h2 : isHeaderOnlySpec m st = true
    · simp [h1, h2, Writer.readsBody]
    · simp only [h1, h2, Bool.false_eq_true, ↓reduceIte]
      constructor
      · intro _; simp_all
      · intro _; split <;> (try split) <;> rfl

/-- the `panicBody` sentinel is installed for 101 replies only — which are header-only -/
theorem c12_sentinel_only_under_header_only (m : Bytes) (st : Nat) (h : HMap)
    (hs : bodyAtWrite m st h = some .panicSentinel) :
    st = 101 ∧ isHeaderOnlySpec m st = true := by
  unfold bodyAtWrite at hs
  by_cases h1 : (st == 101) = true
  · have : st = 101 := by simpa using h1
    subst this
    refine ⟨rfl, ?_⟩
    simp [isHeaderOnlySpec, Resp.headerOnly, Resp.bodyAllowed]
  · simp only [h1, Bool.false_eq_true, ↓reduceIte] at hs
    split at hs <;> simp at hs

/-- No reply of an upstream makes `handle` read the sentinel: whatever status, header and framing the
    transport accepted, for whatever request method, the outcome is a written response or a close —
    never `panic("unexpected read")`. -/
theorem c12_upstream_reply_never_panics (m : Bytes) (st : Nat) (h : HMap) (r : ResFacts) :
    relay m st h r ≠ .panicked := by
  unfold relay relayWith
  cases hb : bodyAtWrite m st h with
  | none => simp
  | some b =>
    by_cases hp : b = .panicSentinel
    · subst hp
      have := (c12_sentinel_only_under_header_only m st h hb).2
      simp [c12_header_only_body_never_read m st h r this]
    · simp [hp]

theorem c12_connect_reply_never_panics (st : Nat) (h : HMap) (r : ResFacts) :
    relayConnect st h r ≠ .panicked := by
  simp [relayConnect, relayConnectWith]

example : relay (bs "GET") 101
    [(bs "Connection", [bs "Upgrade"]), (bs "Upgrade", [bs "websocket"]), (bs "Content-Type", [bs "text/event-stream"])] {}
      = .wrote .headerOnly true ∧
    relay (bs "GET") 101 [(bs "Content-Type", [bs "text/event-stream"])] {} = .answeredError 502 "martian_error" ∧
    relay (bs "HEAD") 200 [(bs "Content-Type", [bs "text/event-stream"])] { contentLength := 7 } = .wrote .headerOnly false ∧
    relay (bs "GET") 200 [(bs "Content-Type", [bs "text/event-stream"])] { contentLength := -1 } = .wrote .sseFlush false := by
  with_unfolding_all decide

/-- A reply the transport accepted is answered: the client gets the upstream's response or an error
    response, never a bare close — whatever status, header, framing and request method.  (The repaired
    F42: a `101 Switching Protocols` that is no protocol switch comes with a body that is not writable;
    `handleUpgradeResponse` ended the connection without writing anything.) -/
theorem c12_accepted_reply_answered (m : Bytes) (st : Nat) (h : HMap) (r : ResFacts) :
    relay m st h r ≠ .closedWithoutResponse ∧
      ((∃ w, relay m st h r = .wrote w (st == 101) ∧ w = selectWriter m st h r) ∨
        (st = 101 ∧ protocolSwitch st h = false ∧ relay m st h r = .answeredError 502 "martian_error")) := by
  unfold relay relayWith bodyAtWrite
  by_cases h1 : (st == 101) = true
  · have h101 : st = 101 := by simpa using h1
    have hho : isHeaderOnlySpec m st = true := by
      subst h101; simp [isHeaderOnlySpec, Resp.headerOnly, Resp.bodyAllowed]
    have hrb := c12_header_only_body_never_read m st h r hho
    cases hsw : protocolSwitch st h
    · simp only [h1, Bool.false_eq_true, if_true, if_false]
      exact ⟨by simp, Or.inr ⟨h101, trivial, by decide⟩⟩
    · simp [h1, hrb]
  · simp only [h1, Bool.false_eq_true, if_false]
    by_cases hho : isHeaderOnlySpec m st = true
    · simp [hho]
    · simp [hho]

/-- … a reply that is a protocol switch, or no `101` at all, is written (header-only, or with its body) -/
theorem c12_switch_or_other_reply_written (m : Bytes) (st : Nat) (h : HMap) (r : ResFacts)
    (hs : st = 101 → protocolSwitch st h = true) :
    ∃ w, relay m st h r = .wrote w (st == 101) ∧ w = selectWriter m st h r := by
  rcases (c12_accepted_reply_answered m st h r).2 with hw | ⟨h101, hns, _⟩
  · exact hw
  · rw [hs h101] at hns; exact absurd hns (by simp)

example : protocolSwitch 101 [(bs "Connection", [bs "keep-alive, Upgrade"]), (bs "Upgrade", [bs "websocket"])] = true := by
  with_unfolding_all decide

/-- … and a `101` that is no protocol switch — no `Upgrade` field, or no `upgrade` token in `Connection` —
    is answered with the `502` error response of `errNoProtocolSwitch`, whatever else the reply carries -/
theorem c12_not_a_switch_answered_502 (m : Bytes) (h : HMap) (r : ResFacts) (hns : protocolSwitch 101 h = false) :
    relay m 101 h r = .answeredError 502 "martian_error" ∧ classify noProtocolSwitchErr = (502, "martian_error") := by
  refine ⟨?_, by decide⟩
  rcases (c12_accepted_reply_answered m 101 h r).2 with ⟨w, hw, _⟩ | ⟨_, _, he⟩
  · exfalso
    unfold relay relayWith bodyAtWrite at hw
    simp [hns] at hw
  · exact he

example : protocolSwitch 101 [(bs "Content-Type", [bs "text/event-stream"])] = false ∧
    protocolSwitch 101 [(bs "Connection", [bs "Upgrade"])] = false ∧
    protocolSwitch 101 [(bs "Upgrade", [bs "websocket"])] = false ∧
    relay (bs "GET") 101 [(bs "Content-Type", [bs "text/event-stream"])] {} = .answeredError 502 "martian_error" ∧
    relay (bs "HEAD") 101 [(bs "Connection", [bs "Upgrade"])] {} = .answeredError 502 "martian_error" ∧
    relay (bs "GET") 101 [(bs "Upgrade", [bs "websocket"])] { contentLength := -1 } = .answeredError 502 "martian_error" := by
  with_unfolding_all decide

/-- The order of the cases is what the theorem rests on: with the event-stream case ahead of the
    header-only case (every case unchanged in itself) a `101 Switching Protocols` reply labelled
    `text/event-stream` reads the sentinel — the process dies (seed c12-1). -/
theorem c12_writer_order_matters :
    relayWith selectWriterSSEFirst (bs "GET") 101
      [(bs "Connection", [bs "Upgrade"]), (bs "Upgrade", [bs "websocket"]), (bs "Content-Type", [bs "text/event-stream"])] {}
        = .panicked := by
  with_unfolding_all decide


/-! ## G. the dialer's metric label -/

/-- the decoder `validUTF8` (= `utf8.ValidString`) decides the RFC 3629 predicate: the bytes are a
    sequence of well-formed scalar encodings -/
theorem c12_validUTF8_iff (l : Bytes) : validUTF8 l = true ↔ ValidUTF8 l := validUTF8_iff l

example : validUTF8 [0x61, 0xC3, 0xA9, 0xE2, 0x82, 0xAC, 0xF0, 0x9F, 0x98, 0x80] = true ∧
    validUTF8 [0x61, 0xC3] = false ∧ validUTF8 [0xED, 0xA0, 0x80] = false ∧ validUTF8 [0xC0, 0xAF] = false ∧
    validUTF8 [0xF4, 0x90, 0x80, 0x80] = false ∧ validUTF8 [0x80] = false := by decide

/-- whatever address the dialer is handed — whatever host a client managed to name — the label is valid
    UTF-8: `WithLabelValues` does not panic -/
theorem c12_dial_label_valid_utf8 (addr : Bytes) : ValidUTF8 (addr2Host addr) := by
  unfold addr2Host
  split
  · exact (validUTF8_iff _).1 fixedLabels_valid.1
  · split
    · exact (validUTF8_iff _).1 fixedLabels_valid.2.1
    · split
      · exact (validUTF8_iff _).1 fixedLabels_valid.2.1
      · split
        · exact (validUTF8_iff _).1 fixedLabels_valid.2.2
        · rename_i h
          exact (validUTF8_iff _).1 (by simpa using h)

-- a host that is not valid UTF-8 (F35), one that is, an address that does not split, localhost spelled out
example : addr2Host [0x62, 0x61, 0x64, 0xF0, 0x3A, 0x38, 0x31] = bs "invalid" ∧
    addr2Host [0x61, 0xC3, 0xA9, 0x3A, 0x38, 0x31] = [0x61, 0xC3, 0xA9] ∧
    addr2Host [0x61, 0xC3, 0xA9] = bs "unknown" ∧
    addr2Host (bs "[::ffff:127.0.0.1]:80") = bs "localhost" := by with_unfolding_all decide

/-- the label is the host of the address or one of three fixed names: it is never longer than the
    address (there is no other bound: `addr2Host` does not cut) -/
theorem c12_dial_label_never_longer (addr : Bytes) : (addr2Host addr).length ≤ max addr.length 9 := by
  unfold addr2Host
  split
  · rw [fixedLabels_length.1]; omega
  · rename_i host port hsp
    have := netSplitHostPort_host_length addr host port hsp
    split
    · rw [fixedLabels_length.2.1]; omega
    · split
      · rw [fixedLabels_length.2.1]; omega
      · split
        · rw [fixedLabels_length.2.2]; omega
        · omega

/-- a step behind the validity check keeps the guarantee exactly when it preserves validity -/
theorem c12_label_step_preserving_validity (cut : Bytes → Bytes) (h : ∀ l, ValidUTF8 l → ValidUTF8 (cut l))
    (addr : Bytes) : ValidUTF8 (boundedLabel cut addr) := h _ (c12_dial_label_valid_utf8 addr)

/-- bounding the label at an encoding boundary: valid UTF-8 and at most `n` bytes for EVERY address and
    every bound, and a label that fits is left alone -/
theorem c12_label_rune_truncation_valid (n : Nat) (addr : Bytes) :
    ValidUTF8 (boundedLabel (truncRunes n) addr) ∧ (boundedLabel (truncRunes n) addr).length ≤ n ∧
      ((addr2Host addr).length ≤ n → boundedLabel (truncRunes n) addr = addr2Host addr) :=
  ⟨truncRunes_valid n _ (c12_dial_label_valid_utf8 addr), truncRunesAux_length _ n _,
    truncRunes_id n _ (c12_dial_label_valid_utf8 addr)⟩

-- the cut at an encoding boundary keeps the 252 bytes in front of the `é`, the whole label when it fits
set_option maxRecDepth 16384 in
example : truncRunes 253 (List.replicate 252 97 ++ [0xC3, 0xA9, 46]) = List.replicate 252 97 ∧
    truncRunes 254 (List.replicate 252 97 ++ [0xC3, 0xA9, 46]) = List.replicate 252 97 ++ [0xC3, 0xA9] ∧
    truncRunes 300 (List.replicate 252 97 ++ [0xC3, 0xA9, 46]) = List.replicate 252 97 ++ [0xC3, 0xA9, 46] := by decide

/-- 252 ASCII bytes, `é` (C3 A9), `.invalid:81` -/
def straddlingAddr : Bytes :=
  List.replicate 252 97 ++ [0xC3, 0xA9] ++ [46, 105, 110, 118, 97, 108, 105, 100, 58, 56, 49]

set_option maxRecDepth 16384 in
/-- validate, THEN cut at byte 253: the label of a 262-byte host whose `é` lies across the cut is valid
    before the cut and ends in a lone lead byte after it — the value prometheus panics on -/
theorem c12_label_byte_truncation_witness :
    validUTF8 (addr2Host straddlingAddr) = true ∧ (addr2Host straddlingAddr).length = 262 ∧
      (boundedLabel (truncBytes 253) straddlingAddr).length = 253 ∧
      validUTF8 (boundedLabel (truncBytes 253) straddlingAddr) = false := by
  with_unfolding_all decide

/-- full clause for the byte cut — FALSE: -/
def c12_label_byte_truncation_full : Prop := ∀ n addr, ValidUTF8 (boundedLabel (truncBytes n) addr)

theorem c12_label_byte_truncation_full_false : ¬ c12_label_byte_truncation_full := by
  intro h
  have := (validUTF8_iff _).2 (h 253 straddlingAddr)
  rw [c12_label_byte_truncation_witness.2.2.2] at this
  exact absurd this (by decide)

/-! ## H. the handler variant -/

/-- faults before the reply head is complete are answered by the same `errorResponse` with the same
    status and label as on the TCP server (net/http's server decides about the connection) -/
theorem c12_handler_early_fault_same_verdict (f : Fault) (ex : Exchange) (k : ErrKind) (h : faultErr f ex = some k) :
    (∃ st l, clientStream f ex = .errorResponse ex.id st l (!ex.reqClose) ∧
        handlerStream f ex = .errorResponse ex.id st l (handlerKeeps ex)) ∨
      (∃ s, clientStream f ex = .relayedRejection ex.id s true (!ex.reqClose) ∧
        handlerStream f ex = .relayedRejection ex.id s true (handlerKeeps ex)) := by
  simp only [clientStream, handlerStream, handlerStreamWith, h, errorObs]
  cases errorWritten k with
  | relay s => exact Or.inr ⟨s, rfl, rfl⟩
  | generated s l => exact Or.inl ⟨s, l, rfl, rfl⟩

example : handlerStream (.headCut 17 false false true) { id := 1, headLen := 47, framing := .chunked, bodyLen := 10 } =
    .errorResponse 1 502 "unexpected_eof" true := by decide

/-- THE CLAUSE for the handler variant: for every cut point of the body under every framing the server
    can signal truncation with (Content-Length, chunked; a close-delimited origin body ended by a reset
    included — it goes out chunked), the client reads a prefix and a close: no terminating chunk, fewer
    bytes than declared, never a message a parser takes for complete — and nothing to reuse -/
theorem c12_handler_torn_body_never_complete (ex : Exchange) (k lost : Nat) (r : Bool)
    (hk : ex.kind ≠ .connect) (hfr : handlerFraming ex ≠ .eof) (hwf : (Fault.bodyCut k r lost).wf ex = true)
    (herr : ex.framing = .eof → r = true) :
    (handlerStream (.bodyCut k r lost) ex).parsesComplete = false ∧
      (handlerStream (.bodyCut k r lost) ex).keepsAlive = false := by
  obtain ⟨hs, hpc⟩ := handlerBodyCut_abort abortAlways ex k lost r hk hfr hwf herr ⟨rfl, rfl⟩
  exact ⟨hpc, by rw [handlerStream, hs]; rfl⟩

example : (Fault.bodyCut 5 true 0).wf { id := 1, headLen := 27, framing := .eof, bodyLen := 10 } = true ∧
    handlerFraming { id := 1, headLen := 27, framing := .eof, bodyLen := 10 } ≠ .eof ∧
    handlerStream (.bodyCut 5 true 0) { id := 1, headLen := 27, framing := .eof, bodyLen := 10 } =
      .prefixThenClose 1 .chunked 5 false .fin := by decide

/-- … and that is so exactly for the policies that abort on the two errors an upstream can cause: the
    clause characterises what `writeResponse` may do with the error of the body copy -/
theorem c12_handler_policy_iff (p : CopyPolicy) :
    (∀ (ex : Exchange) (k lost : Nat) (r : Bool), ex.kind ≠ .connect → handlerFraming ex ≠ .eof →
        (Fault.bodyCut k r lost).wf ex = true → (ex.framing = .eof → r = true) →
        (handlerStreamWith p (.bodyCut k r lost) ex).parsesComplete = false) ↔
      (p .upstreamEOF = .abort ∧ p .upstreamReset = .abort) := by
  constructor
  · intro h
    have h1 := h { id := 1, headLen := 47, framing := .chunked, bodyLen := 10 } 5 0 false (by decide) (by decide) (by decide) (by decide)
    have h2 := h { id := 1, headLen := 47, framing := .chunked, bodyLen := 10 } 5 0 true (by decide) (by decide) (by decide) (by decide)
    constructor
    · cases hp : p .upstreamEOF with
      | abort => rfl
      | returns =>
        simp [handlerStreamWith, faultErr, handlerBodyCutWith, copyErrOf, hp, serverEnd, handlerFraming,
          ClientObs.parsesComplete] at h1
    · cases hp : p .upstreamReset with
      | abort => rfl
      | returns =>
        simp [handlerStreamWith, faultErr, handlerBodyCutWith, copyErrOf, hp, serverEnd, handlerFraming,
          ClientObs.parsesComplete] at h2
  · intro hp ex k lost r hk hfr hwf herr
    exact (handlerBodyCut_abort p ex k lost r hk hfr hwf herr hp).2

/-- "the client went away, nobody is left to abort the response for": `isClosedConnError` also matches
    what the UPSTREAM side of the copy reports (unexpected EOF, ECONNRESET); a handler that returns on
    such errors has the server finish a body torn after 5 of 10 bytes — terminating chunk appended,
    connection kept: truncated, complete to every parser, reusable.  Content-Length replies are still
    caught by the server's own accounting. -/
theorem c12_handler_return_normally_witness :
    CopyErr.closedConnLike .upstreamEOF = true ∧ CopyErr.closedConnLike .upstreamReset = true ∧
      (Fault.bodyCut 5 false 0).wf { id := 1, headLen := 47, framing := .chunked, bodyLen := 10 } = true ∧
      handlerStreamWith returnOnClosedConn (.bodyCut 5 false 0) { id := 1, headLen := 47, framing := .chunked, bodyLen := 10 } =
        .complete 1 .chunked 5 true ∧
      handlerStreamWith returnOnClosedConn (.bodyCut 5 true 0) { id := 1, headLen := 47, framing := .chunked, bodyLen := 10 } =
        .complete 1 .chunked 5 true ∧
      cleanOutcome { id := 1, headLen := 47, framing := .chunked, bodyLen := 10 }
        (handlerStreamWith returnOnClosedConn (.bodyCut 5 false 0) { id := 1, headLen := 47, framing := .chunked, bodyLen := 10 }) = false ∧
      handlerStreamWith returnOnClosedConn (.bodyCut 5 false 0) { id := 1, headLen := 47, framing := .cl 10, bodyLen := 10 } =
        .prefixThenClose 1 (.cl 10) 5 false .fin := by decide

/-- truncation is detectable for every fault point (the analogue of `c12_truncation_detectable_partial`;
    the hypothesis on close-delimited origin bodies is weaker here: only their regular end by FIN, which
    IS the end of the message, is set aside — a reset is signalled) -/
theorem c12_handler_truncation_detectable (f : Fault) (ex : Exchange) (hk : ex.kind ≠ .connect)
    (hfr : handlerFraming ex ≠ .eof) (hwf : f.wf ex = true)
    (heof : ∀ k l, f = .bodyCut k false l → ex.framing ≠ .eof)
    (ht : (handlerStream f ex).truncated ex = true) : (handlerStream f ex).parsesComplete = false := by
  have hk' : (ex.kind == ReqKind.connect) = false := by
    cases h : ex.kind <;> simp_all
  have hcl : ∀ n, ex.framing = .cl n → n = ex.bodyLen := by
    intro n hn
    simp only [Fault.wf, hn, Bool.and_eq_true, beq_iff_eq] at hwf
    exact hwf.1
  have hok : (handlerOk ex).truncated ex = false := by
    unfold handlerOk handlerComplete
    cases hkk : ex.kind <;> first
      | exact absurd hkk hk
      | (simp only []
         cases hf : handlerFraming ex with
         | eof => exact absurd hf hfr
         | cl n => simp [ClientObs.truncated]
         | chunked => simp [ClientObs.truncated])
  cases hfe : faultErr f ex with
  | some k =>
    rcases c12_handler_early_fault_same_verdict f ex k hfe with ⟨st, l, _, h⟩ | ⟨s, _, h⟩ <;>
      (rw [h] at ht; simp [ClientObs.truncated] at ht)
  | none =>
    cases f with
    | bodyCut k r lost =>
      have herr : ex.framing = .eof → r = true := by
        intro hf
        cases r with
        | true => rfl
        | false => exact absurd hf (heof k lost rfl)
      exact (c12_handler_torn_body_never_complete ex k lost r hk hfr hwf herr).1
    | connectReply rp =>
      have : handlerStream (.connectReply rp) ex = handlerOk ex := by
        cases rp <;> simp [handlerStream, handlerStreamWith, hfe, hk']
      rw [this, hok] at ht
      exact absurd ht (by simp)
    | _ =>
      all_goals
        (simp only [handlerStream, handlerStreamWith, hfe] at ht
         rw [hok] at ht
         exact absurd ht (by simp))

example : handlerFraming { id := 1, headLen := 47, framing := .chunked, bodyLen := 10 } ≠ .eof ∧
    (Fault.bodyCut 3 true 1).wf { id := 1, headLen := 47, framing := .chunked, bodyLen := 10 } = true ∧
    (handlerStream (.bodyCut 3 true 1) { id := 1, headLen := 47, framing := .chunked, bodyLen := 10 }).truncated
      { id := 1, headLen := 47, framing := .chunked, bodyLen := 10 } = true ∧
    (handlerStream (.bodyCut 3 true 1) { id := 1, headLen := 47, framing := .chunked, bodyLen := 10 }).parsesComplete = false := by
  decide

/-- the same at the level of bytes: whatever pieces the copy handed the server before it failed, the
    chunks without the last-chunk are no complete body to the RFC 7230 reader … -/
theorem c12_handler_aborted_chunked_never_parses (pieces : List Bytes) (h : ∀ p ∈ pieces, p ≠ []) :
    bodyParsesComplete .chunked (handlerBodyWire .chunked pieces .abort) = false := by
  simp [bodyParsesComplete, handlerBodyWire, decodeChunked_unterminated pieces h]

/-- … under Content-Length fewer bytes than declared are none either, however the handler ends … -/
theorem c12_handler_short_cl_never_parses (n : Nat) (pieces : List Bytes) (e : HandlerEnd)
    (h : pieces.flatten.length < n) : bodyParsesComplete (.cl n) (handlerBodyWire (.cl n) pieces e) = false := by
  simp only [bodyParsesComplete, handlerBodyWire]
  exact decide_eq_false (by omega)

example : bodyParsesComplete (.cl 10) (handlerBodyWire (.cl 10) [[104, 105], [33]] .returns) = false ∧
    bodyParsesComplete .chunked (handlerBodyWire .chunked [[104, 105], [33]] .abort) = false ∧
    bodyParsesComplete .chunked (handlerBodyWire .chunked [[104, 105], [33]] .returns) = true := by decide

/-- … and when the handler returns the reader accepts the torn body as complete (`pieces.flatten`, however
    little of the origin's body that is) and takes what follows on the connection for the next message -/
theorem c12_handler_returned_chunked_parses (pieces : List Bytes) (h : ∀ p ∈ pieces, p ≠ []) (next : Bytes) :
    Resp.decodeChunked (handlerBodyWire .chunked pieces .returns ++ next) = some (pieces.flatten, [], next) ∧
      bodyParsesComplete .chunked (handlerBodyWire .chunked pieces .returns) = true := by
  have h1 := decodeChunked_terminated pieces h next
  have h2 := decodeChunked_terminated pieces h []
  simp only [List.append_nil] at h2
  refine ⟨by simpa [handlerBodyWire] using h1, ?_⟩
  simp only [bodyParsesComplete, handlerBodyWire, h2, Option.isSome_some]

example : handlerBodyWire .chunked [[104, 105]] .abort = [50, 13, 10, 104, 105, 13, 10] ∧
    handlerBodyWire .chunked [[104, 105]] .returns = [50, 13, 10, 104, 105, 13, 10, 48, 13, 10, 13, 10] := by decide

/-! ## I. the accept loop -/

/-- THE TABLE: what each error says of itself, whether the condition passes by itself, and what the
    unchanged `Serve` does with it in a fresh loop.  The errors that pass are exactly the ones retried. -/
theorem c12_accept_classification_table (e : AcceptErr) :
    (e.passes = true ↔ retryTemporary e.shape = true) ∧
      ((e = .emfile ∨ e = .enfile ∨ e = .eintr ∨ e = .econnaborted ∨ e = .econnreset) →
        e.shape = { netError := true, temporary := true, timeout := false, closed := false } ∧ acceptStep e = .retry 5) ∧
      ((e = .deadline ∨ e = .etimedout) →
        e.shape = { netError := true, temporary := true, timeout := true, closed := false } ∧ acceptStep e = .retry 5) ∧
      (e = .closed → e.shape = { netError := true, temporary := false, timeout := false, closed := true } ∧ acceptStep e = .ret) ∧
      (e = .einval → e.shape = { netError := true, temporary := false, timeout := false, closed := false } ∧ acceptStep e = .ret) ∧
      (e = .plain → e.shape = { netError := false, temporary := false, timeout := false, closed := false } ∧ acceptStep e = .ret) := by
  cases e <;> decide

/-- THE CLAUSE: for every finite sequence of Accept errors that pass by themselves — descriptor exhaustion
    of the process or the system, aborted or reset connections, interrupted calls, time-outs, in any order
    and number — the loop is still accepting afterwards: each error was answered by a retry after a delay
    between 5 ms and 1 s, no connection was lost, and the next client is served -/
theorem c12_temporary_accept_errors_never_stop_serving (es : List AcceptErr) (h : ∀ e ∈ es, e.passes = true)
    (st : AcceptState) (hst : st.returned = false) (hd : DelayOk st.delay) :
    (acceptRun st (es.map .err)).1.returned = false ∧
      (∀ o ∈ (acceptRun st (es.map .err)).2, ∃ d, o = .action (.retry d) ∧ 5 ≤ d ∧ d ≤ 1000) ∧
      (acceptRun st (es.map .err ++ [.conn])).2.getLast? = some .served ∧
      (acceptRun st (es.map .err ++ [.conn])).1.served = st.served + 1 := by
  have hp : ∀ e ∈ es, retryTemporary e.shape = true := fun e he => ((c12_accept_classification_table e).1).mp (h e he)
  obtain ⟨h1, h2, _, h4⟩ := acceptRunWith_retried retryTemporary es hp st hst hd
  refine ⟨h1, h4, ?_⟩
  have happ : ∀ (evs : List AcceptEv) (s : AcceptState),
      acceptRunWith retryTemporary s (evs ++ [.conn]) =
        ((acceptStepWith retryTemporary (acceptRunWith retryTemporary s evs).1 .conn).1,
          (acceptRunWith retryTemporary s evs).2 ++ [(acceptStepWith retryTemporary (acceptRunWith retryTemporary s evs).1 .conn).2]) := by
    intro evs
    induction evs with
    | nil => intro s; simp [acceptRunWith]
    | cons ev evs ih => intro s; simp [acceptRunWith, ih]
  unfold acceptRun
  rw [happ, acceptStepWith_conn _ _ h1]
  simp [h2]

example : (∀ e ∈ [AcceptErr.emfile, .emfile, .enfile, .econnaborted, .eintr, .deadline], e.passes = true) ∧
    (acceptRun {} ([AcceptErr.emfile, .emfile, .enfile, .econnaborted, .eintr, .deadline].map .err ++ [.conn])).2 =
      [.action (.retry 5), .action (.retry 10), .action (.retry 20), .action (.retry 40), .action (.retry 80),
        .action (.retry 160), .served] := by decide

/-- the schedule: the delay before the `(i+1)`-th consecutive retry is 5 ms · 2^i, capped at 1 s; an
    accepted connection starts it over -/
theorem c12_accept_backoff_schedule (e : AcceptErr) (h : e.passes = true) (i : Nat) :
    (acceptRun {} (List.replicate (i + 1) (.err e))).1.delay = min (5 * 2 ^ i) 1000 ∧
      (acceptRun {} (List.replicate (i + 1) (.err e) ++ [.conn])).1.delay = 0 := by
  have hp := ((c12_accept_classification_table e).1).mp h
  have hd := acceptRunWith_replicate_delay retryTemporary e hp (i + 1) {} rfl
  have hr := (acceptRunWith_retried retryTemporary (List.replicate (i + 1) e)
    (fun x hx => by rw [List.eq_of_mem_replicate hx]; exact hp) {} rfl (Or.inl rfl)).1
  rw [List.map_replicate] at hr
  constructor
  · unfold acceptRun
    rw [hd]
    exact delayAfter_succ i
  · have happ : ∀ (evs : List AcceptEv) (s : AcceptState),
        (acceptRunWith retryTemporary s (evs ++ [.conn])).1 =
          (acceptStepWith retryTemporary (acceptRunWith retryTemporary s evs).1 .conn).1 := by
      intro evs
      induction evs with
      | nil => intro s; simp [acceptRunWith]
      | cons ev evs ih => intro s; simp [acceptRunWith, ih]
    unfold acceptRun
    rw [happ, acceptStepWith_conn _ _ hr]

example : (acceptRun {} (List.replicate 9 (.err .emfile))).1.delay = 1000 ∧
    (acceptRun {} (List.replicate 8 (.err .emfile))).1.delay = 640 := by decide

/-- an error that does not pass ends the loop: `Serve` returns, the listener is closed, and from then on
    every client is refused and no later error is seen -/
theorem c12_permanent_accept_error_ends_loop (e : AcceptErr) (h : e.passes = false) (st : AcceptState)
    (hst : st.returned = false) (evs : List AcceptEv) :
    (acceptRun st (.err e :: evs)).2.head? = some (.action .ret) ∧
      (acceptRun st (.err e :: evs)).1.returned = true ∧
      (acceptRun st (.err e :: evs)).1.served = st.served ∧
      ∀ o ∈ (acceptRun st (.err e :: evs)).2.tail, o = .refused ∨ o = .unseen := by
  have hp : retryTemporary e.shape = false := by
    cases hx : retryTemporary e.shape with
    | false => rfl
    | true => rw [((c12_accept_classification_table e).1).mpr hx] at h; cases h
  obtain ⟨h1, h2⟩ := acceptRunWith_returned retryTemporary evs { st with returned := true } rfl
  unfold acceptRun
  rw [acceptRunWith_cons, acceptStepWith_ended _ _ _ hst hp]
  simp only [List.head?_cons, List.tail_cons, h1, true_and]
  exact h2

example : (acceptRun {} [.conn, .err .closed, .conn, .err .emfile]).2 = [.served, .action .ret, .refused, .unseen] := by
  decide

/-- … and that is so exactly for the loops that retry every error that passes: the clause characterises
    the predicate `Serve` may decide by -/
theorem c12_accept_retry_predicate_iff (p : RetryPred) :
    (∀ (es : List AcceptErr) (st : AcceptState), (∀ e ∈ es, e.passes = true) → st.returned = false → DelayOk st.delay →
        (acceptRunWith p st (es.map .err)).1.returned = false) ↔
      (∀ e : AcceptErr, e.passes = true → p e.shape = true) := by
  constructor
  · intro hall e he
    cases hp : p e.shape with
    | true => rfl
    | false =>
      have := hall [e] {} (by simpa using he) rfl (Or.inl rfl)
      simp [acceptRunWith, acceptStepWith_ended p {} e rfl hp] at this
  · intro hp es st hes hst hd
    exact (acceptRunWith_retried p es (fun e he => hp e (hes e he)) st hst hd).1

/-- "Temporary is deprecated, the errors worth retrying are time-outs": EMFILE is temporary and no
    time-out — one failed `accept4` while a peer holds the descriptors, and `Serve` returns: the listener is
    closed, the next client is refused although the descriptors are free again.  (A time-out is still retried.) -/
theorem c12_accept_timeout_only_witness :
    AcceptErr.emfile.passes = true ∧ retryTimeoutOnly AcceptErr.emfile.shape = false ∧
      (acceptRunWith retryTimeoutOnly {} [.conn, .err .emfile, .conn]).2 = [.served, .action .ret, .refused] ∧
      (acceptRunWith retryTimeoutOnly {} [.conn, .err .emfile, .conn]).1.returned = true ∧
      (acceptRunWith retryTimeoutOnly {} [.conn, .err .deadline, .conn]).2 = [.served, .action (.retry 5), .served] ∧
      (acceptRun {} [.conn, .err .emfile, .conn]).2 = [.served, .action (.retry 5), .served] := by decide

/-! ## J. the HTTP log mode -/

/-- in EVERY mode the logger is a transparent wrapper around the body it is shown: the same terminal
    condition (regular end | error), never a byte that was not there, and a body that ends regularly byte
    for byte as it was -/
theorem c12_logging_transparent (m : LogMode) : Transparent (wrapBody m) := wrapBody_transparent m

example : wrapBody .body { pieces := [[104, 105], [33]], ending := .clean } = { pieces := [[104, 105, 33]], ending := .clean } ∧
    wrapBody .body { pieces := [[104, 105], [33]], ending := .err } = { pieces := [], ending := .err } ∧
    wrapBody .headers { pieces := [[104, 105], [33]], ending := .err } = { pieces := [[104, 105], [33]], ending := .err } := by
  decide

/-- whatever sits in the path of a body — as long as it is transparent — a body that ended with an error
    never reads back as a complete one under a framing that can tell (chunked: no last-chunk;
    Content-Length: fewer bytes than declared) -/
theorem c12_torn_body_never_complete_through_transparent_wrapper (w : BodyStream → BodyStream) (hw : Transparent w)
    (fr : Framing) (b : BodyStream) (hfr : fr ≠ .eof) (herr : b.ending = .err) (hne : ∀ p ∈ (w b).pieces, p ≠ [])
    (hcl : ∀ n, fr = .cl n → b.bytes.length < n) :
    bodyParsesComplete fr (relayBodyWire fr (w b)) = false :=
  torn_never_complete_through w hw fr b hfr herr hne hcl

/-- THE CLAUSE, independent of the log mode: a reply body torn upstream is never written as a complete one -/
theorem c12_torn_reply_never_complete_under_any_log_mode (m : LogMode) (fr : Framing) (b : BodyStream)
    (hfr : fr ≠ .eof) (herr : b.ending = .err) (hne : ∀ p ∈ b.pieces, p ≠ [])
    (hcl : ∀ n, fr = .cl n → b.bytes.length < n) :
    bodyParsesComplete fr (relayBodyWire fr (wrapBody m b)) = false :=
  torn_never_complete_through (wrapBody m) (wrapBody_transparent m) fr b hfr herr (wrapBody_pieces_ne m b hne) hcl

example : bodyParsesComplete .chunked (relayBodyWire .chunked (wrapBody .body { pieces := [[104, 105]], ending := .err })) = false ∧
    bodyParsesComplete .chunked (relayBodyWire .chunked (wrapBody .url { pieces := [[104, 105]], ending := .err })) = false ∧
    relayBodyWire .chunked (wrapBody .url { pieces := [[104, 105]], ending := .err }) = [50, 13, 10, 104, 105, 13, 10] := by
  decide

/-- … and a reply body that ended regularly arrives byte for byte, in every mode and under every framing -/
theorem c12_complete_reply_intact_under_any_log_mode (m : LogMode) (b : BodyStream) (hc : b.ending = .clean)
    (hne : ∀ p ∈ b.pieces, p ≠ []) (next : Bytes) (n : Nat) :
    Resp.decodeChunked (relayBodyWire .chunked (wrapBody m b) ++ next) = some (b.bytes, [], next) ∧
      relayBodyWire (.cl n) (wrapBody m b) = b.bytes ∧ relayBodyWire .eof (wrapBody m b) = b.bytes := by
  obtain ⟨he, _, hb⟩ := wrapBody_transparent m b
  have hend : relayEnd (wrapBody m b).ending = .returns := by rw [he, hc]; rfl
  have hbytes : (wrapBody m b).pieces.flatten = b.bytes := hb hc
  have h1 := decodeChunked_terminated (wrapBody m b).pieces (wrapBody_pieces_ne m b hne) next
  rw [hbytes] at h1
  refine ⟨?_, ?_, ?_⟩
  · simpa [relayBodyWire, hend, handlerBodyWire] using h1
  · simp [relayBodyWire, handlerBodyWire, hbytes]
  · simp [relayBodyWire, handlerBodyWire, hbytes]

/-- the request side: an upload whose body ended with an error (the client closed or reset inside it) is
    never forwarded as a complete request, whatever the log mode -/
theorem c12_torn_upload_never_complete (m : LogMode) (fr : Framing) (b : BodyStream)
    (hfr : fr ≠ .eof) (herr : b.ending = .err) (hne : ∀ p ∈ b.pieces, p ≠ [])
    (hcl : ∀ n, fr = .cl n → b.bytes.length < n) :
    bodyParsesComplete fr (forwardedUpload m fr b) = false :=
  torn_never_complete_through (fun b => b) transparent_id fr b hfr herr hne hcl

example : bodyParsesComplete (.cl 10) (forwardedUpload .body (.cl 10) { pieces := tornPieces 4, ending := .err }) = false ∧
    bodyParsesComplete .chunked (forwardedUpload .body .chunked { pieces := tornPieces 4, ending := .err }) = false ∧
    bodyParsesComplete .chunked (forwardedUpload .body .chunked { pieces := tornPieces 4, ending := .clean }) = true := by
  decide

/-- "keep the data read before an error so that a message that broke off still shows up in the log": the
    snapshot that always puts a replaying reader back is NOT transparent — the two bytes of a torn chunked
    body go out followed by the last-chunk: a complete body to the RFC 7230 reader (the code as it is writes
    nothing behind the head and closes) -/
theorem c12_snapshot_drop_error_witness :
    ¬ Transparent (wrapBodyWith snapshotDropErr .body) ∧
      relayBodyWire .chunked (wrapBodyWith snapshotDropErr .body { pieces := [[104, 105]], ending := .err }) =
        [50, 13, 10, 104, 105, 13, 10, 48, 13, 10, 13, 10] ∧
      bodyParsesComplete .chunked
        (relayBodyWire .chunked (wrapBodyWith snapshotDropErr .body { pieces := [[104, 105]], ending := .err })) = true ∧
      relayBodyWire .chunked (wrapBody .body { pieces := [[104, 105]], ending := .err }) = [] ∧
      bodyParsesComplete .chunked (relayBodyWire .chunked (wrapBody .body { pieces := [[104, 105]], ending := .err })) = false := by
  refine ⟨?_, by decide, by decide, by decide, by decide⟩
  intro h
  have := (h { pieces := [[104, 105]], ending := .err }).1
  exact absurd this (by decide)

/-- the logger in the response path of an exchange is the fault it was, except that in mode `body` no byte
    of a torn body is relayed: the theorems of C apply under every mode -/
theorem c12_logged_stream_eq (m : LogMode) (f : Fault) (ex : Exchange) :
    clientStreamLogged m f ex = clientStream (loggedFault m f) ex := clientStreamLogged_eq m f ex

example : clientStreamLogged .body (.bodyCut 5 false 0) { id := 1, headLen := 47, framing := .chunked, bodyLen := 10 } =
      .prefixThenClose 1 .chunked 0 false .fin ∧
    clientStreamLogged .headers (.bodyCut 5 false 0) { id := 1, headLen := 47, framing := .chunked, bodyLen := 10 } =
      .prefixThenClose 1 .chunked 5 false .fin := by decide

/-- `c12_chunked_cut_is_unterminated` with the logger in the path: under every mode a chunked reply torn in
    its body reaches an HTTP/1.1 client without the terminating chunk, followed by the close -/
theorem c12_logged_chunked_cut_is_unterminated (m : LogMode) (k lost : Nat) (r : Bool) (ex : Exchange)
    (hk : ex.kind ≠ .connect) (hfr : ex.framing = .chunked) (hm : (ex.clientMinor == 0) = false) :
    (∃ n, clientStreamLogged m (.bodyCut k r lost) ex = .prefixThenClose ex.id .chunked n false .fin) ∧
      (clientStreamLogged m (.bodyCut k r lost) ex).parsesComplete = false ∧
      (clientStreamLogged m (.bodyCut k r lost) ex).keepsAlive = false := by
  have hl : ∃ l, loggedFault m (.bodyCut k r lost) = .bodyCut k r l := by cases m <;> exact ⟨_, rfl⟩
  obtain ⟨l, hl⟩ := hl
  rw [c12_logged_stream_eq, hl]
  obtain ⟨h1, h2⟩ := c12_chunked_cut_is_unterminated k l r ex hk hfr hm
  exact ⟨⟨_, h1⟩, h2, by rw [h1]; rfl⟩

/-- `c12_truncation_detectable_partial` under every log mode -/
theorem c12_logged_truncation_detectable_partial (m : LogMode) (f : Fault) (ex : Exchange) (hfr : relayFraming ex ≠ .eof)
    (hwf : f.wf ex = true) (ht : (clientStreamLogged m f ex).truncated ex = true) :
    (clientStreamLogged m f ex).parsesComplete = false := by
  rw [c12_logged_stream_eq] at ht ⊢
  exact c12_truncation_detectable_partial (loggedFault m f) ex hfr (loggedFault_wf m f ex hwf) ht

/-- `c12_clean_outcome_partial` under every log mode -/
theorem c12_logged_clean_outcome_partial (m : LogMode) (f : Fault) (ex : Exchange) (hfr : relayFraming ex ≠ .eof)
    (hst : ∀ s, f.rejectionStatus = some s → 300 ≤ s ∧ s < 600)
    (hwf : f.wf ex = true) : cleanOutcome ex (clientStreamLogged m f ex) = true := by
  rw [c12_logged_stream_eq]
  exact c12_clean_outcome_partial (loggedFault m f) ex hfr
    (fun s hs => hst s (by rw [← loggedFault_rejectionStatus m f]; exact hs)) (loggedFault_wf m f ex hwf)

example : relayFraming { id := 1, headLen := 47, framing := .chunked, bodyLen := 10 } ≠ .eof ∧
    (Fault.bodyCut 3 true 1).wf { id := 1, headLen := 47, framing := .chunked, bodyLen := 10 } = true ∧
    cleanOutcome { id := 1, headLen := 47, framing := .chunked, bodyLen := 10 }
      (clientStreamLogged .body (.bodyCut 3 true 1) { id := 1, headLen := 47, framing := .chunked, bodyLen := 10 }) = true := by
  decide

/-- the handler variant under every log mode: `c12_handler_torn_body_never_complete` with the logger in the path -/
theorem c12_handler_logged_torn_body_never_complete (m : LogMode) (ex : Exchange) (k lost : Nat) (r : Bool)
    (hk : ex.kind ≠ .connect) (hfr : handlerFraming ex ≠ .eof) (hwf : (Fault.bodyCut k r lost).wf ex = true)
    (herr : ex.framing = .eof → r = true) :
    (handlerStreamLogged m (.bodyCut k r lost) ex).parsesComplete = false ∧
      (handlerStreamLogged m (.bodyCut k r lost) ex).keepsAlive = false := by
  have hwf' := loggedFault_wf m (.bodyCut k r lost) ex hwf
  have hl : ∃ l, loggedFault m (.bodyCut k r lost) = .bodyCut k r l := by cases m <;> exact ⟨_, rfl⟩
  obtain ⟨l, hl⟩ := hl
  unfold handlerStreamLogged
  rw [hl] at hwf' ⊢
  exact c12_handler_torn_body_never_complete ex k l r hk hfr hwf' herr

/-- what a body-logging step may do, characterised: a torn reply is never written as a complete message —
    for every exchange, cut point and framing that can tell — exactly when the step keeps the error of every
    torn body (however many of its bytes it replays) -/
theorem c12_snapshot_policy_iff (s : Snapshot) :
    (∀ (ex : Exchange) (k lost : Nat) (r : Bool), ex.kind ≠ .connect → relayFraming ex ≠ .eof →
        (Fault.bodyCut k r lost).wf ex = true →
        (clientStreamLoggedWith s .body (.bodyCut k r lost) ex).parsesComplete = false) ↔
      (∀ k, (s { pieces := tornPieces k, ending := .err }).ending = .err) := by
  constructor
  · intro h k
    cases he : (s { pieces := tornPieces k, ending := .err }).ending with
    | err => rfl
    | clean =>
      have := h { id := 1, headLen := 47, framing := .chunked, bodyLen := k } k 0 false (by simp) (by simp [relayFraming])
        (by simp [Fault.wf])
      simp [clientStreamLoggedWith, loggedBodyCutWith, wrapBodyWith, originBody, he, replayedObs,
        ClientObs.parsesComplete] at this
  · intro hs ex k lost r hk hfr hwf
    obtain ⟨hne, hch⟩ := relayFraming_ne_eof hfr
    have hk' : (ex.kind == ReqKind.connect) = false := by
      cases h : ex.kind <;> simp_all
    have hob : originBody ex k r = { pieces := tornPieces k, ending := .err } := by
      have := originBody_ending_err hne k r
      unfold originBody at this ⊢
      simp only at this
      rw [this]
    simp only [clientStreamLoggedWith, hk', Bool.false_eq_true, if_false, loggedBodyCutWith, wrapBodyWith, hob, hs k]
    cases hf : ex.framing with
    | eof => exact absurd hf hne
    | chunked => simp [bodyCutObs, hf, hch hf, ClientObs.parsesComplete]
    | cl n =>
      simp only [Fault.wf, hf, Bool.and_eq_true, beq_iff_eq, decide_eq_true_eq] at hwf
      simp only [bodyCutObs, hf, ClientObs.parsesComplete, beq_eq_false_iff_ne, ne_eq]
      omega

/-- the error-dropping snapshot on an exchange: in mode `body` a chunked reply torn after 5 of 10 bytes
    (FIN or RST) reaches the client as a complete chunked message of 5 bytes on a connection that stays in
    service — truncated, complete to every parser, reusable; the other modes and Content-Length framing do
    not show it -/
theorem c12_logging_drop_error_witness :
    (Fault.bodyCut 5 false 0).wf { id := 1, headLen := 47, framing := .chunked, bodyLen := 10 } = true ∧
      clientStreamLoggedWith snapshotDropErr .body (.bodyCut 5 false 0) { id := 1, headLen := 47, framing := .chunked, bodyLen := 10 } =
        .complete 1 .chunked 5 true ∧
      clientStreamLoggedWith snapshotDropErr .body (.bodyCut 5 true 0) { id := 1, headLen := 47, framing := .chunked, bodyLen := 10 } =
        .complete 1 .chunked 5 true ∧
      cleanOutcome { id := 1, headLen := 47, framing := .chunked, bodyLen := 10 }
        (clientStreamLoggedWith snapshotDropErr .body (.bodyCut 5 false 0) { id := 1, headLen := 47, framing := .chunked, bodyLen := 10 }) = false ∧
      clientStreamLoggedWith snapshotDropErr .headers (.bodyCut 5 false 0) { id := 1, headLen := 47, framing := .chunked, bodyLen := 10 } =
        .prefixThenClose 1 .chunked 5 false .fin ∧
      clientStreamLoggedWith snapshotDropErr .body (.bodyCut 5 false 0) { id := 1, headLen := 47, framing := .cl 10, bodyLen := 10 } =
        .prefixThenClose 1 (.cl 10) 5 false .fin ∧
      clientStreamLogged .body (.bodyCut 5 false 0) { id := 1, headLen := 47, framing := .chunked, bodyLen := 10 } =
        .prefixThenClose 1 .chunked 0 false .fin := by decide

/-! ### §11 the basic-auth parser runs on a goroutine nobody recovers: it is defined on every input -/

/-- `parseBasicAuth` as Go executes it never reaches an index / slice expression out of range, and what it
    returns is `Req.parseBasicAuth` (the function C04's theorems are about): for EVERY byte string -/
theorem c12_parse_basic_auth_go_eq (auth : Bytes) :
    parseBasicAuthGo auth = .ret (Req.parseBasicAuth auth) := by
  unfold parseBasicAuthGo Req.parseBasicAuth
  by_cases h : auth.length < 6
  · simp [h]
  · have h6 : 6 ≤ auth.length := by omega
    simp only [h, if_false, goSliceTo, goSliceFrom, h6, if_true, decide_false, Bool.false_or]
    by_cases he : eqFold (auth.take 6) (bs "Basic ") = true
    · simp only [he, Bool.not_true, Bool.false_eq_true, if_false, credsOf]
      cases Req.b64Decode (auth.drop 6) <;> rfl
    · simp [he]

/-- total: on every input the result is `none` or a pair — never a panic -/
theorem c12_parse_basic_auth_total (auth : Bytes) :
    parseBasicAuthGo auth = .ret none ∨ ∃ u p, parseBasicAuthGo auth = .ret (some (u, p)) := by
  rw [c12_parse_basic_auth_go_eq]
  cases Req.parseBasicAuth auth with
  | none => exact Or.inl rfl
  | some up => exact Or.inr ⟨up.1, up.2, rfl⟩

example : parseBasicAuthGo (bs "Basic dXNlcjpwYTpzcw==") = .ret (some (bs "user", bs "pa:ss")) := by
  with_unfolding_all decide
example : parseBasicAuthGo (bs "Basic") = .ret none ∧ parseBasicAuthGo [] = .ret none ∧
    parseBasicAuthGo (bs "Basic ") = .ret none ∧ parseBasicAuthGo (bs "Basic  dXNlcjpwYTpzcw==") = .ret none := by
  with_unfolding_all decide

/-- the basic-auth control decides every field value, and decides it as C04's `authenticated` says -/
theorem c12_basic_auth_decides (user pass v : Bytes) :
    authenticatedGo user pass v = .ret (C04.authenticated user pass v) := by
  unfold authenticatedGo C04.authenticated
  rw [c12_parse_basic_auth_go_eq]
  by_cases hv : v.isEmpty = true
  · simp only [hv, if_true, Bool.not_true, Bool.false_and]
    cases Req.parseBasicAuth v with
    | none => rfl
    | some up => rfl
  · simp only [hv, Bool.false_eq_true, if_false]
    cases Req.parseBasicAuth v with
    | none => rfl
    | some up => obtain ⟨u, p⟩ := up; simp

theorem c12_basic_auth_never_panics (user pass v : Bytes) : authenticatedGo user pass v ≠ .panic := by
  rw [c12_basic_auth_decides]; intro h; cases h

example : authenticatedGo (bs "user") (bs "pa:ss") (bs "bAsIc dXNlcjpwYTpzcw==") = .ret true := by
  with_unfolding_all decide

/-- the `strings.Fields` way of writing the parser is partial, and exactly where: no field at all (an empty
    value, or one made of white space the header reader does not trim), or the scheme alone -/
theorem c12_fields_variant_panics_iff (auth : Bytes) :
    parseBasicAuthFields auth = .panic ↔
      (authFields auth = [] ∨ ∃ x, authFields auth = [x] ∧ eqFold x (bs "Basic") = true) := by
  unfold parseBasicAuthFields
  generalize authFields auth = f
  match f with
  | [] => simp [goIndex]
  | [x] =>
    by_cases he : eqFold x (bs "Basic") = true <;> simp [goIndex, he]
  | [x, y] =>
    by_cases he : eqFold x (bs "Basic") = true <;> simp [goIndex, he]
  | x :: y :: z :: rest => simp

/-- counter-model (kernel-checked): `Proxy-Authorization: Basic` and a value that is one U+00A0 make the
    `strings.Fields` variant index out of range where the code as it is answers `none`; the variant also lets in
    `Basic`, two spaces, credentials — which the code as it is rejects -/
theorem c12_fields_variant_witness :
    parseBasicAuthFields (bs "Basic") = .panic ∧ parseBasicAuthGo (bs "Basic") = .ret none ∧
    parseBasicAuthFields [194, 160] = .panic ∧ parseBasicAuthGo [194, 160] = .ret none ∧
    parseBasicAuthFields [11] = .panic ∧ parseBasicAuthFields [] = .panic := by
  refine ⟨?_, ?_, ?_, ?_, ?_, ?_⟩ <;> with_unfolding_all decide

/-- the variant also changes who is let in: `Basic`, two spaces, credentials -/
theorem c12_fields_variant_lets_in_witness :
    parseBasicAuthFields (bs "Basic  dXNlcjpwYTpzcw==") = .ret (some (bs "user", bs "pa:ss")) ∧
    parseBasicAuthGo (bs "Basic  dXNlcjpwYTpzcw==") = .ret none := by
  refine ⟨?_, ?_⟩ <;> with_unfolding_all decide

/-! ## L. the dial phase -/

/-- The retry loop of `Dialer.dialContext` reports success (`err == nil`) only together with a connection:
    `(nil, nil)` is unreachable — for every attempt budget (non-positive ones included), every sequence of
    attempt outcomes and every point at which the caller's context is done. -/
theorem c12_dial_loop_never_succeeds_without_connection (attempts : Int) (out : Nat → Attempt) :
    (dialLoop attempts out).err = none → (dialLoop attempts out).conn.isSome = true := by
  intro h
  rcases dialLoopFrom_err_none out (attemptsOf attempts) 0 none h with h' | ⟨h0, _⟩
  · exact h'
  · have := attemptsOf_pos attempts
    omega

/-- hence `Dialer.DialContext` never wraps a nil connection for tracking: no dial outcome is a nil dereference -/
theorem c12_dial_never_panics (attempts : Int) (out : Nat → Attempt) : dialContext attempts out ≠ .panic := by
  unfold dialContext tracked
  have h := c12_dial_loop_never_succeeds_without_connection attempts out
  cases he : (dialLoop attempts out).err with
  | some e => simp
  | none =>
    have hc := h he
    cases hcn : (dialLoop attempts out).conn with
    | some c => simp
    | none => rw [hcn] at hc; cases hc

/-- a connection handed out is the one an attempt within the budget returned -/
theorem c12_dial_connection_is_an_attempts (attempts : Int) (out : Nat → Attempt) (c : Nat)
    (h : dialContext attempts out = .conn c) : ∃ i, i < attemptsOf attempts ∧ (out i).res = .conn c := by
  unfold dialContext tracked at h
  cases he : (dialLoop attempts out).err with
  | some e => rw [he] at h; cases h
  | none =>
    rw [he] at h
    cases hcn : (dialLoop attempts out).conn with
    | none => rw [hcn] at h; cases h
    | some c' =>
      rw [hcn] at h
      have hc : c' = c := by cases h; rfl
      subst hc
      obtain ⟨j, _, h2, h3⟩ := dialLoopFrom_conn out c' (attemptsOf attempts) 0 none hcn
      exact ⟨j, by omega, h3⟩

/-- when every attempt of the budget fails, the caller gets the error of the LAST attempt -/
theorem c12_dial_reports_last_failure (attempts : Int) (out : Nat → Attempt)
    (h : ∀ i, i < attemptsOf attempts → ∃ e, (out i).res = .fail e) :
    ∃ e, (out (attemptsOf attempts - 1)).res = .fail e ∧ dialContext attempts out = .error e := by
  have hp := attemptsOf_pos attempts
  obtain ⟨e, he⟩ := h (attemptsOf attempts - 1) (by omega)
  refine ⟨e, he, ?_⟩
  unfold dialContext dialLoop
  rw [dialLoopFrom_all_fail out (attemptsOf attempts) 0 none (fun j _ h2 => h j (by omega))]
  have hne : attemptsOf attempts ≠ 0 := by omega
  simp [tracked, hne, he]

/-- A dial phase in which every attempt ran into a time-out — the dialer's own `DialTimeout` or the caller's
    deadline, in any mixture — is answered 504, on every route (origin, the transport's proxy, dialvia through
    an http(s) or a socks5 upstream proxy). -/
theorem c12_dial_timeouts_504 (attempts : Int) (out : Nat → Attempt) (r : DialRoute)
    (h : ∀ i, i < attemptsOf attempts → ∃ e, (out i).res = .fail e ∧ e.isTimeout = true) :
    ∃ v, dialVerdict r (dialContext attempts out) = some v ∧ v.1 = 504 := by
  obtain ⟨e, he, hd⟩ := c12_dial_reports_last_failure attempts out (fun i hi => (h i hi).imp fun _ h => h.1)
  obtain ⟨e', he', ht⟩ := h (attemptsOf attempts - 1) (by have := attemptsOf_pos attempts; omega)
  rw [he] at he'
  cases he'
  rw [hd]
  refine ⟨_, rfl, ?_⟩
  cases r <;> cases e <;> first | decide | cases ht

/-- The caller's deadline passes during the FIRST attempt (every later attempt then fails at once the same
    way: the context stays done): the caller is told so — `dial tcp …: i/o timeout` — and the client reads 504. -/
theorem c12_context_expiry_in_first_attempt_is_reported_as_timeout (attempts : Int) (out : Nat → Attempt)
    (r : DialRoute) (h0 : out 0 = ⟨.fail .ctxDeadline, true⟩)
    (hlater : ∀ i, 0 < i → out i = ⟨.fail .ctxDeadline, true⟩) :
    dialContext attempts out = .error .ctxDeadline ∧
      ∃ v, dialVerdict r (dialContext attempts out) = some v ∧ v.1 = 504 := by
  have hall : ∀ i, out i = ⟨.fail .ctxDeadline, true⟩ := by
    intro i
    cases i with
    | zero => exact h0
    | succ n => exact hlater _ (Nat.succ_pos n)
  refine ⟨?_, c12_dial_timeouts_504 attempts out r (fun i _ => ⟨.ctxDeadline, by rw [hall i], rfl⟩)⟩
  obtain ⟨e, he, hd⟩ := c12_dial_reports_last_failure attempts out (fun i _ => ⟨.ctxDeadline, by rw [hall i]⟩)
  rw [hall] at he
  cases he
  exact hd

example : dialContext 3 (scriptOf [⟨.fail .ctxDeadline, true⟩, ⟨.fail .ctxDeadline, true⟩, ⟨.fail .ctxDeadline, true⟩]) = .error .ctxDeadline ∧
    dialVerdict .dialviaHTTP (.error .ctxDeadline) = some (504, "net_dial") ∧
    dialVerdict .dialviaSOCKS (.error .ctxDeadline) = some (504, "net_socks connect") ∧
    dialVerdict .transportProxy (.error .timeout) = some (504, "net_proxyconnect") ∧
    dialVerdict .direct (.error .refused) = some (502, "net_dial") ∧
    dialContext 2 (scriptOf [⟨.fail .timeout, false⟩, ⟨.conn 7, false⟩]) = .conn 7 ∧
    dialContext 0 (scriptOf [⟨.fail .refused, false⟩, ⟨.conn 7, false⟩]) = .error .refused := by decide

/-- the routes of §4 report a dial failure as this section does -/
theorem c12_dial_route_agrees (ex : Exchange) :
    dialErr ex true = dialErrKind (routeOf ex) .timeout ∧ dialErr ex false = dialErrKind (routeOf ex) .refused := by
  unfold dialErr routeOf
  by_cases h1 : viaTransportProxy ex = true
  · simp [h1, dialErrKind, DialErr.isTimeout]
  · by_cases h2 : ex.viaUpstream = true <;> simp [h1, h2, dialErrKind, DialErr.isTimeout]

/-- an early exit that records the error first keeps the guarantee … -/
theorem c12_dial_loop_stop_never_succeeds_without_connection (attempts : Int) (out : Nat → Attempt) :
    (dialLoopStop attempts out).err = none → (dialLoopStop attempts out).conn.isSome = true := by
  intro h
  rcases dialLoopStopFrom_err_none out (attemptsOf attempts) 0 none h with h' | ⟨h0, _⟩
  · exact h'
  · have := attemptsOf_pos attempts
    omega

/-- … counter-model (kernel-checked): the early exit BEFORE the error is recorded returns `(nil, nil)` when the
    caller's context ends the first attempt — a deadline or a cancellation, whatever the budget —, which the
    connection tracker dereferences; the code as it is reports the time-out.  A failure on an earlier attempt
    hides the mistake (the retry tests pass). -/
theorem c12_dial_loop_break_witness :
    dialLoopBreak 1 (scriptOf [⟨.fail .ctxDeadline, true⟩]) = ⟨none, none⟩ ∧
    tracked (dialLoopBreak 1 (scriptOf [⟨.fail .ctxDeadline, true⟩])) = .panic ∧
    tracked (dialLoopBreak 3 (scriptOf [⟨.fail .ctxCanceled, true⟩])) = .panic ∧
    dialContext 1 (scriptOf [⟨.fail .ctxDeadline, true⟩]) = .error .ctxDeadline ∧
    dialLoopBreak 3 (scriptOf [⟨.fail .timeout, false⟩, ⟨.fail .ctxDeadline, true⟩]) = ⟨none, some .timeout⟩ ∧
    dialLoopBreak 3 (scriptOf [⟨.fail .timeout, false⟩, ⟨.fail .timeout, false⟩, ⟨.fail .timeout, false⟩]) =
      dialLoop 3 (scriptOf [⟨.fail .timeout, false⟩, ⟨.fail .timeout, false⟩, ⟨.fail .timeout, false⟩]) := by
  decide

/-! ## M. the certificate generator of the intercepting listener (`mitm.Config.cert`) -/

/-- whatever names the handshakes of a listener carried — hostile ones included, in any order —, the
    generator is not left locked … -/
theorem c12_cert_generator_never_left_locked (names : List Bytes) :
    (certRun {} names).1.locked = false :=
  (certRun_ok names {} certState_ok_init).1

/-- … so after a failed generation (after ANY sequence of names, each of them failing or not) the next
    generation for a valid name the listener has not seen is carried out and succeeds. -/
theorem c12_cert_generation_failure_releases_generator (names : List Bytes) (fresh : Bytes)
    (hv : certRefused (certHost fresh) = false) (hf : certHost fresh ∉ (certRun {} names).1.cache) :
    (certRun {} names).1.locked = false ∧ (certGen (certRun {} names).1 fresh).2 = .issued := by
  have hok := certRun_ok names {} certState_ok_init
  refine ⟨hok.1, ?_⟩
  have h1 : (certRun {} names).1.cache.contains (certHost fresh) = false := by
    cases hc : (certRun {} names).1.cache.contains (certHost fresh) with
    | false => rfl
    | true => exact absurd (by simpa using hc) hf
  unfold certGen certGenV
  simp only [h1, hok.1, hv, Bool.false_eq_true, if_false]

example : (certGen (certRun {} [bs "b\u00fccher.test", bs "a\u00e9.test:443"]).1 (bs "second.test")).2 = .issued := by
  with_unfolding_all decide

/-- a valid name is served (issued, or from the cache) after every history: no name is ever `blocked` -/
theorem c12_cert_valid_name_always_served (names : List Bytes) (n : Bytes) (hv : certRefused (certHost n) = false) :
    (certGen (certRun {} names).1 n).2 = .issued ∨ (certGen (certRun {} names).1 n).2 = .cached := by
  have hok := certRun_ok names {} certState_ok_init
  unfold certGen certGenV
  by_cases h1 : (certRun {} names).1.cache.contains (certHost n) = true
  · right; simp only [h1, if_true]
  · left
    have h1' : (certRun {} names).1.cache.contains (certHost n) = false := by simpa using h1
    simp only [h1', hok.1, hv, Bool.false_eq_true, if_false]

/-- a hostile name anywhere in the sequence of handshakes: its own handshake fails, and every other name
    gets exactly the result it gets in the sequence without it -/
theorem c12_hostile_name_does_not_affect_other_names (pre post : List Bytes) (hostile : Bytes)
    (hr : certRefused (certHost hostile) = true) :
    (certRun {} (pre ++ hostile :: post)).2 = (certRun {} pre).2 ++ .refused :: (certRun (certRun {} pre).1 post).2 ∧
    (certRun {} (pre ++ hostile :: post)).2.eraseIdx pre.length = (certRun {} (pre ++ post)).2 := by
  have hok := certRun_ok pre {} certState_ok_init
  have hg := certGen_refused (certRun {} pre).1 hostile hok hr
  have hlen : ∀ (l : List Bytes) (s : CertState), (certRun s l).2.length = l.length := by
    intro l
    induction l with
    | nil => intro s; rfl
    | cons n rest ih => intro s; simp [certRun, certRunV] at *; exact ih _
  have h1 : (certRun {} (pre ++ hostile :: post)).2 = (certRun {} pre).2 ++ .refused :: (certRun (certRun {} pre).1 post).2 := by
    unfold certRun at *
    rw [certRun_append]
    unfold certGen at hg
    simp only [certRunV, hg]
  refine ⟨h1, ?_⟩
  rw [h1]
  have h2 : (certRun {} (pre ++ post)).2 = (certRun {} pre).2 ++ (certRun (certRun {} pre).1 post).2 := by
    unfold certRun
    rw [certRun_append]
  rw [h2, ← hlen pre {}]
  simp [List.eraseIdx_append_of_length_le]

example : (certRun {} [bs "first.test", bs "b\u00fccher.test", bs "second.test", bs "first.test:443"]).2 =
    [.issued, .refused, .issued, .cached] := by
  with_unfolding_all decide

/-- … counter-model (kernel-checked): a generator that takes a lock and forgets it on the error return.  One
    refused name — an IDN that was not converted to punycode —, then EVERY name the listener has not cached
    blocks: for every sequence of later names, all of them; names whose certificate was cached before keep
    working (the outage looks partial).  The code as it is serves them. -/
theorem c12_cert_lock_kept_on_error_witness :
    (certRunV .keepLockOnError {} [bs "b\u00fccher.test", bs "second.test", bs "third.test"]).2 = [.refused, .blocked, .blocked] ∧
    (certRunV .keepLockOnError {} [bs "first.test", bs "b\u00fccher.test", bs "first.test", bs "second.test"]).2 =
      [.issued, .refused, .cached, .blocked] ∧
    (certRun {} [bs "b\u00fccher.test", bs "second.test", bs "third.test"]).2 = [.refused, .issued, .issued] ∧
    (∀ (hostile : Bytes) (later : List Bytes), certRefused (certHost hostile) = true →
      (certRunV .keepLockOnError {} (hostile :: later)).2 = .refused :: later.map fun _ => .blocked) := by
  refine ⟨by with_unfolding_all decide, by with_unfolding_all decide, by with_unfolding_all decide, ?_⟩
  intro hostile later hr
  have h : certGenV .keepLockOnError {} hostile = ({ locked := true, cache := [] }, .refused) := by
    simp [certGenV, hr]
  simp only [certRunV, h, certRun_locked_blocks]

/-! ### Tie to the source: the handler list of `errorResponse`

`Model/C12Gen.lean` is regenerated on every run by `harness/srcgen` from `http_proxy_errors.go`: the
handler list of `errorResponse` in source order and, per handler, the constant status codes and the
labels it can assign (plus the `if code == 0` fallback).  The theorems say the model's `handlers` are
that list in that order, and that every verdict a model handler can give for ANY error shape uses a
code and a label its source function can assign (handlers whose code is computed —
`martianErr.Status`, the status-text loop — are recognised as such).  Reordering the list, changing
a handler's status or label, or adding/removing a handler in /repo changes the generated module and
these obligations no longer check; the correspondence run then looks for an error that shows it. -/

/-- the model's handlers under the names they have in `http_proxy_errors.go` -/
def handlerTable : List (String × Handler) :=
  [("handleWindowsNetError", handleWindowsNetError), ("handleNetError", handleNetError),
   ("handleTLSRecordHeader", handleTLSRecordHeader), ("handleTLSCertificateError", handleTLSCertificateError),
   ("handleTLSECHRejectionError", handleTLSECHRejectionError), ("handleTLSAlertError", handleTLSAlertError),
   ("handleMartianErrorStatus", handleMartianErrorStatus), ("handleAuthenticationError", handleAuthenticationError),
   ("handleDenyError", handleDenyError), ("handleProhibitedError", handleProhibitedError),
   ("handleContextCancelationError", handleContextCancelationError), ("handleStatusText", handleStatusText),
   ("handleTimeoutError", handleTimeoutError), ("handleEOFError", handleEOFError)]

def factOf (n : String) : C12Gen.HandlerFact :=
  (C12Gen.handlerFacts.find? (·.name == n)).getD ⟨n, [], [], []⟩

/-- a label the source can assign: one of the literals, or a concatenation starting with a literal -/
def labelOk (ls : List String) (l : String) : Bool :=
  ls.any fun p => if p.endsWith "*" then (p.dropEnd 1).copy.isPrefixOf l else p == l

theorem c12_generated_handler_order_is_model :
    handlerTable.map (·.1) = C12Gen.handlerFacts.map (·.name) ∧ handlerTable.map (·.2) = handlers :=
  ⟨by decide, rfl⟩

theorem c12_generated_fallback_is_model (https : Bool) (e : ErrShape)
    (h : (firstVerdict handlers https e).1 = 0) :
    classifyShape https e = (C12Gen.fallbackCode, C12Gen.fallbackLabel) := by
  simp [classifyShape, classifyWith, h, C12Gen.fallbackCode, C12Gen.fallbackLabel]

theorem c12_generated_codes_cover_model :
    ∀ p ∈ handlerTable, ∀ (https : Bool) (e : ErrShape),
      (p.2 https e).1 = 0 ∨ (p.2 https e).1 ∈ (factOf p.1).codes ∨ (factOf p.1).dynCodes ≠ [] := by
  intro p hp https e
  simp only [handlerTable, List.mem_cons, List.mem_nil_iff, or_false] at hp
  rcases hp with rfl | rfl | rfl | rfl | rfl | rfl | rfl | rfl | rfl | rfl | rfl | rfl | rfl | rfl
  all_goals
    simp only [handleWindowsNetError, handleNetError, handleTLSRecordHeader, handleTLSCertificateError,
      handleTLSECHRejectionError, handleTLSAlertError, handleMartianErrorStatus, handleAuthenticationError,
      handleDenyError, handleProhibitedError, handleContextCancelationError, handleStatusText,
      handleTimeoutError, handleEOFError, pass]
    first
      | trivial
      | (right; right; decide)
      | (split <;> first | (left; rfl) | (right; left; dsimp only; decide))

/-- every label the model's handlers give is one the source can assign -/
theorem c12_generated_labels_cover_model :
    ∀ p ∈ handlerTable, ∀ (https : Bool) (e : ErrShape),
      (p.2 https e).1 = 0 ∨ labelOk (factOf p.1).labels (p.2 https e).2 = true := by
  intro p hp https e
  simp only [handlerTable, List.mem_cons, List.mem_nil_iff, or_false] at hp
  rcases hp with rfl | rfl | rfl | rfl | rfl | rfl | rfl | rfl | rfl | rfl | rfl | rfl | rfl | rfl
  all_goals
    simp only [handleWindowsNetError, handleNetError, handleTLSRecordHeader, handleTLSCertificateError,
      handleTLSECHRejectionError, handleTLSAlertError, handleMartianErrorStatus, handleAuthenticationError,
      handleDenyError, handleProhibitedError, handleContextCancelationError, handleStatusText,
      handleTimeoutError, handleEOFError, pass, skipMetricsLabel]
    first
      | trivial
      | ((repeat' split) <;> first
            | (left; rfl)
            | (right; (try dsimp only); with_unfolding_all decide)
            | (right; rename_i op _; cases op <;> with_unfolding_all decide))

end C12
end FwdVerif
