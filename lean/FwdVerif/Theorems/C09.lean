/-
  C09 — "HTTP/2 relay respects peer windows and frame-size limits and returns all credit".

  Property theorems over `Model/H2Relay.lean` (the relay of `/repo/internal/martian/h2`), for every
  schedule of frames from both endpoints and every map-iteration order.  Helper lemmas are in
  `Lemmas/H2Flow.lean`, `H2Machine.lean`, `H2Credit.lean`, `H2Size.lean`, `H2Split.lean`.

  The ledgers (`Ghost.Lcs`, `Ghost.Lsc`) are computed from the wire only: octets of released DATA
  frames per stream and in total (`c09_ledger_counts_wire`), and the increments of the
  WINDOW_UPDATE frames the relay read (`Ghost.step`).
-/
import FwdVerif.Lemmas.H2Credit
import FwdVerif.Lemmas.H2Size
import FwdVerif.Lemmas.H2Settings
import FwdVerif.Lemmas.H2CreditRep
import FwdVerif.Model.C09Gen

namespace FwdVerif
namespace C09

open H2

variable {α : Type}

/-- relay state, ledgers and histories after a schedule, from the state `Config.Proxy` starts in -/
def after (evs : List (Ev α)) : Relay α × Ghost α := Relay.runG {} {} evs

theorem c09_after_snoc (evs : List (Ev α)) (e : Ev α) :
    after (evs ++ [e]) = (((after evs).1.step e.side e.ord e.op).1, (after evs).2.step (after evs).1 e) := by
  unfold after
  generalize ({} : Relay α) = r
  generalize ({} : Ghost α) = g
  induction evs generalizing r g with
  | nil => rfl
  | cons x xs ih => simp only [List.cons_append, Relay.runG]; exact ih _ _

/-- **bookkeeping**, both directions, after every schedule and for every iteration order:
    `connWin = 65535 + Σinc₀ − Σsent ≥ 0`, `win s = initWin + Σinc s − sent s` for every buffer,
    nothing was sent or credited on a stream without a buffer. -/
theorem c09_bookkeeping (evs : List (Ev α)) :
    Book (after evs).1.cs (after evs).2.Lcs ∧ Book (after evs).1.sc (after evs).2.Lsc :=
  ⟨((RInv.init (α := α)).run evs).cs.book, ((RInv.init (α := α)).run evs).sc.book⟩

/-- **connection ledger**: DATA forwarded in total never exceeds 65 535 + the receiver's
    connection-level increments (SETTINGS never changes the connection window). -/
theorem c09_conn_ledger (evs : List (Ev α)) :
    (after evs).2.Lcs.total ≤ 65535 + (after evs).2.Lcs.incConn ∧
    (after evs).2.Lsc.total ≤ 65535 + (after evs).2.Lsc.incConn := by
  have h := c09_bookkeeping evs
  have a := h.1.conn; have a' := h.1.connNonneg
  have b := h.2.conn; have b' := h.2.connNonneg
  constructor <;> omega

/-- **nothing leaves without credit**, over any stretch of any schedule: the flow-controlled octets
    released on a direction during a continuation `sfx` — arbitrary frames of both endpoints, any
    iteration orders — never exceed the connection window the relay held when `sfx` began plus the
    connection-level increments it read during `sfx` (ledger differences: `total` counts the DATA
    octets put on the wire, `c09_ledger_counts_wire`; `incConn` the WINDOW_UPDATE increments on
    stream 0 the relay processed).  The whole-connection drain theorem `c10_drain_connection` says
    when this bound is reached. -/
theorem c09_suffix_within_credit (evs sfx : List (Ev α)) :
    (after (evs ++ sfx)).2.Lcs.total - (after evs).2.Lcs.total ≤
      (after evs).1.cs.connWin + ((after (evs ++ sfx)).2.Lcs.incConn - (after evs).2.Lcs.incConn) ∧
    (after (evs ++ sfx)).2.Lsc.total - (after evs).2.Lsc.total ≤
      (after evs).1.sc.connWin + ((after (evs ++ sfx)).2.Lsc.incConn - (after evs).2.Lsc.incConn) := by
  have h0 := c09_bookkeeping evs
  have h1 := c09_conn_ledger (evs ++ sfx)
  have a := h0.1.conn
  have b := h0.2.conn
  constructor <;> omega

theorem c09_conn_window_nonneg (evs : List (Ev α)) :
    0 ≤ (after evs).1.cs.connWin ∧ 0 ≤ (after evs).1.sc.connWin :=
  ⟨(c09_bookkeeping evs).1.connNonneg, (c09_bookkeeping evs).2.connNonneg⟩

/-- **the gate never releases beyond credit**: in any state satisfying the bookkeeping, if the gate
    releases something on stream `s`, then afterwards what was sent on `s` is within the initial
    window in force plus the increments received, and the total is within the connection credit. -/
theorem c09_gate_within_credit {d : Dir α} {L : Ledger} (h : Book d L) (s : Nat) (hne : (d.emitOn s).2 ≠ []) :
    (L.addEmitted (d.emitOn s).2).sent s ≤ d.initWin + (L.addEmitted (d.emitOn s).2).inc s ∧
    (L.addEmitted (d.emitOn s).2).total ≤ 65535 + (L.addEmitted (d.emitOn s).2).incConn := by
  have hb := h.emitOn s
  obtain ⟨q, hq⟩ := List.exists_mem_of_ne_nil _ hne
  obtain ⟨st, hs, hw⟩ := Released.emitOn h s q hq
  have hsid : q.sid = s := by
    rcases d.emitOn_spec s with ⟨_, he⟩ | ⟨st0, hs0, he2, _⟩
    · rw [he] at hq; simp at hq
    · rw [he2] at hq; exact h.sids s st0 hs0 q (mem_of_emitQ _ _ _ q hq)
  rw [hsid] at hs
  have h1 := hb.win s st hs
  have h2 := hb.conn
  have h3 := hb.connNonneg
  have hi : (d.emitOn s).1.initWin = d.initWin := by
    rcases d.emitOn_spec s with ⟨_, he⟩ | ⟨_, _, _, he1⟩
    · rw [he]
    · rw [he1]
  rw [hi] at h1
  constructor <;> omega

/-- windows may be negative (after a decrease of SETTINGS_INITIAL_WINDOW_SIZE): then nothing, not
    even a zero-cost frame, is released from that stream -/
theorem c09_negative_window_silent (d : Dir α) (s : Nat) (st : Stream α)
    (hs : d.streams.get s = some st) (hneg : st.win < 0) : (d.emitOn s).2 = [] := by
  rcases d.emitOn_spec s with ⟨hn, _⟩ | ⟨st0, hs0, he2, _⟩
  · rw [hn] at hs; simp at hs
  · rw [hs] at hs0; injection hs0 with hs0; subst hs0
    rw [he2]
    cases hq : st.queue with
    | nil => simp [emitQ]
    | cons f t =>
      unfold emitQ
      have : (f.fc : Int) > d.connWin ∨ (f.fc : Int) > st.win := Or.inr (by omega)
      simp [this]

/-- **stream ledger**: after any schedule, processing one more frame — ANY frame, a SETTINGS frame
    that repeats SETTINGS_INITIAL_WINDOW_SIZE any number of times included — leaves, for every
    stream on which it released a frame, `sent s ≤ initWin_now + Σ increments s` — in particular
    after decreases of the initial window with data queued.  (Before the repair of F51 the clause
    needed the hypothesis that a SETTINGS frame names the identifier at most once.) -/
theorem c09_stream_ledger (evs : List (Ev α)) (e : Ev α) :
    let r' := (after (evs ++ [e])).1
    let g' := (after (evs ++ [e])).2
    let out := ((after evs).1.step e.side e.ord e.op).2
    (∀ q ∈ (match e.side with | .client => out.fwd | .server => out.back),
        g'.Lcs.sent q.sid ≤ r'.cs.initWin + g'.Lcs.inc q.sid) ∧
    (∀ q ∈ (match e.side with | .client => out.back | .server => out.fwd),
        g'.Lsc.sent q.sid ≤ r'.sc.initWin + g'.Lsc.inc q.sid) := by
  have hb := c09_bookkeeping (evs ++ [e])
  have hb0 := c09_bookkeeping evs
  rw [c09_after_snoc] at hb ⊢
  obtain ⟨side, ord, op⟩ := e
  cases side with
  | client =>
    have hr := Released.step hb0.1 hb0.2 ord op
    constructor
    · intro q hq
      obtain ⟨st, hst, hw⟩ := hr.1 q hq
      have := hb.1.win q.sid st hst
      simp only [] at this ⊢
      omega
    · intro q hq
      obtain ⟨st, hst, hw⟩ := hr.2 q hq
      have := hb.2.win q.sid st hst
      simp only [] at this ⊢
      omega
  | server =>
    have hr := Released.step hb0.2 hb0.1 ord op
    constructor
    · intro q hq
      obtain ⟨st, hst, hw⟩ := hr.2 q hq
      have := hb.1.win q.sid st hst
      simp only [] at this ⊢
      omega
    · intro q hq
      obtain ⟨st, hst, hw⟩ := hr.1 q hq
      have := hb.2.win q.sid st hst
      simp only [] at this ⊢
      omega

/-- the ledger's octet count is what a raw endpoint counts: payload of the DATA frames it receives -/
theorem c09_ledger_counts_wire (L : Ledger) (qs : List (QFrame α)) :
    (L.addEmitted qs).total = L.total + dataOctets (qs.flatMap QFrame.send) := by
  rw [Ledger.addEmitted_total, dataOctets_wire]

/-- **frame size**: every frame the relay builds for a frame it processes while the receiver's
    limit is `maxFrame ≥ 5` (16 384 at least in HTTP/2) has a payload of at most `maxFrame`: DATA
    split, header-block split with the 5-octet priority and 4-octet promised-id allowances.
    (Frames are built when queued: a later decrease of the limit does not re-split them — F14,
    `c09_frame_size_after_decrease_witness`.) -/
theorem c09_frame_size_built (d : Dir α) (hm : 5 ≤ d.maxFrame) (op : Op α) :
    ∀ q ∈ enqOf d op, ∀ f ∈ q.send, f.payloadLen ≤ d.maxFrame := by
  cases op with
  | data sid payload pad es =>
    exact dataQ_le sid es d.maxFrame _ (splitData_le d.maxFrame (by omega) payload)
  | headers sid es eh prio frag reenc =>
    intro q hq
    simp only [enqOf] at hq
    split at hq
    · simp at hq; subst hq; exact headerQ_le d hm sid reenc es prio
    · simp at hq
  | continuation sid eh frag reenc =>
    intro q hq
    simp only [enqOf] at hq
    split at hq
    · split at hq
      · simp at hq; subst hq; exact headerQ_le d hm sid reenc _ _
      · simp at hq; subst hq; exact pushQ_le d (by omega) sid _ reenc
      · simp at hq
    · simp at hq
  | pushPromise sid promised eh frag reenc =>
    intro q hq
    simp only [enqOf] at hq
    split at hq
    · simp at hq; subst hq; exact pushQ_le d (by omega) sid promised reenc
    · simp at hq
  | priority sid prio => intro q hq; simp [enqOf] at hq; subst hq; intro f hf; simp [QFrame.send] at hf; subst hf; simp [Frame.payloadLen]
  | rst sid code => intro q hq; simp [enqOf] at hq; subst hq; intro f hf; simp [QFrame.send] at hf; subst hf; simp [Frame.payloadLen]
  | windowUpdate sid inc => intro q hq; simp [enqOf] at hq
  | settings kvs => intro q hq; simp [enqOf] at hq
  | settingsAck => intro q hq; simp [enqOf] at hq
  | ping ack data => intro q hq; simp [enqOf] at hq
  | goAway last code debug => intro q hq; simp [enqOf] at hq
  | unknown typ => intro q hq; simp [enqOf] at hq

/-- F14 witness (numbers scaled down by 1000 to keep kernel evaluation small — the model does not
    depend on the magnitudes; the full-size schedule is `corpus/C09/f14-max-frame-decrease.json`,
    replayed on the code): 40 octets queued as one frame under a limit of 65 (stream window 0), the
    receiver lowers the limit to 16 and then grants credit: a 40-octet DATA frame goes out. -/
theorem c09_frame_size_after_decrease_witness :
    let evs : List (Ev Unit) :=
      [⟨.server, fun _ => [], .settings [(5, 65), (4, 0)]⟩,
       ⟨.client, fun _ => [], .data 1 (List.replicate 40 ()) none true⟩,
       ⟨.server, fun _ => [], .settings [(5, 16)]⟩]
    let r := (Relay.run {} evs).1
    r.cs.maxFrame = 16 ∧
    ((r.step .server (fun _ => []) (.windowUpdate 1 65535)).2.back.flatMap QFrame.send).map Frame.payloadLen = [40] := by
  decide

/-- **credit return** at full strength: every DATA frame accepted returns its whole
    flow-controlled length (payload + pad-length octet + padding) on connection and stream.
    `fix` says which tree is meant: `false` the unchanged one, `true` the one with F6 repaired. -/
def c09_credit_full_statement (fix : Bool) : Prop :=
  ∀ (d o : Dir Unit) (ord : Nat → List Nat) (sid : Nat) (payload : List Unit) (pad : Option Nat) (es : Bool),
    d.fixCredit = fix →
    (process d o ord (.data sid payload pad es)).2.2.backDirect =
      (if flowLen payload pad = 0 then []
       else [.windowUpdate 0 (flowLen payload pad), .windowUpdate sid (flowLen payload pad)])

/-- the code credits `len(f.Data())` (F6): the statement holds for unpadded frames … -/
theorem c09_credit_partial (d o : Dir α) (ord : Nat → List Nat) (sid : Nat) (payload : List α) (es : Bool) :
    (process d o ord (.data sid payload none es)).2.2.backDirect =
      (if flowLen payload none = 0 then []
       else [.windowUpdate 0 (flowLen payload none), .windowUpdate sid (flowLen payload none)]) := by
  cases h : d.fixCredit <;> simp [H2.process, flowLen, h]

/-- … and fails for a padded one: 10 octets of data + 20 of padding return 10, not 31. -/
theorem c09_credit_witness : ¬ c09_credit_full_statement false := by
  intro h
  have := h {} {} (fun _ => []) 1 (List.replicate 10 ()) (some 20) false rfl
  revert this
  decide

/-- with the proposed repair (`proposed/F6.diff`: credit `f.Length`) the full statement holds -/
theorem c09_credit_full_repaired : c09_credit_full_statement true := by
  intro d o ord sid payload pad es h
  simp [H2.process, h]

/-- credit is written straight to the sender and nothing else is -/
theorem c09_credit_only_for_data (d o : Dir α) (ord : Nat → List Nat) (op : Op α)
    (h : ∀ sid p pad es, op ≠ .data sid p pad es) : (process d o ord op).2.2.backDirect = [] := by
  cases op with
  | data sid p pad es => exact absurd rfl (h sid p pad es)
  | headers sid es eh prio frag reenc => simp only [H2.process]; split <;> rfl
  | continuation sid eh frag reenc =>
    simp only [H2.process]
    split
    · split <;> rfl
    · rfl
  | pushPromise sid promised eh frag reenc => simp only [H2.process]; split <;> rfl
  | priority sid prio => rfl
  | rst sid code => rfl
  | windowUpdate sid inc => rfl
  | settings kvs => rfl
  | settingsAck => rfl
  | ping ack data => rfl
  | goAway last code debug => rfl
  | unknown typ => rfl


/-! ### SETTINGS frames that repeat an identifier (RFC 7540 §6.5.3) -/

/-- the relay's way of applying a SETTINGS frame to the direction that sends to the frame's author:
    `relay.applySettings` (the frame is read completely, then the values in force are applied) -/
def settingsAsCoded (α : Type) : Dir α → (Nat → List Nat) → List (Nat × Nat) → Dir α × List (QFrame α) :=
  fun o ord kvs => applySettings o ord kvs

/-- the loop the relay ran before the repair of F51: every value of the frame applied as
    `ForeachSetting` reached it, the queues scanned after every SETTINGS_INITIAL_WINDOW_SIZE value -/
def settingsEachValue (α : Type) : Dir α → (Nat → List Nat) → List (Nat × Nat) → Dir α × List (QFrame α) :=
  fun o ord kvs => applyEach o ord 0 kvs

/-- **the last value wins**: after `relay.applySettings` — for every list, with any identifiers
    repeated any number of times, whatever the scan releases — the initial window size, the frame
    size limit and the table size of the direction are the values of the LAST occurrence of their
    identifiers (what the endpoint that sent the frame, and the one that gets it forwarded verbatim,
    have in force).  Walking the whole frame value by value (the loop before the repair), or its
    last-occurrence dedup (`lastOcc`, no identifier twice), puts the same values in force; the code
    acts on SETTINGS_INITIAL_WINDOW_SIZE at most once per frame. -/
theorem c09_settings_last_wins (o : Dir α) (ord ord' : Nat → List Nat) (k k' : Nat) (kvs : List (Nat × Nat)) :
    (applySettings o ord kvs).1.initWin = lastOfInt settingInitialWindowSize o.initWin kvs ∧
    (applySettings o ord kvs).1.maxFrame = lastOf settingMaxFrameSize o.maxFrame kvs ∧
    (applySettings o ord kvs).1.tableSize = lastOf settingHeaderTableSize o.tableSize kvs ∧
    SameCfg (applySettings o ord kvs).1 (applyEach o ord' k kvs).1 ∧
    SameCfg (applySettings o ord kvs).1 (applyEach o ord' k' (lastOcc kvs)).1 ∧
    ((lastOcc kvs).map (·.1)).Nodup ∧ initCount (inForce kvs) ≤ 1 := by
  have h := applySettings_cfg o ord kvs
  have h1 := applyEach_cfg o ord' k kvs
  have h2 := applyEach_cfg o ord' k' (lastOcc kvs)
  refine ⟨h.1, h.2.1, h.2.2, ⟨?_, ?_, ?_⟩, ⟨?_, ?_, ?_⟩, lastOcc_nodup kvs, initCount_inForce kvs⟩
  · rw [h1.1, h.1]
  · rw [h1.2.1, h.2.1]
  · rw [h1.2.2, h.2.2]
  · rw [h2.1, h.1, lastOfInt_lastOcc]
  · rw [h2.2.1, h.2.1, lastOf_lastOcc]
  · rw [h2.2.2, h.2.2, lastOf_lastOcc]

/-- the same at the level of `processFrame`: a SETTINGS frame read from one endpoint leaves the
    opposite direction (the one that sends TO that endpoint) with the last values, and is forwarded
    verbatim — every occurrence, in order — so relay and both endpoints agree on what is in force -/
theorem c09_settings_frame_in_force (d o : Dir α) (ord : Nat → List Nat) (kvs : List (Nat × Nat)) :
    (process d o ord (.settings kvs)).2.1.initWin = lastOfInt settingInitialWindowSize o.initWin kvs ∧
    (process d o ord (.settings kvs)).2.1.maxFrame = lastOf settingMaxFrameSize o.maxFrame kvs ∧
    (process d o ord (.settings kvs)).2.1.tableSize = lastOf settingHeaderTableSize o.tableSize kvs ∧
    (process d o ord (.settings kvs)).2.2.fwdDirect = [.settings kvs] := by
  have h := applySettings_cfg o ord kvs
  exact ⟨h.1, h.2.1, h.2.2, rfl⟩

/-- the ledger identity after such a frame is the one with the last value: on every stream with a
    buffer, `win = last value + Σ increments − sent` (bookkeeping holds across the frame) -/
theorem c09_ledger_after_repeated_settings {o : Dir α} {L : Ledger} {H : Hist α} (h : Inv o L H) (ord : Nat → List Nat)
    (kvs : List (Nat × Nat)) (s : Nat) (st : Stream α)
    (hs : (applySettings o ord kvs).1.streams.get s = some st) :
    st.win = lastOfInt settingInitialWindowSize o.initWin kvs +
      (L.addEmitted (applySettings o ord kvs).2).inc s - (L.addEmitted (applySettings o ord kvs).2).sent s := by
  have hb := h.applySettings ord kvs
  have := hb.book.win s st hs
  rw [(applySettings_cfg o ord kvs).1] at this
  exact this

/-- **stream ledger across a SETTINGS frame, the statement** (spelled out for one frame; it is what
    `c09_stream_ledger` says of a SETTINGS step): every frame released while the list is processed
    is within `last value + Σ increments` of its stream — the LAST value is the one in force once
    the frame is processed (RFC 7540 §6.5.3), the only one the endpoint has granted.  `apply` is the
    way the list is applied to the direction that sends to the frame's author: `settingsAsCoded`
    (the code), `settingsEachValue` (the loop before the repair of F51: FALSE of it,
    `c09_settings_each_value_applied_witness`), `applySettingsLastOnly` (the plain dedup). -/
def c09_stream_ledger_repeated_settings_full (α : Type)
    (apply : Dir α → (Nat → List Nat) → List (Nat × Nat) → Dir α × List (QFrame α)) : Prop :=
  ∀ (o : Dir α) (L : Ledger) (H : Hist α), Inv o L H → ∀ (ord : Nat → List Nat) (kvs : List (Nat × Nat)),
    ∀ q ∈ (apply o ord kvs).2,
      (L.addEmitted (apply o ord kvs).2).sent q.sid ≤
        lastOfInt settingInitialWindowSize o.initWin kvs + (L.addEmitted (apply o ord kvs).2).inc q.sid

/-- **stream ledger across a SETTINGS frame, at full strength for the code**: whatever identifiers
    the frame repeats, with whatever values in whatever order, in every reachable state and for
    every iteration order, every frame `relay.applySettings` releases is within `last value +
    Σ increments` of its stream: the frame is read completely before the queues are touched, the
    one scan runs under the value in force.  (Until the repair of F51 this held only under the
    hypothesis that no value of the frame exceeds the last one.) -/
theorem c09_stream_ledger_repeated_settings :
    c09_stream_ledger_repeated_settings_full α (settingsAsCoded α) := by
  intro o L H h ord kvs q hq
  obtain ⟨st, hs, hw⟩ := Released.applySettings h.book ord kvs q hq
  have := c09_ledger_after_repeated_settings h ord kvs q.sid st hs
  unfold settingsAsCoded
  omega

/-- **why the frame has to be read completely first** (the loop before the repair of F51 as a
    counter-model; numbers scaled down by 100, the full-size schedule is
    `corpus/C09/f51-settings-larger-intermediate-initial-window.json`, which the code now passes):
    the receiver holds 50 octets back with INITIAL_WINDOW_SIZE 0 and then sends
    `{INITIAL_WINDOW_SIZE=50, MAX_CONCURRENT_STREAMS=100, INITIAL_WINDOW_SIZE=0}` in ONE frame.
    Applied value by value, the scan after the first value releases the 50 octets although the
    value in force is 0 and the stream window ends at −50: the statement is false of that loop (the
    state is reachable: it satisfies `Inv`).  The code releases nothing, the window stays 0. -/
theorem c09_settings_each_value_applied_witness :
    ¬ c09_stream_ledger_repeated_settings_full Unit (settingsEachValue Unit) ∧
    (let evs : List (Ev Unit) :=
      [⟨.server, fun _ => [], .settings [(4, 0)]⟩,
       ⟨.client, fun _ => [], .data 1 (List.replicate 50 ()) none true⟩]
     let o := (after evs).1.cs
     let kvs : List (Nat × Nat) := [(4, 50), (3, 100), (4, 0)]
     let old := settingsEachValue Unit o (fun _ => []) kvs
     let new := settingsAsCoded Unit o (fun _ => []) kvs
     -- a non-final value exceeds the last one (`Released.applyEach_lastMax` covers the other lists)
     ¬ initAllLe (lastOfInt settingInitialWindowSize o.initWin kvs) kvs ∧
     old.1.initWin = 0 ∧ (old.2.flatMap QFrame.send).map Frame.payloadLen = [50] ∧
     (old.1.streams.get 1).map (·.win) = some (-50) ∧
     new.1.initWin = 0 ∧ new.2 = [] ∧ (new.1.streams.get 1).map (·.win) = some 0) := by
  constructor
  · intro h
    let evs : List (Ev Unit) :=
        [⟨.server, fun _ => [], .settings [(4, 0)]⟩,
         ⟨.client, fun _ => [], .data 1 (List.replicate 50 ()) none true⟩]
    have hinv := ((RInv.init (α := Unit)).run evs).cs
    have := h _ _ _ hinv (fun _ => []) [(4, 50), (3, 100), (4, 0)] (.data 1 true (List.replicate 50 ())) (by decide)
    revert this
    decide
  · decide

/-- **the plain dedup satisfies the statement as well**: a relay that collects the frame's final
    values — EVERY identifier once, with its last value — before it touches the queues
    (`applySettingsLastOnly`) releases, for every frame, state and iteration order, only frames
    within `last value + Σ increments` of their streams.  (The code dedups the two identifiers that
    only have a current value and hands every SETTINGS_HEADER_TABLE_SIZE to HPACK.) -/
theorem c09_repeated_settings_last_only_full : c09_stream_ledger_repeated_settings_full α applySettingsLastOnly := by
  intro o L H h ord kvs q hq
  obtain ⟨st, hs, hw⟩ := Released.applySettingsLastOnly h.book ord kvs q hq
  have hb := (h.applyEach ord 0 (lastOcc kvs)).book.win q.sid st hs
  rw [(applyEach_cfg o ord 0 (lastOcc kvs)).1, lastOfInt_lastOcc] at hb
  unfold applySettingsLastOnly
  omega

/-- … and changes nothing else: the same values are in force afterwards as with the value-by-value
    loop (the last ones), the invariants of the direction (bookkeeping, no stranding, FIFO) are
    kept, and on a frame that names no identifier twice it IS that loop. -/
theorem c09_repeated_settings_last_only_conservative {o : Dir α} {L : Ledger} {H : Hist α} (h : Inv o L H)
    (ord : Nat → List Nat) (kvs : List (Nat × Nat)) :
    (applySettingsLastOnly o ord kvs).1.initWin = (applyEach o ord 0 kvs).1.initWin ∧
    (applySettingsLastOnly o ord kvs).1.maxFrame = (applyEach o ord 0 kvs).1.maxFrame ∧
    (applySettingsLastOnly o ord kvs).1.tableSize = (applyEach o ord 0 kvs).1.tableSize ∧
    Inv (applySettingsLastOnly o ord kvs).1 (L.addEmitted (applySettingsLastOnly o ord kvs).2)
      (H.addOut (applySettingsLastOnly o ord kvs).2) ∧
    ((kvs.map (·.1)).Nodup → applySettingsLastOnly o ord kvs = applyEach o ord 0 kvs) := by
  have h1 := applyEach_cfg o ord 0 kvs
  have h2 := applyEach_cfg o ord 0 (lastOcc kvs)
  refine ⟨?_, ?_, ?_, h.applyEach ord 0 (lastOcc kvs), ?_⟩
  · show (applyEach o ord 0 (lastOcc kvs)).1.initWin = _
    rw [h2.1, h1.1, lastOfInt_lastOcc]
  · show (applyEach o ord 0 (lastOcc kvs)).1.maxFrame = _
    rw [h2.2.1, h1.2.1, lastOf_lastOcc]
  · show (applyEach o ord 0 (lastOcc kvs)).1.tableSize = _
    rw [h2.2.2, h1.2.2, lastOf_lastOcc]
  · intro hn
    unfold applySettingsLastOnly
    rw [lastOcc_of_nodup kvs hn]

/-- **the repair changes nothing else**: `relay.applySettings` puts the same values in force as the
    loop it replaced, keeps the invariants of the direction (bookkeeping, no stranding, FIFO),
    forwards the frame verbatim as before, and on a frame that names no identifier twice — every
    frame the other clauses speak about — it IS that loop, step for step. -/
theorem c09_settings_repair_conservative {o : Dir α} {L : Ledger} {H : Hist α} (h : Inv o L H)
    (d : Dir α) (ord : Nat → List Nat) (kvs : List (Nat × Nat)) :
    SameCfg (settingsEachValue α o ord kvs).1 (settingsAsCoded α o ord kvs).1 ∧
    Inv (settingsAsCoded α o ord kvs).1 (L.addEmitted (settingsAsCoded α o ord kvs).2)
      (H.addOut (settingsAsCoded α o ord kvs).2) ∧
    (process d o ord (.settings kvs)).2.2.fwdDirect = [.settings kvs] ∧
    ((kvs.map (·.1)).Nodup → settingsAsCoded α o ord kvs = settingsEachValue α o ord kvs) := by
  have hl := c09_settings_last_wins o ord ord 0 0 kvs
  refine ⟨⟨hl.2.2.2.1.1.symm, hl.2.2.2.1.2.1.symm, hl.2.2.2.1.2.2.symm⟩, h.applySettings ord kvs, rfl, ?_⟩
  intro hn
  unfold settingsAsCoded settingsEachValue applySettings
  rw [inForce_of_nodup kvs hn]

/-- the witness frame under the plain dedup: nothing is released, the 50 octets wait (window 0)
    and a WINDOW_UPDATE of 50 releases them; the code does the same -/
example :
    let evs : List (Ev Unit) :=
      [⟨.server, fun _ => [], .settings [(4, 0)]⟩,
       ⟨.client, fun _ => [], .data 1 (List.replicate 50 ()) none true⟩]
    let o := (after evs).1.cs
    let x := applySettingsLastOnly o (fun _ => []) [(4, 50), (3, 100), (4, 0)]
    let y := applySettings o (fun _ => []) [(4, 50), (3, 100), (4, 0)]
    x.2 = [] ∧ x.1.initWin = 0 ∧ (x.1.streams.get 1).map (·.win) = some 0 ∧
    ((x.1.windowUpdate [] 1 50).2.flatMap QFrame.send).map Frame.payloadLen = [50] ∧
    y.2 = [] ∧ ((y.1.windowUpdate [] 1 50).2.flatMap QFrame.send).map Frame.payloadLen = [50] := by
  decide

/-- a chain that ENDS higher does release, once, under the value in force: `{0, 50}` frees the 50
    octets and leaves the window at 0 -/
example :
    let evs : List (Ev Unit) :=
      [⟨.server, fun _ => [], .settings [(4, 0)]⟩,
       ⟨.client, fun _ => [], .data 1 (List.replicate 50 ()) none true⟩]
    let y := applySettings (after evs).1.cs (fun _ => []) [(4, 0), (3, 100), (4, 50)]
    (y.2.flatMap QFrame.send).map Frame.payloadLen = [50] ∧ (y.1.streams.get 1).map (·.win) = some 0 := by
  decide

/-- witness for reading the frame through `SettingsFrame.Value` (first occurrence, fixed order;
    numbers scaled down by 100): `{INITIAL_WINDOW_SIZE=655, MAX_CONCURRENT_STREAMS=100,
    INITIAL_WINDOW_SIZE=30}` — defaults followed by an override.  With the value in force the window
    is 30 and a 50-octet DATA frame waits; first-wins leaves 655 in force and the 50 octets go out on
    a stream for which the endpoint granted 30. -/
theorem c09_settings_first_wins_witness :
    let kvs : List (Nat × Nat) := [(4, 655), (3, 100), (4, 30)]
    let inOrder : Dir Unit := (applySettings ({} : Dir Unit) (fun _ => []) kvs).1
    let first : Dir Unit := (applySettingsFirst ({} : Dir Unit) (fun _ => []) kvs).1
    inOrder.initWin = 30 ∧ lastOfInt settingInitialWindowSize 65535 kvs = 30 ∧ first.initWin = 655 ∧
    ((inOrder.data 1 (List.replicate 50 ()) false).2.flatMap QFrame.send).map Frame.payloadLen = [] ∧
    ((first.data 1 (List.replicate 50 ()) false).2.flatMap QFrame.send).map Frame.payloadLen = [50] := by
  decide

/-! ### non-vacuity -/

/-- a schedule in which a stream window goes negative with data queued (initial window lowered
    from 65 535 to 0 after 100 octets were sent and 200 more are blocked on the connection… here
    on the stream), nothing is released, and a later increase releases it -/
example :
    let evs : List (Ev Unit) :=
      [⟨.server, fun _ => [], .settings [(4, 100)]⟩,
       ⟨.client, fun _ => [], .data 1 (List.replicate 100 ()) none false⟩,
       ⟨.client, fun _ => [], .data 1 (List.replicate 50 ()) none true⟩,
       ⟨.server, fun _ => [], .settings [(4, 0)]⟩]
    let r := (Relay.run {} evs).1
    (r.cs.streams.get 1).map (·.win) = some (-100) ∧
    (r.step .server (fun _ => []) (.windowUpdate 1 149)).2.back = [] ∧
    ((r.step .server (fun _ => []) (.windowUpdate 1 150)).2.back.flatMap QFrame.send).map Frame.payloadLen = [50] := by
  decide

/-- `c09_suffix_within_credit` with equality: 100 octets wait behind a stream window of 0 (the
    connection window still holds 65 535); the continuation grants 60 + 40 on the stream and 7 on
    the connection: exactly 100 octets leave, 65 535 + 7 would have been allowed -/
example :
    let evs : List (Ev Unit) :=
      [⟨.server, fun _ => [], .settings [(4, 0)]⟩,
       ⟨.client, fun _ => [], .data 1 (List.replicate 100 ()) none true⟩]
    let sfx : List (Ev Unit) :=
      [⟨.server, fun _ => [], .windowUpdate 1 60⟩, ⟨.server, fun _ => [], .windowUpdate 0 7⟩,
       ⟨.server, fun _ => [], .windowUpdate 1 40⟩]
    (after (evs ++ sfx)).2.Lcs.total - (after evs).2.Lcs.total = 100 ∧
    (after evs).1.cs.connWin + ((after (evs ++ sfx)).2.Lcs.incConn - (after evs).2.Lcs.incConn) = 65542 := by
  decide

-- three identifiers repeated, two unknown ones in between: 4 → 70, 5 → 16384, 1 → 0; the code acts
-- on the last INITIAL_WINDOW_SIZE and MAX_FRAME_SIZE and on both HEADER_TABLE_SIZE values
example :
    let kvs : List (Nat × Nat) := [(4, 65535), (5, 32768), (153, 7), (1, 4096), (4, 100), (5, 16384), (1, 0), (3, 9), (4, 70)]
    lastOcc kvs = [(153, 7), (5, 16384), (1, 0), (3, 9), (4, 70)] ∧
    inForce kvs = [(153, 7), (1, 4096), (5, 16384), (1, 0), (3, 9), (4, 70)] ∧
    ((applySettings ({} : Dir Unit) (fun _ => []) kvs).1.initWin,
     (applySettings ({} : Dir Unit) (fun _ => []) kvs).1.maxFrame,
     (applySettings ({} : Dir Unit) (fun _ => []) kvs).1.tableSize) = (70, 16384, 0) := by
  decide

-- `c09_stream_ledger` speaks of such steps too: a SETTINGS frame naming INITIAL_WINDOW_SIZE three times
example : initCount [(4, 65535), (5, 20000), (4, 70), (3, 9), (4, 100)] = 3 ∧
    initCount (inForce [(4, 65535), (5, 20000), (4, 70), (3, 9), (4, 100)]) = 1 := by
  decide

/-! ### Tie to the source: protocol constants of `relay.go`

`Model/C09Gen.lean` is regenerated on every run from the constant block of
`internal/martian/h2/relay.go`.  The windows and the frame-size limit a fresh relay direction starts
with in the model (`Dir`'s defaults, over which every theorem above is stated) are those constants. -/

theorem c09_generated_defaults_are_model {α : Type} :
    (({} : Dir α).initWin, ({} : Dir α).connWin, (({} : Dir α).maxFrame : Int))
      = (C09Gen.defaultInitialWindowSize, C09Gen.defaultInitialWindowSize, C09Gen.initialMaxFrameSize) := by
  rfl

/-- the values RFC 7540 §6.5.2 / §6.9.2 prescribe -/
theorem c09_generated_defaults_are_rfc7540 :
    C09Gen.defaultInitialWindowSize = 65535 ∧ C09Gen.initialMaxFrameSize = 16384 ∧
    C09Gen.initialMaxHeaderTableSize = 4096 ∧ C09Gen.headersPriorityMetadataLength = 5 := by
  decide

end C09
end FwdVerif
