/-
  C04 — access control is complete: property theorems over the request pipeline model
  (`Model/Req.lean`: `securityCheck`, `processRequest`, `processConnect`, `processConnection`,
  `requestActions`/`connectActions`, `errorHeadersBuilt/Received`, `isLocalhost`;
  `Model/C04.lean`: the four controls, `firstFailing`, `requestView`/`connectView`).
  Helper lemmas are in `Lemmas/C04.lean`.

  Reading guide: `requestView r = some (hn, pa)` says the request is readable, its URL host name is
  `hn` and `Header.Get("Proxy-Authorization")` yields `pa`; `firstFailing cfg hn pa` is the first
  control, in the order time frame → basic auth → localhost → deny-domains, that rejects.
  Concrete examples are evaluated by the kernel (`with_unfolding_all decide`).
-/
import FwdVerif.Lemmas.C06
import FwdVerif.Model.C04Gen

namespace FwdVerif
namespace C04

open Ascii Req
open C16 (HMap)

/-! ## A. The decision: refused exactly by the first failing control, for every method -/

/-- the security prefix of the modifier stack is the first failing control in the fixed order -/
theorem c04_first_failing_control (cfg : Cfg) (g : GoReq) :
    securityCheck cfg g =
      (firstFailing cfg (hostname g.urlHost) (goGet g.header (bs "Proxy-Authorization"))).map Control.refusal :=
  securityCheck_eq_firstFailing cfg g

/-- status of each refusal kind: 451 / 407 / 403 / 403 -/
theorem c04_status_map :
    Control.timeFrame.refusal.status = 451 ∧ Control.basicAuth.refusal.status = 407 ∧
      Control.localhost.refusal.status = 403 ∧ Control.denyDomains.refusal.status = 403 := by decide

/-- some enabled control rejects ⇔ there is a first one (so "refused whenever ANY control fails") -/
theorem c04_some_control_fails_iff (cfg : Cfg) (hn pa : Bytes) :
    (∃ c, Control.fails cfg hn pa c = true) ↔ ∃ c, firstFailing cfg hn pa = some c := by
  constructor
  · rintro ⟨c, hc⟩
    have hm : c ∈ order := by cases c <;> simp [order]
    cases h : firstFailing cfg hn pa with
    | some c' => exact ⟨c', rfl⟩
    | none =>
      unfold firstFailing at h
      have := List.find?_eq_none.mp h c hm
      simp [hc] at this
  · rintro ⟨c, hc⟩
    unfold firstFailing at hc
    exact ⟨c, by simpa using List.find?_some hc⟩

/-- the controls consulted before a given one -/
def before : Control → List Control
  | .timeFrame => []
  | .basicAuth => [.timeFrame]
  | .localhost => [.timeFrame, .basicAuth]
  | .denyDomains => [.timeFrame, .basicAuth, .localhost]

/-- the first failing control fails, and every control consulted before it passes -/
theorem c04_first_failing_is_first {cfg : Cfg} {hn pa : Bytes} {c : Control}
    (h : firstFailing cfg hn pa = some c) :
    Control.fails cfg hn pa c = true ∧ ∀ c' ∈ before c, Control.fails cfg hn pa c' = false := by
  unfold firstFailing order at h
  refine ⟨by simpa using List.find?_some h, ?_⟩
  intro c' hc'
  simp only [List.find?] at h
  cases h1 : Control.fails cfg hn pa .timeFrame <;> cases h2 : Control.fails cfg hn pa .basicAuth <;>
    cases h3 : Control.fails cfg hn pa .localhost <;> cases h4 : Control.fails cfg hn pa .denyDomains <;>
    simp only [h1, h2, h3, h4] at h <;> cases h <;>
    simp only [before, List.mem_cons, List.not_mem_nil, or_false] at hc' <;>
    (try (rcases hc' with rfl | rfl | rfl)) <;> (try (rcases hc' with rfl | rfl)) <;> (try subst hc') <;> assumption

/-- a non-CONNECT request (any method, target form, version, header layout) that fails a control is
    answered by the proxy with the status of the FIRST failing control -/
theorem c04_request_refused {cfg : Cfg} {ctx : Ctx} {r : Request} {hn pa : Bytes} {c : Control}
    (hv : requestView r = some (hn, pa)) (hf : firstFailing cfg hn pa = some c) :
    processRequest cfg ctx r = .refused c.refusal.status c.refusal :=
  processRequest_of_failing hv hf

/-- the same for CONNECT -/
theorem c04_connect_refused {cfg : Cfg} {ctx : Ctx} {q : ConnectReq} {hn pa : Bytes} {c : Control}
    (hv : connectView q = some (hn, pa)) (hf : firstFailing cfg hn pa = some c) :
    processConnect cfg ctx q = .refused c.refusal.status c.refusal :=
  processConnect_of_failing hv hf

def exCfg : Cfg :=
  { tag := bs "t-1", name := bs "fwd", basicAuth := some (bs "user", bs "pw"), denyLocalhost := true,
    localhostNames := [bs "localhost", bs "0.0.0.0", bs "::"], denyRules := [{ pat := .suffix (bs ".blocked.test") }] }

def exGet (host : String) (fields : List (Bytes × Bytes)) : Request :=
  { method := bs "GET", minor := 1, target := .origin, path := bs "/", query := none,
    fields := (bs "Host", bs host) :: fields }

-- a request with the right credentials for 127.0.0.1 fails the localhost control first
example : requestView (exGet "127.0.0.1:8080" [(bs "proxy-AUTHORIZATION", bs "Basic dXNlcjpwdw==")]) =
      some (bs "127.0.0.1", bs "Basic dXNlcjpwdw==") ∧
    firstFailing exCfg (bs "127.0.0.1") (bs "Basic dXNlcjpwdw==") = some .localhost := by
  with_unfolding_all decide

-- without credentials the same request fails basic auth first (407, not 403)
example : firstFailing exCfg (bs "127.0.0.1") [] = some .basicAuth := by with_unfolding_all decide

example : connectView { authority := bs "a.blocked.test:443", fields := [(bs "Proxy-Authorization", bs "Basic dXNlcjpwdw==")] } =
      some (bs "a.blocked.test", bs "Basic dXNlcjpwdw==") ∧
    firstFailing exCfg (bs "a.blocked.test") (bs "Basic dXNlcjpwdw==") = some .denyDomains := by
  with_unfolding_all decide

/-! ## B. Refused ⇒ nothing happens upstream -/

/-- a refused non-CONNECT request causes no upstream action at all -/
theorem c04_refused_no_upstream_request {cfg : Cfg} {ctx : Ctx} {r : Request} {st : Nat} {why : Refusal}
    (h : processRequest cfg ctx r = .refused st why) : requestActions cfg ctx r = [] := by
  unfold requestActions
  rw [h]

/-- a refused CONNECT causes no upstream action at all -/
theorem c04_refused_no_upstream_connect {cfg : Cfg} {ctx : Ctx} {q : ConnectReq} {st : Nat} {why : Refusal}
    (h : processConnect cfg ctx q = .refused st why) : connectActions cfg ctx q = [] := by
  unfold connectActions
  rw [h]

/-- failing any enabled control ⇒ refused with the first failing control's status AND no connection
    opened, no byte sent, whatever the connection context (plain or inside an intercepted tunnel) -/
theorem c04_failing_item_refused_and_silent {cfg : Cfg} (ctx : Ctx) {it : ConnItem} {hn pa : Bytes} {c : Control}
    (hv : itemView it = some (hn, pa)) (hf : firstFailing cfg hn pa = some c) :
    ItemOutcome.refusedWith (processItem cfg ctx it) c.refusal = true ∧ itemActions cfg ctx it = [] := by
  cases it with
  | req r =>
    have h := c04_request_refused (ctx := ctx) hv hf
    refine ⟨?_, c04_refused_no_upstream_request h⟩
    simp [processItem, h, ItemOutcome.refusedWith]
  | connect q =>
    have h := c04_connect_refused (ctx := ctx) hv hf
    refine ⟨?_, c04_refused_no_upstream_connect h⟩
    simp [processItem, h, ItemOutcome.refusedWith]

example : itemView (.req (exGet "LOCALHOST" [])) = some (bs "LOCALHOST", []) ∧
    firstFailing exCfg (bs "LOCALHOST") [] = some .basicAuth := by with_unfolding_all decide

/-- position on the connection does not matter: every outcome produced on a keep-alive connection is
    the outcome of the same per-request function applied to that request alone (before or after an
    accepted request, outside or inside an intercepted tunnel) -/
theorem c04_every_position (cfg : Cfg) (ctx : Ctx) (items : List ConnItem) (o : ItemOutcome)
    (h : o ∈ processConnection cfg ctx items) :
    ∃ it ∈ items, ∃ sec : Bool, o = processItem cfg { ctx with secure := sec } it :=
  processConnection_mem cfg items ctx o h

example : (processConnection exCfg { clientIP := bs "10.0.0.1" }
    [.req (exGet "origin.test" [(bs "Proxy-Authorization", bs "Basic dXNlcjpwdw==")]), .req (exGet "origin.test" [])]).length = 2 := by
  with_unfolding_all decide

/-! ## C. Authentication is exact -/

/-- the basic-auth control accepts exactly the values that decode (case-insensitive `Basic `, strict
    base64, split at the first colon) to the configured user and password -/
theorem c04_authenticated_iff (u p v : Bytes) : authenticated u p v = true ↔ parseBasicAuth v = some (u, p) :=
  authenticated_iff u p v

/-- with basic auth enabled the control passes iff the FIRST Proxy-Authorization value decodes to
    exactly the configured pair -/
theorem c04_auth_control_iff {cfg : Cfg} {u p : Bytes} (hb : cfg.basicAuth = some (u, p)) (hn pa : Bytes) :
    Control.fails cfg hn pa .basicAuth = false ↔ parseBasicAuth pa = some (u, p) := by
  unfold Control.fails
  rw [hb]
  simp only [Bool.not_eq_false']
  exact authenticated_iff u p pa

/-- no prefix, suffix or case variant passes: a value whose decoded pair differs from the configured
    one in any way, or that does not decode, is rejected by the control -/
theorem c04_other_credentials_rejected {cfg : Cfg} {u p : Bytes} (hb : cfg.basicAuth = some (u, p)) (hn pa : Bytes)
    (h : ∀ u' p', parseBasicAuth pa = some (u', p') → (u', p') ≠ (u, p)) :
    Control.fails cfg hn pa .basicAuth = true := by
  cases hf : Control.fails cfg hn pa .basicAuth with
  | true => rfl
  | false =>
    have := (c04_auth_control_iff hb hn pa).mp hf
    exact absurd rfl (h u p this)

/-- equality of the PAIR, not of anything derived from it: the control passes iff the first
    Proxy-Authorization value carries (scheme `Basic` in any case, one space, strict base64) a
    credentials string that is exactly `user`, the first colon, `password` — user and password
    compared separately, the boundary being the FIRST colon of the decoded string -/
theorem c04_auth_pair_iff (u p v : Bytes) :
    authenticated u p v = true ↔ ∃ cs, basicPayload v = some cs ∧ cs = u ++ 58 :: p ∧ (58 : UInt8) ∉ u := by
  rw [authenticated_iff, parseBasicAuth_eq]
  constructor
  · intro h
    cases hb : basicPayload v with
    | none => rw [hb] at h; cases h
    | some cs =>
      rw [hb] at h
      exact ⟨cs, rfl, (splitFirstColon_iff cs u p).mp h⟩
  · rintro ⟨cs, hb, hc⟩
    rw [hb]
    exact (splitFirstColon_iff cs u p).mpr hc

/-- the decoded pair of a value is unique: a value cannot authenticate two different configured pairs -/
theorem c04_auth_pair_unique {u p u' p' v : Bytes} (h : authenticated u p v = true) (h' : authenticated u' p' v = true) :
    u' = u ∧ p' = p := by
  rw [authenticated_iff] at h h'
  rw [h] at h'
  cases h'
  exact ⟨rfl, rfl⟩

/-- shifted-boundary (and every other "near") credentials are rejected: the canonical encoding of a
    pair `(u', p')` that differs from the configured `(u, p)` in the user OR in the password fails
    the control — in particular when `u' ++ p' = u ++ p` (use:rpass for user:pass), when the two are
    swapped, prefixes, suffixes, case variants, or when either is empty -/
theorem c04_shifted_boundary_rejected {cfg : Cfg} {u p : Bytes} (hb : cfg.basicAuth = some (u, p)) (hn : Bytes)
    {u' p' : Bytes} (hu' : (58 : UInt8) ∉ u') (hne : u' ≠ u ∨ p' ≠ p) :
    Control.fails cfg hn (basicAuthValue u' p') .basicAuth = true := by
  apply c04_other_credentials_rejected hb
  intro a b hab
  rw [parseBasicAuth_basicAuthValue u' p' hu'] at hab
  cases hab
  intro he
  cases he
  rcases hne with h | h <;> exact h rfl

/-- a user name with a colon can never be presented: the credentials string `u':p'` with a colon in
    `u'` is read as (part of `u'` before its first colon, rest) -/
theorem c04_colon_in_user_reads_differently (u' p' a b : Bytes) :
    parseBasicAuth (basicAuthValue (a ++ 58 :: u') p') = some (a, b) → (58 : UInt8) ∉ a → b = u' ++ 58 :: p' := by
  intro h ha
  rw [parseBasicAuth_eq, basicPayload_basicAuthValue] at h
  simp only [Option.bind_some] at h
  obtain ⟨hc, _⟩ := (splitFirstColon_iff _ a b).mp h
  have : a ++ 58 :: u' ++ 58 :: p' = a ++ 58 :: (u' ++ 58 :: p') := by simp
  rw [this] at hc
  have := List.append_cancel_left hc
  simp only [List.cons.injEq, true_and] at this
  exact this.symm

-- configured user:pass — the shifted boundaries use:rpass, userp:ass, :userpass, userpass: have the same
-- concatenation and are all rejected; so are swapped, doubled colon, empty parts, case variants
example :
    let cfg : Cfg := { C04.exCfg with basicAuth := some (bs "user", bs "pass") }
    (bs "use" ++ bs "rpass" = bs "user" ++ bs "pass") ∧
    Control.fails cfg [] (basicAuthValue (bs "user") (bs "pass")) .basicAuth = false ∧
    Control.fails cfg [] (basicAuthValue (bs "use") (bs "rpass")) .basicAuth = true ∧
    Control.fails cfg [] (basicAuthValue (bs "userp") (bs "ass")) .basicAuth = true ∧
    Control.fails cfg [] (basicAuthValue [] (bs "userpass")) .basicAuth = true ∧
    Control.fails cfg [] (basicAuthValue (bs "userpass") []) .basicAuth = true ∧
    Control.fails cfg [] (basicAuthValue (bs "pass") (bs "user")) .basicAuth = true ∧
    Control.fails cfg [] (basicAuthValue (bs "user") (bs ":pass")) .basicAuth = true ∧
    Control.fails cfg [] (basicAuthValue (bs "user") []) .basicAuth = true ∧
    Control.fails cfg [] (basicAuthValue [] (bs "pass")) .basicAuth = true ∧
    Control.fails cfg [] (basicAuthValue (bs "User") (bs "pass")) .basicAuth = true ∧
    Control.fails cfg [] (basicAuthValue (bs "user") (bs "pass ")) .basicAuth = true := by
  with_unfolding_all decide

-- a password may contain colons: user:p:w d is the pair (user, p:w d), not (user:p, w d)
example : parseBasicAuth (basicAuthValue (bs "user") (bs "p:w d")) = some (bs "user", bs "p:w d") ∧
    authenticated (bs "user:p") (bs "w d") (basicAuthValue (bs "user") (bs "p:w d")) = false := by
  with_unfolding_all decide

/-- `base64.StdEncoding`: decoding inverts encoding, for every byte string -/
theorem c04_base64_roundtrip (x : Bytes) : b64Decode (b64Encode x) = some x := b64Decode_encode x

/-- the right credentials authenticate: the standard encoding `Basic base64(user:password)` of the
    configured pair passes the control, for every user name without a colon and every password -/
theorem c04_right_credentials_pass {cfg : Cfg} {u p : Bytes} (hb : cfg.basicAuth = some (u, p))
    (hu : (58 : UInt8) ∉ u) (hn : Bytes) : Control.fails cfg hn (basicAuthValue u p) .basicAuth = false :=
  (c04_auth_control_iff hb hn _).mpr (parseBasicAuth_basicAuthValue u p hu)

example : basicAuthValue (bs "user") (bs "p:w d") = bs "Basic dXNlcjpwOncgZA==" := by with_unfolding_all decide

-- "Basic dXNlcjpwdw==" = user:pw; variants: user:pw2, USER:pw, use:pw, lower-case scheme is accepted
example : parseBasicAuth (bs "Basic dXNlcjpwdw==") = some (bs "user", bs "pw") ∧
    parseBasicAuth (bs "basic dXNlcjpwdw==") = some (bs "user", bs "pw") ∧
    parseBasicAuth (bs "Basic dXNlcjpwdzI=") = some (bs "user", bs "pw2") ∧
    parseBasicAuth (bs "Basic VVNFUjpwdw==") = some (bs "USER", bs "pw") ∧
    parseBasicAuth (bs "Basic dXNlOnB3") = some (bs "use", bs "pw") ∧
    parseBasicAuth (bs "Basic dXNlcjpwdw=") = none ∧ parseBasicAuth (bs "Bearer dXNlcjpwdw==") = none ∧
    parseBasicAuth (bs "Basic dXNlcnB3") = none := by
  with_unfolding_all decide

/-- "the first Proxy-Authorization field": for a non-CONNECT request the value the control decodes is
    the value of the first field line whose name is any upper/lower-case spelling of
    Proxy-Authorization (later lines, and a Connection nomination of the name, play no part) -/
theorem c04_request_first_proxy_authorization {r : Request} {hn pa : Bytes} (hv : requestView r = some (hn, pa)) :
    pa = (C06.wireValues (bs "Proxy-Authorization") r.fields).headD [] := by
  unfold requestView at hv
  cases hr : readRequest r with
  | error e => rw [hr] at hv; simp at hv
  | ok g0 =>
    rw [hr] at hv
    simp only [Option.some.injEq, Prod.mk.injEq] at hv
    rw [← hv.2]
    exact C06.readRequest_proxyAuthorization hr

/-- the same for CONNECT -/
theorem c04_connect_first_proxy_authorization {q : ConnectReq} {hn pa : Bytes} (hv : connectView q = some (hn, pa)) :
    pa = (C06.wireValues (bs "Proxy-Authorization") q.fields).headD [] := by
  unfold connectView at hv
  cases hr : readRequest q.asRequest with
  | error e => rw [hr] at hv; simp at hv
  | ok g0 =>
    rw [hr] at hv
    simp only [Option.some.injEq, Prod.mk.injEq] at hv
    rw [← hv.2]
    have hne : bs "Proxy-Authorization" ≠ canonicalKey (bs "X-Martian-Terminate-Tls") := by with_unfolding_all decide
    have := C06.readRequest_proxyAuthorization hr
    unfold goGet hget C16.HMap.get at this ⊢
    unfold C16.goDel
    rw [canon_proxyAuthorization] at this ⊢
    rw [lookup_erase_ne _ hne]
    exact this

example : C06.wireValues (bs "Proxy-Authorization")
    [(bs "Host", bs "h"), (bs "proxy-AUTHORIZATION", bs "first"), (bs "Proxy-Authorization", bs "second")] = [bs "first", bs "second"] := by
  with_unfolding_all decide

/-! ## D. Passing every control ⇒ forwarded -/

/-- a readable non-CONNECT request that passes every enabled control is never answered 407/403/451:
    it is forwarded, unless its framing is contradictory (400), it already passed through this
    instance (400, C18) or the routing itself fails (C05) -/
theorem c04_request_passing_forwarded {cfg : Cfg} {ctx : Ctx} {r : Request} {hn pa : Bytes}
    (hv : requestView r = some (hn, pa)) (hf : firstFailing cfg hn pa = none) :
    processRequest cfg ctx r = .badRequest ∨ processRequest cfg ctx r = .refused 400 .loop ∨
      processRequest cfg ctx r = .routeError ∨ ∃ hop out, processRequest cfg ctx r = .forwarded hop out :=
  processRequest_of_passing hv hf

/-- the same for CONNECT: intercepted, or a tunnel is opened -/
theorem c04_connect_passing_forwarded {cfg : Cfg} {ctx : Ctx} {q : ConnectReq} {hn pa : Bytes}
    (hv : connectView q = some (hn, pa)) (hf : firstFailing cfg hn pa = none) :
    processConnect cfg ctx q = .badRequest ∨ processConnect cfg ctx q = .refused 400 .loop ∨
      processConnect cfg ctx q = .routeError ∨ processConnect cfg ctx q = .mitm ∨
      ∃ a, processConnect cfg ctx q = .tunnel a :=
  processConnect_of_passing hv hf

example : firstFailing exCfg (bs "origin.test") (bs "Basic dXNlcjpwdw==") = none ∧
    (match processRequest exCfg { clientIP := bs "10.0.0.1" } (exGet "origin.test" [(bs "Proxy-Authorization", bs "Basic dXNlcjpwdw==")]) with
      | .forwarded (.direct h) _ => h == bs "origin.test" | _ => false) = true ∧
    (requestActions exCfg { clientIP := bs "10.0.0.1" } (exGet "origin.test" [(bs "Proxy-Authorization", bs "Basic dXNlcjpwdw==")])).length = 1 := by
  with_unfolding_all decide

/-! ## E. The 407 challenge -/

/-- the response `errorResponse` builds for a 407 carries the challenge -/
theorem c04_challenge_built (cfg : Cfg) :
    HMap.get (errorHeadersBuilt cfg .auth) (bs "Proxy-Authenticate") = some [challengeValue cfg] := by
  unfold errorHeadersBuilt HMap.get
  have h1 : bs "Proxy-Authenticate" ≠ canonicalKey (bs "Content-Type") := by with_unfolding_all decide
  have h2 : bs "Proxy-Authenticate" ≠ canonicalKey (bs "X-Forwarder-Error") := by with_unfolding_all decide
  have h3 : (Refusal.auth.status == 407) = true := by decide
  simp only [h3, if_true]
  rw [lookup_goSet_ne _ _ h1, lookup_goSet_ne _ _ h2]
  have := lookup_goSet_self [] (bs "Proxy-Authenticate") (challengeValue cfg)
  rw [canon_proxyAuthenticate] at this
  exact this

/-- hop-by-hop removal (run over the error response by `writeErrorResponse`) deletes the field … -/
theorem c04_challenge_stripped_by_modifiers (cfg : Cfg) (why : Refusal) :
    HMap.get (removeHopByHop (errorHeadersBuilt cfg why)) (bs "Proxy-Authenticate") = none := by
  have := removeHopByHop_static (errorHeadersBuilt cfg why) mem_hop_proxyAuthenticate
  rw [canon_proxyAuthenticate] at this
  exact this

/-- full clause (formerly false of the code, F19 — fixed): the 407 *as the client receives it*
    carries `Proxy-Authenticate: Basic realm="<name>"` — `writeErrorResponse` puts the challenge of a
    locally generated 407 back after the response modifiers ran -/
theorem c04_challenge_full (cfg : Cfg) :
    HMap.get (errorHeadersReceived cfg .auth) (bs "Proxy-Authenticate") = some [challengeValue cfg] := by
  have hb : hget (errorHeadersBuilt cfg .auth) (bs "Proxy-Authenticate") = [challengeValue cfg] := by
    unfold hget; rw [c04_challenge_built]; rfl
  have hs : hget (removeHopByHop (errorHeadersBuilt cfg .auth)) (bs "Proxy-Authenticate") = [] := by
    unfold hget; rw [c04_challenge_stripped_by_modifiers]; rfl
  have h3 : (Refusal.auth.status == 407) = true := by decide
  unfold errorHeadersReceived
  simp only [h3, if_true, hb, hs, List.isEmpty_cons, List.isEmpty_nil, Bool.not_false, Bool.and_self]
  exact C16.lookup_put_self _ _ _

/-- … and only a 407 gets one: the other refusals (403, 451, 400) reach the client without -/
theorem c04_challenge_only_on_407 (cfg : Cfg) (why : Refusal) (hw : why ≠ .auth) :
    HMap.get (errorHeadersReceived cfg why) (bs "Proxy-Authenticate") = none := by
  have h3 : (why.status == 407) = false := by cases why <;> first | rfl | exact absurd rfl hw
  unfold errorHeadersReceived
  simp only [h3, Bool.false_eq_true, if_false, List.isEmpty_nil, Bool.not_true, Bool.false_and]
  exact c04_challenge_stripped_by_modifiers cfg why

example : HMap.get (errorHeadersReceived C04.exCfg .auth) (bs "Proxy-Authenticate") = some [bs "Basic realm=\"fwd\""] ∧
    HMap.get (errorHeadersReceived C04.exCfg .denied) (bs "Proxy-Authenticate") = none := by
  with_unfolding_all decide

/-- … and the error text header does reach the client -/
theorem c04_error_text_received (cfg : Cfg) (why : Refusal) :
    HMap.get (errorHeadersReceived cfg why) (bs "X-Forwarder-Error") = some [cfg.name ++ [32] ++ why.errText] := by
  have hX : canonicalKey (bs "X-Forwarder-Error") = bs "X-Forwarder-Error" := by with_unfolding_all decide
  have hCT : bs "X-Forwarder-Error" ≠ canonicalKey (bs "Content-Type") := by with_unfolding_all decide
  have hPA : bs "X-Forwarder-Error" ≠ bs "Proxy-Authenticate" := by with_unfolding_all decide
  have hCn1 : bs "Connection" ≠ canonicalKey (bs "Content-Type") := by with_unfolding_all decide
  have hCn2 : bs "Connection" ≠ canonicalKey (bs "X-Forwarder-Error") := by with_unfolding_all decide
  have hCn3 : bs "Connection" ≠ canonicalKey (bs "Proxy-Authenticate") := by with_unfolding_all decide
  have hhop : ∀ n ∈ hopByHopNames, canonicalKey n ≠ bs "X-Forwarder-Error" := by with_unfolding_all decide
  have hconn : hget (errorHeadersBuilt cfg why) (bs "Connection") = [] := by
    unfold hget errorHeadersBuilt HMap.get
    rw [lookup_goSet_ne _ _ hCn1, lookup_goSet_ne _ _ hCn2]
    split
    · rw [lookup_goSet_ne _ _ hCn3]; rfl
    · rfl
  have hstripped : (removeHopByHop (errorHeadersBuilt cfg why)).lookup (bs "X-Forwarder-Error") =
      some [cfg.name ++ [32] ++ why.errText] := by
    unfold removeHopByHop
    simp only [hconn, List.flatMap_nil, List.foldl_nil]
    rw [lookup_foldl_goDel_ne _ hhop]
    unfold errorHeadersBuilt
    rw [lookup_goSet_ne _ _ hCT]
    have := lookup_goSet_self
      (if (why.status == 407) = true then C16.goSet [] (bs "Proxy-Authenticate") (challengeValue cfg) else [])
      (bs "X-Forwarder-Error") (cfg.name ++ [32] ++ why.errText)
    rw [hX] at this
    exact this
  have hany : ∀ (c : Prop) [Decidable c] (vs : List Bytes),
      (if c then HMap.put (removeHopByHop (errorHeadersBuilt cfg why)) (bs "Proxy-Authenticate") vs
        else removeHopByHop (errorHeadersBuilt cfg why)).lookup (bs "X-Forwarder-Error") =
        some [cfg.name ++ [32] ++ why.errText] := by
    intro c _ vs
    split
    · rw [C16.lookup_put_ne _ _ hPA]; exact hstripped
    · exact hstripped
  unfold errorHeadersReceived HMap.get
  exact hany _ _

/-! ## F. `isLocalhost` against its specification -/

/-- full clause (formerly false of the code, F2 — fixed): the classifier accepts exactly the
    configured names and the loopback or unspecified IP literals in any spelling -/
theorem c04_localhost_spec_full (cfg : Cfg) (host : Bytes) : isLocalhost cfg host = isLocalhostSpec cfg host := rfl

/-- never too much: whatever the classifier calls localhost is localhost by the specification -/
theorem c04_localhost_sound (cfg : Cfg) (host : Bytes) (h : isLocalhost cfg host = true) :
    isLocalhostSpec cfg host = true := by
  rw [← c04_localhost_spec_full]; exact h

/-- never too little: names, loopback and unspecified literals, each on its own, are enough -/
theorem c04_localhost_complete (cfg : Cfg) (host : Bytes)
    (h : cfg.localhostNames.contains (lower host) = true ∨ isLoopbackLiteral (lower host) = true ∨
      isUnspecifiedLiteral (lower host) = true) : isLocalhost cfg host = true := by
  unfold isLocalhost isLocalhostNames
  simp only [Bool.or_eq_true]
  rcases h with h | h | h
  · exact Or.inl (Or.inl h)
  · exact Or.inl (Or.inr h)
  · exact Or.inr h

def seedNames : List Bytes := [bs "localhost", bs "0.0.0.0", bs "::"]

-- loopback spellings, names, the unspecified address in canonical and non-canonical spellings (the
-- former F2 witnesses `0:0:0:0:0:0:0:0`, `::0`, `::ffff:0.0.0.0`), also without any configured name
example :
    let cfg : Cfg := { tag := [], name := [], localhostNames := seedNames }
    isLocalhost cfg (bs "::FFFF:7f00:1") = true ∧ isLocalhost cfg (bs "0:0:0:0:0:0:0:1") = true ∧
    isLocalhost cfg (bs "LocalHost") = true ∧ isLocalhost cfg (bs "::") = true ∧ isLocalhost cfg (bs "0.0.0.0") = true ∧
    isLocalhost cfg (bs "127.8.9.10") = true ∧ isLocalhost cfg (bs "128.0.0.1") = false ∧
    isLocalhost cfg (bs "::ffff:128.0.0.1") = false ∧ isLocalhost cfg (bs "127.1") = false ∧
    isLocalhost cfg (bs "0:0:0:0:0:0:0:0") = true ∧ isLocalhost cfg (bs "::0") = true ∧
    isLocalhost cfg (bs "::ffff:0.0.0.0") = true ∧
    isLocalhost { cfg with localhostNames := [] } (bs "0::0") = true ∧
    isLocalhost { cfg with localhostNames := [] } (bs "0.0.0.1") = false := by
  with_unfolding_all decide

-- end to end: with localhost denial on, `GET http://[::0]:8080/` (the former F2 witness: it used to be
-- forwarded, the proxy dialling the unspecified address, i.e. this host) is refused 403, nothing dialled
example :
    let cfg : Cfg := { tag := bs "t", name := bs "fwd", denyLocalhost := true, localhostNames := seedNames }
    let r : Request := { method := bs "GET", minor := 1, target := .absolute (bs "http") (bs "[::0]:8080"), path := bs "/", query := none, fields := [] }
    requestView r = some (bs "::0", []) ∧ firstFailing cfg (bs "::0") [] = some .localhost ∧
      (requestActions cfg { clientIP := bs "10.0.0.1" } r).length = 0 := by
  with_unfolding_all decide

/-! ## G. The allowed time frame is read on the LOCAL wall clock -/

/-- a frame allows exactly its weekday's hours `[start, end)` -/
theorem c04_timeframe_matches_iff (t : TimeFrame) (wd h : Nat) :
    t.matches wd h = true ↔ wd = t.weekday ∧ t.hourStart ≤ h ∧ h < t.hourEnd := by
  unfold TimeFrame.matches
  simp [and_assoc]

/-- the control passes iff no frame is configured or some frame contains the local weekday and hour -/
theorem c04_time_allowed_iff (es : List TimeFrame) (unix offset : Int) :
    timeAllowedAt es unix offset = true ↔
      es = [] ∨ ∃ t ∈ es, localWeekday unix offset = t.weekday ∧ t.hourStart ≤ localHour unix offset ∧
        localHour unix offset < t.hourEnd := by
  unfold timeAllowedAt timeAllowed
  simp only [Bool.or_eq_true, List.isEmpty_iff, List.any_eq_true, c04_timeframe_matches_iff]

/-- what the local wall clock is: the instant shifted by the zone offset is day `d`, hour
    `localHour`, and `r < 3600` seconds; the weekday is that of day `d` (day 0 = Thursday) -/
theorem c04_local_clock_spec (unix offset : Int) :
    ∃ d r : Int, unix + offset = d * 86400 + (localHour unix offset : Int) * 3600 + r ∧ 0 ≤ r ∧ r < 3600 ∧
      localHour unix offset < 24 ∧ ((localWeekday unix offset : Nat) : Int) = (d + 4) % 7 := by
  refine ⟨(unix + offset) / 86400, (unix + offset) % 3600, ?_, ?_, ?_, localHour_lt _ _, ?_⟩
  · unfold localHour; omega
  · omega
  · omega
  · unfold localWeekday; omega

/-- the decision depends only on the local weekday and hour — for every instant and every zone
    offset: two (instant, zone) pairs showing the same local weekday and hour decide alike -/
theorem c04_timeframe_local_only (es : List TimeFrame) (u1 o1 u2 o2 : Int)
    (hw : localWeekday u1 o1 = localWeekday u2 o2) (hh : localHour u1 o1 = localHour u2 o2) :
    timeAllowedAt es u1 o1 = timeAllowedAt es u2 o2 := by
  unfold timeAllowedAt; rw [hw, hh]

/-- a zone's clock is the UTC clock of the shifted instant: offset `o` at instant `u` decides like
    offset 0 at instant `u + o` (nothing else about the zone matters) -/
theorem c04_timeframe_offset_shift (es : List TimeFrame) (unix offset : Int) :
    timeAllowedAt es unix offset = timeAllowedAt es (unix + offset) 0 := by
  apply c04_timeframe_local_only <;> simp [localWeekday, localHour]

/-- the decision is constant during a local clock hour (frames are whole hours of the local clock,
    also in zones whose offset is not a whole number of hours) -/
theorem c04_timeframe_constant_within_local_hour (es : List TimeFrame) (u1 u2 offset : Int)
    (h : (u1 + offset) / 3600 = (u2 + offset) / 3600) : timeAllowedAt es u1 offset = timeAllowedAt es u2 offset := by
  obtain ⟨hw, hh⟩ := localClock_of_hours h
  exact c04_timeframe_local_only es _ _ _ _ hw hh

/-- it is NOT a function of the UTC clock: the same instant is inside a frame on a UTC machine and
    outside it two hours east (hour), and inside on UTC but outside one hour east across midnight
    (weekday) — so code that measures from UTC midnight decides differently -/
theorem c04_timeframe_not_utc_witness :
    -- 2026-09-23 (Wednesday) 13:30:00 UTC = 15:30 at +02:00; frame wed/12-14
    (timeAllowedAt [⟨3, 12, 14⟩] 1790170200 0 = true ∧ timeAllowedAt [⟨3, 12, 14⟩] 1790170200 7200 = false) ∧
    -- 12:30 UTC = 18:15 at +05:45; frame wed/18-19 is open there and closed on UTC
    (timeAllowedAt [⟨3, 18, 19⟩] 1790166600 20700 = true ∧ timeAllowedAt [⟨3, 18, 19⟩] 1790166600 0 = false) ∧
    -- 23:30 UTC Wednesday = 00:30 Thursday at +01:00; frame wed/0-24
    (timeAllowedAt [⟨3, 0, 24⟩] 1790206200 0 = true ∧ timeAllowedAt [⟨3, 0, 24⟩] 1790206200 3600 = false) ∧
    -- 01:00 UTC Wednesday = 17:00 Tuesday at -08:00
    (localWeekday 1790125200 0 = 3 ∧ localWeekday 1790125200 (-28800) = 2 ∧ localHour 1790125200 (-28800) = 17) := by
  decide

/-- outside every configured frame the time-frame control is the first to fail: the request is
    refused 451 whatever its credentials and target -/
theorem c04_outside_time_frame_refused (cfg : Cfg) (hn pa : Bytes) (h : cfg.timeAllowed = false) :
    firstFailing cfg hn pa = some .timeFrame := by
  unfold firstFailing order
  simp [List.find?, Control.fails, h]

example : localWeekday 0 0 = 4 ∧ localHour 0 0 = 0 ∧ localWeekday (-1) 0 = 3 ∧ localHour (-1) 0 = 23 ∧
    localWeekday 1790170200 19800 = 3 ∧ localHour 1790170200 19800 = 19 ∧
    localWeekday 1790170200 (-34200) = 3 ∧ localHour 1790170200 (-34200) = 4 := by decide

/-! ## H. The localhost names of one instance: built-in names and hosts-file aliases

`isLocalhostOf aliases host` is `HTTPProxy.isLocalhost` of an instance `NewHTTPProxy` constructed on a
machine whose hosts file gives the names `aliases` (as spelt there, in whatever order, with whatever
repetitions) to loopback addresses: the aliases are lower-cased when the instance is constructed, the
host when it is looked up, and the lookup is a linear scan. -/

/-- the classifier, written out: a built-in name, an alias, or a loopback / unspecified IP literal —
    everything compared without regard to letter case -/
theorem c04_localhost_of_iff (aliases : List Bytes) (host : Bytes) :
    isLocalhostOf aliases host = true ↔
      lower host ∈ builtinLocalhost ∨ (∃ a ∈ aliases, lower a = lower host) ∨
      isLoopbackLiteral (lower host) = true ∨ isUnspecifiedLiteral (lower host) = true := by
  unfold isLocalhostOf isLocalhostNames
  simp only [Bool.or_eq_true, List.contains_eq_mem, decide_eq_true_eq, mem_hpLocalhost]
  constructor
  · rintro (((h | h) | h) | h)
    · exact Or.inl h
    · exact Or.inr (Or.inl h)
    · exact Or.inr (Or.inr (Or.inl h))
    · exact Or.inr (Or.inr (Or.inr h))
  · rintro (h | h | h | h)
    · exact Or.inl (Or.inl (Or.inl h))
    · exact Or.inl (Or.inl (Or.inr h))
    · exact Or.inl (Or.inr h)
    · exact Or.inr h

/-- `localhost` (and `0.0.0.0`, `::`) is localhost in every letter case, whatever the hosts file holds -/
theorem c04_localhost_always (aliases : List Bytes) (host : Bytes)
    (h : lower host = bs "localhost" ∨ lower host = bs "0.0.0.0" ∨ lower host = bs "::") :
    isLocalhostOf aliases host = true := by
  rw [c04_localhost_of_iff]
  refine Or.inl ?_
  unfold builtinLocalhost
  rcases h with h | h | h <;> rw [h] <;> simp

/-- every alias is localhost, in every letter case of the alias and of the request's host -/
theorem c04_alias_is_localhost {aliases : List Bytes} {a : Bytes} (ha : a ∈ aliases) (host : Bytes)
    (h : lower host = lower a) : isLocalhostOf aliases host = true := by
  rw [c04_localhost_of_iff]
  exact Or.inr (Or.inl ⟨a, ha, h.symm⟩)

/-- the order of the alias list and the number of times a name occurs in it play no role: two lists
    with the same elements give the same classifier -/
theorem c04_localhost_alias_order_irrelevant (as₁ as₂ : List Bytes) (h : ∀ x, x ∈ as₁ ↔ x ∈ as₂) (host : Bytes) :
    isLocalhostOf as₁ host = isLocalhostOf as₂ host := by
  apply Bool.eq_iff_iff.mpr
  rw [c04_localhost_of_iff, c04_localhost_of_iff]
  constructor
  · rintro (h1 | ⟨a, ha, he⟩ | h1)
    · exact Or.inl h1
    · exact Or.inr (Or.inl ⟨a, (h a).mp ha, he⟩)
    · exact Or.inr (Or.inr h1)
  · rintro (h1 | ⟨a, ha, he⟩ | h1)
    · exact Or.inl h1
    · exact Or.inr (Or.inl ⟨a, (h a).mpr ha, he⟩)
    · exact Or.inr (Or.inr h1)

/-- in particular: reversed, sorted any way (a permutation), repeated, or de-duplicated -/
theorem c04_localhost_alias_perm {as₁ as₂ : List Bytes} (h : as₁.Perm as₂) (host : Bytes) :
    isLocalhostOf as₁ host = isLocalhostOf as₂ host :=
  c04_localhost_alias_order_irrelevant as₁ as₂ (fun _ => h.mem_iff) host

theorem c04_localhost_alias_duplicates (aliases : List Bytes) (host : Bytes) :
    isLocalhostOf (aliases ++ aliases) host = isLocalhostOf aliases host ∧
    isLocalhostOf aliases.eraseDups host = isLocalhostOf aliases host ∧
    isLocalhostOf (builtinLocalhost ++ aliases) host = isLocalhostOf aliases host := by
  refine ⟨c04_localhost_alias_order_irrelevant _ _ (fun x => by simp) host,
    c04_localhost_alias_order_irrelevant _ _ (fun x => by simp) host, ?_⟩
  apply Bool.eq_iff_iff.mpr
  rw [c04_localhost_of_iff, c04_localhost_of_iff]
  constructor
  · rintro (h1 | ⟨a, ha, he⟩ | h1)
    · exact Or.inl h1
    · rcases List.mem_append.mp ha with hb | hb
      · refine Or.inl ?_
        have hl : lower a = a := by
          unfold builtinLocalhost at hb
          simp only [List.mem_cons, List.not_mem_nil, or_false] at hb
          rcases hb with hb | hb | hb <;> rw [hb] <;> with_unfolding_all decide
        rw [← he, hl]; exact hb
      · exact Or.inr (Or.inl ⟨a, hb, he⟩)
    · exact Or.inr (Or.inr h1)
  · rintro (h1 | ⟨a, ha, he⟩ | h1)
    · exact Or.inl h1
    · exact Or.inr (Or.inl ⟨a, List.mem_append_right _ ha, he⟩)
    · exact Or.inr (Or.inr h1)

/-- the letter case of the aliases in the hosts file plays no role … -/
theorem c04_localhost_alias_case_irrelevant (as₁ as₂ : List Bytes) (h : as₁.map lower = as₂.map lower) (host : Bytes) :
    isLocalhostOf as₁ host = isLocalhostOf as₂ host := by
  unfold isLocalhostOf hpLocalhost
  rw [h]

/-- … nor does the letter case of the host in the request -/
theorem c04_localhost_host_case_irrelevant (aliases : List Bytes) (h₁ h₂ : Bytes) (h : lower h₁ = lower h₂) :
    isLocalhostOf aliases h₁ = isLocalhostOf aliases h₂ := by
  unfold isLocalhostOf isLocalhostNames
  simp only [h]

/-- lower-casing the aliases once more (or the host before it is handed in) changes nothing -/
theorem c04_localhost_lowering_idempotent (aliases : List Bytes) (host : Bytes) :
    isLocalhostOf (aliases.map lower) host = isLocalhostOf aliases host ∧
    isLocalhostOf aliases (lower host) = isLocalhostOf aliases host :=
  ⟨c04_localhost_alias_case_irrelevant _ _ (by rw [List.map_map]; exact List.map_congr_left (fun a _ => lower_lower a)) host,
   c04_localhost_host_case_irrelevant _ _ _ (lower_lower host)⟩

/-- from the hosts file to the classifier: a name is localhost through the hosts file exactly when some
    record with a LOOPBACK address carries it (case-insensitively); the names of other records —
    `0.0.0.0 ads.example`, `10.0.0.5 build-host` — are not made localhost by the file -/
theorem c04_hosts_file_iff (recs : List HostsRecord) (host : Bytes) :
    isLocalhostOf (localhostAliases recs) host = true ↔
      lower host ∈ builtinLocalhost ∨
      (∃ r ∈ recs, isLoopbackLiteral r.ip = true ∧ ∃ n ∈ r.names, lower n = lower host) ∨
      isLoopbackLiteral (lower host) = true ∨ isUnspecifiedLiteral (lower host) = true := by
  rw [c04_localhost_of_iff]
  constructor
  · rintro (h | ⟨a, ha, he⟩ | h)
    · exact Or.inl h
    · obtain ⟨r, hr, hl, hn⟩ := (mem_localhostAliases recs a).mp ha
      exact Or.inr (Or.inl ⟨r, hr, hl, a, hn, he⟩)
    · exact Or.inr (Or.inr h)
  · rintro (h | ⟨r, hr, hl, n, hn, he⟩ | h)
    · exact Or.inl h
    · exact Or.inr (Or.inl ⟨n, (mem_localhostAliases recs n).mpr ⟨r, hr, hl, hn⟩, he⟩)
    · exact Or.inr (Or.inr h)

/-- records of the hosts file that do not carry a loopback address, the order of the records and the
    order of the names on a line play no role -/
theorem c04_hosts_file_other_records_irrelevant (recs₁ recs₂ : List HostsRecord)
    (h : ∀ r, isLoopbackLiteral r.ip = true → (r ∈ recs₁ ↔ r ∈ recs₂)) (host : Bytes) :
    isLocalhostOf (localhostAliases recs₁) host = isLocalhostOf (localhostAliases recs₂) host := by
  apply c04_localhost_alias_order_irrelevant
  intro x
  rw [mem_localhostAliases, mem_localhostAliases]
  constructor
  · rintro ⟨r, hr, hl, hx⟩; exact ⟨r, (h r hl).mp hr, hl, hx⟩
  · rintro ⟨r, hr, hl, hx⟩; exact ⟨r, (h r hl).mpr hr, hl, hx⟩

/-- with localhost denial on, the localhost control rejects `localhost` and every alias, in every
    letter case, on an instance constructed with these aliases -/
theorem c04_alias_control_fails {cfg : Cfg} {aliases : List Bytes} (hn : cfg.localhostNames = hpLocalhost aliases)
    (hd : cfg.denyLocalhost = true) (host pa : Bytes)
    (h : lower host = bs "localhost" ∨ ∃ a ∈ aliases, lower host = lower a) :
    Control.fails cfg host pa .localhost = true := by
  have hl : isLocalhostOf aliases host = true := by
    rcases h with h | ⟨a, ha, he⟩
    · exact c04_localhost_always aliases host (Or.inl h)
    · exact c04_alias_is_localhost ha host he
  unfold Control.fails Req.isLocalhost
  rw [hd, hn]
  exact hl

/-- the lookup must not rely on an order of the list: a binary search agrees with the scan on a sorted
    list, but the list `NewHTTPProxy` composes is not sorted — sorting the names as the hosts file
    spells them and lower-casing them afterwards (hosts file `127.0.0.1 localhost
    kubernetes.docker.internal SL-666`) leaves `localhost` behind `sl-666`, where a binary search no
    longer finds it; the scan does -/
theorem c04_sorted_lookup_witness :
    let asSorted : List Bytes := [bs "0.0.0.0", bs "::", bs "SL-666", bs "kubernetes.docker.internal", bs "localhost"]
    let names := asSorted.map lower
    sortedLookup 8 asSorted (bs "localhost") = true ∧
    sortedLookup 8 names (bs "localhost") = false ∧ names.contains (bs "localhost") = true ∧
    isLocalhostOf [bs "SL-666", bs "kubernetes.docker.internal", bs "localhost"] (bs "localhost") = true ∧
    isLocalhostOf [bs "SL-666", bs "kubernetes.docker.internal", bs "localhost"] (bs "sl-666") = true ∧
    isLocalhostOf [bs "SL-666", bs "kubernetes.docker.internal", bs "localhost"] (bs "Kubernetes.Docker.Internal") = true := by
  with_unfolding_all decide

-- a hosts file with mixed-case loopback aliases, an IPv6 loopback record and records that are not loopback
example :
    let recs : List HostsRecord := [
      { ip := bs "127.0.0.1", names := [bs "localhost", bs "SL-666"] },
      { ip := bs "0.0.0.0", names := [bs "ads.example"] },
      { ip := bs "::1", names := [bs "ip6-LoopBack", bs "localhost"] },
      { ip := bs "10.0.0.5", names := [bs "Build-Host"] },
      { ip := bs "127.8.9.10", names := [bs "Zebra"] }]
    localhostAliases recs = [bs "localhost", bs "SL-666", bs "ip6-LoopBack", bs "localhost", bs "Zebra"] ∧
    isLocalhostOf (localhostAliases recs) (bs "sl-666") = true ∧ isLocalhostOf (localhostAliases recs) (bs "IP6-loopback") = true ∧
    isLocalhostOf (localhostAliases recs) (bs "ZEBRA") = true ∧ isLocalhostOf (localhostAliases recs) (bs "LOCALHOST") = true ∧
    isLocalhostOf (localhostAliases recs) (bs "ads.example") = false ∧ isLocalhostOf (localhostAliases recs) (bs "build-host") = false ∧
    isLocalhostOf (localhostAliases recs) (bs "sl-6666") = false := by
  with_unfolding_all decide

/-! ## I. The hosts file is read completely, or the proxy does not start

`hpLocalhostOf src` is what `NewHTTPProxy` makes of the machine's hosts file: an error (the proxy does
not start) or the instance's `hp.localhost`. The library that decodes the file hands back an EMPTY file
together with the error on the first line it cannot read, wherever that line is; `looseRecords` is what
a reader that goes line by line and skips such lines sees — what the machine's resolver makes of the
file, and so the yardstick for "every name the hosts file gives to a loopback address". -/

/-- `Decode` is all or nothing: it succeeds exactly when every line can be read and then yields the
    records of all lines; one unreadable line anywhere makes it fail -/
theorem c04_hosts_decode_all_or_nothing (t : Bytes) :
    (∀ recs, decodeHosts t = .ok recs ↔
      (∀ l ∈ hostsLines t, ∃ r, readHostsLine hostsMaxToken l = .ok r) ∧
        recs = looseRecords hostsMaxToken (hostsLines t)) ∧
    (∀ l ∈ hostsLines t, ∀ e, readHostsLine hostsMaxToken l = .error e → ∃ e', decodeHosts t = .error e') :=
  ⟨fun recs => decodeHostsLines_ok_iff _ _ recs, fun l hl e he => decodeHostsLines_error_of_mem _ _ l e hl he⟩

/-- for every hosts-file text: construction fails, or the instance's localhost names hold every name of
    every loopback record of the text (lower-cased) and the classifier says yes to each of them in every
    letter case — no loopback alias of the hosts file is left out of a proxy that starts -/
theorem c04_hosts_file_rejected_or_complete (t : Bytes) :
    (∃ e, hpLocalhostOf (.text t) = .error e) ∨
    (∃ names, hpLocalhostOf (.text t) = .ok names ∧
      ∀ r ∈ looseRecords hostsMaxToken (hostsLines t), isLoopbackLiteral r.ip = true → ∀ n ∈ r.names,
        lower n ∈ names ∧ ∀ host, lower host = lower n → isLocalhostNames names host = true) := by
  cases hd : decodeHostsLines hostsMaxToken (hostsLines t) with
  | error e => exact Or.inl ⟨e, hpLocalhostOf_text_error hd⟩
  | ok recs =>
    refine Or.inr ⟨_, hpLocalhostOf_text_ok hd, ?_⟩
    intro r hr hlb n hn
    have hrecs := ((decodeHostsLines_ok_iff _ _ recs).mp hd).2
    have ha : n ∈ localhostAliases recs := (mem_localhostAliases recs n).mpr ⟨r, hrecs ▸ hr, hlb, hn⟩
    exact ⟨(mem_hpLocalhost _ _).mpr (Or.inr ⟨n, ha, rfl⟩), fun host hh => c04_alias_is_localhost ha host hh⟩

/-- a hosts file that cannot be opened or read: the proxy does not start -/
theorem c04_hosts_file_missing_or_unreadable_rejected :
    hpLocalhostOf .missing = .error .cannotOpen ∧ hpLocalhostOf .unreadable = .error .cannotRead := ⟨rfl, rfl⟩

/-- a proxy that started is exact about the hosts file: a host is localhost exactly when it is a built-in
    name, a name of a loopback record of the file (any letter case), or a loopback / unspecified literal;
    names of other records are not made localhost -/
theorem c04_hosts_file_constructed_iff {t : Bytes} {names : List Bytes} (hc : hpLocalhostOf (.text t) = .ok names)
    (host : Bytes) :
    isLocalhostNames names host = true ↔
      lower host ∈ builtinLocalhost ∨
      (∃ r ∈ looseRecords hostsMaxToken (hostsLines t), isLoopbackLiteral r.ip = true ∧ ∃ n ∈ r.names, lower n = lower host) ∨
      isLoopbackLiteral (lower host) = true ∨ isUnspecifiedLiteral (lower host) = true := by
  cases hd : decodeHostsLines hostsMaxToken (hostsLines t) with
  | error e => rw [hpLocalhostOf_text_error hd] at hc; cases hc
  | ok recs =>
    rw [hpLocalhostOf_text_ok hd] at hc
    have hrecs := ((decodeHostsLines_ok_iff _ _ recs).mp hd).2
    cases hc
    rw [← hrecs]
    exact c04_hosts_file_iff recs host

/-- with localhost denial on, a request or CONNECT for a loopback alias of the hosts file — any record,
    any letter case — is refused by an instance that started, and nothing happens upstream -/
theorem c04_hosts_file_constructed_denies_aliases {cfg : Cfg} {t : Bytes} {names : List Bytes}
    (hc : hpLocalhostOf (.text t) = .ok names) (hn : cfg.localhostNames = names) (hd : cfg.denyLocalhost = true)
    {r : HostsRecord} (hr : r ∈ looseRecords hostsMaxToken (hostsLines t)) (hlb : isLoopbackLiteral r.ip = true)
    {n : Bytes} (hnm : n ∈ r.names) (ctx : Ctx) {it : ConnItem} {host pa : Bytes}
    (hv : itemView it = some (host, pa)) (hh : lower host = lower n) :
    Control.fails cfg host pa .localhost = true ∧
    ∃ c : Control, ItemOutcome.refusedWith (processItem cfg ctx it) c.refusal = true ∧ itemActions cfg ctx it = [] := by
  have hl : isLocalhostNames names host = true := by
    rcases c04_hosts_file_rejected_or_complete t with ⟨e, he⟩ | ⟨names', hn', hall⟩
    · rw [hc] at he; cases he
    · rw [hc] at hn'; cases hn'
      exact (hall r hr hlb n hnm).2 host hh
  have hf : Control.fails cfg host pa .localhost = true := by
    unfold Control.fails Req.isLocalhost
    rw [hd, hn]; exact hl
  obtain ⟨c, hcf⟩ := (c04_some_control_fails_iff cfg host pa).mp ⟨_, hf⟩
  exact ⟨hf, c, c04_failing_item_refused_and_silent ctx hv hcf⟩

/-- which lines cannot be read: a line of `maxTok` bytes or more; or a line that is neither blank nor a
    comment and has fewer than two fields (an address without a name, a lone name) or whose first field
    is not an address -/
theorem c04_hosts_line_rejected_iff (m : Nat) (raw : Bytes) :
    (∃ e, readHostsLine m raw = .error e) ↔
      m ≤ raw.length ∨
      (trimSpace raw ≠ [] ∧ (trimSpace raw).head? ≠ some 35 ∧
        ((hostsFields (trimSpace raw)).length ≤ 1 ∨
          ∃ a rest, hostsFields (trimSpace raw) = a :: rest ∧ hostsAddr a = none)) := by
  unfold readHostsLine
  by_cases hlen : raw.length ≥ m
  · rw [if_pos hlen]
    exact ⟨fun _ => Or.inl hlen, fun _ => ⟨_, rfl⟩⟩
  · rw [if_neg hlen]
    have hlen' : ¬ m ≤ raw.length := hlen
    simp only [hlen', false_or]
    cases ht : trimSpace raw with
    | nil => simp
    | cons c rest =>
      by_cases hc : (c == 35) = true
      · have : c = 35 := by simpa using hc
        simp [this]
      · have hc' : c ≠ 35 := by simpa using hc
        simp only [hc, if_false, ne_eq, reduceCtorEq, not_false_eq_true, List.head?_cons, Option.some.injEq, hc', true_and]
        cases hf : hostsFields (c :: rest) with
        | nil => simp
        | cons a fs =>
          cases fs with
          | nil => simp
          | cons n ns =>
            cases ha : hostsAddr a with
            | none => simp [ha]
            | some ip => simp [ha]

/-- the unreadable line decides wherever it is: at the beginning, in the middle, at the end of the file —
    next to whatever well-formed records — construction fails -/
theorem c04_hosts_bad_line_anywhere_rejects (pre post l : Bytes) (e : HostsError)
    (hnl : ∀ c ∈ l, (c == 10) = false) (hl : readHostsLine hostsMaxToken l = .error e) :
    hpLocalhostOf (.text (l ++ 10 :: post)) = .error e ∧
    (∃ e', hpLocalhostOf (.text (pre ++ 10 :: (l ++ 10 :: post))) = .error e') ∧
    (∃ e', hpLocalhostOf (.text (pre ++ 10 :: l)) = .error e') := by
  have key : ∀ t, l ∈ hostsLines t → ∃ e', hpLocalhostOf (.text t) = .error e' := by
    intro t hm
    obtain ⟨e', he'⟩ := decodeHostsLines_error_of_mem hostsMaxToken (hostsLines t) l e hm hl
    exact ⟨e', hpLocalhostOf_text_error he'⟩
  refine ⟨?_, key _ ?_, key _ ?_⟩
  · apply hpLocalhostOf_text_error
    rw [hostsLines_append_nl, hostsLines_of_no_nl l hnl]
    have := decodeHostsLines_error_at hostsMaxToken [] (hostsLines post) l e (by simp) hl
    simp only [List.nil_append] at this
    rw [List.singleton_append, this]
  · rw [hostsLines_append_nl, hostsLines_append_nl, hostsLines_of_no_nl l hnl]
    simp
  · rw [hostsLines_append_nl, hostsLines_of_no_nl l hnl]
    simp

/-- the first unreadable line decides the error (the lines before it were read — and are dropped) -/
theorem c04_hosts_first_unreadable_line_decides (pre post l : Bytes) (e : HostsError)
    (hnl : ∀ c ∈ l, (c == 10) = false)
    (hpre : ∀ x ∈ hostsLines pre, ∃ r, readHostsLine hostsMaxToken x = .ok r)
    (hl : readHostsLine hostsMaxToken l = .error e) :
    hpLocalhostOf (.text (pre ++ 10 :: (l ++ 10 :: post))) = .error e := by
  apply hpLocalhostOf_text_error
  rw [hostsLines_append_nl, hostsLines_append_nl, hostsLines_of_no_nl l hnl, List.singleton_append,
    decodeHostsLines_error_at hostsMaxToken _ _ l e hpre hl]

/-- a file without records — empty, blank lines, comments only — is read, and the instance has the
    built-in names only -/
theorem c04_hosts_file_without_records (t : Bytes)
    (h : ∀ l ∈ hostsLines t, l.length < hostsMaxToken ∧ (trimSpace l = [] ∨ (trimSpace l).head? = some 35)) :
    hpLocalhostOf (.text t) = .ok builtinLocalhost := by
  have hline : ∀ l ∈ hostsLines t, readHostsLine hostsMaxToken l = .ok none := by
    intro l hm
    obtain ⟨hlen, hk⟩ := h l hm
    unfold readHostsLine
    have : ¬ l.length ≥ hostsMaxToken := Nat.not_le.mpr hlen
    simp only [this, if_false]
    rcases hk with hk | hk
    · rw [hk]
    · cases ht : trimSpace l with
      | nil => rfl
      | cons c rest =>
        rw [ht] at hk
        have : c = 35 := by simpa using hk
        simp [this]
  have hloose : looseRecords hostsMaxToken (hostsLines t) = [] := by
    unfold looseRecords
    apply List.filterMap_eq_nil_iff.mpr
    intro l hm
    rw [hline l hm]
  have hd : decodeHostsLines hostsMaxToken (hostsLines t) = .ok [] :=
    (decodeHostsLines_ok_iff _ _ []).mpr ⟨fun l hm => ⟨none, hline l hm⟩, hloose.symm⟩
  rw [hpLocalhostOf_text_ok hd]
  rfl

/-- the hypothesis is needed — the variant that tolerates the decode error and keeps "the aliases that
    could be read" keeps nothing: a hosts file with three well-formed loopback records and one line that
    has an address and no name (at the end; the same at the beginning) is rejected by `NewHTTPProxy`; the
    tolerant constructor starts with the built-in names only and `devbox`, `ip6-localhost`, `ip6-loopback`
    — loopback aliases of the file — are not localhost to it -/
theorem c04_hosts_file_tolerated_error_witness :
    let t := bs "127.0.0.1 localhost\n127.0.1.1 devbox\n::1 ip6-localhost ip6-loopback\n127.0.0.1\n"
    let t' := bs "127.0.0.1\n127.0.1.1 devbox\n"
    hpLocalhostOf (.text t) = .error .entry ∧ hpLocalhostOf (.text t') = .error .entry ∧
    looseRecords hostsMaxToken (hostsLines t) =
      [{ ip := bs "127.0.0.1", names := [bs "localhost"] }, { ip := bs "127.0.1.1", names := [bs "devbox"] },
       { ip := bs "::1", names := [bs "ip6-localhost", bs "ip6-loopback"] }] ∧
    hpLocalhostTolerating hostsMaxToken (.text t) = builtinLocalhost ∧
    hpLocalhostTolerating hostsMaxToken (.text t') = builtinLocalhost ∧
    isLocalhostNames (hpLocalhostTolerating hostsMaxToken (.text t)) (bs "devbox") = false ∧
    isLocalhostNames (hpLocalhostTolerating hostsMaxToken (.text t)) (bs "IP6-Localhost") = false ∧
    isLocalhostNames (hpLocalhostTolerating hostsMaxToken (.text t')) (bs "devbox") = false ∧
    isLocalhostNames (hpLocalhostTolerating hostsMaxToken (.text t)) (bs "localhost") = true := by
  with_unfolding_all decide

-- the hypotheses of the two position theorems: an unreadable line without a line feed (what a VPN client leaves
-- behind), well-formed loopback alias records before it; and a constructed instance for `…_constructed_…`
example :
    (∀ c ∈ bs "10.8.0.1", (c == 10) = false) ∧ readHostsLine hostsMaxToken (bs "10.8.0.1") = .error .entry ∧
    decodeHosts (bs "127.0.0.1 localhost\n127.0.1.1 devbox") =
      .ok [{ ip := bs "127.0.0.1", names := [bs "localhost"] }, { ip := bs "127.0.1.1", names := [bs "devbox"] }] ∧
    hpLocalhostOf (.text (bs "127.0.0.1 localhost\n127.0.1.1 devbox\n10.8.0.1\n::1 ip6-localhost\n")) = .error .entry ∧
    hpLocalhostOf (.text (bs "127.0.0.1 localhost\n127.0.1.1 DevBox\n10.8.0.1 vpn\n::1 ip6-localhost\n")) =
      .ok [bs "localhost", bs "0.0.0.0", bs "::", bs "localhost", bs "devbox", bs "ip6-localhost"] := by
  with_unfolding_all decide

-- every kind of line the decoder rejects, and the shapes it accepts
example :
    readHostsLine hostsMaxToken (bs "127.0.0.1") = .error .entry ∧
    readHostsLine hostsMaxToken (bs "devbox") = .error .entry ∧
    readHostsLine hostsMaxToken (bs "  ::1\t \r") = .error .entry ∧
    readHostsLine hostsMaxToken (bs "127.0.0.1.5 x") = .error .address ∧
    readHostsLine hostsMaxToken (bs "300.1.1.1 x") = .error .address ∧
    readHostsLine hostsMaxToken (bs "127.0.0.1:80 x") = .error .address ∧
    readHostsLine hostsMaxToken (bs "[::1] x") = .error .address ∧
    readHostsLine hostsMaxToken (bs "127.0.0.1/8 x") = .error .address ∧
    readHostsLine hostsMaxToken (bs "::1% x") = .error .address ∧
    readHostsLine hostsMaxToken (bs "127.0.0.1%lo x") = .error .address ∧
    readHostsLine hostsMaxToken (bs "127.0.0.1#c x") = .error .address ∧
    readHostsLine hostsMaxToken ([0xEF, 0xBB, 0xBF] ++ bs "127.0.0.1 localhost") = .error .address ∧
    readHostsLine hostsMaxToken ([0xEF, 0xBB, 0xBF] ++ bs "# comment") = .error .address ∧
    readHostsLine hostsMaxToken [0xEF, 0xBB, 0xBF] = .error .entry ∧
    readHostsLine 24 (bs "127.0.0.1 a-very-long-name") = .error .tooLong ∧
    readHostsLine 27 (bs "127.0.0.1 a-very-long-name") = .ok (some { ip := bs "127.0.0.1", names := [bs "a-very-long-name"] }) ∧
    readHostsLine hostsMaxToken (bs "127.0.1.1 devbox Dev # c x\r") = .ok (some { ip := bs "127.0.1.1", names := [bs "devbox", bs "Dev"] }) ∧
    readHostsLine hostsMaxToken (bs "::1%lo0 x") = .ok (some { ip := bs "::1", names := [bs "x"] }) ∧
    readHostsLine hostsMaxToken (bs "127.0.0.1 # only a comment") = .ok (some { ip := bs "127.0.0.1", names := [] }) ∧
    readHostsLine hostsMaxToken (bs "  # c") = .ok none ∧ readHostsLine hostsMaxToken (bs " \t\r") = .ok none := by
  with_unfolding_all decide

-- CRLF line ends, a last line without line feed, CR-only line ends (one long line to the decoder)
example :
    decodeHosts (bs "127.0.0.1 a\r\n::1 b\r\n") =
      .ok [{ ip := bs "127.0.0.1", names := [bs "a"] }, { ip := bs "::1", names := [bs "b"] }] ∧
    decodeHosts (bs "127.0.0.1 a\n10.0.0.5 c\n::1 b") =
      .ok [{ ip := bs "127.0.0.1", names := [bs "a"] }, { ip := bs "10.0.0.5", names := [bs "c"] }, { ip := bs "::1", names := [bs "b"] }] ∧
    decodeHosts (bs "127.0.0.1 a\r::1 b\r") = .ok [{ ip := bs "127.0.0.1", names := [bs "a", bs "::1", bs "b"] }] ∧
    hpLocalhostOf (.text (bs "# only\n\n  # comments\n")) = .ok builtinLocalhost ∧ hpLocalhostOf (.text []) = .ok builtinLocalhost ∧
    hpLocalhostOf (.text (bs "127.0.1.1 Zed\n")) = .ok [bs "localhost", bs "0.0.0.0", bs "::", bs "zed"] := by
  with_unfolding_all decide

/-! ## J. Both serving paths (connection loop, `http.Handler`): the controls judge the host that would be dialled

`ServerVariant` = how `HTTPProxy.Run` serves; `Completion` = when an empty `req.URL.Host` (origin-form target)
is completed from the Host field: when the request is read (connection loop), never (handler: the transport then
refuses the URL), or — the counter-model — after the request modifiers, right before the round trip. -/

/-- for every target form (origin-form, absolute-form, CONNECT authority) and every serving path, the URL
    host the four controls are evaluated on is the URL host the round trip (so the dial) would use -/
theorem c04_controls_see_dialled_host (v : ServerVariant) (it : ConnItem) :
    itemSeenHost v.completion it = itemTripHost v.completion it := by
  cases it with
  | req r =>
    simp only [itemSeenHost, itemTripHost]
    cases readRequest r with
    | error e => rfl
    | ok g0 => simp only [seen_eq_trip]
  | connect c => rfl

/-- … and a round trip that has a host to dial at all has the request's EFFECTIVE target (URL host, else
    Host field): the controls judged exactly that host -/
theorem c04_dialled_host_is_effective_target (v : ServerVariant) (g0 : GoReq)
    (h : (v.completion.tripHost g0).isEmpty = false) :
    v.completion.seenHost g0 = effectiveHost g0 ∧ v.completion.tripHost g0 = effectiveHost g0 :=
  ⟨(seen_eq_trip v g0).trans (trip_eq_effective v g0 h), trip_eq_effective v g0 h⟩

/-- whatever is dialled on behalf of an item, on either serving path, was let through by every enabled
    control evaluated on the item's effective target -/
theorem c04_dialled_item_passed_controls (v : ServerVariant) (cfg : Cfg) (ctx : Ctx) (it : ConnItem)
    (h : itemActionsV v cfg ctx it ≠ []) :
    ∃ hn pa, itemView it = some (hn, pa) ∧ firstFailing cfg hn pa = none := by
  cases it with
  | req r =>
    simp only [itemActionsV, requestActionsV] at h
    split at h
    · exact absurd rfl h
    · obtain ⟨g0, hr, hs, he⟩ := requestActionsAt_ne_nil h
      refine ⟨_, _, requestView_of_read hr, ?_⟩
      rw [seen_eq_trip, trip_eq_effective v g0 he, securityCheck_effective] at hs
      cases hf : firstFailing cfg (hostname (effectiveHost g0)) (goGet g0.header (bs "Proxy-Authorization")) with
      | none => rfl
      | some c => rw [hf] at hs; cases hs
  | connect q =>
    simp only [itemActionsV, connectActionsV] at h
    obtain ⟨hn, pa, hv, hf⟩ := connectActions_ne_nil h
    exact ⟨hn, pa, hv, by rw [← firstFailing_connectCfg v]; exact hf⟩

/-- the clause of the property for both serving paths: an item whose effective target (or whose credentials,
    or the clock) fails an enabled control causes no upstream action, and it is refused or errors out — a
    non-CONNECT request ends in a refusal or an error response of the proxy (on the handler path an origin-form
    request is not shown to the host controls with its host: it gets the proxy's own error response instead of
    the 403), a CONNECT is refused with the first failing control's status -/
theorem c04_failing_item_silent_on_both_paths (v : ServerVariant) {cfg : Cfg} (ctx : Ctx) {it : ConnItem}
    {hn pa : Bytes} {c : Control} (hv : itemView it = some (hn, pa)) (hf : firstFailing cfg hn pa = some c) :
    itemActionsV v cfg ctx it = [] ∧
      match it with
      | .req r => (processRequestV v cfg ctx r).refusedOrError = true
      | .connect q => processConnectV v cfg ctx q = .refused c.refusal.status c.refusal := by
  constructor
  · cases ha : itemActionsV v cfg ctx it with
    | nil => rfl
    | cons a as =>
      obtain ⟨hn', pa', hv', hf'⟩ := c04_dialled_item_passed_controls v cfg ctx it (by rw [ha]; simp)
      rw [hv] at hv'
      simp only [Option.some.injEq, Prod.mk.injEq] at hv'
      rw [← hv'.1, ← hv'.2, hf] at hf'
      cases hf'
  · cases it with
    | req r => exact processRequestV_of_failing v ctx hv hf
    | connect q =>
      simp only [processConnectV]
      exact processConnect_of_failing hv (by rw [firstFailing_connectCfg]; exact hf)

/-- the connection loop of this section IS the validated request pipeline (`processRequest`,
    `requestActions`) on every request that names a host at all -/
theorem c04_conn_loop_is_pipeline (cfg : Cfg) (ctx : Ctx) {r : Request} {g0 : GoReq}
    (hr : readRequest r = .ok g0) (hne : (effectiveHost g0).isEmpty = false) :
    processRequestV .connLoop cfg ctx r = .served (processRequest cfg ctx r) ∧
      requestActionsV .connLoop cfg ctx r = requestActions cfg ctx r := by
  have h := processRequestAt_eq (k := .atRead) (cfg := cfg) (ctx := ctx) hr rfl rfl hne
  simp only [processRequestV, requestActionsV, serverRejects, ServerVariant.completion]
  exact h

/-- the handler path runs the same pipeline on every request that carries its authority in the URL
    (absolute-form) and that net/http's server lets through -/
theorem c04_handler_with_url_host_is_pipeline (cfg : Cfg) (ctx : Ctx) {r : Request} {g0 : GoReq}
    (hr : readRequest r = .ok g0) (hu : g0.urlHost.isEmpty = false) (hsrv : serverRejects .handler r = false) :
    processRequestV .handler cfg ctx r = .served (processRequest cfg ctx r) ∧
      requestActionsV .handler cfg ctx r = requestActions cfg ctx r := by
  have he : effectiveHost g0 = g0.urlHost := by unfold effectiveHost; rw [hu]; rfl
  have h := processRequestAt_eq (k := .never) (cfg := cfg) (ctx := ctx) hr he.symm he.symm (by rw [he]; exact hu)
  simp only [processRequestV, requestActionsV, hsrv, ServerVariant.completion]
  exact h

/-- the handler path dials nothing for a request whose URL carries no host (origin-form), whatever its Host
    field says and whatever the configuration is -/
theorem c04_handler_without_url_host_dials_nothing (cfg : Cfg) (ctx : Ctx) {r : Request} {g0 : GoReq}
    (hr : readRequest r = .ok g0) (hu : g0.urlHost.isEmpty = true) :
    requestActionsV .handler cfg ctx r = [] ∧ (processRequestV .handler cfg ctx r).silent = true := by
  have hnil : requestActionsAt .never cfg ctx r = [] := by
    cases ha : requestActionsAt .never cfg ctx r with
    | nil => rfl
    | cons a as =>
      obtain ⟨g0', hr', _, he⟩ := requestActionsAt_ne_nil (k := .never) (cfg := cfg) (ctx := ctx) (r := r) (by rw [ha]; simp)
      rw [hr] at hr'
      injection hr' with hr'
      subst hr'
      simp only [Completion.tripHost] at he
      rw [hu] at he
      cases he
  refine ⟨by simp only [requestActionsV, ServerVariant.completion, hnil, ite_self], ?_⟩
  unfold processRequestV
  split
  · rfl
  · unfold requestActionsAt at hnil
    simp only [ServerVariant.completion]
    cases ho : processRequestAt .never cfg ctx r with
    | serverRefused => rfl
    | noHost => rfl
    | served o =>
      cases o with
      | forwarded hop out =>
        exfalso
        unfold processRequestAt at ho
        rw [hr] at ho
        simp only [Completion.tripHost, hu, if_true] at ho
        split at ho
        · cases ho
        · split at ho <;> first | cases ho | (rename_i hne _; injection ho with ho; exact hne _ _ ho)
      | refused st w => rfl
      | badRequest => rfl
      | unreadable => rfl
      | routeError => rfl

def exLocalGet : Request :=
  exGet "127.0.0.1:8080" [(bs "Proxy-Authorization", bs "Basic dXNlcjpwdw==")]

/-- WITNESS (the host completed AFTER the controls ran): with `Completion.beforeRoundTrip` the controls see an
    empty host for an origin-form request, the round trip uses the Host field — the request for `127.0.0.1:8080`
    with the right credentials, which fails localhost denial on its effective target, is dialled there.
    On the two real serving paths the same request is refused (403, connection loop) or gets the proxy's own
    error response (handler), and nothing is dialled. -/
theorem c04_host_completed_after_controls_witness :
    requestView exLocalGet = some (bs "127.0.0.1", bs "Basic dXNlcjpwdw==") ∧
    firstFailing exCfg (bs "127.0.0.1") (bs "Basic dXNlcjpwdw==") = some .localhost ∧
    itemSeenHost .beforeRoundTrip (.req exLocalGet) = some [] ∧
    itemTripHost .beforeRoundTrip (.req exLocalGet) = some (bs "127.0.0.1:8080") ∧
    (requestActionsAt .beforeRoundTrip exCfg { clientIP := bs "10.0.0.1" } exLocalGet).map (·.hopAddr) = [bs "127.0.0.1:8080"] ∧
    requestActionsV .connLoop exCfg { clientIP := bs "10.0.0.1" } exLocalGet = [] ∧
    requestActionsV .handler exCfg { clientIP := bs "10.0.0.1" } exLocalGet = [] := by
  with_unfolding_all decide

-- the three target forms on the two paths: what the controls see / what the round trip would use
example :
    itemSeenHost ServerVariant.connLoop.completion (.req (exGet "LocalHost:81" [])) = some (bs "LocalHost:81") ∧
    itemSeenHost ServerVariant.handler.completion (.req (exGet "LocalHost:81" [])) = some [] ∧
    itemTripHost ServerVariant.handler.completion (.req (exGet "LocalHost:81" [])) = some [] ∧
    itemSeenHost ServerVariant.handler.completion
      (.req { exGet "other.example" [] with target := .absolute (bs "http") (bs "[::1]:81") }) = some (bs "[::1]:81") ∧
    itemSeenHost ServerVariant.handler.completion (.connect { authority := bs "a.blocked.test:443" }) = some (bs "a.blocked.test:443") := by
  with_unfolding_all decide

-- the outcomes of one origin-form request for a loopback literal: 403 on the connection loop, the proxy's own
-- error response on the handler path; an HTTP/1.1 request without Host field never reaches the handler
example :
    (match processRequestV .connLoop exCfg { clientIP := bs "10.0.0.1" } exLocalGet with
      | .served (.refused 403 .localhost) => true | _ => false) = true ∧
    (match processRequestV .handler exCfg { clientIP := bs "10.0.0.1" } exLocalGet with
      | .noHost => true | _ => false) = true ∧
    (match processRequestV .handler exCfg { clientIP := bs "10.0.0.1" }
        { exLocalGet with target := .absolute (bs "http") (bs "127.0.0.1:8080") } with
      | .served (.refused 403 .localhost) => true | _ => false) = true ∧
    (match processRequestV .handler exCfg { clientIP := bs "10.0.0.1" }
        { exLocalGet with target := .absolute (bs "http") (bs "origin.test"), fields := exLocalGet.fields.drop 1 } with
      | .serverRefused => true | _ => false) = true := by
  with_unfolding_all decide

/-! ### Tie to the source: the built-in localhost names

`Model/C04Gen.lean` is regenerated on every run from the `localhost: []string{…}` initialiser of
`http_proxy.go`.  The names `isLocalhost` starts with in the model (before the hosts-file aliases are
appended) are that list, in that order. -/

theorem c04_generated_builtin_localhost_is_model :
    C04Gen.builtinLocalhost.map Req.bs = builtinLocalhost := by
  with_unfolding_all decide

end C04
end FwdVerif
