/-
  C02 — responses reach the client intact and correctly framed on keep-alive connections.

  Property theorems over the response pipeline model `Resp.processResponse` (`Model/Resp.lean`,
  validated against the real proxy), the writer/reader specification of `Model/RespSpec.lean`
  (`serialize`, the independent RFC 7230 reader `parseResponse`, `parseSeq`, `connBytes`, the views
  `inValues` / `outValues` / `outNames`) and the flush-policy model `Model/Flush.lean`.
  Only property theorems, their `def …_full : Prop` companions, witnesses and non-vacuity examples
  live here; helper lemmas are in `Lemmas/Resp*.lean`, concrete exchanges in `Lemmas/RespExamples.lean`.

  Clauses that are FALSE of the code are kept visible as `def …_full : Prop` next to a
  `…_partial` theorem (proved under the hypothesis that excludes the defect class, stated on the
  input) and a kernel-checked `…_witness`:
    F25  `Connection: <name>, close` from an HTTP/1.1 origin → nominated field forwarded
    F50  origin status line that ends after the code (`HTTP/1.1 204`) → written `HTTP/1.1 204 204`
         (`c02_status_line_preserved_full` / `c02_status_line_preserved` / `c02_status_line_bare_code` / `…_full_witness`)
  and, for the flush policy, a zero-length write between the two halves of a split pattern.

  Section E2 is about a whole keep-alive connection (`Flush.Conn`): every response is written through
  its own fresh `patternFlushWriter` over the connection's one `bufio.Writer`; the flush points of the
  k-th response depend on that response's writes and pattern only (`c02_conn_flush_points_independent`,
  `c02_conn_history_irrelevant`), and what the client holds after each write is what a new
  connection would have delivered plus the earlier responses (`c02_conn_delivery_independent`).

  Section H is the status line byte for byte (`Model/RespStatus.lean`: `ReadResponse`'s reader, `Response.Write`
  and martian's header-only writer as two definitions): every phrase reaches the client unchanged through
  either writer (`c02_status_line_preserved`), the bare-code stutter F50 (`c02_status_line_bare_code`,
  full statement and witness), and the cutset-writer witness.  Section I says which connection limit bounds the relay of a response
  (`Model/RespRelay.lean`): `WriteTimeout` alone; the read-side limits never do.

  Repaired in the code and therefore proved at full strength here (no exclusions):
    F22  solicited gzip + Content-Length/close: the gunzipped body is re-framed (chunked for an
         HTTP/1.1 exchange, close-delimited otherwise)      → `c02_keepalive_implies_delimited`,
                                                               `c02_gunzip_framed`
    F1   header-only response with declared trailers: the `Trailer:` line and the head are
         terminated                                          → `c02_header_only_no_body`,
                                                               `c02_framing_self_delimiting`
    F18  an HTTP/1.0 client is never sent a chunked body    → `c02_http10_client_never_chunked`

  Hypotheses used throughout:
    `rc.rules = []` / `RulesOK rc`   no response-header rules / rules as the flag parser yields
                                      them, none of them a `%name` (rename) rule;
    `HeadWF r`                        what is written is syntactically a head: HTTP/1.0–1.9,
                                      status < 1000, no LF in reason phrase or values, names non-empty
                                      tokens (Go's writers guarantee it for their output);
    token names                       the views are stated for names that are RFC 7230 tokens.
-/
import FwdVerif.Lemmas.RespExamples
import FwdVerif.Lemmas.RespParse
import FwdVerif.Lemmas.RespFlush
import FwdVerif.Lemmas.RespFlushConn
import FwdVerif.Lemmas.RespHeadWF
import FwdVerif.Lemmas.ReqConn
import FwdVerif.Lemmas.RespStatus
import FwdVerif.Model.C02Gen

namespace FwdVerif
namespace C02

open Resp Ascii

/-! ## A. status line -/

/-- responses to HEAD and 1xx/204/304 responses are header-only -/
theorem c02_header_only_iff (m : Bytes) (st : Nat) :
    headerOnly m st = true ↔ m = Req.bs "HEAD" ∨ st / 100 = 1 ∨ st = 204 ∨ st = 304 := by
  simp [headerOnly, bodyAllowed, or_assoc]

/-- status code, reason phrase and protocol minor version are the origin's -/
theorem c02_status {rc : ReqCtx} {o : OriginResp} {r : ClientResp}
    (h : processResponse rc o = .ok r) :
    r.status = o.status ∧ r.reason = o.reason ∧ r.minor = o.minor :=
  status_preserved h

example : processResponse Ex.rcGet Ex.oLen = .ok Ex.rLen ∧ Ex.rLen.status = 404 ∧
    Ex.rLen.reason = [78, 111, 116, 32, 70, 111, 117, 110, 100] :=
  ⟨Ex.evalLen, rfl, rfl⟩

/-! ## B. end-to-end fields -/

/-- Every end-to-end field reaches the client with the same values in the same order: for a token
    name that is not hop-by-hop by definition, not one of the names the proxy manages for its own
    connection (`connection`, `upgrade`, `content-length`, `transfer-encoding`, `trailer`), not
    nominated by a `Connection` line of the origin, and not `content-encoding` when the body was
    gunzipped.  (No response-header rules configured.) -/
theorem c02_end_to_end_preserved {rc : ReqCtx} {o : OriginResp} {r : ClientResp}
    (hrules : rc.rules = []) (h : processResponse rc o = .ok r) (n : Bytes)
    (htok : n.all isTokenByte = true)
    (hstatic : lower n ∉ staticHopByHop) (hmanaged : lower n ∉ managedNames)
    (hnom : lower n ∉ nominated o)
    (hce : r.body = .gunzip → lower n ≠ Name.contentEncoding) :
    outValues r n = inValues o n :=
  end_to_end_preserved hrules h htok hstatic hmanaged hnom hce

/-- `Set-Cookie` sent twice (once spelt `set-cookie`), next to nominated and hop-by-hop fields -/
example : processResponse Ex.rcGet Ex.oChunked = .ok Ex.rChunked ∧
    outValues Ex.rChunked [83, 101, 116, 45, 67, 111, 111, 107, 105, 101] =
      [[97, 61, 49], [98, 61, 50]] ∧
    lower [83, 101, 116, 45, 67, 111, 111, 107, 105, 101] ∉ nominated Ex.oChunked ∧
    nominated Ex.oChunked = [[120, 45, 104, 111, 112], [107, 101, 101, 112, 45, 97, 108, 105, 118, 101]] :=
  ⟨Ex.evalChunked, by decide, by decide, by decide⟩

/-- The same for a well-formed origin response (`OriginWF o`: every field name is a token), for
    EVERY name `n`: names that are not tokens occur neither in the origin's response nor on the wire. -/
theorem c02_end_to_end_preserved_wf {rc : ReqCtx} {o : OriginResp} {r : ClientResp}
    (hwf : OriginWF o) (hrules : rc.rules = []) (h : processResponse rc o = .ok r) (n : Bytes)
    (hstatic : lower n ∉ staticHopByHop) (hmanaged : lower n ∉ managedNames)
    (hnom : lower n ∉ nominated o)
    (hce : r.body = .gunzip → lower n ≠ Name.contentEncoding) :
    outValues r n = inValues o n :=
  end_to_end_preserved_wf hwf hrules h hstatic hmanaged hnom hce

/-- for a well-formed origin every field name written to the client is a token -/
theorem c02_names_are_tokens {rc : ReqCtx} {o : OriginResp} {r : ClientResp} (hwf : OriginWF o)
    (hrules : rc.rules = []) (h : processResponse rc o = .ok r) :
    ∀ m ∈ outNames r, m.all isTokenByte = true :=
  names_token hwf hrules h

example : OriginWF Ex.oChunked := by decide

/-! ## C. hop-by-hop fields -/

/-- the hop-by-hop fields of RFC 7230 §6.1 (`Keep-Alive`, `Proxy-Authenticate`,
    `Proxy-Authorization`, `Proxy-Connection`, `TE`) never reach the client -/
theorem c02_hop_by_hop_removed {rc : ReqCtx} {o : OriginResp} {r : ClientResp}
    (hr : RulesOK rc) (h : processResponse rc o = .ok r) (n : Bytes) (hn : n ∈ staticHopByHop) :
    n ∉ outNames r :=
  static_removed hr h hn

example : processResponse Ex.rcGet Ex.oChunked = .ok Ex.rChunked ∧ RulesOK Ex.rcGet ∧
    inValues Ex.oChunked Name.keepAlive ≠ [] ∧ Name.keepAlive ∉ outNames Ex.rChunked :=
  ⟨Ex.evalChunked, rulesOK_nil rfl, by decide, by decide⟩

/-- FULL statement: every field a `Connection` line of the origin nominates is removed.
    FALSE for the unchanged code (F25), see `c02_nominated_removed_witness`. -/
def c02_nominated_removed_full : Prop :=
  ∀ (rc : ReqCtx) (o : OriginResp) (r : ClientResp), rc.rules = [] → processResponse rc o = .ok r →
    ∀ n ∈ nominated o, n.all isTokenByte = true → n ∉ managedNames → n ∉ outNames r

/-- nominated fields are removed provided the `Connection` field survives the transport's read:
    the origin is HTTP/1.0 or its `Connection` lines do not carry `close` -/
theorem c02_nominated_removed_partial {rc : ReqCtx} {o : OriginResp} {r : ClientResp}
    (hrules : rc.rules = []) (h : processResponse rc o = .ok r)
    (hsurv : o.minor = 0 ∨ originSaysClose o = false)
    (n : Bytes) (hn : n ∈ nominated o) (htok : n.all isTokenByte = true) (hm : n ∉ managedNames) :
    n ∉ outNames r :=
  nominated_removed hrules h hsurv hn htok hm

example : processResponse Ex.rcGet Ex.oChunked = .ok Ex.rChunked ∧ originSaysClose Ex.oChunked = false ∧
    [120, 45, 104, 111, 112] ∈ nominated Ex.oChunked ∧ inValues Ex.oChunked [120, 45, 104, 111, 112] = [[49]] ∧
    [120, 45, 104, 111, 112] ∉ outNames Ex.rChunked :=
  ⟨Ex.evalChunked, by decide, by decide, by decide, by decide⟩

/-- F25: `Connection: X-Hop, close` from an HTTP/1.1 origin — `X-Hop: 1` is forwarded -/
theorem c02_nominated_removed_witness : ¬ c02_nominated_removed_full := by
  intro h
  exact absurd (h Ex.rcGet Ex.oF25 Ex.rF25 rfl Ex.evalF25 [120, 45, 104, 111, 112] (by decide) (by decide)
    (by decide)) (by decide)

/-! ## D. framing -/

/-- HEAD / 1xx / 204 / 304: no body bytes are written, whatever the origin sent -/
theorem c02_header_only_no_body {rc : ReqCtx} {o : OriginResp} {r : ClientResp}
    (h : processResponse rc o = .ok r) (hb : bodiless rc.method o.status = true) :
    r.framing = .none ∧ r.body = .dropped :=
  header_only_no_body h hb

example : processResponse Ex.rcHead Ex.oLen = .ok Ex.rHeadLen ∧ bodiless Ex.rcHead.method Ex.oLen.status = true ∧
    Ex.rHeadLen.framing = .none :=
  ⟨Ex.evalHeadLen, by decide, rfl⟩

/-- `304`, `Transfer-Encoding: chunked`, `Trailer: X-T` (the shape of the repaired F1): the head
    writer lists `Trailer: X-T` and ends the head -/
example : processResponse Ex.rcGet Ex.oHoTrailer = .ok Ex.rHoTrailer ∧
    bodiless Ex.rcGet.method Ex.oHoTrailer.status = true ∧ originTrailers Ex.oHoTrailer ≠ [] ∧
    outValues Ex.rHoTrailer Name.trailer = [[88, 45, 84]] :=
  ⟨Ex.evalHoTrailer, by decide, by decide, by decide⟩

/-- a response delimited by the end of the connection does close the connection -/
theorem c02_framing_eof_closes {rc : ReqCtx} {o : OriginResp} {r : ClientResp}
    (h : processResponse rc o = .ok r) (hf : r.framing = .eof) : r.keepAlive = false :=
  eof_closes h hf

example : processResponse Ex.rcGet Ex.oEof = .ok Ex.rEof ∧ Ex.rEof.framing = .eof ∧ Ex.rEof.keepAlive = false :=
  ⟨Ex.evalEof, rfl, rfl⟩

/-- A response after which the connection is kept open is delimited on the wire: header-only,
    `Content-Length`, or chunked — for EVERY request context and origin response (F22 and F1, which
    used to be excluded here, are repaired). -/
theorem c02_keepalive_implies_delimited {rc : ReqCtx} {o : OriginResp} {r : ClientResp}
    (h : processResponse rc o = .ok r) (hk : r.keepAlive = true) :
    r.framing = .none ∨ (∃ n, r.framing = .cl n) ∨ (∃ ts, r.framing = .chunked ts) :=
  keepalive_delimited h hk

/-- the shape of the repaired F22 (gzip solicited by the transport; `200 OK`, `Content-Encoding: gzip`,
    `Content-Length: 20`): gunzipped, re-framed as chunked, connection kept open -/
example : processResponse Ex.rcGetGz Ex.oGzLen = .ok Ex.rGzLen ∧ Ex.rGzLen.keepAlive = true ∧
    Ex.rGzLen.body = .gunzip ∧ Ex.rGzLen.framing = .chunked [] :=
  ⟨Ex.evalGzLen, rfl, rfl, rfl⟩

/-- the shape of the repaired F1: connection kept open, header-only -/
example : processResponse Ex.rcGet Ex.oHoTrailer = .ok Ex.rHoTrailer ∧ Ex.rHoTrailer.keepAlive = true ∧
    Ex.rHoTrailer.framing = .none :=
  ⟨Ex.evalHoTrailer, rfl, rfl⟩

/-- a body the proxy gunzipped itself (its length is lost) is never left without framing: it is sent
    chunked, or the connection is closed behind it (F22 clause) -/
theorem c02_gunzip_framed {rc : ReqCtx} {o : OriginResp} {r : ClientResp}
    (h : processResponse rc o = .ok r) (hb : r.body = .gunzip) :
    (∃ ts, r.framing = .chunked ts) ∨ (r.framing = .eof ∧ r.keepAlive = false) :=
  gunzip_framed h hb

example : processResponse Ex.rcGetGz10 Ex.oGzLen = .ok Ex.rGzLen10 ∧ Ex.rGzLen10.body = .gunzip ∧
    Ex.rGzLen10.framing = .eof ∧ Ex.rGzLen10.keepAlive = false :=
  ⟨Ex.evalGzLen10, rfl, rfl, rfl⟩

/-- an HTTP/1.0 client is never sent a chunked body (F18 clause) -/
theorem c02_http10_client_never_chunked {rc : ReqCtx} {o : OriginResp} {r : ClientResp}
    (h0 : rc.reqMinor = 0) (h : processResponse rc o = .ok r) : ¬ isChunked r.framing :=
  http10_never_chunked h0 h

/-- HTTP/1.0 client with keep-alive, chunked origin response with a declared trailer: sent
    close-delimited, without `Transfer-Encoding` and `Trailer` (an HTTP/1.1 client gets
    `Ex.rChunked`, which is chunked) -/
example : Ex.rcGet10.reqMinor = 0 ∧ processResponse Ex.rcGet10 Ex.oChunked = .ok Ex.rChunked10 ∧
    Ex.rChunked10.framing = .eof ∧ Ex.rChunked10.keepAlive = false ∧
    outValues Ex.rChunked10 Name.transferEncoding = [] ∧ outValues Ex.rChunked10 Name.trailer = [] ∧
    isChunked Ex.rChunked.framing :=
  ⟨rfl, Ex.evalChunked10, rfl, rfl, by decide, by decide, by decide⟩

/-- the field lines written declare the framing used: an RFC 7230 §3.3.3 reader that knows the
    request method decides exactly the framing the writer used -/
theorem c02_framing_declared {rc : ReqCtx} {o : OriginResp} {r : ClientResp} (hr : RulesOK rc)
    (hm : rc.method ≠ Name.CONNECT) (h : processResponse rc o = .ok r) :
    FramingDeclared rc.method r :=
  framing_declared hr hm h

example : processResponse Ex.rcGet10 Ex.oChunked = .ok Ex.rChunked10 ∧ RulesOK Ex.rcGet10 ∧
    Ex.rcGet10.method ≠ Name.CONNECT ∧ FramingDeclared Ex.rcGet10.method Ex.rChunked10 :=
  ⟨Ex.evalChunked10, rulesOK_nil rfl, by decide, by decide⟩

/-- **Self-delimiting**: a conforming reader consumes exactly this response, whatever follows it on
    the connection (`rest` is arbitrary): header-only, `Content-Length` (with a body of that length)
    and chunked (any chunking of the body into non-empty chunks, any well-formed trailers). -/
theorem c02_framing_self_delimiting {rc : ReqCtx} {o : OriginResp} {r : ClientResp} (hr : RulesOK rc)
    (hm : rc.method ≠ Name.CONNECT) (h : processResponse rc o = .ok r) (hwf : HeadWF r)
    (chunks : List Bytes) (trailers : List (Bytes × Bytes)) (htr : ∀ f ∈ trailers, LineWF f)
    (hfit : BodyFits r chunks)
    (hfr : r.framing = .none ∨ (∃ n, r.framing = .cl n) ∨ (∃ ts, r.framing = .chunked ts))
    (rest : Bytes) :
    parseResponse rc.method (serialize r chunks trailers ++ rest) = some (expected r chunks trailers, rest) := by
  have h3 : r.framing ≠ .eof := by
    rcases hfr with h' | ⟨n, h'⟩ | ⟨ts, h'⟩ <;> rw [h'] <;> simp
  exact parseResponse_serialize rc.method r chunks trailers rest hwf htr (framing_declared hr hm h) hfit h3

/-- a syntactically well-formed origin head (`OriginHeadWF o`: HTTP/1.0–1.9, status < 1000, no LF in
    reason phrase or values, non-empty token names) is written as a well-formed head -/
theorem c02_head_well_formed {rc : ReqCtx} {o : OriginResp} {r : ClientResp} (hwf : OriginHeadWF o)
    (hrules : rc.rules = []) (h : processResponse rc o = .ok r) : HeadWF r :=
  headWF_of_origin hwf hrules h

/-- **Self-delimiting, all hypotheses on the input**: for a well-formed origin response, on a
    connection that is kept open, a conforming reader consumes exactly this response, whatever
    follows it. -/
theorem c02_framing_self_delimiting_origin {rc : ReqCtx} {o : OriginResp} {r : ClientResp}
    (hwf : OriginHeadWF o) (hrules : rc.rules = []) (hm : rc.method ≠ Name.CONNECT)
    (h : processResponse rc o = .ok r) (hk : r.keepAlive = true)
    (chunks : List Bytes) (trailers : List (Bytes × Bytes)) (htr : ∀ f ∈ trailers, LineWF f)
    (hfit : BodyFits r chunks) (rest : Bytes) :
    parseResponse rc.method (serialize r chunks trailers ++ rest) = some (expected r chunks trailers, rest) :=
  c02_framing_self_delimiting (rulesOK_nil hrules) hm h (headWF_of_origin hwf hrules h) chunks trailers htr
    hfit (keepalive_delimited h hk) rest

example : OriginHeadWF Ex.oChunked ∧ Ex.rChunked.keepAlive = true :=
  ⟨⟨by decide, by decide, by decide, by decide⟩, rfl⟩

/-- the shapes of the repaired F22 and F1 satisfy the hypotheses as well -/
example : OriginHeadWF Ex.oGzLen ∧ Ex.rcGetGz.rules = [] ∧ Ex.rcGetGz.method ≠ Name.CONNECT ∧
    processResponse Ex.rcGetGz Ex.oGzLen = .ok Ex.rGzLen ∧ Ex.rGzLen.keepAlive = true ∧
    BodyFits Ex.rGzLen [[104, 105]] :=
  ⟨⟨by decide, by decide, by decide, by decide⟩, rfl, by decide, Ex.evalGzLen, rfl, by decide⟩

example : OriginHeadWF Ex.oHoTrailer ∧ processResponse Ex.rcGet Ex.oHoTrailer = .ok Ex.rHoTrailer ∧
    Ex.rHoTrailer.keepAlive = true ∧ BodyFits Ex.rHoTrailer [] :=
  ⟨⟨by decide, by decide, by decide, by decide⟩, Ex.evalHoTrailer, rfl, by decide⟩

/-- a chunked response with a declared trailer, written as two chunks -/
example : processResponse Ex.rcGet Ex.oChunked = .ok Ex.rChunked ∧ RulesOK Ex.rcGet ∧
    Ex.rcGet.method ≠ Name.CONNECT ∧ HeadWF Ex.rChunked ∧
    (∀ f ∈ [(([88, 45, 83, 117, 109], [52, 50]) : Bytes × Bytes)], LineWF f) ∧
    BodyFits Ex.rChunked [[104, 101, 108, 108, 111, 32], [119, 111, 114, 108, 100]] ∧
    (expected Ex.rChunked [[104, 101, 108, 108, 111, 32], [119, 111, 114, 108, 100]]
        [([88, 45, 83, 117, 109], [52, 50])]).body = [104, 101, 108, 108, 111, 32, 119, 111, 114, 108, 100] :=
  ⟨Ex.evalChunked, rulesOK_nil rfl, by decide, by decide, by decide, by decide, by decide⟩

example : processResponse Ex.rcGet Ex.oLen = .ok Ex.rLen ∧ HeadWF Ex.rLen ∧
    BodyFits Ex.rLen [[49, 50, 51], [52, 53]] :=
  ⟨Ex.evalLen, by decide, by decide⟩

/-- a close-delimited response is read up to the end of the stream (and nothing follows: see
    `c02_framing_eof_closes`) -/
theorem c02_framing_eof_reads_to_end {rc : ReqCtx} {o : OriginResp} {r : ClientResp} (hr : RulesOK rc)
    (hm : rc.method ≠ Name.CONNECT) (h : processResponse rc o = .ok r) (hwf : HeadWF r)
    (chunks : List Bytes) (trailers : List (Bytes × Bytes)) (hf : r.framing = .eof) :
    parseResponse rc.method (serialize r chunks trailers) = some (expected r chunks trailers, []) :=
  parseResponse_serialize_eof rc.method r chunks trailers hwf
    (framing_declared hr hm h) hf

example : processResponse Ex.rcGet Ex.oEof = .ok Ex.rEof ∧ HeadWF Ex.rEof ∧ Ex.rEof.framing = .eof :=
  ⟨Ex.evalEof, by decide, rfl⟩

/-- one exchange on a client connection: request context, origin response, and what the writers
    emit for it (the `ClientResp` of the model with a concrete body chunking and trailers) -/
structure Served where
  rc : ReqCtx
  o : OriginResp
  x : Exchange

/-- the exchange is what the model says and is written as a well-formed head -/
structure Served.Good (s : Served) : Prop where
  model : processResponse s.rc s.o = .ok s.x.resp
  method : s.x.method = s.rc.method
  rules : RulesOK s.rc
  notConnect : s.rc.method ≠ Name.CONNECT
  headWF : HeadWF s.x.resp
  trailersWF : ∀ f ∈ s.x.trailers, LineWF f
  bodyFits : BodyFits s.x.resp s.x.chunks

/-- **Sequence theorem**: for any list of exchanges on one client connection, the bytes the
    connection carries (`connBytes`: the serialisations, up to and including the first response
    that closes the connection) are read back by a conforming client as exactly those responses,
    k-th response to k-th request, with nothing left over: no byte of one message leaks into the
    next. -/
theorem c02_sequence (ss : List Served) (h : ∀ s ∈ ss, s.Good) :
    parseSeq ((served (ss.map (·.x))).map (·.method)) (connBytes (ss.map (·.x))) =
      some ((served (ss.map (·.x))).map Exchange.expected, []) := by
  apply parseSeq_connBytes
  intro x hx
  obtain ⟨s, hs, rfl⟩ := List.mem_map.mp hx
  have g := h s hs
  refine ⟨g.headWF, g.trailersWF, ?_, g.bodyFits, fun hf => eof_closes g.model hf⟩
  rw [g.method]
  exact framing_declared g.rules g.notConnect g.model

/-- chunked with trailer, then Content-Length, then a gunzipped body re-framed as chunked (the shape of
    the repaired F22), then a 304 with a declared trailer (the shape of the repaired F1), then a
    close-delimited HTTP/1.0 response -/
example :
    let ss : List Served :=
      [⟨Ex.rcGet, Ex.oChunked, ⟨Ex.rcGet.method, Ex.rChunked, [[104, 105], [33]], [([88, 45, 83, 117, 109], [52, 50])]⟩⟩,
       ⟨Ex.rcGet, Ex.oLen, ⟨Ex.rcGet.method, Ex.rLen, [[49, 50, 51, 52, 53]], []⟩⟩,
       ⟨Ex.rcGetGz, Ex.oGzLen, ⟨Ex.rcGetGz.method, Ex.rGzLen, [[104, 105]], []⟩⟩,
       ⟨Ex.rcGet, Ex.oHoTrailer, ⟨Ex.rcGet.method, Ex.rHoTrailer, [], []⟩⟩,
       ⟨Ex.rcGet, Ex.oEof, ⟨Ex.rcGet.method, Ex.rEof, [[98, 121, 101]], []⟩⟩]
    (∀ s ∈ ss, s.Good) ∧ (served (ss.map (·.x))).length = 5 := by
  intro ss
  refine ⟨?_, by decide⟩
  intro s hs
  simp only [ss, List.mem_cons, List.not_mem_nil, or_false] at hs
  rcases hs with rfl | rfl | rfl | rfl | rfl
  · exact ⟨Ex.evalChunked, rfl, rulesOK_nil rfl, by decide, by decide, by decide, by decide⟩
  · exact ⟨Ex.evalLen, rfl, rulesOK_nil rfl, by decide, by decide, by decide, by decide⟩
  · exact ⟨Ex.evalGzLen, rfl, rulesOK_nil rfl, by decide, by decide, by decide, by decide⟩
  · exact ⟨Ex.evalHoTrailer, rfl, rulesOK_nil rfl, by decide, by decide, by decide, by decide⟩
  · exact ⟨Ex.evalEof, rfl, rulesOK_nil rfl, by decide, by decide, by decide, by decide⟩

/-! ## E. incremental delivery (`patternFlushWriter`) -/

open Flush in
/-- a write that contains the pattern (`\n\n` for event streams, `\r\n` for chunked bodies) is
    followed by a flush -/
theorem c02_flush_if_contains (pat : UInt8 × UInt8) (ws : List Bytes) (i : Nat) (p : Bytes)
    (hi : ws[i]? = some p) (hc : containsPair pat p = true) : (flushes pat ws)[i]? = some true :=
  flush_if_contains pat ws i p hi hc

open Flush in
/-- the pattern split across two consecutive non-empty writes is caught -/
theorem c02_flush_boundary (pat : UInt8 × UInt8) (ws : List Bytes) (i : Nat) (q p : Bytes)
    (hq : ws[i]? = some q) (hp : ws[i + 1]? = some p) (hl : q.getLast? = some pat.1)
    (hh : p.head? = some pat.2) : (flushes pat ws)[i + 1]? = some true :=
  flush_boundary pat ws i q p hq hp hl hh

open Flush in
/-- "data: a\n" | "\ndata: b" | "x": the pair is split across writes 0 and 1 -/
example :
    let ws : List Bytes := [[100, 97, 116, 97, 58, 32, 97, 10], [10, 100, 97, 116, 97, 58, 32, 98], [120]]
    ws[0]? = some [100, 97, 116, 97, 58, 32, 97, 10] ∧ ws[1]? = some [10, 100, 97, 116, 97, 58, 32, 98] ∧
      ([100, 97, 116, 97, 58, 32, 97, 10] : Bytes).getLast? = some 10 ∧
      ([10, 100, 97, 116, 97, 58, 32, 98] : Bytes).head? = some 10 ∧
      flushes (10, 10) ws = [false, true, false] := by
  decide

open Flush in
/-- FULL statement: after every non-empty write that leaves the output ending with the pattern there
    is a flush.  FALSE for the code: a zero-length write between the two halves resets `last`. -/
def c02_flush_after_pattern_full : Prop := flush_after_pattern_full

open Flush in
/-- … it holds when, in the split case, the preceding write is non-empty -/
theorem c02_flush_after_pattern_partial (pat : UInt8 × UInt8) (ws : List Bytes) (i : Nat) (p : Bytes)
    (hi : ws[i]? = some p) (hne : p ≠ []) (hend : endsWithPair pat (written ws i))
    (hside : 2 ≤ p.length ∨ ∃ q, 0 < i ∧ ws[i - 1]? = some q ∧ q ≠ []) :
    (flushes pat ws)[i]? = some true :=
  flush_after_pattern_partial pat ws i p hi hne hend hside

open Flush in
/-- a chunk "5\r\nhello\r\n" written as "5\r\nhello\r" | "\n": hypotheses of the partial theorem at i = 1 -/
example :
    let ws : List Bytes := [[53, 13, 10, 104, 101, 108, 108, 111, 13], [10]]
    ws[1]? = some [10] ∧ endsWithPair (13, 10) (written ws 1) ∧
      (∃ q, 0 < 1 ∧ ws[1 - 1]? = some q ∧ q ≠ []) ∧ flushes (13, 10) ws = [true, true] :=
  ⟨rfl, by decide, ⟨_, by decide, rfl, by decide⟩, by decide⟩

open Flush in
/-- "\n" | "" | "\n": the output ends with "\n\n" but nothing is flushed -/
theorem c02_flush_after_pattern_witness : ¬ c02_flush_after_pattern_full :=
  flush_after_pattern_witness

open Flush in
/-- "data: a\n" | "\n" | "data: b\n\ndata: c": flushes after the 2nd and 3rd write -/
example : flushes (10, 10) [[100, 97, 116, 97, 58, 32, 97, 10], [10],
    [100, 97, 116, 97, 58, 32, 98, 10, 10, 100, 97, 116, 97, 58, 32, 99]] = [false, true, true] := by
  decide

/-! ## E2. incremental delivery on a keep-alive connection (one writer per response) -/

open Flush in
/-- the writer `writeResponse` chooses: an event stream always gets the "\n\n" writer -/
theorem c02_pattern_event_stream (minor : Nat) (known : Bool) :
    choosePattern false true minor known = some ssePattern := rfl

open Flush in
/-- … any other HTTP/1.1 body of unknown length (chunked to the client) the "\r\n" writer, a body of
    known length none, and a header-only response none -/
theorem c02_pattern_other (sse : Bool) (minor : Nat) (known : Bool) :
    choosePattern false false 1 false = some chunkPattern ∧
      choosePattern false false minor true = none ∧
      choosePattern true sse minor known = none := by
  refine ⟨rfl, ?_, rfl⟩
  simp [choosePattern]

open Flush in
/-- the flush decisions of the k-th response on a connection are those of that response written
    alone — a function of ITS writes and ITS pattern; neither the other responses `rs` nor the
    state `c` the earlier history left behind (stale pattern, carried-over byte, buffer) matter -/
theorem c02_conn_flush_points_independent (size : Nat) (c : Conn) (rs : List Reply) (k : Nat)
    (r : Reply) (hk : rs[k]? = some r) :
    ((c.replies size rs)[k]?).map (List.map Out.flushed) = some (replyFlushes r) :=
  Conn.replies_flushes size c rs k r hk

open Flush in
/-- the same as an explicit independence statement: two connections with arbitrary different
    histories agree on the flush points of a response they have in common -/
theorem c02_conn_history_irrelevant (size size' : Nat) (c c' : Conn) (pre pre' post post' : List Reply)
    (r : Reply) :
    ((c.replies size (pre ++ r :: post))[pre.length]?).map (List.map Out.flushed) =
      ((c'.replies size' (pre' ++ r :: post'))[pre'.length]?).map (List.map Out.flushed) := by
  rw [Conn.replies_flushes size c _ pre.length r (by simp),
    Conn.replies_flushes size' c' _ pre'.length r (by simp)]

open Flush in
/-- SSE then chunked on one connection (heads abbreviated): the second response is flushed at every
    CRLF although the first one used "\n\n" — and a response whose predecessor ended in "\n" and
    which starts with "\n" is not flushed at that write (no carry-over between responses) -/
example :
    let sse : Reply := ⟨some ssePattern, [[72, 13, 10], [13, 10], [51, 13, 10], [97, 10, 10], [13, 10], [48, 13, 10], [13, 10]]⟩
    let chk : Reply := ⟨some chunkPattern, [[72, 13, 10], [13, 10], [49, 13, 10], [98], [13, 10], [48, 13, 10], [13, 10]]⟩
    let nl : Reply := ⟨some ssePattern, [[97, 10]]⟩
    let nl2 : Reply := ⟨some ssePattern, [[10, 98], [10], [10]]⟩
    (Conn.fresh.replies bufSize [sse, chk, nl, nl2]).map (List.map Out.flushed) =
      [[false, false, false, true, false, false, false, true],
       [true, true, true, false, true, true, true, true],
       [false, true],
       [false, false, true, true]] ∧
    -- written through the FIRST response's writer nothing of the chunked response would be flushed
    flushes ssePattern chk.writes = [false, false, false, false, false, false, false] ∧
    -- and a carried-over "\n" would have flushed the first write of `nl2`
    flushesFrom ssePattern 10 nl2.writes = [true, false, true] := by
  decide

open Flush in
/-- what the client holds after each write of the k-th response is what a new connection would
    have delivered for that response alone, plus every byte of the earlier responses -/
theorem c02_conn_delivery_independent (size : Nat) (c : Conn) (rs : List Reply) (k : Nat) (r : Reply)
    (h0 : c.buf.buffered = 0) (hk : rs[k]? = some r) :
    (c.replies size rs)[k]? =
      some ((replyOuts size r).map (Out.shift (c.buf.delivered + repliesSize (rs.take k)))) :=
  Conn.replies_outs size c rs k r h0 hk

open Flush in
/-- 3-byte + 2-byte + … writes against a 4-byte `bufio.Writer`: deliveries by overflow and by flush -/
example :
    let sse : Reply := ⟨some ssePattern, [[72, 13, 10], [13, 10], [97, 10, 10], [98]]⟩
    let chk : Reply := ⟨some chunkPattern, [[72], [13, 10], [1, 2, 3, 4, 5, 6, 7]]⟩
    Conn.fresh.buf.buffered = 0 ∧ [sse, chk][1]? = some chk ∧
    replyOuts 4 chk = [⟨false, 0⟩, ⟨true, 3⟩, ⟨false, 10⟩, ⟨true, 10⟩] ∧
    repliesSize ([sse, chk].take 1) = 9 ∧
    Conn.fresh.replies 4 [sse, chk] =
      [[⟨false, 0⟩, ⟨false, 4⟩, ⟨true, 8⟩, ⟨false, 8⟩, ⟨true, 9⟩],
       [⟨false, 9⟩, ⟨true, 12⟩, ⟨false, 19⟩, ⟨true, 19⟩]] := by
  decide

open Flush in
/-- a write followed by a flush leaves nothing behind: the client has been given every byte written
    on the connection so far (all earlier responses and this one up to and including write `i`) -/
theorem c02_conn_flush_delivers_everything (size : Nat) (c : Conn) (rs : List Reply) (k : Nat)
    (r : Reply) (outs : List Out) (i : Nat) (o : Out)
    (hk : rs[k]? = some r) (ho : (c.replies size rs)[k]? = some outs) (hi : outs[i]? = some o)
    (hf : o.flushed = true) (hlt : i < r.writes.length) :
    o.delivered = c.buf.total + repliesSize (rs.take k) + (written r.writes i).length :=
  Conn.replies_flushed_delivers size c rs k r outs i o hk ho hi hf hlt

open Flush in
/-- every response ends flushed: after the k-th response all bytes of responses 0..k are delivered -/
theorem c02_conn_response_end_complete (size : Nat) (c : Conn) (rs : List Reply) (k : Nat) (r : Reply)
    (hk : rs[k]? = some r) :
    ∃ outs, (c.replies size rs)[k]? = some outs ∧
      outs[r.writes.length]? =
        some { flushed := true, delivered := c.buf.total + repliesSize (rs.take (k + 1)) } :=
  Conn.replies_end size c rs k r hk

open Flush in
/-- a write containing the response's pattern (the CRLF after a chunk, an event's blank line) is
    flushed and everything up to it is delivered, whatever preceded the response on the connection -/
theorem c02_conn_contains_delivered (size : Nat) (c : Conn) (rs : List Reply) (k : Nat) (r : Reply)
    (pat : Pat) (i : Nat) (p : Bytes)
    (hk : rs[k]? = some r) (hpat : r.pat = some pat)
    (hi : r.writes[i]? = some p) (hc : containsPair pat p = true) :
    ∃ outs o, (c.replies size rs)[k]? = some outs ∧ outs[i]? = some o ∧ o.flushed = true ∧
      o.delivered = c.buf.total + repliesSize (rs.take k) + (written r.writes i).length :=
  Conn.replies_contains size c rs k r pat i p hk hpat hi hc

open Flush in
/-- `c02_flush_after_pattern_partial` on a connection: whenever the bytes the k-th response has
    written so far end with its pattern (event / chunk complete), the client holds all of them -/
theorem c02_conn_after_pattern_delivered (size : Nat) (c : Conn) (rs : List Reply) (k : Nat)
    (r : Reply) (pat : Pat) (i : Nat) (p : Bytes)
    (hk : rs[k]? = some r) (hpat : r.pat = some pat)
    (hi : r.writes[i]? = some p) (hne : p ≠ []) (hend : endsWithPair pat (written r.writes i))
    (hside : 2 ≤ p.length ∨ ∃ q, 0 < i ∧ r.writes[i - 1]? = some q ∧ q ≠ []) :
    ∃ outs o, (c.replies size rs)[k]? = some outs ∧ outs[i]? = some o ∧ o.flushed = true ∧
      o.delivered = c.buf.total + repliesSize (rs.take k) + (written r.writes i).length :=
  Conn.replies_after_pattern size c rs k r pat i p hk hpat hi hne hend hside

open Flush in
/-- chunked after SSE: the CRLF closing the chunk "b" is write 4 of response 1; hypotheses of
    `c02_conn_after_pattern_delivered` / `c02_conn_contains_delivered` and the delivered count 20+7 -/
example :
    let sse : Reply := ⟨some ssePattern, [[72, 13, 10], [13, 10], [51, 13, 10], [97, 10, 10], [13, 10], [48, 13, 10], [13, 10]]⟩
    let chk : Reply := ⟨some chunkPattern, [[72, 13, 10], [13, 10], [49, 13, 10], [98], [13, 10], [48, 13, 10], [13, 10]]⟩
    [sse, chk][1]? = some chk ∧ chk.pat = some chunkPattern ∧ chk.writes[4]? = some [13, 10] ∧
      containsPair chunkPattern [13, 10] = true ∧ endsWithPair chunkPattern (written chk.writes 4) ∧
      repliesSize ([sse, chk].take 1) = 18 ∧ (written chk.writes 4).length = 11 ∧
      ((Conn.fresh.replies bufSize [sse, chk])[1]?.bind (·[4]?)) = some ⟨true, 29⟩ := by
  decide

/-! ## F. gzip -/

/-- the body is gunzipped only when the proxy itself solicited gzip and the origin's response is
    gzip-coded (and has a body) -/
theorem c02_gzip_only_when_solicited {rc : ReqCtx} {o : OriginResp} {r : ClientResp}
    (h : processResponse rc o = .ok r) (hb : r.body = .gunzip) :
    rc.solicitedGzip = true ∧ originGzip o = true ∧ bodiless rc.method o.status = false :=
  gunzip_facts h hb

/-- … and then neither `Content-Encoding` nor `Content-Length` is written -/
theorem c02_gunzip_drops_coding_fields {rc : ReqCtx} {o : OriginResp} {r : ClientResp}
    (hrules : rc.rules = []) (h : processResponse rc o = .ok r) (hb : r.body = .gunzip) :
    Name.contentEncoding ∉ outNames r ∧ Name.contentLength ∉ outNames r :=
  gunzip_drops hrules h hb

example : processResponse Ex.rcGetGz Ex.oGzChunked = .ok Ex.rGzChunked ∧ Ex.rGzChunked.body = .gunzip ∧
    inValues Ex.oGzChunked Name.contentEncoding = [Name.gzip] :=
  ⟨Ex.evalGzChunked, rfl, by decide⟩

/-- without solicitation a gzip-coded response passes through untouched -/
example : ∃ r, processResponse Ex.rcGet Ex.oGzChunked = .ok r ∧ r.body = .same ∧
    outValues r Name.contentEncoding = [Name.gzip] := by
  refine ⟨⟨1, 200, [79, 75],
    [(Name.transferEncoding, [Name.chunked]), (Name.contentEncoding, [Name.gzip]),
     ([118, 97, 114, 121], [[65, 99, 99, 101, 112, 116, 45, 69, 110, 99, 111, 100, 105, 110, 103]])],
    .chunked [], .same, true⟩, ?_, rfl, by decide⟩
  show processResponse Ex.rcGet Ex.oGzChunked = _
  unfold Ex.rcGet Ex.oGzChunked
  resp_eval

/-! ## G. the request side of a keep-alive connection (`Model/ReqConn.lean`)

  "The k-th response answers the k-th request" needs the proxy to read the client's byte stream the
  way the client framed it, whatever it does with the individual requests: a request the proxy answers
  itself (407 / 403 / 451 / 400 from a request modifier, no round trip) occupies exactly the same
  bytes of the connection as one it forwards.  `ReqConn.serve .always d` is the connection loop of
  `proxyConn.handle` with its deferred `req.Body.Close()`; `d : ReqHead → Disp` (answered locally or
  forwarded, close or keep-alive) is arbitrary in every theorem.  `ReqConn.frames` is the client's view
  of the same bytes. -/

/-- a refusal consumes the body: the bytes an exchange takes off the connection do not depend on what
    became of the request -/
theorem c02_refusal_consumes_body (d d' : ReqConn.Disp) (fr : ReqConn.Framing) (r : Bytes) :
    ReqConn.consumed .always d fr r = ReqConn.consumed .always d' fr r ∧
      ReqConn.consumed .always d fr r = ReqConn.readBody fr r := by
  simp [ReqConn.consumed_always]

/-- the full statement, for a loop with drain policy `m`: the requests acted on, and the state the
    connection is left in, are the client's framing cut after the first response that closes -/
def c02_reader_full (m : ReqConn.Drain) : Prop :=
  ∀ (d : ReqConn.ReqHead → ReqConn.Disp) (inp : Bytes),
    ReqConn.serve m d inp = ReqConn.cut d (ReqConn.frames inp).1 (ReqConn.frames inp).2

/-- **the sequence of requests the proxy acts on equals the sequence the client framed**, for every
    decision function and every byte stream -/
theorem c02_acted_eq_framed : c02_reader_full .always := by
  intro d inp
  exact ReqConn.serveAux_always d _ inp

/-- … so it is a prefix of the client's sequence (all of it when nothing closes the connection):
    no request is built from body bytes, none is skipped, none is split -/
theorem c02_acted_prefix_of_framed (d : ReqConn.ReqHead → ReqConn.Disp) (inp : Bytes) :
    (ReqConn.serve .always d inp).1.map ReqConn.Acted.item =
      (ReqConn.frames inp).1.take (ReqConn.serve .always d inp).1.length := by
  rw [c02_acted_eq_framed d inp]
  exact ReqConn.cut_items d _ _

/-- … independent of which of them were refused locally: two decision functions that agree on
    `close` act on the same requests and leave the connection in the same state -/
theorem c02_acted_independent_of_refusals (d d' : ReqConn.ReqHead → ReqConn.Disp)
    (hc : ∀ h, (d h).close = (d' h).close) (inp : Bytes) :
    (ReqConn.serve .always d inp).1.map ReqConn.Acted.item =
        (ReqConn.serve .always d' inp).1.map ReqConn.Acted.item ∧
      (ReqConn.serve .always d inp).2 = (ReqConn.serve .always d' inp).2 := by
  rw [c02_acted_eq_framed d inp, c02_acted_eq_framed d' inp]
  exact ReqConn.cut_congr_close d d' hc _ _

/-- **the k-th response answers the k-th request** the client framed, and it is the proxy's own answer
    exactly when the decision for that request says so -/
theorem c02_kth_response_answers_kth_request (d : ReqConn.ReqHead → ReqConn.Disp) (inp : Bytes) (k : Nat)
    (hk : k < (ReqConn.serve .always d inp).1.length) :
    ∃ i a, (ReqConn.frames inp).1[k]? = some i ∧
      (ReqConn.answers (ReqConn.serve .always d inp).1)[k]? = some a ∧
      a.to = i.head ∧ a.status = (d i.head).refused := by
  have hp := c02_acted_prefix_of_framed d inp
  have hd : ∀ a ∈ (ReqConn.serve .always d inp).1, a.disp = d a.head := by
    rw [c02_acted_eq_framed d inp]
    exact ReqConn.cut_disp d _ _
  obtain ⟨a, ha⟩ : ∃ a, (ReqConn.serve .always d inp).1[k]? = some a := ⟨_, List.getElem?_eq_getElem hk⟩
  have h1 : ((ReqConn.serve .always d inp).1.map ReqConn.Acted.item)[k]? = some a.item := by
    simp [ha]
  rw [hp, List.getElem?_take, if_pos hk] at h1
  refine ⟨a.item, ⟨a.head, a.disp.refused⟩, h1, by simp [ReqConn.answers, ha], rfl, ?_⟩
  show a.disp.refused = (d a.head).refused
  rw [hd a (List.mem_of_getElem? ha)]

/-- the next hop is sent only requests the client framed, in the client's order -/
theorem c02_origin_sees_only_framed_requests (d : ReqConn.ReqHead → ReqConn.Disp) (inp : Bytes) :
    (ReqConn.forwarded (ReqConn.serve .always d inp).1).Sublist (ReqConn.frames inp).1 := by
  have hp := c02_acted_prefix_of_framed d inp
  unfold ReqConn.forwarded
  refine List.Sublist.trans (List.Sublist.map _ List.filter_sublist) ?_
  rw [hp]
  exact List.take_sublist _ _

/-- **requests are self-delimiting**: what a client writes back to back — no body, `Content-Length`
    bodies, chunked bodies with trailers — is read as exactly those requests, nothing left over and no
    byte of one request in the next -/
theorem c02_request_sequence (cs : List ReqConn.ClientReq) (hwf : ∀ c ∈ cs, c.WF) :
    ReqConn.frames (cs.flatMap ReqConn.ClientReq.wire) = (cs.map ReqConn.ClientReq.expected, .idle) :=
  ReqConn.frames_wire cs hwf

/-- a pipeline of well-formed requests through a proxy that keeps the connection open: every request is
    acted on, in order, with its own body, whichever of them are refused; the connection is idle after -/
theorem c02_pipeline_served (cs : List ReqConn.ClientReq) (hwf : ∀ c ∈ cs, c.WF)
    (d : ReqConn.ReqHead → ReqConn.Disp) (hd : ∀ h, (d h).close = false) :
    (ReqConn.serve .always d (cs.flatMap ReqConn.ClientReq.wire)).1.map ReqConn.Acted.item =
        cs.map ReqConn.ClientReq.expected ∧
      (ReqConn.serve .always d (cs.flatMap ReqConn.ClientReq.wire)).2 = .idle := by
  rw [c02_acted_eq_framed d _, c02_request_sequence cs hwf]
  apply ReqConn.cut_no_close d hd
  intro i hi
  obtain ⟨c, _, rfl⟩ := List.mem_map.mp hi
  simp [ReqConn.ClientReq.expected]

/-- non-vacuity: a `Content-Length` request and a chunked one with a trailer are well formed -/
example :
    let post : ReqConn.ClientReq :=
      ⟨⟨ReqConn.Ex.POST, ReqConn.Ex.upload, 1, [([72, 111, 115, 116], [111]), (Name.contentLength, [50])]⟩,
        .len 2, [[104], [105]], []⟩
    let chunked : ReqConn.ClientReq :=
      ⟨⟨ReqConn.Ex.POST, ReqConn.Ex.upload, 1, [(Name.transferEncoding, Name.chunked)]⟩,
        .chunked, [[104, 105], [33]], [([88, 45, 84], [49])]⟩
    post.WF ∧ chunked.WF := by
  refine ⟨⟨by decide, by decide, by decide, by decide, by decide, by decide, ?_, by simp, by decide, by decide⟩,
    ⟨by decide, by decide, by decide, by decide, by decide, by decide, ?_, ?_, by decide, by decide⟩⟩
  all_goals
    intro f hf
    simp only [List.mem_cons, List.not_mem_nil, or_false] at hf
    rcases hf with rfl | rfl <;> exact (lineWF_iff _).mpr (by decide)

/-- without the drain of refused requests the statement is FALSE: on `Ex.stream` (a POST whose
    `Content-Length` body reads `GET /from-the-body HTTP/1.1 …`, then `GET /second`), with every POST
    answered 407 on a connection that stays open -/
theorem c02_unconsumed_refusal_witness : ¬ c02_reader_full .forwardedOnly := by
  intro h
  have := h ReqConn.Ex.refusePost ReqConn.Ex.stream
  revert this
  decide +kernel

/-- what exactly goes wrong on that stream.  The client framed two requests.  With the drain the proxy
    answers 407 to the POST and forwards `GET /second`.  Without it the body is read as a request:
    the next hop is sent `GET /from-the-body`, which the client never sent as a request, and the second
    response on the connection answers that request instead of `GET /second`. -/
example :
    ((ReqConn.frames ReqConn.Ex.stream).1.map (·.head.target) = [ReqConn.Ex.upload, ReqConn.Ex.secondT]) ∧
    ((ReqConn.serve .always ReqConn.Ex.refusePost ReqConn.Ex.stream).1.map (fun a => (a.head.target, a.disp.refused)) =
      [(ReqConn.Ex.upload, some 407), (ReqConn.Ex.secondT, none)]) ∧
    ((ReqConn.forwarded (ReqConn.serve .forwardedOnly ReqConn.Ex.refusePost ReqConn.Ex.stream).1).map (·.head.target) =
      [ReqConn.Ex.fromTheBody, ReqConn.Ex.secondT]) ∧
    (((ReqConn.answers (ReqConn.serve .forwardedOnly ReqConn.Ex.refusePost ReqConn.Ex.stream).1)[1]?).map (·.to.target) =
      some ReqConn.Ex.fromTheBody) ∧
    (((ReqConn.frames ReqConn.Ex.stream).1[1]?).map (·.head.target) = some ReqConn.Ex.secondT) := by
  decide +kernel

/-- the two loops differ on refused requests only: when nothing is refused (or, by
    `c02_refusal_consumes_body`, when refused requests carry no body) they read the same requests -/
theorem c02_drain_matters_for_refusals_only (m : ReqConn.Drain) (d : ReqConn.ReqHead → ReqConn.Disp)
    (hd : ∀ h, (d h).refused = none) (inp : Bytes) :
    ReqConn.serve m d inp = ReqConn.serve .always d inp :=
  ReqConn.serveAux_no_refusal m d hd _ inp


/-! ## H. the status line, byte for byte (`Model/RespStatus.lean`)

  The origin's status line goes through `ReadResponse` (which keeps `Status` = code, blank, phrase as
  received) and one of two writers: `Response.Write` for a response with a body, martian's own
  `writeHeaderOnlyResponse` for HEAD / 1xx / 204 / 304.  Both print the code from `StatusCode` and then
  `TrimPrefix(Status, Itoa(code)+" ")`.  The library's normalisations, all of them:
    * blanks between the version and the code are dropped (`TrimLeft(status, " ")`);
    * a line that ends after the code — no blank, no phrase — comes out with the code repeated in
      the phrase position (`Status` = "204" has no prefix "204 ", so all of it is printed after the code):
      a phrase the origin did not send, recorded as finding F50 (full statement, witness, partial below);
    * a line with the blank and an empty phrase comes out as it came in;
  anything else of the phrase — leading blanks or tabs, digits, the code itself repeated, `HTTP/1.1`,
  bytes ≥ 0x80, any length — is not looked at (the phrase is an arbitrary `Bytes` below). -/

/-- the full statement: the reason phrase is preserved for EVERY origin status line `HTTP/1.m SP* code …`
    with a code 100–999, through either writer — the lines that have the blank after the code (phrase =
    whatever follows it, possibly nothing) AND the lines that end after the code (no phrase: the client
    is sent none either, with or without the blank).  FALSE of the code on the second kind (finding F50,
    class `bare-code-status-line-stutters`): see `c02_status_line_preserved_full_witness`; what the code
    does there is `c02_status_line_bare_code`, the rest is `c02_status_line_preserved`. -/
def c02_status_line_preserved_full : Prop :=
  ∀ (st : Nat → Bytes) (ho : Bool) (m s : Nat), m < 10 → 100 ≤ s → s < 1000 →
    (∀ (k : Nat) (reason : Bytes),
      StatusLine.clientLine st ho (StatusLine.originLineBlanks k m s reason) = some (statusLine m s reason)) ∧
    (StatusLine.clientLine st ho (StatusLine.originLineBare m s) = some (StatusLine.originLineBare m s ++ crlf) ∨
     StatusLine.clientLine st ho (StatusLine.originLineBare m s) = some (statusLine m s []))

/-- **The status line reaches the client unchanged**, whichever writer writes it: for every HTTP/1.x
    version, every three-digit code 100–999 and EVERY phrase (any bytes), the origin's line
    `HTTP/1.m SP* code SP phrase` is written as `HTTP/1.m SP code SP phrase CRLF` — the origin's own
    bytes when it used one blank.
    Inputs covered: every origin status line that HAS the blank after the code (the phrase may be
    empty, start with blanks, tabs, digits, the code itself, …).  Not covered: a line that ends after
    the code (`originLineBare`, e.g. `HTTP/1.1 204`) — there the statement is false (F50); this theorem
    is the partial form of `c02_status_line_preserved_full`, the input class is excluded by the shape
    `originLineBlanks k m s reason` of the line. -/
theorem c02_status_line_preserved (st : Nat → Bytes) (ho : Bool) (k : Nat) {m s : Nat} (hm : m < 10)
    (h1 : 100 ≤ s) (h2 : s < 1000) (reason : Bytes) :
    StatusLine.clientLine st ho (StatusLine.originLineBlanks k m s reason) = some (statusLine m s reason) ∧
    statusLine m s reason = StatusLine.originLine m s reason ++ crlf ∧
    StatusLine.originLineBlanks 0 m s reason = StatusLine.originLine m s reason := by
  refine ⟨?_, ?_, rfl⟩
  · unfold StatusLine.clientLine
    rw [StatusLine.read_originLineBlanks k hm h2, Option.map_some]
    cases ho
    · exact congrArg some (StatusLine.write_phrase st hm h1 h2 reason)
    · exact congrArg some ((StatusLine.headerOnlyLine_eq st _).trans (StatusLine.write_phrase st hm h1 h2 reason))
  · simp [statusLine, StatusLine.originLine, dec3]

/-- non-vacuity: `HTTP/1.1 404 404 page not found` to a HEAD request, and a phrase of blanks, a tab
    and a byte ≥ 0x80 on a response with a body -/
example : StatusLine.clientLine (fun _ => []) true (Req.bs "HTTP/1.1 404 404 page not found") =
      some (Req.bs "HTTP/1.1 404 404 page not found\r\n") ∧
    StatusLine.clientLine (fun _ => []) false ([72, 84, 84, 80, 47, 49, 46, 49, 32, 50, 48, 48, 32, 32, 9, 233]) =
      some ([72, 84, 84, 80, 47, 49, 46, 49, 32, 50, 48, 48, 32, 32, 9, 233, 13, 10]) := by
  have a := (c02_status_line_preserved (fun _ => []) true 0 (m := 1) (s := 404) (by decide) (by decide) (by decide)
    (Req.bs "404 page not found")).1
  have b := (c02_status_line_preserved (fun _ => []) false 0 (m := 1) (s := 200) (by decide) (by decide) (by decide)
    [32, 9, 233]).1
  refine ⟨?_, b⟩
  have e1 : Req.bs "HTTP/1.1 404 404 page not found" = StatusLine.originLineBlanks 0 1 404 (Req.bs "404 page not found") := by
    rw [bs_eq, bs_eq]; decide
  have e2 : Req.bs "HTTP/1.1 404 404 page not found\r\n" = statusLine 1 404 (Req.bs "404 page not found") := by
    rw [bs_eq, bs_eq]; decide
  rw [e1, e2]; exact a

/-- what the code does on the input class of F50 (`bare-code-status-line-stutters`): a status line
    that ends after the code (no blank, no phrase) is written with the code repeated in the phrase
    position, by both writers — the client receives a reason phrase the origin did not send -/
theorem c02_status_line_bare_code (st : Nat → Bytes) (ho : Bool) {m s : Nat} (hm : m < 10)
    (h1 : 100 ≤ s) (h2 : s < 1000) :
    StatusLine.clientLine st ho (StatusLine.originLineBare m s) = some (statusLine m s (dec3 s)) := by
  unfold StatusLine.clientLine
  rw [StatusLine.read_originLineBare hm h2, Option.map_some]
  cases ho
  · exact congrArg some (StatusLine.write_bare st hm h1 h2)
  · exact congrArg some ((StatusLine.headerOnlyLine_eq st _).trans (StatusLine.write_bare st hm h1 h2))

/-- the full statement is FALSE of the code (kernel-checked): `HTTP/1.1 204` to a GET reaches the client
    as `HTTP/1.1 204 204` — neither the origin's bytes nor the line with an empty phrase -/
theorem c02_status_line_preserved_full_witness : ¬ c02_status_line_preserved_full := by
  intro h
  have hb := (h (fun _ => []) true 1 204 (by decide) (by decide) (by decide)).2
  rw [c02_status_line_bare_code (fun _ => []) true (m := 1) (s := 204) (by decide) (by decide) (by decide)] at hb
  revert hb
  decide +kernel

/-- the witness spelt out: the line sent for `HTTP/1.1 204`, header-only writer and `Response.Write` -/
example : StatusLine.clientLine (fun _ => []) true (StatusLine.originLineBare 1 204) =
      some [72, 84, 84, 80, 47, 49, 46, 49, 32, 50, 48, 52, 32, 50, 48, 52, 13, 10] ∧
    StatusLine.clientLine (fun _ => []) false (StatusLine.originLineBare 1 404) =
      some [72, 84, 84, 80, 47, 49, 46, 49, 32, 52, 48, 52, 32, 52, 48, 52, 13, 10] :=
  ⟨c02_status_line_bare_code (fun _ => []) true (m := 1) (s := 204) (by decide) (by decide) (by decide),
   c02_status_line_bare_code (fun _ => []) false (m := 1) (s := 404) (by decide) (by decide) (by decide)⟩

/-- the two writers print the same line for whatever was read — HEAD and GET of one resource get the
    same status line — and for EVERY input line, regular or not -/
theorem c02_status_line_writers_agree (st : Nat → Bytes) (line : Bytes) :
    (∀ r : StatusLine.Read, StatusLine.headerOnlyLine st r = StatusLine.responseWriteLine st r) ∧
    StatusLine.clientLine st true line = StatusLine.clientLine st false line := by
  refine ⟨fun r => rfl, ?_⟩
  unfold StatusLine.clientLine
  cases StatusLine.readStatusLine line <;> rfl

/-- the writers' `StatusText` branch is dead for a forwarded response: `Status` as read from the wire
    is never empty, so the line does not depend on `http.StatusText` -/
theorem c02_status_text_unused (st st' : Nat → Bytes) (ho : Bool) (line : Bytes) :
    StatusLine.clientLine st ho line = StatusLine.clientLine st' ho line := by
  unfold StatusLine.clientLine
  cases h : StatusLine.readStatusLine line with
  | none => rfl
  | some r =>
    have hne := StatusLine.read_status_ne_nil h
    cases ho <;>
      simp only [Option.map_some, StatusLine.headerOnlyLine, StatusLine.responseWriteLine, hne, Bool.false_eq_true,
        if_false, if_true]

/-- the status line of `serialize` (what sections A–E reason about) IS the line the writers produce
    from the origin's line: `processResponse` and the byte-level model agree -/
theorem c02_status_line_of_response {rc : ReqCtx} {o : OriginResp} {r : ClientResp} (st : Nat → Bytes)
    (h : processResponse rc o = .ok r) (hm : o.minor < 10) (h1 : 100 ≤ o.status) (h2 : o.status < 1000) :
    StatusLine.clientLine st (headerOnly rc.method r.status) (StatusLine.originLine o.minor o.status o.reason) =
      some (statusLine r.minor r.status r.reason) := by
  obtain ⟨e1, e2, e3⟩ := status_preserved h
  rw [e1, e2, e3]
  exact (c02_status_line_preserved st _ 0 hm h1 h2 o.reason).1

/-- **Why `TrimPrefix` and not a cutset.**  With `strings.TrimLeft(text, code+" ")` in the header-only
    writer the phrase loses every leading byte that is a blank or a digit of the code:
    `404 404 page not found` → `404 page not found`, `204 2 rows deleted` → `204 rows deleted`, while
    `Response.Write` forwards both unchanged — so the two writers disagree and the phrase is altered. -/
theorem c02_status_line_cutset_witness :
    (∀ r, StatusLine.readStatusLine (Req.bs "HTTP/1.1 404 404 page not found") = some r →
      StatusLine.headerOnlyLineTrimLeft (fun _ => []) r = Req.bs "HTTP/1.1 404 page not found\r\n" ∧
      StatusLine.responseWriteLine (fun _ => []) r = Req.bs "HTTP/1.1 404 404 page not found\r\n") ∧
    (∀ r, StatusLine.readStatusLine (Req.bs "HTTP/1.1 204 2 rows deleted") = some r →
      StatusLine.headerOnlyLineTrimLeft (fun _ => []) r = Req.bs "HTTP/1.1 204 rows deleted\r\n" ∧
      StatusLine.headerOnlyLine (fun _ => []) r = Req.bs "HTTP/1.1 204 2 rows deleted\r\n") := by
  have r1 : StatusLine.readStatusLine (Req.bs "HTTP/1.1 404 404 page not found") =
      some { major := 1, minor := 1, code := 404, status := Req.bs "404 404 page not found" } := by
    rw [bs_eq, bs_eq]; decide +kernel
  have r2 : StatusLine.readStatusLine (Req.bs "HTTP/1.1 204 2 rows deleted") =
      some { major := 1, minor := 1, code := 204, status := Req.bs "204 2 rows deleted" } := by
    rw [bs_eq, bs_eq]; decide +kernel
  have i1 : StatusLine.itoa 1 = [49] := StatusLine.itoa_lt10 (by decide)
  have i404 : StatusLine.itoa 404 = [52, 48, 52] := StatusLine.itoa_three (by decide) (by decide)
  have i204 : StatusLine.itoa 204 = [50, 48, 52] := StatusLine.itoa_three (by decide) (by decide)
  refine ⟨fun r hr => ?_, fun r hr => ?_⟩
  · rw [r1] at hr; cases hr
    simp only [StatusLine.headerOnlyLineTrimLeft, StatusLine.responseWriteLine, StatusLine.formatLine, StatusLine.pad3,
      i1, i404, bs_eq]
    decide +kernel
  · rw [r2] at hr; cases hr
    simp only [StatusLine.headerOnlyLineTrimLeft, StatusLine.headerOnlyLine, StatusLine.formatLine, StatusLine.pad3,
      i1, i204, bs_eq]
    decide +kernel

/-- the whole family: on a regular origin line the cutset writer is right exactly when the phrase is
    empty or starts with a byte that is neither a blank nor a digit of the status code — every other
    phrase is altered (the digit- and blank-initial phrases of the run's grammar, on every HEAD/204/304) -/
theorem c02_status_line_cutset_alters_iff (st : Nat → Bytes) {m s : Nat} (hm : m < 10) (h1 : 100 ≤ s) (h2 : s < 1000)
    (reason : Bytes) :
    StatusLine.headerOnlyLineTrimLeft st { major := 1, minor := m, code := s, status := dec3 s ++ 32 :: reason } =
        statusLine m s reason ↔
      (match reason with | [] => True | c :: _ => (dec3 s ++ [32]).contains c = false) :=
  StatusLine.cutset_line_iff st hm h1 h2 reason

/-! ## I. which limits bound the relay of a response (`Model/RespRelay.lean`)

  `WriteTimeout` is the only limit `proxyConn.write` arms.  With `WriteTimeout` = 0 a response is relayed
  for as long as the origin takes, whatever `ReadTimeout`, `ReadHeaderTimeout` and `IdleTimeout` are.
  (What a set `WriteTimeout` does to a slow body is finding F45 of C15 and is described, not judged, here.) -/

/-- **No write timeout ⇒ the whole response reaches a client that reads**, however slowly the origin
    delivers it and whatever the three read-side limits are -/
theorem c02_relay_complete_without_write_timeout (L : Relay.Limits) (h : L.write = 0) (ws : List (Nat × Bytes)) :
    Relay.relayWriteDeadline L = none ∧
    Relay.relay (Relay.relayWriteDeadline L) ws = ws.map (·.2) ∧
    Relay.complete (Relay.relayWriteDeadline L) ws = true := by
  have e : Relay.relayWriteDeadline L = none := by simp [Relay.relayWriteDeadline, h]
  rw [e]
  exact ⟨rfl, Relay.relay_none ws, Relay.complete_none ws⟩

/-- `ReadTimeout`, `ReadHeaderTimeout` and `IdleTimeout` never bound the relay of a response: the
    deadline, and with it what the client receives, is a function of `WriteTimeout` alone -/
theorem c02_relay_ignores_read_limits (r rh i r' rh' i' w : Nat) (ws : List (Nat × Bytes)) :
    Relay.relayWriteDeadline ⟨r, rh, i, w⟩ = Relay.relayWriteDeadline ⟨r', rh', i', w⟩ ∧
    Relay.relay (Relay.relayWriteDeadline ⟨r, rh, i, w⟩) ws = Relay.relay (Relay.relayWriteDeadline ⟨r', rh', i', w⟩) ws :=
  ⟨rfl, rfl⟩

example : Relay.relayWriteDeadline ⟨300, 400, 500, 0⟩ = none ∧ Relay.relayWriteDeadline ⟨0, 0, 0, 350⟩ = some 350 ∧
    Relay.idleLimit ⟨300, 0, 0, 0⟩ = 300 ∧ Relay.headerLimit ⟨300, 0, 0, 0⟩ = 300 := by decide

/-- with `WriteTimeout` set the response is complete exactly when every socket write happens before
    the one deadline (F45, C15's subject: stated for reference, C02's run does not judge these) -/
theorem c02_relay_write_timeout_bound (L : Relay.Limits) (h : L.write > 0) (ws : List (Nat × Bytes)) :
    Relay.complete (Relay.relayWriteDeadline L) ws = true ↔ ∀ w ∈ ws, w.1 < L.write := by
  have e : Relay.relayWriteDeadline L = some L.write := by simp [Relay.relayWriteDeadline, h]
  rw [e]
  simp [Relay.complete, Relay.writeOK]

/-- what the client has is the whole response exactly when `complete` says so -/
theorem c02_relay_complete_iff (dl : Option Nat) (ws : List (Nat × Bytes)) :
    Relay.complete dl ws = true ↔ Relay.relay dl ws = ws.map (·.2) := by
  constructor
  · exact Relay.relay_of_complete
  · intro h
    exact Relay.complete_of_relay (by rw [h, List.length_map])

/-- an accessor that falls back to `ReadTimeout` (the shape of `idleTimeout()` / `readHeaderTimeout()`)
    agrees with the code exactly on the configurations with `WriteTimeout` set or `ReadTimeout` unset … -/
theorem c02_relay_fallback_differs_iff (L : Relay.Limits) :
    Relay.relayWriteDeadlineFallback L = Relay.relayWriteDeadline L ↔ (L.write > 0 ∨ L.read = 0) := by
  unfold Relay.relayWriteDeadlineFallback Relay.relayWriteDeadline
  by_cases hw : L.write > 0
  · simp [hw]
  · by_cases hr : L.read > 0
    · simp [hw, hr]; omega
    · simp [hw, hr]; omega

/-- … and on the others it cuts a healthy client off: `ReadTimeout` 300 ms, no `WriteTimeout`, a body
    that arrives 400 ms and 800 ms after the head — the code relays all three writes, the fallback
    accessor only the head -/
theorem c02_relay_fallback_witness :
    let L : Relay.Limits := ⟨300, 0, 0, 0⟩
    let ws : List (Nat × Bytes) := [(0, [72]), (400, [98]), (800, [99])]
    Relay.relay (Relay.relayWriteDeadline L) ws = [[72], [98], [99]] ∧
    Relay.relay (Relay.relayWriteDeadlineFallback L) ws = [[72]] ∧
    Relay.complete (Relay.relayWriteDeadlineFallback L) ws = false := by
  decide


/-! ### Tie to the source: the hop-by-hop field table

`Model/C02Gen.lean` is regenerated on every run from `hopByHopHeaders` of
`internal/martian/header/hopbyhop_modifier.go`.  The table `removeHopByHop` folds over in the model
(requests and responses share it) is that list, in that order. -/

theorem c02_generated_hop_table_is_model :
    C02Gen.hopByHopHeaders.map Req.bs = Req.hopByHopNames := by
  with_unfolding_all decide

end C02
end FwdVerif
