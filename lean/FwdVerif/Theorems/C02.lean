/-
  C02 — property theorems over the response pipeline model (`Model/Resp.lean`).
  (being extended; helper lemmas live in `Lemmas/Resp*.lean`)
-/
import FwdVerif.Model.Resp

namespace FwdVerif
namespace C02

open Resp

/-- responses to HEAD and 1xx/204/304 responses are header-only -/
theorem c02_header_only_iff (m : Bytes) (st : Nat) :
    headerOnly m st = true ↔ m = Req.bs "HEAD" ∨ st / 100 = 1 ∨ st = 204 ∨ st = 304 := by
  simp [headerOnly, bodyAllowed, or_assoc]

end C02
end FwdVerif
