/-
  C18 — "A request that already passed through this proxy instance is refused (no loops)".

  Property theorems over the request pipeline model (`Model/Req.lean`: `viaStep` inside
  `processRequest`) and the C18 vocabulary of `Model/C18.lean`.  Only property theorems and
  non-vacuity examples live here; helper lemmas are in `Lemmas/C18a … C18f.lean`.  The chain is ALL
  Via field lines of the request (RFC 9110 §5.3) — the clauses `c18_chain_kept_full` and
  `c18_loop_detected_full`, false of the code before the repair of F11 (only the first line was
  read), are theorems now.

  Reading aids
    `viaLines fs`            all Via field lines of a message, wire order
    `viaChain lines`         the lines combined with ", " — what the Via modifier reads
    `viaElements lines`      SPEC view of the chain: all lines joined with ", ", split at commas
    `ownElement tag minor`   `1.0 <tag>` / `1.1 <tag>`
    `TagShape name tag`      tag = name ++ "-" ++ 20 lower-case hex digits
    `TagClean tag`           non-empty, no comma, no blank (true of every `TagShape` tag whose name is a token)
    `rulesAvoidVia rs`       no `--header` rule addresses the Via field
    `viaNominated fs`        a `Connection: via` option makes the hop-by-hop modifier delete Via first
    `reachesVia cfg ctx r`   "no other refusal": readable, security checks passed, framing accepted
    `reinject out`           the request the next instance reads when `out` is delivered to it
    `isForwarded o`          the ONLY outcome with an upstream action (hop + message)

  Concrete examples are evaluated by the kernel (`decide +kernel`: plain `decide` cannot unfold the
  string literals of Model/Req.lean; no axiom beyond `propext`/`Quot.sound` is involved).
-/
import FwdVerif.Lemmas.C18f
import FwdVerif.Lemmas.C18g
import FwdVerif.Lemmas.C18h
import FwdVerif.Lemmas.C18i

namespace FwdVerif
namespace C18

open Ascii Req

/-! ## A. The element this instance appends -/

/-- the protocol version in the element is the one the client used: 1.0 for HTTP/1.0, 1.1 otherwise -/
theorem c18_own_element_proto (tag : Bytes) (minor : Nat) :
    ownElement tag minor = (if minor = 0 then [49, 46, 48] else [49, 46, 49]) ++ 32 :: tag := by
  unfold ownElement protoText
  by_cases h : minor = 0
  · simp [h, bs_10]
  · have : (minor == 0) = false := by simpa using h
    simp [h, this, bs_11]

example : ownElement tagW 0 = bs "1.0 fwd-0123456789abcdef0123" ∧
    ownElement tagW 1 = bs "1.1 fwd-0123456789abcdef0123" := by decide +kernel

/-- Modifier level: when `ViaModifier.ModifyRequest` lets a message pass, the Via value it writes
    has the elements of the chain it read (all Via values of the map, combined) followed by exactly
    one new element `proto tag`. -/
theorem c18_modifier_appends {cfg : Cfg} {m : Nat} {h h4 : C16.HMap} (ht : TagClean cfg.tag)
    (hs : viaStep cfg m h = some h4) :
    C16.HMap.get h4 viaName = some [newVia cfg.tag m (viaChainOf h)] ∧
      elementsOf (newVia cfg.tag m (viaChainOf h)) =
        elementsOf (viaChainOf h) ++ [ownElement cfg.tag m] := by
  refine ⟨?_, elementsOf_newVia ht m _⟩
  rw [(viaStep_some hs).1]
  have := get_goSet_self h viaName (newVia cfg.tag m (viaChainOf h))
  rwa [viaName_canon] at this

/-- Pipeline level: a forwarded request reaches the next hop with ONE Via field line whose elements
    are the elements of ALL Via lines the client sent, in order, followed by `proto tag`, `proto`
    being the client's protocol version. -/
theorem c18_appends_own_element {cfg : Cfg} {ctx : Ctx} {r : Request} {hop : Hop} {out : OutMsg}
    (h : processRequest cfg ctx r = .forwarded hop out) (hr : rulesAvoidVia cfg.rules = true)
    (hn : viaNominated r.fields = false) (ht : TagClean cfg.tag) :
    ∃ v, outVia out = [v] ∧
      viaElements [v] = viaElements (viaLines r.fields) ++ [ownElement cfg.tag r.minor] := by
  obtain ⟨p, hp, hout, _, _⟩ := forwarded_out h hr
  obtain ⟨hget, _, hminor⟩ := preVia_via hp hn
  refine ⟨_, hout, ?_⟩
  rw [hget, hminor]
  exact elementsOf_newVia ht r.minor _

example : isForwarded (processRequest cfgW ctxW reqForeign) = true ∧
    rulesAvoidVia cfgW.rules = true ∧ viaNominated reqForeign.fields = false ∧
    tagShape (bs "fwd") tagW = true := by decide +kernel

/-- full clause "after ANY Via elements already present" (formerly false of the code, F11d —
    fixed): every element already present, on whichever Via field line, is kept, in order, before
    the new one. -/
theorem c18_chain_kept_full {cfg : Cfg} {ctx : Ctx} {r : Request} {hop : Hop} {out : OutMsg}
    (h : processRequest cfg ctx r = .forwarded hop out) (hr : rulesAvoidVia cfg.rules = true)
    (hn : viaNominated r.fields = false) (ht : TagClean cfg.tag) :
    viaElements (outVia out) = viaElements (viaLines r.fields) ++ [ownElement cfg.tag r.minor] := by
  obtain ⟨v, hv, he⟩ := c18_appends_own_element h hr hn ht
  rw [hv, he]

-- `Via: 1.0 fred` + `Via: 1.1 edge` is forwarded as `Via: 1.0 fred, 1.1 edge, 1.1 <tag>` (the
-- former F11d witness: `1.1 edge` used to be dropped)
example : (match processRequest cfgW ctxW (reqWith 1 [bs "1.0 fred", bs "1.1 edge"]) with
      | .forwarded hp o => hp == .direct (bs "origin.test") &&
          viaElements (outVia o) == [bs "1.0 fred", bs "1.1 edge", ownElement tagW 1]
      | _ => false) = true ∧
    viaElements (viaLines (reqWith 1 [bs "1.0 fred", bs "1.1 edge"]).fields) =
      [bs "1.0 fred", bs "1.1 edge"] := by decide +kernel

/-! ## B. A chain that contains this instance's element is refused: 400, no upstream action -/

/-- If an element of the Via chain — on ANY Via field line — contains this instance's tag, in
    particular the element `1.0 tag` / `1.1 tag` it emitted, wherever it stands and whatever later
    hops appended, the request is never forwarded (no hop, no message: no upstream action), and
    unless an earlier check already refused it the answer is `400` for reason `loop`. -/
theorem c18_loop_refused {cfg : Cfg} {ctx : Ctx} {r : Request}
    (hn : viaNominated r.fields = false) (hne : cfg.tag ≠ [])
    (he : ∃ e ∈ viaElements (viaLines r.fields), cfg.tag <:+: e) :
    isForwarded (processRequest cfg ctx r) = false ∧
      (reachesVia cfg ctx r = true → processRequest cfg ctx r = .refused 400 .loop) := by
  obtain ⟨e, hmem, hte⟩ := he
  have hi : cfg.tag <:+: viaChain (viaLines r.fields) := hte.trans (mem_elementsOf_infix hmem)
  have hv : viaChain (viaLines r.fields) ≠ [] := fun h0 => hne (List.infix_nil.mp (h0 ▸ hi))
  exact tagged_not_forwarded hn hv ((isInfix_iff _ _).mpr hi)

/-- the special case the property names: the chain holds the very element this instance emitted -/
theorem c18_own_element_refused {cfg : Cfg} {ctx : Ctx} {r : Request} {m : Nat}
    (hn : viaNominated r.fields = false) (hne : cfg.tag ≠ [])
    (he : ownElement cfg.tag m ∈ viaElements (viaLines r.fields)) :
    isForwarded (processRequest cfg ctx r) = false ∧
      (reachesVia cfg ctx r = true → processRequest cfg ctx r = .refused 400 .loop) :=
  c18_loop_refused hn hne ⟨_, he, tag_infix_ownElement _ _⟩

example : viaNominated reqLoop.fields = false ∧ cfgW.tag ≠ [] ∧
    ownElement cfgW.tag 1 ∈ viaElements (viaLines reqLoop.fields) ∧
    reachesVia cfgW ctxW reqLoop = true := by decide +kernel

/-- full clause (formerly false of the code, F11c — fixed): the chain is ALL Via field lines
    (RFC 9110 §5.3); a loop tag on any of them keeps the request from being forwarded -/
theorem c18_loop_detected_full (cfg : Cfg) (ctx : Ctx) (r : Request) (hne : cfg.tag ≠ [])
    (hn : viaNominated r.fields = false)
    (he : ∃ e ∈ viaElements (viaLines r.fields), cfg.tag <:+: e) :
    isForwarded (processRequest cfg ctx r) = false :=
  (c18_loop_refused hn hne he).1

-- `Via: 1.0 fred` / `Via: 1.1 <own tag>, 1.1 edge (x)`: this instance's element is on the second
-- field line — the request is refused 400 `loop` (the former F11c witness: it used to be forwarded)
example : cfgW.tag ≠ [] ∧ viaNominated reqSecondLine.fields = false ∧
    (viaLines reqSecondLine.fields).length = 2 ∧
    ownElement cfgW.tag 1 ∈ viaElements (viaLines reqSecondLine.fields) ∧
    reachesVia cfgW ctxW reqSecondLine = true ∧
    isForwarded (processRequest cfgW ctxW reqSecondLine) = false ∧
    isLoopRefusal (processRequest cfgW ctxW reqSecondLine) = true := by decide +kernel

/-! ## C. Chains of other proxies' elements are forwarded -/

/-- If no element of the Via chain (all field lines) contains this instance's tag, the Via modifier
    does not refuse: given no other refusal the request is forwarded. -/
theorem c18_foreign_chain_forwarded {cfg : Cfg} {ctx : Ctx} {r : Request}
    (hn : viaNominated r.fields = false) (ht : TagClean cfg.tag)
    (hf : ∀ e ∈ viaElements (viaLines r.fields), ¬ cfg.tag <:+: e)
    (hreach : reachesVia cfg ctx r = true) (hup : cfg.upstream ≠ .failed) :
    isForwarded (processRequest cfg ctx r) = true := by
  apply untagged_forwarded hn _ hreach hup
  intro _
  apply isInfix_false_of_not
  intro hi
  obtain ⟨e, he, hte⟩ := infix_element ht.ne ht.noComma ht.noWs hi
  exact hf e he hte

/-- … and when the proxy function itself failed (`Upstream.failed`: PAC error) such a request gets
    the route error — it is never answered as a loop -/
theorem c18_foreign_chain_route_error {cfg : Cfg} {ctx : Ctx} {r : Request}
    (hn : viaNominated r.fields = false) (ht : TagClean cfg.tag)
    (hf : ∀ e ∈ viaElements (viaLines r.fields), ¬ cfg.tag <:+: e)
    (hreach : reachesVia cfg ctx r = true) (hup : cfg.upstream = .failed) :
    processRequest cfg ctx r = .routeError := by
  have hi : viaChain (viaLines r.fields) ≠ [] → isInfix cfg.tag (viaChain (viaLines r.fields)) = false := by
    intro _
    apply isInfix_false_of_not
    intro hi
    obtain ⟨e, he, hte⟩ := infix_element ht.ne ht.noComma ht.noWs hi
    exact hf e he hte
  rcases untagged_passes hn hi hreach with ⟨hne, _⟩ | ⟨_, h⟩
  · exact absurd hup hne
  · exact h

example : viaNominated reqForeign.fields = false ∧ tagShape (bs "fwd") cfgW.tag = true ∧
    (viaElements (viaLines reqForeign.fields)).all (fun e => !isInfix cfgW.tag e) = true ∧
    reachesVia cfgW ctxW reqForeign = true ∧ cfgW.upstream ≠ .failed := by decide +kernel

example : (match processRequest { cfgW with upstream := .failed } ctxW reqForeign with
    | .routeError => true | _ => false) = true := by decide +kernel

/-- Two instances configured with the same name (tags `name-<20 hex>` with different random
    parts): the tag of one does not occur in the element the other emits. -/
theorem c18_same_name_distinct {name t1 t2 : Bytes} (h1 : TagShape name t1) (h2 : TagShape name t2)
    (hne : t1 ≠ t2) (m : Nat) : ¬ t1 <:+: ownElement t2 m :=
  same_name_not_infix h1 h2 hne m

example : TagShape (bs "fwd") tagW ∧ TagShape (bs "fwd") tagX ∧ tagW ≠ tagX :=
  ⟨(tagShape_iff (bs "fwd") tagW).mp (by decide +kernel),
   (tagShape_iff (bs "fwd") tagX).mp (by decide +kernel), by decide +kernel⟩

/-- … hence a chain made of elements emitted by OTHER instances of the same name is forwarded. -/
theorem c18_same_name_forwarded {cfg : Cfg} {ctx : Ctx} {r : Request}
    (hn : viaNominated r.fields = false) (hs : TagShape cfg.name cfg.tag)
    (hname : cfg.name.all isTokenByte = true)
    (hf : ∀ e ∈ viaElements (viaLines r.fields),
      ∃ t m, TagShape cfg.name t ∧ t ≠ cfg.tag ∧ e = ownElement t m)
    (hreach : reachesVia cfg ctx r = true) (hup : cfg.upstream ≠ .failed) :
    isForwarded (processRequest cfg ctx r) = true := by
  apply c18_foreign_chain_forwarded hn (hs.clean hname) _ hreach hup
  intro e he
  obtain ⟨t, m, ht, hne, rfl⟩ := hf e he
  exact same_name_not_infix hs ht (fun h => hne h.symm) m

example : isForwarded (processRequest cfgW ctxW (reqWith 1 [ownElement tagX 1])) = true ∧
    isForwarded (processRequest cfgX ctxW (reqWith 1 [ownElement tagW 0])) = true ∧
    -- … also when the other instances' elements are spread over several Via lines
    isForwarded (processRequest cfgW ctxW (reqWith 1 [ownElement tagX 1, ownElement tagX 0])) = true := by
  decide +kernel

/-! ## D. A forwarding loop terminates at its first repetition -/

/-- One instance: what it forwarded comes back to it (chained to itself through an upstream proxy
    setting, a connect-to rule, DNS …) — the second pass is never forwarded, and is answered
    `400 loop` unless an earlier check refuses it.  Hypotheses: no `--header` rule rewrites Via, and
    the forwarded message does not nominate Via in `Connection` (it cannot, unless a rule adds such a
    Connection option). -/
theorem c18_self_loop_terminates {cfg : Cfg} {ctx ctx' : Ctx} {r : Request} {hop : Hop} {out : OutMsg}
    (h : processRequest cfg ctx r = .forwarded hop out) (hr : rulesAvoidVia cfg.rules = true)
    (hn' : viaNominated (reinject out).fields = false) :
    isForwarded (processRequest cfg ctx' (reinject out)) = false ∧
      (reachesVia cfg ctx' (reinject out) = true →
        processRequest cfg ctx' (reinject out) = .refused 400 .loop) := by
  obtain ⟨p, _, hout, _, hop', auth', g', hw⟩ := forwarded_out h hr
  have hl : ∀ e ∈ out.fields, lower e.1 = e.1 := by rw [hw]; exact writeRequest_names_lower _ _ _
  have hfv : viaChain (viaLines (reinject out).fields) = newVia cfg.tag p.g.minor (viaChainOf p.h3) := by
    rw [viaLines_reinject hl, hout]; rfl
  apply tagged_not_forwarded hn'
  · rw [hfv]; exact newVia_ne_nil _ _
  · rw [hfv]; exact (isInfix_iff _ _).mpr (tag_infix_newVia _ _ _)

example : isForwarded (processRequest cfgW ctxW reqPlain) = true ∧
    (runLoop [(cfgW, ctxW)] 5 0 reqPlain).map isForwarded = [true, false] ∧
    (runLoop [(cfgW, ctxW)] 5 0 reqPlain).map isLoopRefusal = [false, true] := by decide +kernel

/-- Two instances A → B → A (possibly with the same configured name): when the message A forwarded
    is forwarded by B and comes back to A, A does not forward it again. -/
theorem c18_two_instance_loop_terminates {A B : Cfg} {ctxA ctxB ctxA' : Ctx} {r : Request}
    {hop1 hop2 : Hop} {o1 o2 : OutMsg}
    (h1 : processRequest A ctxA r = .forwarded hop1 o1)
    (h2 : processRequest B ctxB (reinject o1) = .forwarded hop2 o2)
    (hrA : rulesAvoidVia A.rules = true) (hrB : rulesAvoidVia B.rules = true)
    (hn1 : viaNominated (reinject o1).fields = false)
    (hn2 : viaNominated (reinject o2).fields = false) (hne : A.tag ≠ []) :
    isForwarded (processRequest A ctxA' (reinject o2)) = false ∧
      (reachesVia A ctxA' (reinject o2) = true →
        processRequest A ctxA' (reinject o2) = .refused 400 .loop) := by
  obtain ⟨p1, _, hout1, _, _, _, _, hw1⟩ := forwarded_out h1 hrA
  obtain ⟨p2, hp2, hout2, _, _, _, _, hw2⟩ := forwarded_out h2 hrB
  have hl1 : ∀ e ∈ o1.fields, lower e.1 = e.1 := by rw [hw1]; exact writeRequest_names_lower _ _ _
  have hl2 : ∀ e ∈ o2.fields, lower e.1 = e.1 := by rw [hw2]; exact writeRequest_names_lower _ _ _
  -- what B read is what A wrote
  have hB : viaChainOf p2.h3 = newVia A.tag p1.g.minor (viaChainOf p1.h3) := by
    rw [(preVia_via hp2 hn1).1, viaLines_reinject hl1, hout1]; rfl
  have hfv : viaChain (viaLines (reinject o2).fields) =
      newVia B.tag p2.g.minor (newVia A.tag p1.g.minor (viaChainOf p1.h3)) := by
    rw [viaLines_reinject hl2, hout2, hB]; rfl
  apply tagged_not_forwarded hn2
  · rw [hfv]; exact newVia_ne_nil _ _
  · rw [hfv]
    exact (isInfix_iff _ _).mpr (infix_newVia_of_infix _ _ hne (tag_infix_newVia _ _ _))

-- A and B carry the same configured name
example : (runLoop [(cfgW, ctxW), (cfgX, ctxW)] 6 0 reqPlain).map isForwarded = [true, true, false] ∧
    (runLoop [(cfgW, ctxW), (cfgX, ctxW)] 6 0 reqPlain).map isLoopRefusal = [false, false, true] := by
  decide +kernel

/-- Bounded number of hops, one instance: however much fuel, the loop makes at most two passes. -/
theorem c18_self_loop_bounded (cfg : Cfg) (ctx : Ctx) (r : Request) (fuel : Nat)
    (hr : rulesAvoidVia cfg.rules = true)
    (hn : ∀ hop out, processRequest cfg ctx r = .forwarded hop out →
      viaNominated (reinject out).fields = false) :
    (runLoop [(cfg, ctx)] fuel 0 r).length ≤ 2 := by
  have step : ∀ (fuel i : Nat) (r : Request), runLoop [(cfg, ctx)] (fuel + 1) i r =
      match processRequest cfg ctx r with
      | .forwarded hop out => .forwarded hop out :: runLoop [(cfg, ctx)] fuel (i + 1) (reinject out)
      | o => [o] := by
    intro fuel i r
    rw [runLoop]
    simp only [List.length_cons, List.length_nil, Nat.zero_add, Nat.mod_one, List.getElem?_cons_zero]
    cases processRequest cfg ctx r <;> rfl
  cases fuel with
  | zero => simp [runLoop]
  | succ fuel =>
    rw [step]
    cases h : processRequest cfg ctx r with
    | forwarded hop out =>
      simp only [List.length_cons]
      cases fuel with
      | zero => simp [runLoop]
      | succ fuel =>
        rw [step]
        have h2 := (c18_self_loop_terminates (ctx' := ctx) h hr (hn hop out h)).1
        cases h' : processRequest cfg ctx (reinject out) with
        | forwarded hop' out' => rw [h'] at h2; exact absurd h2 (by simp [isForwarded])
        | refused s w => simp
        | badRequest => simp
        | unreadable => simp
        | routeError => simp
    | refused s w => simp
    | badRequest => simp
    | unreadable => simp
    | routeError => simp

/-- Bounded number of hops, two instances A → B → A → …: at most three passes. -/
theorem c18_two_instance_loop_bounded (A B : Cfg) (ctxA ctxB : Ctx) (r : Request) (fuel : Nat)
    (hrA : rulesAvoidVia A.rules = true) (hrB : rulesAvoidVia B.rules = true) (hne : A.tag ≠ [])
    (hn1 : ∀ hop o1, processRequest A ctxA r = .forwarded hop o1 →
      viaNominated (reinject o1).fields = false)
    (hn2 : ∀ hop o1 hop' o2, processRequest A ctxA r = .forwarded hop o1 →
      processRequest B ctxB (reinject o1) = .forwarded hop' o2 →
      viaNominated (reinject o2).fields = false) :
    (runLoop [(A, ctxA), (B, ctxB)] fuel 0 r).length ≤ 3 := by
  have stepA : ∀ (fuel i : Nat) (r : Request), i % 2 = 0 →
      runLoop [(A, ctxA), (B, ctxB)] (fuel + 1) i r =
      match processRequest A ctxA r with
      | .forwarded hop out =>
        .forwarded hop out :: runLoop [(A, ctxA), (B, ctxB)] fuel (i + 1) (reinject out)
      | o => [o] := by
    intro fuel i r hi
    rw [runLoop]
    simp only [List.length_cons, List.length_nil, Nat.zero_add, hi, List.getElem?_cons_zero]
    cases processRequest A ctxA r <;> rfl
  have stepB : ∀ (fuel i : Nat) (r : Request), i % 2 = 1 →
      runLoop [(A, ctxA), (B, ctxB)] (fuel + 1) i r =
      match processRequest B ctxB r with
      | .forwarded hop out =>
        .forwarded hop out :: runLoop [(A, ctxA), (B, ctxB)] fuel (i + 1) (reinject out)
      | o => [o] := by
    intro fuel i r hi
    rw [runLoop]
    simp only [List.length_cons, List.length_nil, Nat.zero_add, hi, List.getElem?_cons_succ,
      List.getElem?_cons_zero]
    cases processRequest B ctxB r <;> rfl
  cases fuel with
  | zero => simp [runLoop]
  | succ fuel =>
    rw [stepA _ _ _ rfl]
    cases h1 : processRequest A ctxA r with
    | forwarded hop o1 =>
      simp only [List.length_cons]
      cases fuel with
      | zero => simp [runLoop]
      | succ fuel =>
        rw [stepB _ _ _ rfl]
        cases h2 : processRequest B ctxB (reinject o1) with
        | forwarded hop' o2 =>
          simp only [List.length_cons]
          cases fuel with
          | zero => simp [runLoop]
          | succ fuel =>
            rw [stepA _ _ _ rfl]
            have h3 := (c18_two_instance_loop_terminates (ctxA' := ctxA) h1 h2 hrA hrB
              (hn1 hop o1 h1) (hn2 hop o1 hop' o2 h1 h2) hne).1
            cases h' : processRequest A ctxA (reinject o2) with
            | forwarded hop'' o3 => rw [h'] at h3; exact absurd h3 (by simp [isForwarded])
            | refused s w => simp
            | badRequest => simp
            | unreadable => simp
            | routeError => simp
        | refused s w => simp
        | badRequest => simp
        | unreadable => simp
        | routeError => simp
    | refused s w => simp
    | badRequest => simp
    | unreadable => simp
    | routeError => simp

/-! ## D'. The decidable form of the property (`holds` verb) is met by the model -/

/-- For EVERY request (any number of Via field lines — the hypothesis that excluded F11 is gone) the
    outcome the model computes passes the check `holdsSpec` that the harness applies to what the
    implementation did: own element ⇒ 400; no element containing the tag ⇒ forwarded with
    `proto tag` appended after all elements present. -/
theorem c18_model_meets_spec {cfg : Cfg} {ctx : Ctx} {r : Request}
    (hr : rulesAvoidVia cfg.rules = true) (hn : viaNominated r.fields = false)
    (ht : TagClean cfg.tag)
    (hreach : reachesVia cfg ctx r = true) (hup : cfg.upstream ≠ .failed) :
    ∃ obs, observe (processRequest cfg ctx r) = some obs ∧
      holdsSpec cfg.tag r.minor (viaLines r.fields) obs = .ok := by
  by_cases hi : isInfix cfg.tag (viaChain (viaLines r.fields)) = true
  · -- the tag is in the chain: refused 400
    obtain ⟨e, he, hte⟩ := infix_element ht.ne ht.noComma ht.noWs ((isInfix_iff _ _).mp hi)
    have hout := (c18_loop_refused (ctx := ctx) hn ht.ne ⟨e, he, hte⟩).2 hreach
    refine ⟨.refused 400, by rw [hout]; rfl, ?_⟩
    have hemb : (viaElements (viaLines r.fields)).any (isInfix cfg.tag) = true := by
      rw [List.any_eq_true]
      exact ⟨e, he, (isInfix_iff _ _).mpr hte⟩
    unfold holdsSpec
    simp only [hemb]
    split <;> simp
  · -- not in the chain: forwarded, element appended
    have hi' : isInfix cfg.tag (viaChain (viaLines r.fields)) = false := by simpa using hi
    have hfw := untagged_forwarded (ctx := ctx) hn (fun _ => hi') hreach hup
    cases hp : processRequest cfg ctx r with
    | forwarded hop out =>
      refine ⟨.forwarded (outVia out), rfl, ?_⟩
      have hchain := c18_chain_kept_full hp hr hn ht
      have hown : (viaElements (viaLines r.fields)).any (isOwnElement cfg.tag) = false := by
        apply Bool.eq_false_iff.mpr
        intro hany
        obtain ⟨e, he, ho⟩ := List.any_eq_true.mp hany
        have hte : cfg.tag <:+: e := by
          unfold isOwnElement at ho
          rcases Bool.or_eq_true_iff.mp ho with h | h <;>
            (rw [beq_iff_eq.mp h]; exact tag_infix_ownElement _ _)
        have : isInfix cfg.tag (viaChain (viaLines r.fields)) = true :=
          (isInfix_iff _ _).mpr (hte.trans (mem_elementsOf_infix he))
        rw [hi'] at this
        exact absurd this (by simp)
      unfold holdsSpec
      simp only [hown, hchain, beq_self_eq_true, Bool.false_eq_true, if_false, if_true]
    | refused s w => rw [hp] at hfw; exact absurd hfw (by simp [isForwarded])
    | badRequest => rw [hp] at hfw; exact absurd hfw (by simp [isForwarded])
    | unreadable => rw [hp] at hfw; exact absurd hfw (by simp [isForwarded])
    | routeError => rw [hp] at hfw; exact absurd hfw (by simp [isForwarded])

example : rulesAvoidVia cfgW.rules = true ∧ viaNominated reqSecondLine.fields = false ∧
    (viaLines reqSecondLine.fields).length = 2 ∧ reachesVia cfgW ctxW reqSecondLine = true ∧
    cfgW.upstream ≠ .failed ∧
    holdsSpec cfgW.tag 1 (viaLines reqSecondLine.fields) (.forwarded [bs "1.0 fred, 1.1 x"]) =
      .loopNotRefused ∧
    holdsSpec cfgW.tag 1 (viaLines reqSecondLine.fields) (.refused 400) = .ok := by decide +kernel

/-! ## F. Substring containment vs. element membership -/

/-- The code tests `strings.Contains(via, tag)`.  Under the hypothesis that every element which
    contains the tag IS an element this instance emitted (no other hop's pseudonym or comment embeds
    the full tag — guessing it means guessing 80 random bits), substring containment in a value is
    the same as membership of `1.0 tag` / `1.1 tag` in its element list. -/
theorem c18_substring_iff_element {tag v : Bytes} (ht : TagClean tag)
    (hf : ∀ e ∈ elementsOf v, tag <:+: e → isOwnElement tag e = true) :
    isInfix tag v = true ↔ ∃ e ∈ elementsOf v, isOwnElement tag e = true := by
  constructor
  · intro hi
    obtain ⟨e, he, hte⟩ := infix_element ht.ne ht.noComma ht.noWs ((isInfix_iff _ _).mp hi)
    exact ⟨e, he, hf e he hte⟩
  · rintro ⟨e, he, ho⟩
    apply (isInfix_iff _ _).mpr
    have : tag <:+: e := by
      unfold isOwnElement at ho
      rcases Bool.or_eq_true_iff.mp ho with h | h <;>
        (rw [beq_iff_eq.mp h]; exact tag_infix_ownElement _ _)
    exact this.trans (mem_elementsOf_infix he)

example : TagClean tagW ∧
    (elementsOf (firstVia reqLoop.fields)).all
      (fun e => !isInfix tagW e || isOwnElement tagW e) = true :=
  ⟨TagShape.clean (name := bs "fwd") ((tagShape_iff (bs "fwd") tagW).mp (by decide +kernel))
    (by decide +kernel), by decide +kernel⟩

/-- the hypothesis is needed: a foreign pseudonym that embeds the tag is refused although no
    element of the chain was emitted by this instance -/
theorem c18_embedded_tag_witness :
    (viaElements (viaLines reqEmbedded.fields)).any (isOwnElement cfgW.tag) = false ∧
      isLoopRefusal (processRequest cfgW ctxW reqEmbedded) = true := by decide +kernel

/-! ## G. CONNECT requests, over every upstream scheme

  `Req.processConnect` models `proxyConn.handleConnectRequest` → `martian.Proxy.connect`.  A CONNECT
  is forwarded as an HTTP message only to an upstream `http` or `https` proxy (`connectHead`); a direct
  dial and a SOCKS5 upstream carry no header at all.  What the property can demand:
    * http / https upstream: the head the proxy receives = the client's chain + this instance's element
      (`c18_connect_head_appends`, `c18_connect_head_every_scheme`), identically for both schemes
      (`c18_connect_head_scheme_irrelevant`);
    * every upstream incl. SOCKS5, direct, interception: own element in the client's chain ⇒ 400 before
      anything is dialled (`c18_connect_loop_refused`);
    * SOCKS5 / direct: nothing is sent but the authority (`c18_connect_socks_no_head`) — a loop of CONNECT
      *messages* cannot arise there, the tunnel's payload is handled as the requests it consists of. -/

/-- The CONNECT head an upstream proxy receives carries ONE Via field line whose elements are the
    elements of ALL Via lines of the client's CONNECT, in order, followed by `proto tag`. -/
theorem c18_connect_head_appends {cfg : Cfg} {ctx : Ctx} {c : ConnectReq} {head : OutMsg}
    (h : connectHead (processConnect cfg ctx c) = some head)
    (hr : rulesAvoidVia cfg.connectRules = true) (hn : viaNominated c.fields = false)
    (ht : TagClean cfg.tag) :
    ∃ v, outVia head = [v] ∧
      viaElements [v] = viaElements (viaLines c.fields) ++ [ownElement cfg.tag c.minor] := by
  obtain ⟨g, h2, hp, hout, _, _⟩ := connect_head_out h hr
  obtain ⟨hget, _, hminor⟩ := preViaConnect_via hp hn
  refine ⟨_, hout, ?_⟩
  rw [hget, hminor]
  exact elementsOf_newVia ht c.minor _

/-- For EVERY upstream scheme that carries HTTP — `http` and `https` alike — a CONNECT that passes the
    modifier stack goes out as a head with exactly the client's chain + this instance's element. -/
theorem c18_connect_head_every_scheme {cfg : Cfg} {ctx : Ctx} {c : ConnectReq} {hp : Bytes}
    {auth : Option Bytes}
    (hup : cfg.upstream = .http hp auth ∨ cfg.upstream = .https hp auth) (hm : cfg.mitm = false)
    (hpass : connectPassed (processConnect cfg ctx c) = true)
    (hr : rulesAvoidVia cfg.connectRules = true) (hn : viaNominated c.fields = false)
    (ht : TagClean cfg.tag) :
    ∃ head, connectHead (processConnect cfg ctx c) = some head ∧
      viaElements (outVia head) = viaElements (viaLines c.fields) ++ [ownElement cfg.tag c.minor] := by
  have hhead : ∃ head, connectHead (processConnect cfg ctx c) = some head := by
    rcases processConnect_cases cfg ctx c with ⟨o, hpe, ho⟩ | ⟨g, h2, _, _, ho⟩ | ⟨g, h2, h3, _, _, ho⟩
    · rw [ho, (preViaConnect_error hpe).1] at hpass
      cases hpass
    · rw [ho] at hpass
      cases hpass
    · exact ⟨_, by rw [ho]; exact connectDispatch_head hup hm⟩
  obtain ⟨head, hh⟩ := hhead
  obtain ⟨v, hv, he⟩ := c18_connect_head_appends hh hr hn ht
  exact ⟨head, hh, by rw [hv, he]⟩

example : connectPassed (processConnect cfgWhttps ctxTLS (connectWith 0 [bs "1.0 fred", bs "1.1 edge"])) = true ∧
    cfgWhttps.mitm = false ∧ rulesAvoidVia cfgWhttps.connectRules = true ∧
    viaNominated (connectWith 0 [bs "1.0 fred", bs "1.1 edge"]).fields = false ∧
    -- … and the head an HTTPS proxy receives: `Via: 1.0 fred, 1.1 edge, 1.0 <tag>`
    (match connectHead (processConnect cfgWhttps ctxTLS (connectWith 0 [bs "1.0 fred", bs "1.1 edge"])) with
      | some head => viaElements (outVia head) == [bs "1.0 fred", bs "1.1 edge", ownElement tagW 0]
      | none => false) = true := by decide +kernel

/-- The scheme is a parameter that does not matter: reaching the upstream proxy over TLS instead
    changes nothing in what the CONNECT is answered with or forwarded as. -/
theorem c18_connect_head_scheme_irrelevant (cfg : Cfg) (ctx : Ctx) (c : ConnectReq) :
    connectView (processConnect (httpsify cfg) ctx c) = connectView (processConnect cfg ctx c) ∧
      connectHead (processConnect (httpsify cfg) ctx c) = connectHead (processConnect cfg ctx c) :=
  ⟨httpsify_processConnect cfg ctx c, connectHead_of_view (httpsify_processConnect cfg ctx c)⟩

example : (httpsify cfgWhttp).upstream = cfgWhttps.upstream ∧ (httpsify cfgWsocks).upstream = cfgWsocks.upstream := by
  decide +kernel

/-- … and the same for a plain request: the message forwarded to an `https` upstream proxy is the
    message forwarded to an `http` one. -/
theorem c18_request_scheme_irrelevant (cfg : Cfg) (ctx : Ctx) (r : Request) :
    eraseHop (processRequest (httpsify cfg) ctx r) = eraseHop (processRequest cfg ctx r) :=
  httpsify_processRequest cfg ctx r

/-- Whatever the upstream (http, https, SOCKS5, none) and also when CONNECTs are intercepted: a CONNECT
    whose chain contains this instance's tag never passes — no tunnel is opened, nothing is dialled —
    and unless an earlier check refused it the answer is `400` for reason `loop`. -/
theorem c18_connect_loop_refused {cfg : Cfg} {ctx : Ctx} {c : ConnectReq}
    (hn : viaNominated c.fields = false) (hne : cfg.tag ≠ [])
    (he : ∃ e ∈ viaElements (viaLines c.fields), cfg.tag <:+: e) :
    connectPassed (processConnect cfg ctx c) = false ∧ connectActions cfg ctx c = [] ∧
      (connectReachesVia cfg c = true → processConnect cfg ctx c = .refused 400 .loop) := by
  obtain ⟨e, hmem, hte⟩ := he
  have hi : cfg.tag <:+: viaChain (viaLines c.fields) := hte.trans (mem_elementsOf_infix hmem)
  have hv : viaChain (viaLines c.fields) ≠ [] := fun h0 => hne (List.infix_nil.mp (h0 ▸ hi))
  obtain ⟨h1, h2⟩ := connect_tagged_not_passed (ctx := ctx) hn hv ((isInfix_iff _ _).mpr hi)
  refine ⟨h1, ?_, h2⟩
  unfold connectActions
  cases hpc : processConnect cfg ctx c with
  | tunnel a => rw [hpc] at h1; cases h1
  | mitm => rfl
  | refused s w => rfl
  | badRequest => rfl
  | unreadable => rfl
  | routeError => rfl

example : viaNominated (connectWith 1 [bs "1.0 fred", ownElement tagW 0]).fields = false ∧ cfgWsocks.tag ≠ [] ∧
    ownElement tagW 0 ∈ viaElements (viaLines (connectWith 1 [bs "1.0 fred", ownElement tagW 0]).fields) ∧
    connectReachesVia cfgWsocks (connectWith 1 [bs "1.0 fred", ownElement tagW 0]) = true ∧
    isConnectLoopRefusal (processConnect cfgWsocks ctxW (connectWith 1 [bs "1.0 fred", ownElement tagW 0])) = true ∧
    isConnectLoopRefusal (processConnect cfgWhttps ctxTLS (connectWith 1 [bs "1.0 fred", ownElement tagW 0])) = true ∧
    isConnectLoopRefusal (processConnect cfgW ctxW (connectWith 1 [bs "1.0 fred", ownElement tagW 0])) = true := by
  decide +kernel

/-- SOCKS5 upstream (and direct dial): no header can travel.  What the code does: no HTTP message is
    sent at all; the SOCKS request names the CONNECT authority and nothing else. -/
theorem c18_connect_socks_no_head {cfg : Cfg} {ctx : Ctx} {c : ConnectReq}
    (hup : (∃ hp a, cfg.upstream = .socks5 hp a) ∨ cfg.upstream = .none) :
    connectHead (processConnect cfg ctx c) = none ∧
      ∀ a, processConnect cfg ctx c = .tunnel a →
        a.sent = [] ∧ ((∃ hp x, cfg.upstream = .socks5 hp x) → a.socksTarget = some c.authority) := by
  rcases processConnect_cases cfg ctx c with ⟨o, hpe, ho⟩ | ⟨g, h2, _, _, ho⟩ | ⟨g, h2, h3, _, _, ho⟩
  · rw [ho]
    have hnp := (preViaConnect_error hpe).1
    refine ⟨?_, fun a ha => ?_⟩
    · cases hh : connectHead o with
      | none => rfl
      | some head => rw [connectHead_some_passed hh] at hnp; cases hnp
    · rw [ha] at hnp; cases hnp
  · rw [ho]
    exact ⟨rfl, fun a ha => by cases ha⟩
  · rw [ho]
    exact connectDispatch_raw hup

example : isTunnel (processConnect cfgWsocks ctxW connectPlain) = true ∧
    (match processConnect cfgWsocks ctxW connectPlain with
      | .tunnel a => a.sent.isEmpty && a.socksTarget == some (bs "origin.test:443")
      | _ => false) = true := by decide +kernel

/-- A CONNECT whose chain holds no element containing this instance's tag passes the modifier stack,
    whatever the upstream scheme: a tunnel is opened (or the connection intercepted). -/
theorem c18_connect_foreign_forwarded {cfg : Cfg} {ctx : Ctx} {c : ConnectReq}
    (hn : viaNominated c.fields = false) (ht : TagClean cfg.tag)
    (hf : ∀ e ∈ viaElements (viaLines c.fields), ¬ cfg.tag <:+: e)
    (hreach : connectReachesVia cfg c = true)
    (hup : ∀ sc hp a, cfg.upstream ≠ .other sc hp a) (hfail : cfg.upstream ≠ .failed) :
    connectPassed (processConnect cfg ctx c) = true := by
  apply connect_untagged_passed hn _ hreach hup hfail
  intro _
  apply isInfix_false_of_not
  intro hi
  obtain ⟨e, he, hte⟩ := infix_element ht.ne ht.noComma ht.noWs hi
  exact hf e he hte

example : viaNominated (connectWith 1 [ownElement tagX 1]).fields = false ∧
    (viaElements (viaLines (connectWith 1 [ownElement tagX 1]).fields)).all (fun e => !isInfix cfgWhttps.tag e) = true ∧
    connectReachesVia cfgWhttps (connectWith 1 [ownElement tagX 1]) = true ∧
    isTunnel (processConnect cfgWhttps ctxTLS (connectWith 1 [ownElement tagX 1])) = true := by decide +kernel

/-! ### loops of CONNECT requests over upstream-proxy links (any mix of http / https links) -/

/-- One instance whose upstream proxy link leads back to itself: the CONNECT head it forwarded is
    not forwarded a second time; it is answered `400 loop` unless an earlier check refuses it. -/
theorem c18_connect_self_loop_terminates {cfg : Cfg} {ctx ctx' : Ctx} {c : ConnectReq} {head : OutMsg}
    (h : connectHead (processConnect cfg ctx c) = some head)
    (hr : rulesAvoidVia cfg.connectRules = true)
    (hn' : viaNominated (reinjectConnect head).fields = false) :
    connectPassed (processConnect cfg ctx' (reinjectConnect head)) = false ∧
      (connectReachesVia cfg (reinjectConnect head) = true →
        processConnect cfg ctx' (reinjectConnect head) = .refused 400 .loop) := by
  obtain ⟨g, h2, _, hout, _, hl⟩ := connect_head_out h hr
  have hfv : viaChain (viaLines (reinjectConnect head).fields) = newVia cfg.tag g.minor (viaChainOf h2) := by
    rw [viaLines_reinjectConnect hl, hout]; rfl
  apply connect_tagged_not_passed hn'
  · rw [hfv]; exact newVia_ne_nil _ _
  · rw [hfv]; exact (isInfix_iff _ _).mpr (tag_infix_newVia _ _ _)

-- a TLS listener whose `https` upstream proxy is the listener itself
example : (runConnectLoop [(cfgWhttps, ctxTLS)] 6 0 connectPlain).map isTunnel = [true, false] ∧
    (runConnectLoop [(cfgWhttps, ctxTLS)] 6 0 connectPlain).map isConnectLoopRefusal = [false, true] ∧
    (runConnectLoop [(cfgWhttp, ctxW)] 6 0 connectPlain).map isConnectLoopRefusal = [false, true] := by
  decide +kernel

/-- Two instances A → B → A over upstream-proxy links: when the head A forwarded is forwarded by B and
    comes back to A, A does not forward it again. -/
theorem c18_connect_two_instance_loop_terminates {A B : Cfg} {ctxA ctxB ctxA' : Ctx} {c : ConnectReq}
    {o1 o2 : OutMsg}
    (h1 : connectHead (processConnect A ctxA c) = some o1)
    (h2 : connectHead (processConnect B ctxB (reinjectConnect o1)) = some o2)
    (hrA : rulesAvoidVia A.connectRules = true) (hrB : rulesAvoidVia B.connectRules = true)
    (hn1 : viaNominated (reinjectConnect o1).fields = false)
    (hn2 : viaNominated (reinjectConnect o2).fields = false) (hne : A.tag ≠ []) :
    connectPassed (processConnect A ctxA' (reinjectConnect o2)) = false ∧
      (connectReachesVia A (reinjectConnect o2) = true →
        processConnect A ctxA' (reinjectConnect o2) = .refused 400 .loop) := by
  obtain ⟨g1, k1, _, hout1, _, hl1⟩ := connect_head_out h1 hrA
  obtain ⟨g2, k2, hp2, hout2, _, hl2⟩ := connect_head_out h2 hrB
  have hB : viaChainOf k2 = newVia A.tag g1.minor (viaChainOf k1) := by
    rw [(preViaConnect_via hp2 hn1).1, viaLines_reinjectConnect hl1, hout1]; rfl
  have hfv : viaChain (viaLines (reinjectConnect o2).fields) =
      newVia B.tag g2.minor (newVia A.tag g1.minor (viaChainOf k1)) := by
    rw [viaLines_reinjectConnect hl2, hout2, hB]; rfl
  apply connect_tagged_not_passed hn2
  · rw [hfv]; exact newVia_ne_nil _ _
  · rw [hfv]
    exact (isInfix_iff _ _).mpr (infix_newVia_of_infix _ _ hne (tag_infix_newVia _ _ _))

-- A (https upstream) and B (https upstream) with the same configured name, TLS listeners
example : (runConnectLoop [(cfgWhttps, ctxTLS), (cfgXhttps, ctxTLS)] 8 0 connectPlain).map isTunnel = [true, true, false] ∧
    (runConnectLoop [(cfgWhttps, ctxTLS), (cfgXhttps, ctxTLS)] 8 0 connectPlain).map isConnectLoopRefusal =
      [false, false, true] := by decide +kernel

/-- Bounded number of CONNECT messages, one instance: at most two passes however much fuel. -/
theorem c18_connect_self_loop_bounded (cfg : Cfg) (ctx : Ctx) (c : ConnectReq) (fuel : Nat)
    (hr : rulesAvoidVia cfg.connectRules = true)
    (hn : ∀ head, connectHead (processConnect cfg ctx c) = some head →
      viaNominated (reinjectConnect head).fields = false) :
    (runConnectLoop [(cfg, ctx)] fuel 0 c).length ≤ 2 := by
  have hi : ∀ i, [(cfg, ctx)][i % [(cfg, ctx)].length]? = some (cfg, ctx) := by
    intro i; simp [Nat.mod_one]
  cases fuel with
  | zero => simp [runConnectLoop, runConnectLoopWith]
  | succ fuel =>
    rw [runConnectLoop_step _ _ _ _ cfg ctx (hi 0)]
    cases h : connectHead (processConnect cfg ctx c) with
    | none => simp
    | some head =>
      simp only [List.length_cons]
      cases fuel with
      | zero => simp [runConnectLoop, runConnectLoopWith]
      | succ fuel =>
        rw [runConnectLoop_step _ _ _ _ cfg ctx (hi 1)]
        have h2 := (c18_connect_self_loop_terminates (ctx' := ctx) h hr (hn head h)).1
        cases h' : connectHead (processConnect cfg ctx (reinjectConnect head)) with
        | none => simp
        | some head' => rw [connectHead_some_passed h'] at h2; cases h2

/-- Bounded number of CONNECT messages, two instances A → B → A → …: at most three passes. -/
theorem c18_connect_two_instance_loop_bounded (A B : Cfg) (ctxA ctxB : Ctx) (c : ConnectReq) (fuel : Nat)
    (hrA : rulesAvoidVia A.connectRules = true) (hrB : rulesAvoidVia B.connectRules = true)
    (hne : A.tag ≠ [])
    (hn1 : ∀ o1, connectHead (processConnect A ctxA c) = some o1 →
      viaNominated (reinjectConnect o1).fields = false)
    (hn2 : ∀ o1 o2, connectHead (processConnect A ctxA c) = some o1 →
      connectHead (processConnect B ctxB (reinjectConnect o1)) = some o2 →
      viaNominated (reinjectConnect o2).fields = false) :
    (runConnectLoop [(A, ctxA), (B, ctxB)] fuel 0 c).length ≤ 3 := by
  have hiA : ∀ i, i % 2 = 0 → [(A, ctxA), (B, ctxB)][i % [(A, ctxA), (B, ctxB)].length]? = some (A, ctxA) := by
    intro i h; simp [h]
  have hiB : ∀ i, i % 2 = 1 → [(A, ctxA), (B, ctxB)][i % [(A, ctxA), (B, ctxB)].length]? = some (B, ctxB) := by
    intro i h; simp [h]
  cases fuel with
  | zero => simp [runConnectLoop, runConnectLoopWith]
  | succ fuel =>
    rw [runConnectLoop_step _ _ _ _ A ctxA (hiA 0 rfl)]
    cases h1 : connectHead (processConnect A ctxA c) with
    | none => simp
    | some o1 =>
      simp only [List.length_cons]
      cases fuel with
      | zero => simp [runConnectLoop, runConnectLoopWith]
      | succ fuel =>
        rw [runConnectLoop_step _ _ _ _ B ctxB (hiB 1 rfl)]
        cases h2 : connectHead (processConnect B ctxB (reinjectConnect o1)) with
        | none => simp
        | some o2 =>
          simp only [List.length_cons]
          cases fuel with
          | zero => simp [runConnectLoop, runConnectLoopWith]
          | succ fuel =>
            rw [runConnectLoop_step _ _ _ _ A ctxA (hiA 2 rfl)]
            have h3 := (c18_connect_two_instance_loop_terminates (ctxA' := ctxA) h1 h2 hrA hrB
              (hn1 o1 h1) (hn2 o1 o2 h1 h2) hne).1
            cases h' : connectHead (processConnect A ctxA (reinjectConnect o2)) with
            | none => simp
            | some o3 => rw [connectHead_some_passed h'] at h3; cases h3

/-- The scheme of the links is a parameter of the loop that does not matter: replacing every `http`
    upstream link by an `https` one leaves every hop's answer and every forwarded CONNECT head unchanged — so a
    loop through HTTPS listeners and `https` upstream proxies ends exactly where the `http` one does. -/
theorem c18_connect_loop_scheme_irrelevant (insts : List (Cfg × Ctx)) (fuel i : Nat) (c : ConnectReq) :
    (runConnectLoop (insts.map fun p => (httpsify p.1, p.2)) fuel i c).map connectView =
      (runConnectLoop insts fuel i c).map connectView := by
  induction fuel generalizing i c with
  | zero => simp [runConnectLoop, runConnectLoopWith]
  | succ fuel ih =>
    cases hg : insts[i % insts.length]? with
    | none =>
      have hg' : (insts.map fun p => (httpsify p.1, p.2))[i % (insts.map fun p => (httpsify p.1, p.2)).length]? = none := by
        rw [List.length_map, List.getElem?_map, hg]; rfl
      unfold runConnectLoop
      rw [runConnectLoopWith, runConnectLoopWith]
      simp only [hg, hg']
    | some p =>
      obtain ⟨cfg, ctx⟩ := p
      have hg' : (insts.map fun p => (httpsify p.1, p.2))[i % (insts.map fun p => (httpsify p.1, p.2)).length]? =
          some (httpsify cfg, ctx) := by
        rw [List.length_map, List.getElem?_map, hg]; rfl
      rw [runConnectLoop_step _ _ _ _ _ _ hg', runConnectLoop_step _ _ _ _ _ _ hg]
      have hv := httpsify_processConnect cfg ctx c
      rw [connectHead_of_view hv]
      cases connectHead (processConnect cfg ctx c) with
      | none => simp only [List.map_cons, List.map_nil, hv]
      | some head => simp only [List.map_cons, hv, ih]

/-- … and so for plain requests (`runLoop`): every hop's outcome and forwarded message is the same
    whether the upstream proxies are reached over TLS or not; the loop theorems of section D hold for
    every configuration, hence for every mix of `http`, `https` and SOCKS5 links. -/
theorem c18_loop_scheme_irrelevant (insts : List (Cfg × Ctx)) (fuel i : Nat) (r : Request) :
    (runLoop (insts.map fun p => (httpsify p.1, p.2)) fuel i r).map eraseHop =
      (runLoop insts fuel i r).map eraseHop := by
  induction fuel generalizing i r with
  | zero => simp [runLoop]
  | succ fuel ih =>
    cases hg : insts[i % insts.length]? with
    | none =>
      have hg' : (insts.map fun p => (httpsify p.1, p.2))[i % (insts.map fun p => (httpsify p.1, p.2)).length]? = none := by
        rw [List.length_map, List.getElem?_map, hg]; rfl
      rw [runLoop, runLoop]
      simp only [hg, hg']
    | some p =>
      obtain ⟨cfg, ctx⟩ := p
      have hg' : (insts.map fun p => (httpsify p.1, p.2))[i % (insts.map fun p => (httpsify p.1, p.2)).length]? =
          some (httpsify cfg, ctx) := by
        rw [List.length_map, List.getElem?_map, hg]; rfl
      rw [runLoop_step _ _ _ _ _ _ hg', runLoop_step _ _ _ _ _ _ hg]
      rcases eraseHop_eq_cases (httpsify_processRequest cfg ctx r) with ⟨hop, hop', out, ha, hb⟩ | ⟨hab, hnf⟩
      · rw [ha, hb]
        simp only [List.map_cons, eraseHop, ih]
      · rw [hab] at hnf ⊢
        cases hpr : processRequest cfg ctx r with
        | forwarded hop out => rw [hpr] at hnf; cases hnf
        | refused s w => rfl
        | badRequest => rfl
        | unreadable => rfl
        | routeError => rfl

example : (runLoop [(cfgWhttps, ctxTLS), (cfgXhttps, ctxTLS)] 6 0 (reqWith 1 [])).map isForwarded = [true, true, false] ∧
    (runLoop [(cfgWhttps, ctxTLS), (cfgXhttps, ctxTLS)] 6 0 (reqWith 1 [])).map isLoopRefusal = [false, false, true] ∧
    (runLoop [(cfgWsocks, ctxW)] 6 0 reqPlain).map isLoopRefusal = [false, true] := by decide +kernel

/-- The hypothesis "the header is handed to the dialer for BOTH schemes" is needed.  In the variant in
    which the dialer for an `https` upstream proxy does not get the client's header
    (`processConnectNoHdrHttps`), an instance whose `https` upstream leads back to itself never sees
    its own element: the loop is never detected — every hop opens another tunnel, for any fuel. -/
theorem c18_nohdr_https_variant_witness (fuel : Nat) :
    (runConnectLoopWith processConnectNoHdrHttps [(cfgWhttps, ctxTLS)] fuel 0 connectPlain).length = fuel ∧
      (∀ o ∈ runConnectLoopWith processConnectNoHdrHttps [(cfgWhttps, ctxTLS)] fuel 0 connectPlain,
        isTunnel o = true) ∧
      -- the code, same configuration and request: detected at the first repetition
      (runConnectLoop [(cfgWhttps, ctxTLS)] (fuel + 2) 0 connectPlain).map isConnectLoopRefusal = [false, true] := by
  have hi : ∀ i, [(cfgWhttps, ctxTLS)][i % [(cfgWhttps, ctxTLS)].length]? = some (cfgWhttps, ctxTLS) := by
    intro i; simp [Nat.mod_one]
  -- the head never carries anything of the client's: it is the same at every hop
  have f0 : connectHead (processConnectNoHdrHttps cfgWhttps ctxTLS connectPlain) = some headNoHdr :=
    headIs_eq (by decide +kernel)
  have f1 : connectHead (processConnectNoHdrHttps cfgWhttps ctxTLS (reinjectConnect headNoHdr)) = some headNoHdr :=
    headIs_eq (by decide +kernel)
  have step : ∀ (fuel i : Nat) (c : ConnectReq),
      connectHead (processConnectNoHdrHttps cfgWhttps ctxTLS c) = some headNoHdr →
      runConnectLoopWith processConnectNoHdrHttps [(cfgWhttps, ctxTLS)] (fuel + 1) i c =
        processConnectNoHdrHttps cfgWhttps ctxTLS c ::
          runConnectLoopWith processConnectNoHdrHttps [(cfgWhttps, ctxTLS)] fuel (i + 1) (reinjectConnect headNoHdr) := by
    intro fuel i c hc
    rw [runConnectLoopWith]
    simp only [hi, hc]
  have fix : ∀ (fuel i : Nat),
      (runConnectLoopWith processConnectNoHdrHttps [(cfgWhttps, ctxTLS)] fuel i (reinjectConnect headNoHdr)).length = fuel ∧
      ∀ o ∈ runConnectLoopWith processConnectNoHdrHttps [(cfgWhttps, ctxTLS)] fuel i (reinjectConnect headNoHdr),
        isTunnel o = true := by
    intro fuel
    induction fuel with
    | zero => intro i; simp [runConnectLoopWith]
    | succ fuel ih =>
      intro i
      rw [step fuel i _ f1]
      obtain ⟨hl, ha⟩ := ih (i + 1)
      refine ⟨by simp only [List.length_cons, hl], ?_⟩
      intro o ho
      rcases List.mem_cons.mp ho with rfl | ho
      · exact connectHead_some_tunnel f1
      · exact ha o ho
  refine ⟨?_, ?_, ?_⟩
  · cases fuel with
    | zero => simp [runConnectLoopWith]
    | succ fuel =>
      rw [step fuel 0 _ f0]
      simp only [List.length_cons, (fix fuel 1).1]
  · cases fuel with
    | zero => simp [runConnectLoopWith]
    | succ fuel =>
      rw [step fuel 0 _ f0]
      intro o ho
      rcases List.mem_cons.mp ho with rfl | ho
      · exact connectHead_some_tunnel f0
      · exact (fix fuel 1).2 o ho
  · -- two passes whatever the fuel: the second is the refusal
    have g0 : ∃ head, connectHead (processConnect cfgWhttps ctxTLS connectPlain) = some head ∧
        connectHead (processConnect cfgWhttps ctxTLS (reinjectConnect head)) = none ∧
        isConnectLoopRefusal (processConnect cfgWhttps ctxTLS connectPlain) = false ∧
        isConnectLoopRefusal (processConnect cfgWhttps ctxTLS (reinjectConnect head)) = true := by
      cases hh : connectHead (processConnect cfgWhttps ctxTLS connectPlain) with
      | none =>
        have : (connectHead (processConnect cfgWhttps ctxTLS connectPlain)).isSome = true := by decide +kernel
        rw [hh] at this; cases this
      | some head =>
        have hr : rulesAvoidVia cfgWhttps.connectRules = true := by decide +kernel
        have hn' : viaNominated (reinjectConnect head).fields = false := by
          have : (match connectHead (processConnect cfgWhttps ctxTLS connectPlain) with
            | some h => viaNominated (reinjectConnect h).fields | none => true) = false := by decide +kernel
          rw [hh] at this; exact this
        have hreach : connectReachesVia cfgWhttps (reinjectConnect head) = true := by
          have : (match connectHead (processConnect cfgWhttps ctxTLS connectPlain) with
            | some h => connectReachesVia cfgWhttps (reinjectConnect h) | none => false) = true := by decide +kernel
          rw [hh] at this; exact this
        have h2 := (c18_connect_self_loop_terminates (ctx' := ctxTLS) hh hr hn').2 hreach
        refine ⟨head, rfl, ?_, ?_, ?_⟩
        · rw [h2]; rfl
        · have hp := connectHead_some_passed hh
          cases hpc : processConnect cfgWhttps ctxTLS connectPlain with
          | refused s w => rw [hpc] at hp; cases hp
          | tunnel a => rfl
          | mitm => rfl
          | badRequest => rfl
          | unreadable => rfl
          | routeError => rfl
        · rw [h2]; rfl
    obtain ⟨head, h1, h2, r1, r2⟩ := g0
    rw [runConnectLoop_step _ _ _ _ _ _ (hi 0)]
    simp only [h1]
    rw [runConnectLoop_step _ _ _ _ _ _ (hi 1)]
    simp only [h2, List.map_cons, List.map_nil, r1, r2]

/-! ## H. Instance identity

  `id : ι → Bytes` assigns every instance constructed in the process the tag of its Via element
  (`instCfg id base i` = the pipeline configuration of instance `i`).  What the code must guarantee is
  that `id` is injective over those instances, HOWEVER their configuration values were obtained
  (separate defaults, a copy of one value, the same object handed to the constructor twice).  The
  harness asserts exactly this on the elements it observes of every fleet it builds. -/

/-- Distinct instances always forward each other's requests: what instance `i` forwarded is forwarded
    by any other instance `j` (same configured name: the hardest case), given that the client's chain
    did not already contain `j`'s tag and nothing else refuses it. -/
theorem c18_distinct_instances_forwarded {ι : Type} (name : Bytes) (id : ι → Bytes) (base : ι → Cfg)
    (hinj : Function.Injective id) (hshape : ∀ i, TagShape name (id i))
    (hname : name.all isTokenByte = true) {i j : ι} (hij : i ≠ j) {ctx ctx' : Ctx} {r : Request}
    {hop : Hop} {out : OutMsg}
    (h : processRequest (instCfg id base i) ctx r = .forwarded hop out)
    (hri : rulesAvoidVia (base i).rules = true)
    (hn : viaNominated r.fields = false) (hn' : viaNominated (reinject out).fields = false)
    (hclean : ∀ e ∈ viaElements (viaLines r.fields), ¬ id j <:+: e)
    (hreach : reachesVia (instCfg id base j) ctx' (reinject out) = true)
    (hup : (base j).upstream ≠ .failed) :
    isForwarded (processRequest (instCfg id base j) ctx' (reinject out)) = true := by
  have hti : TagClean (id i) := (hshape i).clean hname
  have htj : TagClean (id j) := (hshape j).clean hname
  obtain ⟨_, _, _, _, _, _, _, hw⟩ := forwarded_out h hri
  have hl : ∀ e ∈ out.fields, lower e.1 = e.1 := by rw [hw]; exact writeRequest_names_lower _ _ _
  have hchain := c18_chain_kept_full h hri hn hti
  apply c18_foreign_chain_forwarded hn' htj _ hreach hup
  intro e he
  rw [viaLines_reinject hl, hchain] at he
  rcases List.mem_append.mp he with he | he
  · exact hclean e he
  · simp only [List.mem_singleton] at he
    rw [he]
    exact same_name_not_infix (hshape j) (hshape i) (fun hc => hij (hinj hc).symm) r.minor

example : Function.Injective (fun b : Bool => if b then tagX else tagW) ∧
    (∀ b : Bool, TagShape (bs "fwd") (if b then tagX else tagW)) := by
  refine ⟨fun a b h => ?_, fun b => ?_⟩
  · have hne : tagX ≠ tagW := by decide +kernel
    cases a <;> cases b <;> first | rfl | (simp only [Bool.false_eq_true, if_false, if_true] at h; first | exact absurd h hne | exact absurd h.symm hne)
  · cases b
    · exact (tagShape_iff (bs "fwd") tagW).mp (by decide +kernel)
    · exact (tagShape_iff (bs "fwd") tagX).mp (by decide +kernel)

/-- … and the same for a CONNECT travelling over an upstream-proxy link of either scheme. -/
theorem c18_distinct_instances_connect_forwarded {ι : Type} (name : Bytes) (id : ι → Bytes) (base : ι → Cfg)
    (hinj : Function.Injective id) (hshape : ∀ i, TagShape name (id i))
    (hname : name.all isTokenByte = true) {i j : ι} (hij : i ≠ j) {ctx ctx' : Ctx} {c : ConnectReq}
    {head : OutMsg}
    (h : connectHead (processConnect (instCfg id base i) ctx c) = some head)
    (hri : rulesAvoidVia (base i).connectRules = true)
    (hn : viaNominated c.fields = false) (hn' : viaNominated (reinjectConnect head).fields = false)
    (hclean : ∀ e ∈ viaElements (viaLines c.fields), ¬ id j <:+: e)
    (hreach : connectReachesVia (instCfg id base j) (reinjectConnect head) = true)
    (hup : ∀ sc hp a, (base j).upstream ≠ .other sc hp a) (hfail : (base j).upstream ≠ .failed) :
    connectPassed (processConnect (instCfg id base j) ctx' (reinjectConnect head)) = true := by
  have hti : TagClean (id i) := (hshape i).clean hname
  have htj : TagClean (id j) := (hshape j).clean hname
  obtain ⟨_, _, _, _, _, hl⟩ := connect_head_out h hri
  obtain ⟨v, hv, hchain⟩ := c18_connect_head_appends h hri hn hti
  apply c18_connect_foreign_forwarded hn' htj _ hreach hup hfail
  intro e he
  rw [viaLines_reinjectConnect hl, hv, hchain] at he
  rcases List.mem_append.mp he with he | he
  · exact hclean e he
  · simp only [List.mem_singleton] at he
    rw [he]
    exact same_name_not_infix (hshape j) (hshape i) (fun hc => hij (hinj hc).symm) c.minor

/-- The same instance always emits the same element — on every request and through every listener
    (`ctx`, `ctx'`: plain or TLS) — so a real loop is refused at its first repetition. -/
theorem c18_same_instance_loop_refused {ι : Type} (id : ι → Bytes) (base : ι → Cfg) (i : ι)
    {ctx ctx' : Ctx} {r : Request} {hop : Hop} {out : OutMsg}
    (h : processRequest (instCfg id base i) ctx r = .forwarded hop out)
    (hr : rulesAvoidVia (base i).rules = true)
    (hn' : viaNominated (reinject out).fields = false) :
    isForwarded (processRequest (instCfg id base i) ctx' (reinject out)) = false ∧
      (reachesVia (instCfg id base i) ctx' (reinject out) = true →
        processRequest (instCfg id base i) ctx' (reinject out) = .refused 400 .loop) :=
  c18_self_loop_terminates h hr hn'

/-- Injectivity is needed: two DISTINCT instances that share a tag (any identifier that is not
    injective over the instances) refuse each other's requests — a legitimate chain A → B ends with
    `400 loop` at B. -/
theorem c18_shared_tag_refuses_chain {ι : Type} (id : ι → Bytes) (base : ι → Cfg) {i j : ι}
    (hid : id i = id j) {ctx ctx' : Ctx} {r : Request} {hop : Hop} {out : OutMsg}
    (h : processRequest (instCfg id base i) ctx r = .forwarded hop out)
    (hr : rulesAvoidVia (base i).rules = true)
    (hn' : viaNominated (reinject out).fields = false) :
    isForwarded (processRequest (instCfg id base j) ctx' (reinject out)) = false ∧
      (reachesVia (instCfg id base j) ctx' (reinject out) = true →
        processRequest (instCfg id base j) ctx' (reinject out) = .refused 400 .loop) := by
  obtain ⟨p, _, hout, _, _, _, _, hw⟩ := forwarded_out h hr
  have hl : ∀ e ∈ out.fields, lower e.1 = e.1 := by rw [hw]; exact writeRequest_names_lower _ _ _
  have hfv : viaChain (viaLines (reinject out).fields) = newVia (id i) p.g.minor (viaChainOf p.h3) := by
    rw [viaLines_reinject hl, hout]; rfl
  apply tagged_not_forwarded hn'
  · rw [hfv]; exact newVia_ne_nil _ _
  · rw [hfv]
    show isInfix (id j) _ = true
    rw [← hid]
    exact (isInfix_iff _ _).mpr (tag_infix_newVia _ _ _)

/-- Witness: an identifier derived from the configuration VALUE (`idOfConfig`: what a field filled in
    by the default-configuration constructor amounts to) is not injective over instances — two
    instances built from one value get the same tag — and the chain A → B → origin, which the property
    says is forwarded, is refused by B; with per-instance tags the same chain is forwarded. -/
theorem c18_config_derived_tag_witness :
    ¬ Function.Injective (fun _ : Bool => idOfConfig cfgWhttps) ∧
      (runLoop [(instCfg (fun _ : Bool => idOfConfig cfgWhttps) (fun _ => cfgWhttps) false, ctxW),
                (instCfg (fun _ : Bool => idOfConfig cfgWhttps) (fun b => if b then cfgW else cfgWhttps) true, ctxTLS)]
          2 0 reqPlain).map isLoopRefusal = [false, true] ∧
      (runLoop [(instCfg (fun b : Bool => if b then tagX else tagW) (fun _ => cfgWhttps) false, ctxW),
                (instCfg (fun b : Bool => if b then tagX else tagW) (fun b => if b then cfgW else cfgWhttps) true, ctxTLS)]
          2 0 reqPlain).map isForwarded = [true, true] := by
  refine ⟨fun h => ?_, by decide +kernel, by decide +kernel⟩
  exact absurd (h (a₁ := true) (a₂ := false) rfl) (by decide)

/-! ## I. The status of a loop refusal does not depend on what else the chain holds

  The refusal travels to `errorResponse` as `martian.ErrorStatus{Status: 400}` whose TEXT is
  `"via: detected request loop, header contains " ++ chain` — the chain being bytes that other hops (or
  the client) wrote.  `loopClass https chain` walks the code's handler list (Model/C12.lean, lifted to
  errors with a text in Model/C18Err.lean) over that error. -/

/-- Clause "answers 400", classification step: for EVERY chain text and either request scheme the loop
    refusal is claimed by `handleMartianErrorStatus` with the status the error carries. -/
theorem c18_loop_status_independent_of_chain_text (https : Bool) (chain : Bytes) :
    loopClass https chain = (400, "martian_error") := rfl

example : loopClass true (bs "1.1 edge (last error: malformed HTTP response), 1.1 fwd-0123456789abcdef0123") =
    (400, "martian_error") := c18_loop_status_independent_of_chain_text _ _

/-- … the verdict Model/C12.lean gives the text-less error kind `martianStatus 400`: keeping the text adds
    nothing the code's handlers react to. -/
theorem c18_loop_class_is_c12_martian (https : Bool) (chain : Bytes) :
    loopClass https chain = C12.classify (.martianStatus 400) := rfl

/-- Whenever the Via modifier refuses, the error it returns embeds the whole received chain — the own
    tag and everything the other hops wrote — and is classified 400. -/
theorem c18_loop_refusal_classified {cfg : Cfg} {m : Nat} {h : C16.HMap} (https : Bool)
    (hl : viaStep cfg m h = none) :
    loopClass https (viaChainOf h) = (400, "martian_error") ∧
      isInfix cfg.tag (loopErr (viaChainOf h)).text = true ∧
      viaChainOf h <:+ (loopErr (viaChainOf h)).text := by
  refine ⟨rfl, ?_, List.suffix_append _ _⟩
  have hi : isInfix cfg.tag (viaChainOf h) = true := by
    unfold viaStep at hl
    by_cases hc : (!(viaChainOf h).isEmpty && isInfix cfg.tag (viaChainOf h)) = true
    · exact (Bool.and_eq_true_iff.mp hc).2
    · simp only [hc] at hl
      exact absurd hl (by simp)
  exact (isInfix_iff _ _).mpr (((isInfix_iff _ _).mp hi).trans (List.suffix_append _ _).isInfix)

example : viaStep cfgW 1 [(bs "Via", [bs "1.1 edge (Bad Gateway), 1.1 fwd-0123456789abcdef0123"])] = none := by
  decide +kernel

/-- Why: a martian `ErrorStatus` with a non-zero status is classified alike for every text, in every
    handler list whose handlers BEFORE `handleMartianErrorStatus` never read the text — whatever the
    handlers after it do. -/
theorem c18_martian_status_text_blind {pre : List THandler} (hp : ∀ h ∈ pre, TextBlind h)
    (post : List THandler) (https : Bool) (s : C12.ErrShape) {st : Nat}
    (hs : s.errorStatus = some st) (h0 : st ≠ 0) (t t' : Bytes) :
    classifyT (pre ++ lift C12.handleMartianErrorStatus :: post) https ⟨s, t⟩ =
      classifyT (pre ++ lift C12.handleMartianErrorStatus :: post) https ⟨s, t'⟩ := by
  have hg : ∀ u, lift C12.handleMartianErrorStatus https ⟨s, u⟩ = (st, "martian_error") := by
    intro u
    simp only [lift, TextErr.fullShape, C12.handleMartianErrorStatus, hs]
  unfold classifyT
  rw [firstVerdictT_blind_prefix hp _ post https s t t' ((hg t).trans (hg t').symm) (by rw [hg t]; exact h0)]

/-- … and the code's list is such a list: the six handlers consulted before
    `handleMartianErrorStatus` are type tests (`errors.As`), the only reader of the text
    (`handleStatusText`) comes after it. -/
theorem c18_code_prefix_text_blind :
    handlersT = handlersT.take 6 ++ lift C12.handleMartianErrorStatus :: handlersT.drop 7 ∧
      ∀ h ∈ handlersT.take 6, TextBlind h := by
  refine ⟨rfl, ?_⟩
  intro h hh
  have hm : h ∈ [lift C12.handleWindowsNetError, lift C12.handleNetError, lift C12.handleTLSRecordHeader,
      lift C12.handleTLSCertificateError, lift C12.handleTLSECHRejectionError, lift C12.handleTLSAlertError] := hh
  simp only [List.mem_cons, List.not_mem_nil, or_false] at hm
  rcases hm with rfl | rfl | rfl | rfl | rfl | rfl <;> (intro https s t t'; rfl)

example : ¬ TextBlind (lift C12.handleStatusText) := by
  intro h
  have := h true {} (bs "Bad Gateway") (bs "x")
  revert this
  decide +kernel

/-- The text of a loop refusal never EQUALS a status text (it begins with "via: …"), so the one handler
    of the code that reads the text passes on it for every chain, wherever it stands in the list — also
    for the `https` requests it applies to (intercepted sessions, `https://` absolute-form). -/
theorem c18_loop_text_is_no_status_text (https : Bool) (chain : Bytes) :
    statusTextOf (loopErrText chain) = none ∧
      lift C12.handleStatusText https (loopErr chain) = C12.pass ∧
      classifyT (handlersWith 0 (lift C12.handleStatusText)) https (loopErr chain) = (400, "martian_error") := by
  have h1 := statusTextOf_loopErrText chain
  have h2 : lift C12.handleStatusText https (loopErr chain) = C12.pass := by
    simp only [lift, TextErr.fullShape, loopErr, C12.handleStatusText, h1]
    cases https <;> rfl
  refine ⟨h1, h2, ?_⟩
  have : firstVerdictT (handlersWith 0 (lift C12.handleStatusText)) https (loopErr chain) =
      firstVerdictT handlersT https (loopErr chain) := by
    show firstVerdictT ([lift C12.handleStatusText] ++ handlersT) https (loopErr chain) = _
    exact firstVerdictT_pass_prefix _ _ _ (by
      intro h hh
      rw [List.mem_singleton.mp hh]
      exact h2)
  unfold classifyT
  rw [this]
  rfl

/-- A handler consulted AFTER `handleMartianErrorStatus` cannot change the answer to a loop, whatever it
    does with the text. -/
theorem c18_handler_after_martian_harmless (g : THandler) (https : Bool) (chain : Bytes) :
    classifyT (handlersWith 7 g) https (loopErr chain) = (400, "martian_error") := rfl

/-- Witness (NOT the code): a handler that recognises transport errors by a phrase of their text, put
    next to the other transport-level handlers — i.e. before `handleMartianErrorStatus` —, lets text
    written by ANOTHER hop decide the status: both requests carry this instance's element and are
    refused by the modifier, the one whose chain also holds a comment with the phrase is answered 502;
    a status-text test loosened to a suffix test does the same to an `https` request whose chain ends in
    a status text.  The code's list answers 400 to all of them. -/
theorem c18_text_handler_before_martian_witness :
    let malformed := containsHandler (bs "malformed HTTP") 502 "malformed_response"
    let plain := bs "1.1 edge, 1.1 fwd-0123456789abcdef0123"
    let text := bs "1.1 edge (last error: malformed HTTP response), 1.1 fwd-0123456789abcdef0123"
    let tail := bs "1.1 fwd-0123456789abcdef0123, Bad Gateway"
    (viaStep cfgW 1 [(bs "Via", [plain])] = none ∧ viaStep cfgW 1 [(bs "Via", [text])] = none ∧
        viaStep cfgW 1 [(bs "Via", [tail])] = none) ∧
      classifyT (handlersWith 6 malformed) false (loopErr plain) = (400, "martian_error") ∧
      classifyT (handlersWith 6 malformed) false (loopErr text) = (502, "malformed_response") ∧
      classifyT (handlersWith 6 statusSuffixHandler) true (loopErr plain) = (400, "martian_error") ∧
      classifyT (handlersWith 6 statusSuffixHandler) true (loopErr tail) = (502, "https_status_text") ∧
      classifyT (handlersWith 6 (suffixHandler (bs "EOF") 502 "unexpected_eof")) false
          (loopErr (bs "1.1 fwd-0123456789abcdef0123, 1.1 p (unexpected EOF")) = (502, "unexpected_eof") := by
  decide +kernel

/-! ## J. The identity of an instance is fixed at construction

  `Model/C18Tag.lean`: the look-up of the instance's tag by the requests passing through the Via
  modifier, one step of one request at a time, under ANY schedule.  `constructEager` is the code
  (`NewViaModifier` draws the boundary; the tag is written before the modifier is shared) —
  `tag : Instance → Tag` depends on neither the request history nor the schedule.  The harness
  releases bursts of very first requests at many fresh instances (stack level and whole proxies) and
  asserts what these theorems say: one element per instance, ever, and every burst request is refused
  when it comes back. -/

/-- For any number of first requests and ANY interleaving of their steps: the modifier's cell never
    changes, every request that holds a tag holds the constructor's, every request that has taken a
    step holds it (the look-up is a single read), and so at most one tag is ever in use. -/
theorem c18_tag_fixed_at_construction (name : Bytes) (rnd : Nat → Bytes) (n : Nat) (sched : List Nat) :
    (tagRun name rnd (constructEager name rnd n) sched).cell = some (mkTag name (rnd 0)) ∧
      (∀ k t, tagOf (tagRun name rnd (constructEager name rnd n) sched) k = some t →
        t = mkTag name (rnd 0)) ∧
      (∀ k, k < n → k ∈ sched →
        tagOf (tagRun name rnd (constructEager name rnd n) sched) k = some (mkTag name (rnd 0))) ∧
      distinctTags (tagRun name rnd (constructEager name rnd n) sched) ≤ 1 := by
  have hinv := tagFixed_run (name := name) (rnd := rnd) sched (tagFixed_construct name rnd n)
  have hall : ∀ k t, tagOf (tagRun name rnd (constructEager name rnd n) sched) k = some t →
      t = mkTag name (rnd 0) := by
    intro k t ht
    have hm := List.mem_of_getElem? (tagOf_eq_some.mp ht)
    rcases hinv.2 _ hm with h0 | h0
    · cases h0
    · cases h0; rfl
  refine ⟨hinv.1, hall, fun k hk hs => ?_, ?_⟩
  · apply tagOf_eq_some.mpr
    apply tagFixed_run_holds sched (tagFixed_construct name rnd n) _ hs
    simpa [constructEager] using hk
  · apply eraseDups_length_le_one (a := mkTag name (rnd 0))
    intro t ht
    rcases hinv.2 _ (mem_tagsHeld.mp ht) with h0 | h0
    · cases h0
    · cases h0; rfl

example : (tagRun (bs "fwd") rndW (constructEager (bs "fwd") rndW 3) [0, 1, 0, 1, 0, 1, 2]).reqs =
      [.has tagW, .has tagW, .has tagW] ∧
    distinctTags (tagRun (bs "fwd") rndW (constructEager (bs "fwd") rndW 3) [2, 0, 1]) = 1 := by
  decide +kernel

/-- Pipeline level, over schedules: whatever the interleaving of an instance's first requests, the
    request of ANY of them (`k₁`) is forwarded with the constructor's element after the chain it
    carried, and when that message comes back — during the burst or at any later time, to be judged
    with the tag whichever request `k₂` holds — it is not forwarded again: `400 loop`. -/
theorem c18_first_requests_loop_cut (name : Bytes) (rnd : Nat → Bytes) (n : Nat) (sched : List Nat)
    (base : Cfg) {k₁ k₂ : Nat} {t₁ t₂ : Bytes}
    (h₁ : tagOf (tagRun name rnd (constructEager name rnd n) sched) k₁ = some t₁)
    (h₂ : tagOf (tagRun name rnd (constructEager name rnd n) sched) k₂ = some t₂)
    (hname : name.all isTokenByte = true) (hshape : TagShape name (mkTag name (rnd 0)))
    {ctx ctx' : Ctx} {r : Request} {hop : Hop} {out : OutMsg}
    (h : processRequest { base with tag := t₁ } ctx r = .forwarded hop out)
    (hr : rulesAvoidVia base.rules = true) (hn : viaNominated r.fields = false)
    (hn' : viaNominated (reinject out).fields = false) :
    viaElements (outVia out) =
        viaElements (viaLines r.fields) ++ [ownElement (mkTag name (rnd 0)) r.minor] ∧
      isForwarded (processRequest { base with tag := t₂ } ctx' (reinject out)) = false ∧
      (reachesVia { base with tag := t₂ } ctx' (reinject out) = true →
        processRequest { base with tag := t₂ } ctx' (reinject out) = .refused 400 .loop) := by
  obtain ⟨_, hall, _, _⟩ := c18_tag_fixed_at_construction name rnd n sched
  have e₁ := hall k₁ t₁ h₁
  have e₂ := hall k₂ t₂ h₂
  subst e₁ e₂
  exact ⟨c18_chain_kept_full h hr hn (hshape.clean hname), c18_self_loop_terminates h hr hn'⟩

example : tagOf (tagRun (bs "fwd") rndW (constructEager (bs "fwd") rndW 3) [0, 1, 2]) 0 = some tagW ∧
    tagOf (tagRun (bs "fwd") rndW (constructEager (bs "fwd") rndW 3) [0, 1, 2]) 2 = some tagW ∧
    tagShape (bs "fwd") (mkTag (bs "fwd") (rndW 0)) = true ∧
    isForwarded (processRequest { cfgWhttps with tag := tagW } ctxW reqPlain) = true := by decide +kernel

/-- The counter-model in general: a tag drawn LAZILY by the first request with load, generate and
    store as separate steps (no compare-and-swap) — two first requests that both load before either
    stores hold two different tags; the second store is what the instance calls itself from then on. -/
theorem c18_lazy_two_first_requests_two_tags (name : Bytes) (rnd : Nat → Bytes) (hr : rnd 0 ≠ rnd 1) :
    tagsHeld (tagRun name rnd (constructLazy 2) [0, 1, 0, 1, 0, 1]) =
        [mkTag name (rnd 0), mkTag name (rnd 1)] ∧
      mkTag name (rnd 0) ≠ mkTag name (rnd 1) ∧
      (tagRun name rnd (constructLazy 2) [0, 1, 0, 1, 0, 1]).cell = some (mkTag name (rnd 1)) := by
  refine ⟨rfl, fun h => hr ?_, rfl⟩
  have := List.append_cancel_left h
  exact (List.cons.inj this).2

/-- Witness (NOT the code): with the lazily drawn tag, two first requests released together are
    forwarded with `tagW` and `tagX`, and the instance is `tagX` from then on (request 2 arrives later);
    the message request 0 was forwarded with comes back to the instance and is forwarded AGAIN — its
    loop is not cut at the first repetition.  One after the other (what a scenario does that probes a
    started instance) the same requests all hold one tag: the difference shows only in the schedule.
    The code's construction under the same schedule: one tag, the loop cut. -/
theorem c18_lazy_tag_witness :
    (tagRun (bs "fwd") rndW (constructLazy 3) [0, 1, 0, 1, 0, 1, 2]).reqs =
        [.has tagW, .has tagX, .has tagX] ∧
      (tagRun (bs "fwd") rndW (constructLazy 3) [0, 1, 0, 1, 0, 1, 2]).cell = some tagX ∧
      distinctTags (tagRun (bs "fwd") rndW (constructLazy 3) [0, 1, 0, 1, 0, 1, 2]) = 2 ∧
      (tagRun (bs "fwd") rndW (constructLazy 3) [0, 0, 0, 1, 2]).reqs =
        [.has tagW, .has tagW, .has tagW] ∧
      (runLoop [({ cfgWhttps with tag := tagW }, ctxW), ({ cfgWhttps with tag := tagX }, ctxW)]
          2 0 reqPlain).map isForwarded = [true, true] ∧
      (tagRun (bs "fwd") rndW (constructEager (bs "fwd") rndW 3) [0, 1, 0, 1, 0, 1, 2]).reqs =
        [.has tagW, .has tagW, .has tagW] ∧
      (runLoop [({ cfgWhttps with tag := tagW }, ctxW), ({ cfgWhttps with tag := tagW }, ctxW)]
          2 0 reqPlain).map isLoopRefusal = [false, true] := by
  decide +kernel

/-! ## K. The CONNECT head of a request is that request's, whoever else is dialling

  `Model/C18Dial.lean`: between the modifier stack and the upstream HTTP(S) proxy a CONNECT passes
  `connectHTTP` in three steps (assign the header set to the dialer, dial, write the head), interleaved
  at will with the steps of the other CONNECT requests of the instance.  The code builds a dialer per
  request; the harness hammers one instance (and a two-instance CONNECT loop) with 8–16 clients whose
  CONNECTs carry chains built around a marker of their own and judges every head the upstream proxy
  recorded. -/

/-- Under ANY schedule the header set a request's head goes out with is the one the modifier stack
    produced for THAT request (`hdr k`): per-request result, independent of the schedule. -/
theorem c18_connect_head_schedule_independent {α : Type} (hdr : Nat → α) (sched : List Nat) (k : Nat)
    (h : α) (hs : sentHdr (connRun false hdr (DialState.init α) sched) k = some h) : h = hdr k := by
  have hinv := dialOwn_run (hdr := hdr) sched (dialOwn_init hdr)
  unfold sentHdr at hs
  cases hp : (connRun false hdr (DialState.init α) sched).pcs k with
  | sent h' =>
    rw [hp] at hs
    have he : h' = h := by simpa [ConnPc.sentOf] using hs
    exact he ▸ (hinv k).2.2 h' hp
  | idle => rw [hp] at hs; cases hs
  | assigned => rw [hp] at hs; cases hs
  | dialled => rw [hp] at hs; cases hs

/-- … so two schedules of the same requests send the same head for every request both complete -/
theorem c18_connect_head_two_schedules {α : Type} (hdr : Nat → α) (s₁ s₂ : List Nat) (k : Nat) (h₁ h₂ : α)
    (e₁ : sentHdr (connRun false hdr (DialState.init α) s₁) k = some h₁)
    (e₂ : sentHdr (connRun false hdr (DialState.init α) s₂) k = some h₂) : h₁ = h₂ :=
  (c18_connect_head_schedule_independent hdr s₁ k h₁ e₁).trans
    (c18_connect_head_schedule_independent hdr s₂ k h₂ e₂).symm

/-- Pipeline level: concurrent CONNECTs `reqs` through one instance, any schedule — the head the
    upstream proxy receives for request `k` carries the chain of request `k` followed by the instance's
    element (nothing of another request), and when it comes back to the instance it is not passed again:
    every loop is cut at its first repetition also under load. -/
theorem c18_concurrent_connect_heads (cfg : Cfg) (ctx : Nat → Ctx) (reqs : Nat → ConnectReq)
    (sched : List Nat) {k : Nat} {head : OutMsg}
    (hs : sentHdr (connRun false (fun i => connectHead (processConnect cfg (ctx i) (reqs i)))
      (DialState.init _) sched) k = some (some head))
    (hr : rulesAvoidVia cfg.connectRules = true) (hn : viaNominated (reqs k).fields = false)
    (ht : TagClean cfg.tag) {ctx' : Ctx} (hn' : viaNominated (reinjectConnect head).fields = false) :
    (∃ v, outVia head = [v] ∧
        viaElements [v] = viaElements (viaLines (reqs k).fields) ++ [ownElement cfg.tag (reqs k).minor]) ∧
      connectPassed (processConnect cfg ctx' (reinjectConnect head)) = false ∧
      (connectReachesVia cfg (reinjectConnect head) = true →
        processConnect cfg ctx' (reinjectConnect head) = .refused 400 .loop) := by
  have hk := c18_connect_head_schedule_independent _ sched k _ hs
  exact ⟨c18_connect_head_appends hk.symm hr hn ht, c18_connect_self_loop_terminates hk.symm hr hn'⟩

example : sentHdr (connRun false (fun i => connectHead (processConnect cfgXhttp ctxW (dialReqs i)))
      (DialState.init _) [0, 1, 0, 0, 1, 1]) 0 =
    some (connectHead (processConnect cfgXhttp ctxW (dialReqs 0))) := rfl

/-- Witness (NOT the code): ONE dialer kept per proxy URL whose header slot every request assigns before
    dialling and reads after it.  Instance X (`tagX`), upstream A (`tagW`); request 0 came through `fred`,
    request 1 has already passed A.  Both assign before either sends: request 0's head goes out with
    request 1's chain — another exchange's data — and A refuses it `400 loop` although request 0 never
    passed A; its own head would have been passed.  One after the other both heads are right, and with a
    dialer per request (the code) they are right under the same schedule. -/
theorem c18_shared_dialer_witness :
    ((sentHdr (connRun true (fun i => connectHead (processConnect cfgXhttp ctxW (dialReqs i)))
        (DialState.init _) [0, 1, 0, 0, 1, 1]) 0).join.map fun h => viaElements (outVia h)) =
        some [bs "1.1 fwd-0123456789abcdef0123", ownElement tagX 1] ∧
      ((connectHead (processConnect cfgXhttp ctxW (dialReqs 0))).map fun h => viaElements (outVia h)) =
        some [bs "1.0 fred", ownElement tagX 1] ∧
      ((sentHdr (connRun true (fun i => connectHead (processConnect cfgXhttp ctxW (dialReqs i)))
        (DialState.init _) [0, 1, 0, 0, 1, 1]) 0).join.map fun h =>
          isConnectLoopRefusal (processConnect cfgWhttp ctxW (reinjectConnect h))) = some true ∧
      ((connectHead (processConnect cfgXhttp ctxW (dialReqs 0))).map fun h =>
          connectPassed (processConnect cfgWhttp ctxW (reinjectConnect h))) = some true ∧
      ((sentHdr (connRun true (fun i => connectHead (processConnect cfgXhttp ctxW (dialReqs i)))
        (DialState.init _) [0, 0, 0, 1, 1, 1]) 0).join.map fun h => viaElements (outVia h)) =
        some [bs "1.0 fred", ownElement tagX 1] ∧
      ((sentHdr (connRun false (fun i => connectHead (processConnect cfgXhttp ctxW (dialReqs i)))
        (DialState.init _) [0, 1, 0, 0, 1, 1]) 0).join.map fun h => viaElements (outVia h)) =
        some [bs "1.0 fred", ownElement tagX 1] := by
  decide +kernel

/-! ## L. Where the identity comes from: the construction step and the entropy source

  `Model/C18Tag.lean` `mkInstance name ans`: `NewViaModifier` as a function of what the entropy source
  answered to the ONE read the constructor makes (`ans = none`: the read failed; `some b`: the bytes
  delivered).  Uniqueness of the identifier rests on the boundary bytes alone: a constructor that got
  no entropy yields no instance, instances that got different bytes carry different tags, and so the
  instances alive after ANY series of constructor calls — failing ones among them, in one process, in one
  second — carry pairwise different tags as long as the source never delivered the same ten bytes twice.
  The harness swaps `crypto/rand.Reader` for sources that fail at once / after `k` bytes / between two
  constructions, deliver short reads, end early, and judges every series of constructor calls by exactly
  this: no instance, or tags injective (and the fleet clauses between every two live instances). -/

/-- No entropy, no instance: a failed read — and a read that delivered anything but the ten bytes asked
    for — leaves nothing behind that could identify itself. -/
theorem c18_no_instance_without_entropy (name : Bytes) :
    mkInstance name none = none ∧
      (∀ b : Bytes, b.length ≠ boundaryBytes → mkInstance name (some b) = none) ∧
      (∀ answers : List (Option Bytes), (∀ a ∈ answers, a = none) →
        liveInstances (mkInstance name) answers = []) := by
  refine ⟨rfl, fun b hb => ?_, fun answers ha => ?_⟩
  · simp only [mkInstance, hb, if_false]
  · unfold liveInstances
    rw [List.filterMap_eq_nil_iff]
    intro a h
    rw [ha a h]
    rfl

example : mkInstance (bs "fwd") (some [1, 2, 3]) = none ∧
    (mkInstance (bs "fwd") (some [1, 35, 69, 103, 137, 171, 205, 239, 1, 35])).map Instance.tag = some tagW := by
  decide +kernel

/-- What a constructor that got its ten bytes makes of them: a tag of the documented shape
    (`name-<20 lower-case hex digits>`) under the name it was asked for. -/
theorem c18_constructed_tag_shape {name : Bytes} {ans : Option Bytes} {i : Instance}
    (h : mkInstance name ans = some i) : TagShape name i.tag ∧ i.name = name := by
  cases ans with
  | none => cases h
  | some b =>
    obtain ⟨hl, hi⟩ := mkInstance_some h
    subst hi
    refine ⟨⟨hexEnc b, rfl, ?_, hexEnc_lower b⟩, rfl⟩
    rw [hexEnc_length, hl]
    rfl

/-- The tag is an injective function of the boundary bytes (and of nothing else): two constructors under
    one name yield the same tag exactly when the entropy source handed both the same ten bytes. -/
theorem c18_distinct_entropy_distinct_tags {name b₁ b₂ : Bytes} {i₁ i₂ : Instance}
    (h₁ : mkInstance name (some b₁) = some i₁) (h₂ : mkInstance name (some b₂) = some i₂) :
    i₁.tag = i₂.tag ↔ b₁ = b₂ := by
  obtain ⟨_, e₁⟩ := mkInstance_some h₁
  obtain ⟨_, e₂⟩ := mkInstance_some h₂
  subst e₁ e₂
  exact ⟨fun h => hexEnc_inj (mkTag_inj h), fun h => by rw [h]⟩

example : ∃ i₁ i₂, mkInstance (bs "fwd") (some [1, 35, 69, 103, 137, 171, 205, 239, 1, 35]) = some i₁ ∧
    mkInstance (bs "fwd") (some [1, 35, 69, 103, 137, 171, 205, 239, 1, 36]) = some i₂ ∧
    i₁.tag = tagW ∧ i₂.tag = tagX := ⟨_, _, rfl, rfl, by decide +kernel, by decide +kernel⟩

/-- After ANY series of constructor calls under one name (`none` entries: calls during which the entropy
    source failed): if the source never delivered the same bytes twice, the instances that exist carry
    pairwise different tags of the documented shape — `id` is injective over the live instances, which is
    the hypothesis of `c18_distinct_instances_forwarded`. -/
theorem c18_live_instances_unique_if_entropy_distinct (name : Bytes) (answers : List (Option Bytes))
    (hd : (answers.filterMap id).Nodup) :
    ((liveInstances (mkInstance name) answers).map Instance.tag).Nodup ∧
      (∀ i ∈ liveInstances (mkInstance name) answers, TagShape name i.tag) ∧
      Function.Injective (fun k : Fin ((liveInstances (mkInstance name) answers).map Instance.tag).length =>
        ((liveInstances (mkInstance name) answers).map Instance.tag)[k]) := by
  have hn := liveTags_pairwise name answers hd
  refine ⟨hn, fun i hi => ?_, fun k₁ k₂ hk => ?_⟩
  · obtain ⟨a, _, ha⟩ := List.mem_filterMap.mp hi
    exact (c18_constructed_tag_shape ha).1
  · exact Fin.ext ((List.getElem_inj hn).mp hk)

example : ((liveInstances (mkInstance (bs "fwd"))
      [none, some [1, 35, 69, 103, 137, 171, 205, 239, 1, 35], none, some [1, 2, 3],
       some [1, 35, 69, 103, 137, 171, 205, 239, 1, 36]]).map Instance.tag) = [tagW, tagX] := by
  decide +kernel

/-- … and therefore every two of them forward each other's requests: what live instance `k₁` forwarded
    is forwarded by any other live instance `k₂` constructed under the same name. -/
theorem c18_live_instances_forward_each_other (name : Bytes) (answers : List (Option Bytes))
    (hd : (answers.filterMap id).Nodup) (hname : name.all isTokenByte = true)
    (base : Fin ((liveInstances (mkInstance name) answers).map Instance.tag).length → Cfg)
    {k₁ k₂ : Fin ((liveInstances (mkInstance name) answers).map Instance.tag).length} (hk : k₁ ≠ k₂)
    {ctx ctx' : Ctx} {r : Request} {hop : Hop} {out : OutMsg}
    (h : processRequest (instCfg (fun k => ((liveInstances (mkInstance name) answers).map Instance.tag)[k]) base k₁) ctx r
      = .forwarded hop out)
    (hri : rulesAvoidVia (base k₁).rules = true)
    (hn : viaNominated r.fields = false) (hn' : viaNominated (reinject out).fields = false)
    (hclean : ∀ e ∈ viaElements (viaLines r.fields),
      ¬ ((liveInstances (mkInstance name) answers).map Instance.tag)[k₂] <:+: e)
    (hreach : reachesVia (instCfg (fun k => ((liveInstances (mkInstance name) answers).map Instance.tag)[k]) base k₂)
      ctx' (reinject out) = true)
    (hup : (base k₂).upstream ≠ .failed) :
    isForwarded (processRequest
      (instCfg (fun k => ((liveInstances (mkInstance name) answers).map Instance.tag)[k]) base k₂) ctx' (reinject out)) = true := by
  obtain ⟨_, hshape, hinj⟩ := c18_live_instances_unique_if_entropy_distinct name answers hd
  refine c18_distinct_instances_forwarded name _ base hinj (fun k => ?_) hname hk h hri hn hn' hclean hreach hup
  obtain ⟨i, hi, he⟩ := List.mem_map.mp (List.getElem_mem k.isLt)
  have hs := hshape i hi
  rw [he] at hs
  exact hs

/-- Witness (NOT the code): a constructor that answers a failed read with a boundary made of the process
    id and the time in seconds.  Two constructor calls under one name while the source is down — one
    process, one second — leave TWO live instances with ONE tag; the tag has the documented shape, so
    nothing about a single instance gives it away; the chain A → B, which the property says is
    forwarded, ends with `400 loop` at B.  The code under the same answers: no instance at all. -/
theorem c18_entropy_fallback_witness :
    (liveInstances (mkInstanceFallback 1 1790000000 (bs "fwd")) [none, none]).map Instance.tag =
        [bs "fwd-0001000000006ab13b80", bs "fwd-0001000000006ab13b80"] ∧
      tagShape (bs "fwd") (bs "fwd-0001000000006ab13b80") = true ∧
      (runLoop [({ cfgWhttps with tag := bs "fwd-0001000000006ab13b80" }, ctxW),
                ({ cfgWhttps with tag := bs "fwd-0001000000006ab13b80" }, ctxW)]
          2 0 reqPlain).map isLoopRefusal = [false, true] ∧
      liveInstances (mkInstance (bs "fwd")) [none, none] = [] ∧
      (liveInstances (mkInstanceFallback 1 1790000000 (bs "fwd"))
          [some [1, 35, 69, 103, 137, 171, 205, 239, 1, 35], some [1, 35, 69, 103, 137, 171, 205, 239, 1, 36]]).map
        Instance.tag = [tagW, tagX] := by
  decide +kernel

end C18
end FwdVerif
