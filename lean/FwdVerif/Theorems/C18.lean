/-
  C18 — "A request that already passed through this proxy instance is refused (no loops)".

  Property theorems over the request pipeline model (`Model/Req.lean`: `viaStep` inside
  `processRequest`) and the C18 vocabulary of `Model/C18.lean`.  Only property theorems and
  non-vacuity examples live here; helper lemmas are in `Lemmas/C18a … C18e.lean`.  The chain is ALL
  Via field lines of the request (RFC 9110 §5.3) — the clauses `c18_chain_kept_full` and
  `c18_loop_detected_full`, false of the code before the repair of F11 (only the first line was
  read), are theorems now.

  Reading aids
    `viaLines fs`            all Via field lines of a message, wire order
    `viaChain lines`         the lines combined with ", " — what the Via modifier reads
    `viaElements lines`      SPEC view of the chain: all lines joined with ", ", split at commas
    `ownElement tag minor`   `1.0 <tag>` / `1.1 <tag>`
    `TagShape name tag`      tag = name ++ "-" ++ 20 lower-case hex digits
    `TagClean tag`           non-empty, no comma, no blank (true of every `TagShape` tag whose name is a token)
    `rulesAvoidVia rs`       no `--header` rule addresses the Via field
    `viaNominated fs`        a `Connection: via` option makes the hop-by-hop modifier delete Via first
    `reachesVia cfg ctx r`   "no other refusal": readable, security checks passed, framing accepted
    `reinject out`           the request the next instance reads when `out` is delivered to it
    `isForwarded o`          the ONLY outcome with an upstream action (hop + message)

  Concrete examples are evaluated by the kernel (`decide +kernel`: plain `decide` cannot unfold the
  string literals of Model/Req.lean; no axiom beyond `propext`/`Quot.sound` is involved).
-/
import FwdVerif.Lemmas.C18e

namespace FwdVerif
namespace C18

open Ascii Req

/-! ## A. The element this instance appends -/

/-- the protocol version in the element is the one the client used: 1.0 for HTTP/1.0, 1.1 otherwise -/
theorem c18_own_element_proto (tag : Bytes) (minor : Nat) :
    ownElement tag minor = (if minor = 0 then [49, 46, 48] else [49, 46, 49]) ++ 32 :: tag := by
  unfold ownElement protoText
  by_cases h : minor = 0
  · simp [h, bs_10]
  · have : (minor == 0) = false := by simpa using h
    simp [h, this, bs_11]

example : ownElement tagW 0 = bs "1.0 fwd-0123456789abcdef0123" ∧
    ownElement tagW 1 = bs "1.1 fwd-0123456789abcdef0123" := by decide +kernel

/-- Modifier level: when `ViaModifier.ModifyRequest` lets a message pass, the Via value it writes
    has the elements of the chain it read (all Via values of the map, combined) followed by exactly
    one new element `proto tag`. -/
theorem c18_modifier_appends {cfg : Cfg} {m : Nat} {h h4 : C16.HMap} (ht : TagClean cfg.tag)
    (hs : viaStep cfg m h = some h4) :
    C16.HMap.get h4 viaName = some [newVia cfg.tag m (viaChainOf h)] ∧
      elementsOf (newVia cfg.tag m (viaChainOf h)) =
        elementsOf (viaChainOf h) ++ [ownElement cfg.tag m] := by
  refine ⟨?_, elementsOf_newVia ht m _⟩
  rw [(viaStep_some hs).1]
  have := get_goSet_self h viaName (newVia cfg.tag m (viaChainOf h))
  rwa [viaName_canon] at this

/-- Pipeline level: a forwarded request reaches the next hop with ONE Via field line whose elements
    are the elements of ALL Via lines the client sent, in order, followed by `proto tag`, `proto`
    being the client's protocol version. -/
theorem c18_appends_own_element {cfg : Cfg} {ctx : Ctx} {r : Request} {hop : Hop} {out : OutMsg}
    (h : processRequest cfg ctx r = .forwarded hop out) (hr : rulesAvoidVia cfg.rules = true)
    (hn : viaNominated r.fields = false) (ht : TagClean cfg.tag) :
    ∃ v, outVia out = [v] ∧
      viaElements [v] = viaElements (viaLines r.fields) ++ [ownElement cfg.tag r.minor] := by
  obtain ⟨p, hp, hout, _, _⟩ := forwarded_out h hr
  obtain ⟨hget, _, hminor⟩ := preVia_via hp hn
  refine ⟨_, hout, ?_⟩
  rw [hget, hminor]
  exact elementsOf_newVia ht r.minor _

example : isForwarded (processRequest cfgW ctxW reqForeign) = true ∧
    rulesAvoidVia cfgW.rules = true ∧ viaNominated reqForeign.fields = false ∧
    tagShape (bs "fwd") tagW = true := by decide +kernel

/-- full clause "after ANY Via elements already present" (formerly false of the code, F11d —
    fixed): every element already present, on whichever Via field line, is kept, in order, before
    the new one. -/
theorem c18_chain_kept_full {cfg : Cfg} {ctx : Ctx} {r : Request} {hop : Hop} {out : OutMsg}
    (h : processRequest cfg ctx r = .forwarded hop out) (hr : rulesAvoidVia cfg.rules = true)
    (hn : viaNominated r.fields = false) (ht : TagClean cfg.tag) :
    viaElements (outVia out) = viaElements (viaLines r.fields) ++ [ownElement cfg.tag r.minor] := by
  obtain ⟨v, hv, he⟩ := c18_appends_own_element h hr hn ht
  rw [hv, he]

-- `Via: 1.0 fred` + `Via: 1.1 edge` is forwarded as `Via: 1.0 fred, 1.1 edge, 1.1 <tag>` (the
-- former F11d witness: `1.1 edge` used to be dropped)
example : (match processRequest cfgW ctxW (reqWith 1 [bs "1.0 fred", bs "1.1 edge"]) with
      | .forwarded hp o => hp == .direct (bs "origin.test") &&
          viaElements (outVia o) == [bs "1.0 fred", bs "1.1 edge", ownElement tagW 1]
      | _ => false) = true ∧
    viaElements (viaLines (reqWith 1 [bs "1.0 fred", bs "1.1 edge"]).fields) =
      [bs "1.0 fred", bs "1.1 edge"] := by decide +kernel

/-! ## B. A chain that contains this instance's element is refused: 400, no upstream action -/

/-- If an element of the Via chain — on ANY Via field line — contains this instance's tag, in
    particular the element `1.0 tag` / `1.1 tag` it emitted, wherever it stands and whatever later
    hops appended, the request is never forwarded (no hop, no message: no upstream action), and
    unless an earlier check already refused it the answer is `400` for reason `loop`. -/
theorem c18_loop_refused {cfg : Cfg} {ctx : Ctx} {r : Request}
    (hn : viaNominated r.fields = false) (hne : cfg.tag ≠ [])
    (he : ∃ e ∈ viaElements (viaLines r.fields), cfg.tag <:+: e) :
    isForwarded (processRequest cfg ctx r) = false ∧
      (reachesVia cfg ctx r = true → processRequest cfg ctx r = .refused 400 .loop) := by
  obtain ⟨e, hmem, hte⟩ := he
  have hi : cfg.tag <:+: viaChain (viaLines r.fields) := hte.trans (mem_elementsOf_infix hmem)
  have hv : viaChain (viaLines r.fields) ≠ [] := fun h0 => hne (List.infix_nil.mp (h0 ▸ hi))
  exact tagged_not_forwarded hn hv ((isInfix_iff _ _).mpr hi)

/-- the special case the property names: the chain holds the very element this instance emitted -/
theorem c18_own_element_refused {cfg : Cfg} {ctx : Ctx} {r : Request} {m : Nat}
    (hn : viaNominated r.fields = false) (hne : cfg.tag ≠ [])
    (he : ownElement cfg.tag m ∈ viaElements (viaLines r.fields)) :
    isForwarded (processRequest cfg ctx r) = false ∧
      (reachesVia cfg ctx r = true → processRequest cfg ctx r = .refused 400 .loop) :=
  c18_loop_refused hn hne ⟨_, he, tag_infix_ownElement _ _⟩

example : viaNominated reqLoop.fields = false ∧ cfgW.tag ≠ [] ∧
    ownElement cfgW.tag 1 ∈ viaElements (viaLines reqLoop.fields) ∧
    reachesVia cfgW ctxW reqLoop = true := by decide +kernel

/-- full clause (formerly false of the code, F11c — fixed): the chain is ALL Via field lines
    (RFC 9110 §5.3); a loop tag on any of them keeps the request from being forwarded -/
theorem c18_loop_detected_full (cfg : Cfg) (ctx : Ctx) (r : Request) (hne : cfg.tag ≠ [])
    (hn : viaNominated r.fields = false)
    (he : ∃ e ∈ viaElements (viaLines r.fields), cfg.tag <:+: e) :
    isForwarded (processRequest cfg ctx r) = false :=
  (c18_loop_refused hn hne he).1

-- `Via: 1.0 fred` / `Via: 1.1 <own tag>, 1.1 edge (x)`: this instance's element is on the second
-- field line — the request is refused 400 `loop` (the former F11c witness: it used to be forwarded)
example : cfgW.tag ≠ [] ∧ viaNominated reqSecondLine.fields = false ∧
    (viaLines reqSecondLine.fields).length = 2 ∧
    ownElement cfgW.tag 1 ∈ viaElements (viaLines reqSecondLine.fields) ∧
    reachesVia cfgW ctxW reqSecondLine = true ∧
    isForwarded (processRequest cfgW ctxW reqSecondLine) = false ∧
    isLoopRefusal (processRequest cfgW ctxW reqSecondLine) = true := by decide +kernel

/-! ## C. Chains of other proxies' elements are forwarded -/

/-- If no element of the Via chain (all field lines) contains this instance's tag, the Via modifier
    does not refuse: given no other refusal the request is forwarded. -/
theorem c18_foreign_chain_forwarded {cfg : Cfg} {ctx : Ctx} {r : Request}
    (hn : viaNominated r.fields = false) (ht : TagClean cfg.tag)
    (hf : ∀ e ∈ viaElements (viaLines r.fields), ¬ cfg.tag <:+: e)
    (hreach : reachesVia cfg ctx r = true) (hup : cfg.upstream ≠ .failed) :
    isForwarded (processRequest cfg ctx r) = true := by
  apply untagged_forwarded hn _ hreach hup
  intro _
  apply isInfix_false_of_not
  intro hi
  obtain ⟨e, he, hte⟩ := infix_element ht.ne ht.noComma ht.noWs hi
  exact hf e he hte

/-- … and when the proxy function itself failed (`Upstream.failed`: PAC error) such a request gets
    the route error — it is never answered as a loop -/
theorem c18_foreign_chain_route_error {cfg : Cfg} {ctx : Ctx} {r : Request}
    (hn : viaNominated r.fields = false) (ht : TagClean cfg.tag)
    (hf : ∀ e ∈ viaElements (viaLines r.fields), ¬ cfg.tag <:+: e)
    (hreach : reachesVia cfg ctx r = true) (hup : cfg.upstream = .failed) :
    processRequest cfg ctx r = .routeError := by
  have hi : viaChain (viaLines r.fields) ≠ [] → isInfix cfg.tag (viaChain (viaLines r.fields)) = false := by
    intro _
    apply isInfix_false_of_not
    intro hi
    obtain ⟨e, he, hte⟩ := infix_element ht.ne ht.noComma ht.noWs hi
    exact hf e he hte
  rcases untagged_passes hn hi hreach with ⟨hne, _⟩ | ⟨_, h⟩
  · exact absurd hup hne
  · exact h

example : viaNominated reqForeign.fields = false ∧ tagShape (bs "fwd") cfgW.tag = true ∧
    (viaElements (viaLines reqForeign.fields)).all (fun e => !isInfix cfgW.tag e) = true ∧
    reachesVia cfgW ctxW reqForeign = true ∧ cfgW.upstream ≠ .failed := by decide +kernel

example : (match processRequest { cfgW with upstream := .failed } ctxW reqForeign with
    | .routeError => true | _ => false) = true := by decide +kernel

/-- Two instances configured with the same name (tags `name-<20 hex>` with different random
    parts): the tag of one does not occur in the element the other emits. -/
theorem c18_same_name_distinct {name t1 t2 : Bytes} (h1 : TagShape name t1) (h2 : TagShape name t2)
    (hne : t1 ≠ t2) (m : Nat) : ¬ t1 <:+: ownElement t2 m :=
  same_name_not_infix h1 h2 hne m

example : TagShape (bs "fwd") tagW ∧ TagShape (bs "fwd") tagX ∧ tagW ≠ tagX :=
  ⟨(tagShape_iff (bs "fwd") tagW).mp (by decide +kernel),
   (tagShape_iff (bs "fwd") tagX).mp (by decide +kernel), by decide +kernel⟩

/-- … hence a chain made of elements emitted by OTHER instances of the same name is forwarded. -/
theorem c18_same_name_forwarded {cfg : Cfg} {ctx : Ctx} {r : Request}
    (hn : viaNominated r.fields = false) (hs : TagShape cfg.name cfg.tag)
    (hname : cfg.name.all isTokenByte = true)
    (hf : ∀ e ∈ viaElements (viaLines r.fields),
      ∃ t m, TagShape cfg.name t ∧ t ≠ cfg.tag ∧ e = ownElement t m)
    (hreach : reachesVia cfg ctx r = true) (hup : cfg.upstream ≠ .failed) :
    isForwarded (processRequest cfg ctx r) = true := by
  apply c18_foreign_chain_forwarded hn (hs.clean hname) _ hreach hup
  intro e he
  obtain ⟨t, m, ht, hne, rfl⟩ := hf e he
  exact same_name_not_infix hs ht (fun h => hne h.symm) m

example : isForwarded (processRequest cfgW ctxW (reqWith 1 [ownElement tagX 1])) = true ∧
    isForwarded (processRequest cfgX ctxW (reqWith 1 [ownElement tagW 0])) = true ∧
    -- … also when the other instances' elements are spread over several Via lines
    isForwarded (processRequest cfgW ctxW (reqWith 1 [ownElement tagX 1, ownElement tagX 0])) = true := by
  decide +kernel

/-! ## D. A forwarding loop terminates at its first repetition -/

/-- One instance: what it forwarded comes back to it (chained to itself through an upstream proxy
    setting, a connect-to rule, DNS …) — the second pass is never forwarded, and is answered
    `400 loop` unless an earlier check refuses it.  Hypotheses: no `--header` rule rewrites Via, and
    the forwarded message does not nominate Via in `Connection` (it cannot, unless a rule adds such a
    Connection option). -/
theorem c18_self_loop_terminates {cfg : Cfg} {ctx ctx' : Ctx} {r : Request} {hop : Hop} {out : OutMsg}
    (h : processRequest cfg ctx r = .forwarded hop out) (hr : rulesAvoidVia cfg.rules = true)
    (hn' : viaNominated (reinject out).fields = false) :
    isForwarded (processRequest cfg ctx' (reinject out)) = false ∧
      (reachesVia cfg ctx' (reinject out) = true →
        processRequest cfg ctx' (reinject out) = .refused 400 .loop) := by
  obtain ⟨p, _, hout, _, hop', auth', g', hw⟩ := forwarded_out h hr
  have hl : ∀ e ∈ out.fields, lower e.1 = e.1 := by rw [hw]; exact writeRequest_names_lower _ _ _
  have hfv : viaChain (viaLines (reinject out).fields) = newVia cfg.tag p.g.minor (viaChainOf p.h3) := by
    rw [viaLines_reinject hl, hout]; rfl
  apply tagged_not_forwarded hn'
  · rw [hfv]; exact newVia_ne_nil _ _
  · rw [hfv]; exact (isInfix_iff _ _).mpr (tag_infix_newVia _ _ _)

example : isForwarded (processRequest cfgW ctxW reqPlain) = true ∧
    (runLoop [(cfgW, ctxW)] 5 0 reqPlain).map isForwarded = [true, false] ∧
    (runLoop [(cfgW, ctxW)] 5 0 reqPlain).map isLoopRefusal = [false, true] := by decide +kernel

/-- Two instances A → B → A (possibly with the same configured name): when the message A forwarded
    is forwarded by B and comes back to A, A does not forward it again. -/
theorem c18_two_instance_loop_terminates {A B : Cfg} {ctxA ctxB ctxA' : Ctx} {r : Request}
    {hop1 hop2 : Hop} {o1 o2 : OutMsg}
    (h1 : processRequest A ctxA r = .forwarded hop1 o1)
    (h2 : processRequest B ctxB (reinject o1) = .forwarded hop2 o2)
    (hrA : rulesAvoidVia A.rules = true) (hrB : rulesAvoidVia B.rules = true)
    (hn1 : viaNominated (reinject o1).fields = false)
    (hn2 : viaNominated (reinject o2).fields = false) (hne : A.tag ≠ []) :
    isForwarded (processRequest A ctxA' (reinject o2)) = false ∧
      (reachesVia A ctxA' (reinject o2) = true →
        processRequest A ctxA' (reinject o2) = .refused 400 .loop) := by
  obtain ⟨p1, _, hout1, _, _, _, _, hw1⟩ := forwarded_out h1 hrA
  obtain ⟨p2, hp2, hout2, _, _, _, _, hw2⟩ := forwarded_out h2 hrB
  have hl1 : ∀ e ∈ o1.fields, lower e.1 = e.1 := by rw [hw1]; exact writeRequest_names_lower _ _ _
  have hl2 : ∀ e ∈ o2.fields, lower e.1 = e.1 := by rw [hw2]; exact writeRequest_names_lower _ _ _
  -- what B read is what A wrote
  have hB : viaChainOf p2.h3 = newVia A.tag p1.g.minor (viaChainOf p1.h3) := by
    rw [(preVia_via hp2 hn1).1, viaLines_reinject hl1, hout1]; rfl
  have hfv : viaChain (viaLines (reinject o2).fields) =
      newVia B.tag p2.g.minor (newVia A.tag p1.g.minor (viaChainOf p1.h3)) := by
    rw [viaLines_reinject hl2, hout2, hB]; rfl
  apply tagged_not_forwarded hn2
  · rw [hfv]; exact newVia_ne_nil _ _
  · rw [hfv]
    exact (isInfix_iff _ _).mpr (infix_newVia_of_infix _ _ hne (tag_infix_newVia _ _ _))

-- A and B carry the same configured name
example : (runLoop [(cfgW, ctxW), (cfgX, ctxW)] 6 0 reqPlain).map isForwarded = [true, true, false] ∧
    (runLoop [(cfgW, ctxW), (cfgX, ctxW)] 6 0 reqPlain).map isLoopRefusal = [false, false, true] := by
  decide +kernel

/-- Bounded number of hops, one instance: however much fuel, the loop makes at most two passes. -/
theorem c18_self_loop_bounded (cfg : Cfg) (ctx : Ctx) (r : Request) (fuel : Nat)
    (hr : rulesAvoidVia cfg.rules = true)
    (hn : ∀ hop out, processRequest cfg ctx r = .forwarded hop out →
      viaNominated (reinject out).fields = false) :
    (runLoop [(cfg, ctx)] fuel 0 r).length ≤ 2 := by
  have step : ∀ (fuel i : Nat) (r : Request), runLoop [(cfg, ctx)] (fuel + 1) i r =
      match processRequest cfg ctx r with
      | .forwarded hop out => .forwarded hop out :: runLoop [(cfg, ctx)] fuel (i + 1) (reinject out)
      | o => [o] := by
    intro fuel i r
    rw [runLoop]
    simp only [List.length_cons, List.length_nil, Nat.zero_add, Nat.mod_one, List.getElem?_cons_zero]
    cases processRequest cfg ctx r <;> rfl
  cases fuel with
  | zero => simp [runLoop]
  | succ fuel =>
    rw [step]
    cases h : processRequest cfg ctx r with
    | forwarded hop out =>
      simp only [List.length_cons]
      cases fuel with
      | zero => simp [runLoop]
      | succ fuel =>
        rw [step]
        have h2 := (c18_self_loop_terminates (ctx' := ctx) h hr (hn hop out h)).1
        cases h' : processRequest cfg ctx (reinject out) with
        | forwarded hop' out' => rw [h'] at h2; exact absurd h2 (by simp [isForwarded])
        | refused s w => simp
        | badRequest => simp
        | unreadable => simp
        | routeError => simp
    | refused s w => simp
    | badRequest => simp
    | unreadable => simp
    | routeError => simp

/-- Bounded number of hops, two instances A → B → A → …: at most three passes. -/
theorem c18_two_instance_loop_bounded (A B : Cfg) (ctxA ctxB : Ctx) (r : Request) (fuel : Nat)
    (hrA : rulesAvoidVia A.rules = true) (hrB : rulesAvoidVia B.rules = true) (hne : A.tag ≠ [])
    (hn1 : ∀ hop o1, processRequest A ctxA r = .forwarded hop o1 →
      viaNominated (reinject o1).fields = false)
    (hn2 : ∀ hop o1 hop' o2, processRequest A ctxA r = .forwarded hop o1 →
      processRequest B ctxB (reinject o1) = .forwarded hop' o2 →
      viaNominated (reinject o2).fields = false) :
    (runLoop [(A, ctxA), (B, ctxB)] fuel 0 r).length ≤ 3 := by
  have stepA : ∀ (fuel i : Nat) (r : Request), i % 2 = 0 →
      runLoop [(A, ctxA), (B, ctxB)] (fuel + 1) i r =
      match processRequest A ctxA r with
      | .forwarded hop out =>
        .forwarded hop out :: runLoop [(A, ctxA), (B, ctxB)] fuel (i + 1) (reinject out)
      | o => [o] := by
    intro fuel i r hi
    rw [runLoop]
    simp only [List.length_cons, List.length_nil, Nat.zero_add, hi, List.getElem?_cons_zero]
    cases processRequest A ctxA r <;> rfl
  have stepB : ∀ (fuel i : Nat) (r : Request), i % 2 = 1 →
      runLoop [(A, ctxA), (B, ctxB)] (fuel + 1) i r =
      match processRequest B ctxB r with
      | .forwarded hop out =>
        .forwarded hop out :: runLoop [(A, ctxA), (B, ctxB)] fuel (i + 1) (reinject out)
      | o => [o] := by
    intro fuel i r hi
    rw [runLoop]
    simp only [List.length_cons, List.length_nil, Nat.zero_add, hi, List.getElem?_cons_succ,
      List.getElem?_cons_zero]
    cases processRequest B ctxB r <;> rfl
  cases fuel with
  | zero => simp [runLoop]
  | succ fuel =>
    rw [stepA _ _ _ rfl]
    cases h1 : processRequest A ctxA r with
    | forwarded hop o1 =>
      simp only [List.length_cons]
      cases fuel with
      | zero => simp [runLoop]
      | succ fuel =>
        rw [stepB _ _ _ rfl]
        cases h2 : processRequest B ctxB (reinject o1) with
        | forwarded hop' o2 =>
          simp only [List.length_cons]
          cases fuel with
          | zero => simp [runLoop]
          | succ fuel =>
            rw [stepA _ _ _ rfl]
            have h3 := (c18_two_instance_loop_terminates (ctxA' := ctxA) h1 h2 hrA hrB
              (hn1 hop o1 h1) (hn2 hop o1 hop' o2 h1 h2) hne).1
            cases h' : processRequest A ctxA (reinject o2) with
            | forwarded hop'' o3 => rw [h'] at h3; exact absurd h3 (by simp [isForwarded])
            | refused s w => simp
            | badRequest => simp
            | unreadable => simp
            | routeError => simp
        | refused s w => simp
        | badRequest => simp
        | unreadable => simp
        | routeError => simp
    | refused s w => simp
    | badRequest => simp
    | unreadable => simp
    | routeError => simp

/-! ## D'. The decidable form of the property (`holds` verb) is met by the model -/

/-- For EVERY request (any number of Via field lines — the hypothesis that excluded F11 is gone) the
    outcome the model computes passes the check `holdsSpec` that the harness applies to what the
    implementation did: own element ⇒ 400; no element containing the tag ⇒ forwarded with
    `proto tag` appended after all elements present. -/
theorem c18_model_meets_spec {cfg : Cfg} {ctx : Ctx} {r : Request}
    (hr : rulesAvoidVia cfg.rules = true) (hn : viaNominated r.fields = false)
    (ht : TagClean cfg.tag)
    (hreach : reachesVia cfg ctx r = true) (hup : cfg.upstream ≠ .failed) :
    ∃ obs, observe (processRequest cfg ctx r) = some obs ∧
      holdsSpec cfg.tag r.minor (viaLines r.fields) obs = .ok := by
  by_cases hi : isInfix cfg.tag (viaChain (viaLines r.fields)) = true
  · -- the tag is in the chain: refused 400
    obtain ⟨e, he, hte⟩ := infix_element ht.ne ht.noComma ht.noWs ((isInfix_iff _ _).mp hi)
    have hout := (c18_loop_refused (ctx := ctx) hn ht.ne ⟨e, he, hte⟩).2 hreach
    refine ⟨.refused 400, by rw [hout]; rfl, ?_⟩
    have hemb : (viaElements (viaLines r.fields)).any (isInfix cfg.tag) = true := by
      rw [List.any_eq_true]
      exact ⟨e, he, (isInfix_iff _ _).mpr hte⟩
    unfold holdsSpec
    simp only [hemb]
    split <;> simp
  · -- not in the chain: forwarded, element appended
    have hi' : isInfix cfg.tag (viaChain (viaLines r.fields)) = false := by simpa using hi
    have hfw := untagged_forwarded (ctx := ctx) hn (fun _ => hi') hreach hup
    cases hp : processRequest cfg ctx r with
    | forwarded hop out =>
      refine ⟨.forwarded (outVia out), rfl, ?_⟩
      have hchain := c18_chain_kept_full hp hr hn ht
      have hown : (viaElements (viaLines r.fields)).any (isOwnElement cfg.tag) = false := by
        apply Bool.eq_false_iff.mpr
        intro hany
        obtain ⟨e, he, ho⟩ := List.any_eq_true.mp hany
        have hte : cfg.tag <:+: e := by
          unfold isOwnElement at ho
          rcases Bool.or_eq_true_iff.mp ho with h | h <;>
            (rw [beq_iff_eq.mp h]; exact tag_infix_ownElement _ _)
        have : isInfix cfg.tag (viaChain (viaLines r.fields)) = true :=
          (isInfix_iff _ _).mpr (hte.trans (mem_elementsOf_infix he))
        rw [hi'] at this
        exact absurd this (by simp)
      unfold holdsSpec
      simp only [hown, hchain, beq_self_eq_true, Bool.false_eq_true, if_false, if_true]
    | refused s w => rw [hp] at hfw; exact absurd hfw (by simp [isForwarded])
    | badRequest => rw [hp] at hfw; exact absurd hfw (by simp [isForwarded])
    | unreadable => rw [hp] at hfw; exact absurd hfw (by simp [isForwarded])
    | routeError => rw [hp] at hfw; exact absurd hfw (by simp [isForwarded])

example : rulesAvoidVia cfgW.rules = true ∧ viaNominated reqSecondLine.fields = false ∧
    (viaLines reqSecondLine.fields).length = 2 ∧ reachesVia cfgW ctxW reqSecondLine = true ∧
    cfgW.upstream ≠ .failed ∧
    holdsSpec cfgW.tag 1 (viaLines reqSecondLine.fields) (.forwarded [bs "1.0 fred, 1.1 x"]) =
      .loopNotRefused ∧
    holdsSpec cfgW.tag 1 (viaLines reqSecondLine.fields) (.refused 400) = .ok := by decide +kernel

/-! ## F. Substring containment vs. element membership -/

/-- The code tests `strings.Contains(via, tag)`.  Under the hypothesis that every element which
    contains the tag IS an element this instance emitted (no other hop's pseudonym or comment embeds
    the full tag — guessing it means guessing 80 random bits), substring containment in a value is
    the same as membership of `1.0 tag` / `1.1 tag` in its element list. -/
theorem c18_substring_iff_element {tag v : Bytes} (ht : TagClean tag)
    (hf : ∀ e ∈ elementsOf v, tag <:+: e → isOwnElement tag e = true) :
    isInfix tag v = true ↔ ∃ e ∈ elementsOf v, isOwnElement tag e = true := by
  constructor
  · intro hi
    obtain ⟨e, he, hte⟩ := infix_element ht.ne ht.noComma ht.noWs ((isInfix_iff _ _).mp hi)
    exact ⟨e, he, hf e he hte⟩
  · rintro ⟨e, he, ho⟩
    apply (isInfix_iff _ _).mpr
    have : tag <:+: e := by
      unfold isOwnElement at ho
      rcases Bool.or_eq_true_iff.mp ho with h | h <;>
        (rw [beq_iff_eq.mp h]; exact tag_infix_ownElement _ _)
    exact this.trans (mem_elementsOf_infix he)

example : TagClean tagW ∧
    (elementsOf (firstVia reqLoop.fields)).all
      (fun e => !isInfix tagW e || isOwnElement tagW e) = true :=
  ⟨TagShape.clean (name := bs "fwd") ((tagShape_iff (bs "fwd") tagW).mp (by decide +kernel))
    (by decide +kernel), by decide +kernel⟩

/-- the hypothesis is needed: a foreign pseudonym that embeds the tag is refused although no
    element of the chain was emitted by this instance -/
theorem c18_embedded_tag_witness :
    (viaElements (viaLines reqEmbedded.fields)).any (isOwnElement cfgW.tag) = false ∧
      isLoopRefusal (processRequest cfgW ctxW reqEmbedded) = true := by decide +kernel

end C18
end FwdVerif
