/-
  C15 — property theorems over the deadline automaton and the accept loop of `Model/C15.lean`
  (only property theorems and non-vacuity examples; helper lemmas and the invariant `WF` are in
  `Lemmas/C15.lean`).  Both defects once recorded for this property are repaired in the tree — F8 (the accept
  loop waited for the PROXY header of every connection) and F32 (no deadline for the first tunnel byte after
  an intercepted CONNECT) — so the clauses they falsified are proved here at full strength, for every
  stacking; the inputs that used to be their witnesses are kept as `example`s of the repaired behaviour.

  Times are milliseconds.  The limits used in the examples are
      L₀ = ⟨idle 400, readHeader 250, read 0 (unset), tls 300, proxyHdr 200⟩.
  Stackings: plain = ⟨proxy false, tls false, mitm false⟩, TLS = ⟨false, true, false⟩,
  MITM = ⟨false, false, true⟩, PROXY = ⟨true, false, false⟩, PROXY+TLS = ⟨true, true, false⟩.
-/
import FwdVerif.Lemmas.C15

namespace FwdVerif
namespace C15

/-! ## A. A connection that makes no progress in a phase is closed at `phaseStart + limit` -/

/-- general form: in a state whose deadline is the one its phase prescribes, whatever stray bytes arrive
    (bytes that do not complete what the phase waits for), the proxy closes the connection exactly `limit`
    after the instant the phase's deadline counts from -/
theorem c15_stall_closed_at_limit (S : Stacking) (L : Limits) (c : Conn) (evs : List (Nat × Ev))
    (hwf : WF L c) (hl : 0 < limitOf L c.phase) (hs : ∀ x ∈ evs, noProgress c.phase x.2 = true) :
    run S L c evs = .closed (c.anchor + limitOf L c.phase) c.phase c.anchor :=
  run_stalled_some (by rw [hwf]; exact dl_pos hl) evs hs

example : run ⟨false, true, false⟩ ⟨400, 250, 0, 300, 200⟩ (accepted ⟨false, true, false⟩ ⟨400, 250, 0, 300, 200⟩ 7)
    [(20, .data), (250, .data)] = .closed 307 .tlsHandshake 7 := by decide

/-- PROXY header: closed `ProxyProtocolConfig.ReadHeaderTimeout` after the connection's goroutine started
    (its first use of the connection), however many bytes of an incomplete header arrive -/
theorem c15_proxy_header_limit (S : Stacking) (L : Limits) (a : Nat) (evs : List (Nat × Ev))
    (hS : S.proxy = true) (hl : 0 < L.proxyHdr) (hs : ∀ x ∈ evs, x.2 = .data) :
    run S L (accepted S L a) evs = .closed (a + L.proxyHdr) .proxyHeader a := by
  have hacc : accepted S L a = enter L .proxyHeader a := by simp [accepted, hS]
  rw [hacc]
  exact c15_stall_closed_at_limit S L _ evs (wf_enter ..) hl (fun x hx => by rw [hs x hx]; rfl)

example : run ⟨true, true, false⟩ ⟨400, 250, 0, 300, 200⟩ (accepted ⟨true, true, false⟩ ⟨400, 250, 0, 300, 200⟩ 0)
    [(5, .data), (150, .data)] = .closed 200 .proxyHeader 0 := by decide

/-- listener TLS handshake: closed `HandshakeTimeout` after the connection's goroutine started, however
    many bytes of an incomplete ClientHello arrive -/
theorem c15_tls_handshake_limit (S : Stacking) (L : Limits) (a : Nat) (evs : List (Nat × Ev))
    (hP : S.proxy = false) (hT : S.tls = true) (hl : 0 < L.tls) (hs : ∀ x ∈ evs, x.2 = .data) :
    run S L (accepted S L a) evs = .closed (a + L.tls) .tlsHandshake a := by
  have hacc : accepted S L a = enter L .tlsHandshake a := by simp [accepted, hP, hT]
  rw [hacc]
  exact c15_stall_closed_at_limit S L _ evs (wf_enter ..) hl (fun x hx => by rw [hs x hx]; rfl)

/-- PROXY + TLS: the handshake limit counts from the instant the PROXY header was complete -/
theorem c15_tls_handshake_limit_after_proxy_header (S : Stacking) (L : Limits) (a h : Nat)
    (evs : List (Nat × Ev)) (hP : S.proxy = true) (hT : S.tls = true) (hl : 0 < L.tls)
    (hh : L.proxyHdr = 0 ∨ max h a < a + L.proxyHdr) (hs : ∀ x ∈ evs, x.2 = .data) :
    run S L (accepted S L a) ((h, .complete) :: evs) = .closed (max h a + L.tls) .tlsHandshake (max h a) := by
  have hacc : accepted S L a = enter L .proxyHeader a := by simp [accepted, hP]
  rw [hacc, run_cons_before]
  · have hn : next S L (enter L .proxyHeader a) (max h (enter L .proxyHeader a).anchor) .complete
        = enter L .tlsHandshake (max h a) := by simp [next, enter, hT]
    rw [hn]
    exact c15_stall_closed_at_limit S L _ evs (wf_enter ..) hl (fun x hx => by rw [hs x hx]; rfl)
  · intro d hd
    have := dl_eq_some (show dl L.proxyHdr a = some d from hd)
    show max h a < d
    omega

example : run ⟨true, true, false⟩ ⟨400, 250, 0, 300, 200⟩ (accepted ⟨true, true, false⟩ ⟨400, 250, 0, 300, 200⟩ 0)
    [(120, .complete), (130, .data)] = .closed 420 .tlsHandshake 120 := by decide

/-- a connection that sends nothing at all (plain listener) is closed `idleTimeout()` after its
    goroutine started: the idle deadline is armed BEFORE the blocking peek -/
theorem c15_idle_limit_before_first_byte (S : Stacking) (L : Limits) (a : Nat)
    (hP : S.proxy = false) (hT : S.tls = false) (hl : 0 < idleLimit L) :
    run S L (accepted S L a) [] = .closed (a + idleLimit L) .idle a := by
  have hacc : accepted S L a = enter L .idle a := by simp [accepted, hP, hT]
  rw [hacc]
  exact c15_stall_closed_at_limit S L _ [] (wf_enter ..) hl (fun _ hx => by cases hx)

/-- between two requests of a kept-alive connection: the response to the previous request was written at
    `t`; with no further byte the connection is closed at `t + idleTimeout()` -/
theorem c15_idle_limit_between_requests (S : Stacking) (L : Limits) (c : Conn) (t : Nat)
    (hp : c.phase = .waitingForOrigin) (hwf : WF L c) (hl : 0 < idleLimit L) :
    run S L c [(t, .complete)] = .closed (max t c.anchor + idleLimit L) .idle (max t c.anchor) := by
  have hd : c.deadline = none := by rw [hwf, hp]; exact dl_zero _
  rw [run_cons_before [] (by intro d h; rw [hd] at h; cases h)]
  have hn : next S L c (max t c.anchor) .complete = enter L .idle (max t c.anchor) := by simp [next, hp]
  rw [hn]
  exact c15_stall_closed_at_limit S L _ [] (wf_enter ..) hl (fun _ hx => by cases hx)

/-- the header limit counts from the FIRST BYTE of the request (at `t`), not from the instant the
    connection became idle (at `s`); bytes of an incomplete head do not extend it -/
theorem c15_header_limit_from_first_byte (S : Stacking) (L : Limits) (s t : Nat) (evs : List (Nat × Ev))
    (hst : s ≤ t) (hidle : idleLimit L = 0 ∨ t < s + idleLimit L) (hl : 0 < headerLimit L)
    (hs : ∀ x ∈ evs, x.2 = .data) :
    run S L (enter L .idle s) ((t, .data) :: evs) = .closed (t + headerLimit L) .header t := by
  have hm : max t (enter L .idle s).anchor = t := Nat.max_eq_left hst
  rw [run_cons_before, hm]
  · have hn : next S L (enter L .idle s) t .data = enter L .header t := rfl
    rw [hn]
    exact c15_stall_closed_at_limit S L _ evs (wf_enter ..) hl (fun x hx => by rw [hs x hx]; rfl)
  · intro d hd
    have := dl_eq_some (show dl (idleLimit L) s = some d from hd)
    rw [hm]; omega

example : run ⟨false, false, false⟩ ⟨400, 250, 0, 300, 200⟩ (enter ⟨400, 250, 0, 300, 200⟩ .idle 0)
    [(390, .data), (500, .data)] = .closed 640 .header 390 := by decide

/-- intercepted CONNECT: the `200` is written when the request head is complete (at `t`); a client that
    then sends nothing is closed at `t + idleTimeout()` — the idle deadline is armed anew before the peek
    for the first tunnel byte -/
theorem c15_mitm_first_tunnel_byte_limit (S : Stacking) (L : Limits) (c : Conn) (t : Nat)
    (hp : c.phase = .header) (hb : ∀ d, c.deadline = some d → max t c.anchor < d) (hl : 0 < idleLimit L) :
    run S L c [(t, .head .connectMitm)] =
      .closed (max t c.anchor + idleLimit L) .mitmPeek (max t c.anchor) := by
  rw [run_cons_before [] hb]
  have hn : next S L c (max t c.anchor) (.head .connectMitm) = enter L .mitmPeek (max t c.anchor) := by
    simp [next, hp, afterHead]
  rw [hn]
  exact c15_stall_closed_at_limit S L _ [] (wf_enter ..) hl (fun _ hx => by cases hx)

/-- the input that used to be the witness of F32 (CONNECT answered with 200 by the intercepting proxy,
    then silence; ReadTimeout unset): closed one idle timeout after the 200 -/
example : run ⟨false, false, true⟩ ⟨400, 250, 0, 300, 200⟩ (accepted ⟨false, false, true⟩ ⟨400, 250, 0, 300, 200⟩ 0)
    [(10, .head .connectMitm)] = .closed 410 .mitmPeek 10 := by decide

/-- MITM handshake: the limit counts from the first tunnel byte after the `200` to CONNECT (the idle
    deadline of the peek is cleared by that byte: `idleTimeout()` does not enter) -/
theorem c15_mitm_handshake_limit (S : Stacking) (L : Limits) (c : Conn) (t : Nat) (evs : List (Nat × Ev))
    (hp : c.phase = .mitmPeek) (hb : ∀ d, c.deadline = some d → max t c.anchor < d) (hl : 0 < L.tls)
    (hs : ∀ x ∈ evs, x.2 = .data) :
    run S L c ((t, .data) :: evs) =
      .closed (max t c.anchor + L.tls) .mitmHandshake (max t c.anchor) := by
  rw [run_cons_before evs hb]
  have hn : next S L c (max t c.anchor) .data = enter L .mitmHandshake (max t c.anchor) := by
    simp [next, hp]
  rw [hn]
  exact c15_stall_closed_at_limit S L _ evs (wf_enter ..) hl (fun x hx => by rw [hs x hx]; rfl)

example : run ⟨false, false, true⟩ ⟨400, 250, 0, 300, 200⟩ (accepted ⟨false, false, true⟩ ⟨400, 250, 0, 300, 200⟩ 0)
    [(10, .head .connectMitm), (350, .data), (500, .data)] = .closed 650 .mitmHandshake 350 := by decide

/-! ## B. … and never before -/

/-- the phases whose deadline counts from the instant the phase is entered -/
def countedFromEntry : Phase → Bool
  | .proxyHeader | .tlsHandshake | .idle | .header | .mitmPeek | .mitmHandshake => true
  | _ => false

/-- whatever the peers do and whenever: if the proxy closes the connection at `t`, stalled in phase `p`
    whose deadline counts from `s`, then `p` has a limit and `t = s + limit` — never earlier -/
theorem c15_closed_only_at_limit (S : Stacking) (L : Limits) (a : Nat) (evs : List (Nat × Ev))
    {t s : Nat} {p : Phase} (h : run S L (accepted S L a) evs = .closed t p s) :
    0 < limitOf L p ∧ t = s + limitOf L p :=
  run_closed_wf evs (wf_accepted S L a) h

example : run ⟨false, false, false⟩ ⟨400, 250, 0, 300, 200⟩ (accepted ⟨false, false, false⟩ ⟨400, 250, 0, 300, 200⟩ 0)
    [(100, .head .noBody), (2000, .complete), (2300, .data)] = .closed 2550 .header 2300 := by decide

/-- the instant a deadline counts from is the instant the phase was entered (PROXY header, handshakes,
    idle, request head, first tunnel byte), and the deadline armed on entry is `entry + limit` -/
theorem c15_deadline_counts_from_phase_entry (S : Stacking) (L : Limits) (c : Conn) (t : Nat) (e : Ev)
    (hne : (next S L c t e).phase ≠ c.phase) (hc : countedFromEntry (next S L c t e).phase = true) :
    (next S L c t e).anchor = t ∧
      (next S L c t e).deadline = dl (limitOf L (next S L c t e).phase) t := by
  obtain ⟨ph, an, de⟩ := c
  cases ph <;> cases e <;> (try rename_i k; cases k) <;>
    simp_all [next, enter, afterHead, countedFromEntry] <;> (split <;> simp_all)

/-! ## C. No limit applies while the origin is slow to answer a fully received request -/

/-- once the request is complete the connection waits for the origin with no deadline, whatever the
    limits (also with ReadTimeout set: nothing reads the client socket during the round trip) -/
theorem c15_received_request_waits_without_deadline (S : Stacking) (L : Limits) (c : Conn) (t : Nat) :
    (c.phase = .header → next S L c t (.head .noBody) = ⟨.waitingForOrigin, c.anchor, none⟩) ∧
    (c.phase = .body → next S L c t .complete = ⟨.waitingForOrigin, c.anchor, none⟩) := by
  constructor <;> intro h <;> simp [next, h, afterHead]

/-- however late the origin answers (any `t`), the connection is still there: it stays open while
    nothing happens, and the answer moves it to the idle phase with a fresh idle deadline -/
theorem c15_no_deadline_while_origin_slow (S : Stacking) (L : Limits) (c : Conn)
    (hp : c.phase = .waitingForOrigin) (hwf : WF L c) :
    run S L c [] = .stays c ∧
    ∀ t rest, run S L c ((t, .complete) :: rest) = run S L (enter L .idle (max t c.anchor)) rest := by
  have hd : c.deadline = none := by rw [hwf, hp]; exact dl_zero _
  refine ⟨run_nil_none hd, fun t rest => ?_⟩
  rw [run_cons_before rest (by intro d h; rw [hd] at h; cases h)]
  simp [next, hp]

/-- end to end on a plain listener: request head without body at `t₁`, answer of the origin at `t₂` —
    arbitrarily late; the first instant the connection can be closed is `t₂ + idleTimeout()` -/
theorem c15_slow_origin_end_to_end (S : Stacking) (L : Limits) (a t₁ t₂ : Nat)
    (hP : S.proxy = false) (hT : S.tls = false) (h1 : a ≤ t₁) (h2 : t₁ ≤ t₂)
    (hi : idleLimit L = 0 ∨ t₁ < a + idleLimit L) (hl : 0 < idleLimit L) :
    run S L (accepted S L a) [(t₁, .head .noBody), (t₂, .complete)] = .closed (t₂ + idleLimit L) .idle t₂ := by
  have hacc : accepted S L a = enter L .idle a := by simp [accepted, hP, hT]
  have hm : max t₁ (enter L .idle a).anchor = t₁ := Nat.max_eq_left h1
  rw [hacc, run_cons_before, hm]
  · have hn : next S L (enter L .idle a) t₁ (.head .noBody) = ⟨.waitingForOrigin, t₁, none⟩ := rfl
    rw [hn]
    have := c15_idle_limit_between_requests S L ⟨.waitingForOrigin, t₁, none⟩ t₂ rfl
      (by simp [WF, limitOf, dl_zero]) hl
    simpa [Nat.max_eq_left h2] using this
  · intro d hd
    have := dl_eq_some (show dl (idleLimit L) a = some d from hd)
    rw [hm]; omega

example : run ⟨false, false, false⟩ ⟨400, 250, 300, 300, 200⟩ (accepted ⟨false, false, false⟩ ⟨400, 250, 300, 300, 200⟩ 0)
    [(10, .head .noBody), (5000, .complete)] = .closed 5400 .idle 5000 := by decide

/-- a request body has no limit unless ReadTimeout is set (the header deadline is cleared) -/
theorem c15_body_unlimited_without_read_timeout (S : Stacking) (L : Limits) (c : Conn) (t : Nat)
    (evs : List (Nat × Ev)) (hp : c.phase = .header) (hr : L.read = 0)
    (hb : ∀ d, c.deadline = some d → max t c.anchor < d) (hs : ∀ x ∈ evs, x.2 = .data) :
    run S L c ((t, .head .withBody) :: evs) = .stays ⟨.body, c.anchor, none⟩ := by
  rw [run_cons_before evs hb]
  have hn : next S L c (max t c.anchor) (.head .withBody) = ⟨.body, c.anchor, none⟩ := by
    simp [next, hp, afterHead, hr, dl_zero]
  rw [hn]
  exact run_stalled_none rfl evs (fun x hx => by rw [hs x hx]; rfl)

/-! ## D. Every phase in which the proxy waits for the client has a limit -/

/-- the four limits the property names are configured -/
def allSet (L : Limits) : Prop := 0 < L.idle ∧ 0 < L.readHeader ∧ 0 < L.tls ∧ 0 < L.proxyHdr

instance (L : Limits) : Decidable (allSet L) := by unfold allSet; exact inferInstance

/-- phases in which the proxy waits for bytes of the client outside a request body -/
def clientWait : Phase → Bool
  | .waitingForOrigin | .body => false
  | _ => true

/-- full clause (F32 repaired): with the four limits configured every phase in which the proxy waits for
    the client — the wait for the first tunnel byte after an intercepted CONNECT included — has a limit -/
theorem c15_every_client_wait_limited (L : Limits) (h : allSet L) (p : Phase)
    (hp : clientWait p = true) : 0 < limitOf L p := by
  obtain ⟨h1, h2, h3, h4⟩ := h
  cases p <;> simp_all [limitOf, idleLimit, headerLimit, clientWait]

example : allSet ⟨400, 250, 0, 300, 200⟩ ∧ clientWait .mitmPeek = true := by decide

/-- … hence, with the four limits configured, a connection that is still open when its peers have
    fallen silent is waiting for the origin or inside a request body — never for the client in any
    other phase -/
theorem c15_open_only_while_origin_or_body (S : Stacking) (L : Limits) (h : allSet L) (a : Nat)
    (evs : List (Nat × Ev)) {c : Conn} (hr : run S L (accepted S L a) evs = .stays c) :
    c.phase = .waitingForOrigin ∨ c.phase = .body := by
  obtain ⟨hwf, hd⟩ := run_stays_wf evs (wf_accepted S L a) hr
  have hz : limitOf L c.phase = 0 := dl_eq_none (hwf ▸ hd)
  cases hc : clientWait c.phase with
  | true => have := c15_every_client_wait_limited L h c.phase hc; omega
  | false => cases hph : c.phase <;> simp_all [clientWait]

example : run ⟨false, false, false⟩ ⟨400, 250, 0, 300, 200⟩ (accepted ⟨false, false, false⟩ ⟨400, 250, 0, 300, 200⟩ 0)
    [(10, .head .withBody), (20, .data)] = .stays ⟨.body, 10, none⟩ := by decide

/-! ## E. Stalled peers cannot delay other clients: the accept loop -/

/-- two populations of peers that connect at the same instants (and differ only in what they send) -/
def sameArrivals (ps qs : List Peer) : Prop := ps.map (·.arrive) = qs.map (·.arrive)

instance (ps qs : List Peer) : Decidable (sameArrivals ps qs) := by unfold sameArrivals; exact inferInstance

/-- full clause (F8 repaired), every stacking — PROXY and PROXY+TLS included: the service start of every
    connection is a function of the arrival instants alone; no stall state of any peer enters.  (In
    particular the service start of connection `k` does not depend on what the connections ≠ `k` do.) -/
theorem c15_service_start_independent (S : Stacking) (L : Limits) (free : Nat) (ps qs : List Peer)
    (h : sameArrivals ps qs) : starts S L free ps = starts S L free qs := by
  rw [starts_eq, starts_eq, h]

example : sameArrivals [⟨0, []⟩, ⟨3, [(9, .data)]⟩] [⟨0, [(1, .complete)]⟩, ⟨3, []⟩] := by decide

/-- the input that used to be the witness of F8 (PROXY listener, header timeout 200 ms; two peers connect
    and send nothing, a third connects at the same instant and sends its complete header at once): the
    third is served at 0, exactly as behind two well-behaved peers -/
example :
    starts ⟨true, false, false⟩ ⟨400, 250, 0, 300, 200⟩ 0 [⟨0, []⟩, ⟨0, []⟩, ⟨0, [(0, .complete)]⟩] = [0, 0, 0] ∧
    starts ⟨true, false, false⟩ ⟨400, 250, 0, 300, 200⟩ 0
      [⟨0, [(0, .complete)]⟩, ⟨0, [(0, .complete)]⟩, ⟨0, [(0, .complete)]⟩] = [0, 0, 0] := by decide

/-- neither the stacking nor the limits enter the accept loop: a PROXY-protocol (or PROXY+TLS) listener
    hands its connections to their goroutines at the very instants a plain listener does -/
theorem c15_service_start_same_for_every_stacking (S S' : Stacking) (L L' : Limits) (free : Nat)
    (ps : List Peer) : starts S L free ps = starts S' L' free ps := by
  rw [starts_eq, starts_eq]

example : starts ⟨true, true, false⟩ ⟨400, 250, 0, 300, 0⟩ 0 [⟨0, []⟩, ⟨7, [(9, .complete)]⟩]
    = starts ⟨false, false, false⟩ ⟨400, 250, 0, 300, 200⟩ 0 [⟨0, []⟩, ⟨7, [(9, .complete)]⟩] := by decide

/-- … and it is the arrival instant itself: every client is handed to its goroutine the moment it
    connects (connections arrive in queue order, the loop is free before the first arrives) -/
theorem c15_service_start_is_arrival (S : Stacking) (L : Limits) (free : Nat)
    (ps : List Peer) (hsorted : List.Pairwise (· ≤ ·) (free :: ps.map (·.arrive))) :
    starts S L free ps = ps.map fun p => p.arrive := by
  rw [starts_eq, runningMax_sorted free _ hsorted]

example : starts ⟨true, true, false⟩ ⟨400, 250, 0, 300, 200⟩ 0 [⟨0, []⟩, ⟨0, []⟩, ⟨5, [(5, .complete)]⟩]
    = [0, 0, 5] := by decide

/-- a client is never handed to its goroutine before it connected -/
theorem c15_service_start_not_before_arrival (S : Stacking) (L : Limits) (free : Nat) (ps : List Peer)
    (k : Nat) {p : Peer} {s : Nat} (hp : ps[k]? = some p) (hs : (starts S L free ps)[k]? = some s) :
    p.arrive ≤ s := by
  rw [starts_eq] at hs
  exact (runningMax_ge free (ps.map (·.arrive)) k (by simp [hp]) hs).1

/-- however many peers are queued before a client and whatever they do — stall in their PROXY header, in
    a handshake, anywhere — the client is handed to its goroutine the moment it connects (the peers
    before it connected no later, the loop was free by then) -/
theorem c15_stalled_peers_do_not_delay (S : Stacking) (L : Limits) (pre : List Peer) (q : Peer) (f : Nat)
    (hf : f ≤ q.arrive) (hpre : ∀ p ∈ pre, p.arrive ≤ q.arrive) :
    (starts S L f (pre ++ [q]))[pre.length]? = some q.arrive := by
  rw [starts_eq, List.map_append, List.map_cons, List.map_nil]
  have := runningMax_append_last f (pre.map (·.arrive)) q.arrive hf
    (by intro a ha; obtain ⟨p, hp, rfl⟩ := List.mem_map.mp ha; exact hpre p hp)
  simpa using this

example : (starts ⟨true, true, false⟩ ⟨400, 250, 0, 300, 200⟩ 0
    ([⟨0, []⟩, ⟨1, [(3, .data)]⟩, ⟨2, [(2, .complete), (4, .data)]⟩] ++ [⟨2, [(2, .complete)]⟩]))[3]? = some 2 := by
  decide

/-- the whole fate of connection `k` (when, and in which phase, it is closed) is independent of what the
    other connections do — for every stacking -/
theorem c15_outcome_independent (S : Stacking) (L : Limits) (free : Nat)
    (ps qs : List Peer) (k : Nat) (h : sameArrivals ps qs) (hk : ps[k]? = qs[k]?) :
    outcomeOf S L free ps k = outcomeOf S L free qs k := by
  unfold outcomeOf
  rw [serve_eq, serve_eq, h, hk]

example : outcomeOf ⟨true, true, false⟩ ⟨400, 250, 0, 300, 200⟩ 0 [⟨0, []⟩, ⟨0, [(5, .data)]⟩, ⟨0, [(0, .complete)]⟩] 2
    = some (.closed 300 .tlsHandshake 0) ∧
    outcomeOf ⟨true, true, false⟩ ⟨400, 250, 0, 300, 200⟩ 0
      [⟨0, [(0, .complete)]⟩, ⟨0, [(0, .complete), (1, .complete)]⟩, ⟨0, [(0, .complete)]⟩] 2
    = some (.closed 300 .tlsHandshake 0) := by decide

/-- PROXY-protocol listener: every peer that never completes its header is closed one header timeout
    after it connected — however many such peers there are, each on its own clock (connections arrive in
    queue order, the loop is free before the first arrives) -/
theorem c15_proxy_stalled_peers_closed_on_time (S : Stacking) (L : Limits) (hS : S.proxy = true)
    (hT : 0 < L.proxyHdr) (free : Nat) (ps : List Peer)
    (hsorted : List.Pairwise (· ≤ ·) (free :: ps.map (·.arrive)))
    (k : Nat) (p : Peer) (hk : ps[k]? = some p) (hst : ∀ x ∈ p.script, x.2 = .data) :
    outcomeOf S L free ps k = some (.closed (p.arrive + L.proxyHdr) .proxyHeader p.arrive) := by
  unfold outcomeOf
  rw [serve_eq, runningMax_sorted free _ hsorted]
  simp only [List.map_map, List.getElem?_map, hk, Option.map_some, Function.comp_def]
  rw [c15_proxy_header_limit S L p.arrive p.script hS hT hst]

/-- the input that used to show the stalled peers closed one after the other (at 200, 400, 600): each is
    closed 200 ms after it connected -/
example :
    (List.range 3).map (outcomeOf ⟨true, false, false⟩ ⟨400, 250, 0, 300, 200⟩ 0
        [⟨0, []⟩, ⟨0, [(20, .data)]⟩, ⟨0, []⟩]) =
      [some (.closed 200 .proxyHeader 0), some (.closed 200 .proxyHeader 0),
       some (.closed 200 .proxyHeader 0)] := by decide

/-- with the PROXY header timeout switched off a silent peer keeps its own connection open for ever —
    and the listener goes on accepting -/
example :
    starts ⟨true, false, false⟩ ⟨400, 250, 0, 300, 0⟩ 0 [⟨0, []⟩, ⟨0, [(0, .complete)]⟩] = [0, 0] ∧
    outcomeOf ⟨true, false, false⟩ ⟨400, 250, 0, 300, 0⟩ 0 [⟨0, []⟩, ⟨0, [(0, .complete)]⟩] 0
      = some (.stays ⟨.proxyHeader, 0, none⟩) ∧
    outcomeOf ⟨true, false, false⟩ ⟨400, 250, 0, 300, 0⟩ 0 [⟨0, []⟩, ⟨0, [(0, .complete)]⟩] 1
      = some (.closed 400 .idle 0) := by decide

end C15
end FwdVerif
